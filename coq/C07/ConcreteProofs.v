(* C07 (4) -- lemmas about the flattened view of a concrete schema. *)
From Coq Require Import Permutation.
From SV Require Import Lib.Base Fam.Schema C01.Marshal C07.Concrete.

(* ---------------- lookups do not depend on the order of declarations ---------------- *)

Definition pkey (p : placed) : dkind * qn := (decl_kind (p_decl p), (p_ns p, decl_name (p_decl p))).

Definition matches (k : dkind) (q : qn) (p : placed) : bool :=
  dkind_eqb (decl_kind (p_decl p)) k && qn_eqb (p_ns p, decl_name (p_decl p)) q.

Lemma dkind_eqb_eq a b : dkind_eqb a b = true <-> a = b.
Proof. destruct a, b; cbn; split; congruence. Qed.

Lemma qn_eqb_eq (a b : qn) : qn_eqb a b = true <-> a = b.
Proof.
  destruct a as [a1 a2], b as [b1 b2]. unfold qn_eqb. cbn.
  rewrite andb_true_iff, !N.eqb_eq. split; [intros [-> ->]; reflexivity|intros [= -> ->]; auto].
Qed.

Lemma matches_key k q p : matches k q p = true <-> pkey p = (k, q).
Proof.
  unfold matches, pkey. rewrite andb_true_iff, dkind_eqb_eq, qn_eqb_eq.
  split; [intros [-> ->]; reflexivity|intros [= -> ->]; auto].
Qed.

Lemma lookup_decl_cons k q p l :
  lookup_decl k q (p :: l) =
  match lookup_decl k q l with Some r => Some r | None => if matches k q p then Some p else None end.
Proof. reflexivity. Qed.

Lemma lookup_none k q l : lookup_decl k q l = None <-> forall p, In p l -> matches k q p = false.
Proof.
  induction l as [|x l IH]; [cbn; split; [intros _ p []|reflexivity]|].
  rewrite lookup_decl_cons. destruct (lookup_decl k q l) as [r|] eqn:E.
  - split; [discriminate|]. intro H. exfalso.
    assert (Hn : Some r = None) by (apply IH; intros p Hp; apply H; right; exact Hp).
    discriminate.
  - destruct (matches k q x) eqn:Em.
    + split; [discriminate|]. intro H. rewrite (H x (or_introl eq_refl)) in Em. discriminate.
    + split; [|reflexivity]. intros _ p [<-|Hp]; [exact Em|]. apply (proj1 IH eq_refl). exact Hp.
Qed.

Lemma lookup_some_in k q l r : lookup_decl k q l = Some r -> In r l /\ matches k q r = true.
Proof.
  induction l as [|x l IH]; [discriminate|]. rewrite lookup_decl_cons.
  destruct (lookup_decl k q l) as [r'|] eqn:E.
  - intros [= <-]. destruct (IH eq_refl) as [A B]. split; [right; exact A|exact B].
  - destruct (matches k q x) eqn:Em; [|discriminate]. intros [= <-]. split; [left; reflexivity|exact Em].
Qed.

(* with unique (kind, qname) keys the entry found is THE entry with that key *)
Lemma lookup_unique k q l r :
  NoDup (map pkey l) -> In r l -> matches k q r = true -> lookup_decl k q l = Some r.
Proof.
  induction l as [|x l IH]; [intros _ []|]. intros ND Hin Hm. cbn [map] in ND. inversion ND as [|? ? Hn ND']; subst.
  rewrite lookup_decl_cons. destruct Hin as [->|Hin].
  - assert (E : lookup_decl k q l = None).
    { apply lookup_none. intros p Hp. destruct (matches k q p) eqn:Em; [|reflexivity].
      exfalso. apply Hn. apply matches_key in Em, Hm. rewrite Hm, <- Em. apply in_map. exact Hp. }
    rewrite E, Hm. reflexivity.
  - rewrite (IH ND' Hin Hm). reflexivity.
Qed.

Lemma tables_order_independent_l : forall l l' k q,
  Permutation l l' -> NoDup (map pkey l) -> lookup_decl k q l = lookup_decl k q l'.
Proof.
  intros l l' k q HP ND.
  assert (ND' : NoDup (map pkey l')).
  { eapply Permutation_NoDup; [apply Permutation_map; exact HP|exact ND]. }
  destruct (lookup_decl k q l) as [r|] eqn:E.
  - destruct (lookup_some_in _ _ _ _ E) as [Hin Hm]. symmetry.
    apply lookup_unique; auto. eapply Permutation_in; eauto.
  - symmetry. apply lookup_none. intros p Hp.
    apply (proj1 (lookup_none k q l) E). eapply Permutation_in; [apply Permutation_sym; exact HP|exact Hp].
Qed.

(* induction principle for the nested particle type *)
Section CInd.
  Variable P : cpart -> Prop.
  Hypothesis HEl : forall nm ty o m n d f, P (CEl nm ty o m n d f).
  Hypothesis HRef : forall q o m, P (CRef q o m).
  Hypothesis HAny : P CAnyP.
  Hypothesis HGrp : forall q o, P (CGrp q o).
  Hypothesis HCont : forall k o kids, Forall P kids -> P (CCont k o kids).
  Fixpoint cpart_ind' (p : cpart) : P p :=
    match p with
    | CEl nm ty o m n d f => HEl nm ty o m n d f
    | CRef q o m => HRef q o m
    | CAnyP => HAny
    | CGrp q o => HGrp q o
    | CCont k o kids =>
        HCont k o kids ((fix go (l : list cpart) : Forall P l :=
                           match l with
                           | [] => Forall_nil P
                           | x :: l' => Forall_cons x (cpart_ind' x) (go l')
                           end) kids)
    end.
End CInd.

(* one unfolding of flat_cp at S f, per constructor *)
Lemma flat_cp_el T f ns efd anc ch nm ty o m n d fm :
  flat_cp T (S f) ns efd anc ch (CEl nm ty o m n d fm) =
  Some [FE (mkE nm ns (local_qual efd fm) ty o m n d) anc ch].
Proof. reflexivity. Qed.

Lemma flat_cp_ref T f ns efd anc ch q o m :
  flat_cp T (S f) ns efd anc ch (CRef q o m) =
  match lookup_decl KElem q T with
  | Some pl => match p_decl pl with
               | DElem nm ty nl dflt => Some [FE (mkE nm (p_ns pl) true ty o m nl dflt) anc ch]
               | _ => None
               end
  | None => None
  end.
Proof. reflexivity. Qed.

Lemma flat_cp_grp T f ns efd anc ch q o :
  flat_cp T (S f) ns efd anc ch (CGrp q o) =
  match lookup_decl KGroup q T with
  | Some pl => match p_decl pl with
               | DGroup _ body => flat_cp T f (p_ns pl) (p_efd pl) (anc || o) ch body
               | _ => None
               end
  | None => None
  end.
Proof. reflexivity. Qed.

Fixpoint flat_kids (T : list placed) (fuel : nat) (ns : nsid) (efd anc ch : bool) (l : list cpart)
  : option (list fchild) :=
  match l with
  | [] => Some []
  | x :: l' => match flat_cp T fuel ns efd anc ch x, flat_kids T fuel ns efd anc ch l' with
               | Some a, Some b => Some (a ++ b)
               | _, _ => None
               end
  end.

Lemma flat_cp_cont T f ns efd anc ch k o kids :
  flat_cp T (S f) ns efd anc ch (CCont k o kids) =
  flat_kids T (S f) ns efd (anc || o) (ch || is_choice k) kids.
Proof.
  cbn [flat_cp]. induction kids as [|x kids IH]; [reflexivity|].
  cbn [flat_kids]. rewrite <- IH. reflexivity.
Qed.

(* the flattened views only use the tables through lookup_decl *)
Lemma flat_cp_ext T T' : (forall k q, lookup_decl k q T = lookup_decl k q T') ->
  forall f ns efd anc ch p, flat_cp T f ns efd anc ch p = flat_cp T' f ns efd anc ch p.
Proof.
  intro H. induction f as [|f IHf]; intros ns efd anc ch p; [reflexivity|].
  revert ns efd anc ch. induction p as [nm ty o m n d fm|q o m| |q o|k o kids IHk] using cpart_ind';
    intros ns efd anc ch.
  - rewrite !flat_cp_el. reflexivity.
  - rewrite !flat_cp_ref, H. reflexivity.
  - reflexivity.
  - rewrite !flat_cp_grp, H. destruct (lookup_decl KGroup q T') as [pl|]; [|reflexivity].
    destruct (p_decl pl); try reflexivity. apply IHf.
  - rewrite !flat_cp_cont. generalize (anc || o) (ch || is_choice k). intros a c.
    induction IHk as [|x kids Hx _ IHl]; [reflexivity|].
    cbn [flat_kids]. rewrite Hx, IHl. reflexivity.
Qed.

Lemma flat_cps_ext T T' : (forall k q, lookup_decl k q T = lookup_decl k q T') ->
  forall f ns efd ps, flat_cps T f ns efd ps = flat_cps T' f ns efd ps.
Proof.
  intros H f ns efd ps. induction ps as [|p ps IH]; [reflexivity|].
  cbn [flat_cps]. rewrite (flat_cp_ext T T' H), IH. reflexivity.
Qed.

Lemma flat_attrs_c_ext T T' : (forall k q, lookup_decl k q T = lookup_decl k q T') ->
  forall f l, flat_attrs_c T f l = flat_attrs_c T' f l.
Proof.
  intro H. induction f as [|f IHf]; intro l; [reflexivity|].
  induction l as [|[a|q] l IH]; [reflexivity| |].
  - cbn [flat_attrs_c] in *. rewrite IH. reflexivity.
  - cbn [flat_attrs_c] in *. rewrite H.
    destruct (lookup_decl KAGroup q T') as [pl|]; [|reflexivity].
    destruct (p_decl pl); try reflexivity. rewrite IHf, IH. reflexivity.
Qed.

Lemma flat_type_ext T T' : (forall k q, lookup_decl k q T = lookup_decl k q T') ->
  forall f g q, flat_type T f g q = flat_type T' f g q.
Proof.
  intro H. induction f as [|f IHf]; intros g q; [reflexivity|].
  cbn [flat_type]. rewrite H. destruct (lookup_decl KType q T') as [pl|]; [|reflexivity].
  destruct (p_decl pl); try reflexivity.
  rewrite (flat_cps_ext T T' H), (flat_attrs_c_ext T T' H).
  destruct (flat_cps T' g (p_ns pl) (p_efd pl) content); [|reflexivity].
  destruct (flat_attrs_c T' g attrs); [|reflexivity].
  destruct base; [|reflexivity]. rewrite IHf. reflexivity.
Qed.

(* Declarations may be written in any order (and therefore moved between blocks
   that agree on elementFormDefault and first-block status): with unique names,
   every type flattens to the same view. *)
Lemma declaration_order_independent_l : forall T T' f g q,
  Permutation T T' -> NoDup (map pkey T) -> flat_type T f g q = flat_type T' f g q.
Proof.
  intros T T' f g q HP ND. apply flat_type_ext. intros k q'.
  apply tables_order_independent_l; assumption.
Qed.

(* ---------------- the rewritings of a rendering, one step each ---------------- *)

(* a model group written in place, or factored into a named group and referenced
   (the reference carries the occurrence) *)
Lemma group_factoring_invariant_l : forall T f ns efd anc ch k opt kids q pl gname,
  lookup_decl KGroup q T = Some pl -> p_decl pl = DGroup gname (CCont k false kids) ->
  p_ns pl = ns -> p_efd pl = efd ->
  flat_cp T (S (S f)) ns efd anc ch (CGrp q opt) = flat_cp T (S f) ns efd anc ch (CCont k opt kids).
Proof.
  intros T f ns efd anc ch k opt kids q pl gname Hl Hd <- <-.
  rewrite flat_cp_grp, Hl, Hd, !flat_cp_cont, orb_false_r. reflexivity.
Qed.

(* an element declared in place (qualified, in the schema's namespace), or declared
   globally and referenced (the reference carries the occurrence) *)
Lemma ref_vs_inline_invariant_l : forall T f ns efd anc ch q pl nm ty nl dflt opt multi form,
  lookup_decl KElem q T = Some pl -> p_decl pl = DElem nm ty nl dflt ->
  p_ns pl = ns -> local_qual efd form = true ->
  flat_cp T (S f) ns efd anc ch (CRef q opt multi) =
  flat_cp T (S f) ns efd anc ch (CEl nm ty opt multi nl dflt form).
Proof.
  intros T f ns efd anc ch q pl nm ty nl dflt opt multi form Hl Hd <- Hq.
  rewrite flat_cp_ref, flat_cp_el, Hl, Hd, Hq. reflexivity.
Qed.

(* attributes written in place, or factored into an attribute group *)
Lemma attribute_group_factoring_invariant_l : forall T f q pl gname attrs r,
  lookup_decl KAGroup q T = Some pl -> p_decl pl = DAGroup gname attrs ->
  flat_attrs_c T (S f) attrs = Some r ->
  flat_attrs_c T (S (S f)) [CAGrp q] = Some r.
Proof.
  intros T f q pl gname attrs r Hl Hd Hr.
  cbn [flat_attrs_c] in *. rewrite Hl, Hd. cbn [flat_attrs_c]. rewrite Hr, app_nil_r. reflexivity.
Qed.

(* Extension.merge: the base's children come first *)
Lemma extension_prepends_base_l : forall T f g q pl nm b content attrs own oa be ba,
  lookup_decl KType q T = Some pl -> p_decl pl = DType nm (Some b) content attrs ->
  flat_cps T g (p_ns pl) (p_efd pl) content = Some own -> flat_attrs_c T g attrs = Some oa ->
  flat_type T f g b = Some (be, ba) ->
  flat_type T (S f) g q = Some (be ++ own, ba ++ oa).
Proof.
  intros T f g q pl nm b content attrs own oa be ba Hl Hd Hc Ha Hb.
  cbn [flat_type]. rewrite Hl, Hd, Hc, Ha, Hb. reflexivity.
Qed.

(* ---------------- the two quirks kept in the model ---------------- *)

(* guarded form: a global element written in the first block of its namespace,
   or in a namespace whose elementFormDefault is qualified, is qualified *)
Lemma global_element_qualified_partial_l : forall T q pl nm ty nl dflt,
  lookup_decl KElem q T = Some pl -> p_decl pl = DElem nm ty nl dflt ->
  (p_first pl || p_efd pl) = true ->
  global_elem_view T q = Some (p_ns pl, true, ty, nl).
Proof.
  intros T q pl nm ty nl dflt Hl Hd Hg. unfold global_elem_view. rewrite Hl, Hd, Hg. reflexivity.
Qed.

(* unguarded it is false: element 7 of namespace 1, written in the second block of
   an unqualified namespace, is seen as unqualified *)
Definition split_counterexample : cschema :=
  [mkBlock 1 false [DType 5 None [] []]; mkBlock 1 false [DElem 7 TBuiltin false None]]%N.

Lemma global_element_later_block_refuted_l :
  exists C q, (exists ns nm ty nl dflt efd pre post,
                  C = pre ++ mkBlock ns efd [DElem nm ty nl dflt] :: post /\ q = (ns, nm)) /\
              global_elem_view (placed_all C) q = Some (fst q, false, TBuiltin, false).
Proof.
  exists split_counterexample, (1, 7)%N. split.
  - exists 1%N, 7%N, TBuiltin, false, None, false, [mkBlock 1 false [DType 5 None [] []]]%N, [].
    split; reflexivity.
  - reflexivity.
Qed.

(* guarded form: a local element is qualified per its form=, else per the
   elementFormDefault of the FIRST block of its namespace (p_efd); so wherever the
   block it is written in agrees with the first block, the XSD rule holds *)
Lemma local_form_partial_l : forall T f ns efd anc ch nm ty o m n d fm,
  flat_cp T (S f) ns efd anc ch (CEl nm ty o m n d fm) =
  Some [FE (mkE nm ns (match fm with Some b => b | None => efd end) ty o m n d) anc ch].
Proof. reflexivity. Qed.

(* two blocks of one namespace, qualified then unqualified: local element 8 of type 5
   is written in the unqualified block without form=, and comes out qualified *)
Definition efd_counterexample : cschema :=
  [mkBlock 1 true [DElem 7 TBuiltin false None];
   mkBlock 1 false [DType 5 None [CCont KSeq false [CEl 8 TBuiltin false false false None None]] []]]%N.

Lemma mixed_element_form_default_refuted_l :
  type_view efd_counterexample (1, 5)%N =
  Some ([FE (mkE 8 1 true TBuiltin false false false None) false false], [])%N.
Proof. reflexivity. Qed.

(* ---------------- Schema.merge: per symbol space, first definition wins ---------------- *)

Lemma lookup_decl_app k q a b :
  lookup_decl k q (a ++ b) =
  match lookup_decl k q b with Some r => Some r | None => lookup_decl k q a end.
Proof.
  induction a as [|x a IH]; cbn [app].
  - destruct (lookup_decl k q b); reflexivity.
  - rewrite !lookup_decl_cons, IH. destruct (lookup_decl k q b); reflexivity.
Qed.

(* filtering keeps a lookup intact when everything that matches the key is kept *)
Lemma lookup_decl_filter k q (f : placed -> bool) l :
  (forall p, In p l -> matches k q p = true -> f p = true) ->
  lookup_decl k q (filter f l) = lookup_decl k q l.
Proof.
  induction l as [|x l IH]; intro H; [reflexivity|].
  assert (Hl : forall p, In p l -> matches k q p = true -> f p = true) by (intros p Hp; apply H; right; exact Hp).
  cbn [filter]. destruct (f x) eqn:Ef.
  - rewrite !lookup_decl_cons, (IH Hl). reflexivity.
  - rewrite lookup_decl_cons, (IH Hl). destruct (lookup_decl k q l); [reflexivity|].
    destruct (matches k q x) eqn:Em; [|reflexivity].
    rewrite (H x (or_introl eq_refl) Em) in Ef. discriminate.
Qed.

(* ... and yields nothing when nothing that matches is kept *)
Lemma lookup_decl_filter_none k q (f : placed -> bool) l :
  (forall p, In p l -> matches k q p = true -> f p = false) ->
  lookup_decl k q (filter f l) = None.
Proof.
  intro H. apply lookup_none. intros p Hp. apply filter_In in Hp as [Hin Hf].
  destruct (matches k q p) eqn:Em; [|reflexivity]. rewrite (H p Hin Em) in Hf. discriminate.
Qed.

Lemma schema_merge_is_union_l : forall self other k q,
  lookup_decl k q (merge_schema self other) =
  match lookup_decl k q self with Some r => Some r | None => lookup_decl k q other end.
Proof.
  intros self other k q. unfold merge_schema. rewrite lookup_decl_app.
  destruct (lookup_decl k q self) as [r|] eqn:Es.
  - rewrite lookup_decl_filter_none; [reflexivity|].
    intros p _ Hm. apply matches_key in Hm. unfold pkey in Hm. inversion Hm; subst.
    unfold present. rewrite Es. reflexivity.
  - rewrite lookup_decl_filter; [destruct (lookup_decl k q other); reflexivity|].
    intros p _ Hm. apply matches_key in Hm. unfold pkey in Hm. inversion Hm; subst.
    unfold present. rewrite Es. reflexivity.
Qed.

(* symbol spaces are separate: whatever self holds under the same name in OTHER
   tables (an element Item next to an incoming type Item) does not keep the entry out *)
Lemma merge_symbol_spaces_separate_l : forall self other k q,
  lookup_decl k q self = None ->
  lookup_decl k q (merge_schema self other) = lookup_decl k q other.
Proof. intros. rewrite schema_merge_is_union_l, H. reflexivity. Qed.

(* the copy/paste slip (testing the ELEMENT table when taking over TYPES) loses the
   type Item when self already has an element Item *)
Definition merge_schema_wrong_table (self other : list placed) : list placed :=
  self ++ filter (fun p => negb (present (match decl_kind (p_decl p) with KType => KElem | k => k end)
                                         (p_ns p, decl_name (p_decl p)) self)) other.

Lemma merge_wrong_table_refuted_l :
  exists self other q,
    lookup_decl KType q (merge_schema self other) <> None /\
    lookup_decl KType q (merge_schema_wrong_table self other) = None.
Proof.
  exists [mkPl 2 true true true (DElem 7 (TNamed 2 7) false None)]%N,
         [mkPl 2 true true true (DType 7 None [] [])]%N, (2, 7)%N.
  split; [discriminate|reflexivity].
Qed.

Fixpoint first_some {A} (l : list (option A)) : option A :=
  match l with
  | [] => None
  | Some x :: _ => Some x
  | None :: l' => first_some l'
  end.

Lemma merge_all_lookup k q : forall l acc,
  lookup_decl k q (merge_all l acc) =
  match lookup_decl k q acc with
  | Some r => Some r
  | None => first_some (map (lookup_decl k q) l)
  end.
Proof.
  induction l as [|x l IH]; intro acc; cbn [merge_all fold_left map first_some].
  - destruct (lookup_decl k q acc); reflexivity.
  - fold (merge_all l (merge_schema acc x)). rewrite IH, schema_merge_is_union_l.
    destruct (lookup_decl k q acc); [reflexivity|]. destruct (lookup_decl k q x); reflexivity.
Qed.

Lemma matches_ns k q p : matches k q p = true -> p_ns p = fst q.
Proof. intro H. apply matches_key in H. unfold pkey in H. inversion H. reflexivity. Qed.

Lemma lookup_of_ns k q m T :
  lookup_decl k q (of_ns m T) = if N.eqb m (fst q) then lookup_decl k q T else None.
Proof.
  unfold of_ns. destruct (N.eqb m (fst q)) eqn:E.
  - apply N.eqb_eq in E. subst m. apply lookup_decl_filter.
    intros p _ Hm. rewrite (matches_ns _ _ _ Hm). apply N.eqb_refl.
  - apply lookup_decl_filter_none. intros p _ Hm. rewrite (matches_ns _ _ _ Hm).
    rewrite N.eqb_sym. exact E.
Qed.

Lemma ns_order_complete : forall T seen p,
  In p T -> existsb (N.eqb (p_ns p)) seen = true \/ In (p_ns p) (ns_order seen T).
Proof.
  induction T as [|x T IH]; intros seen p Hin; [destruct Hin|].
  cbn [ns_order]. destruct Hin as [->|Hin].
  - destruct (existsb (N.eqb (p_ns p)) seen) eqn:E; [left; reflexivity|right; left; reflexivity].
  - destruct (existsb (N.eqb (p_ns x)) seen) eqn:E.
    + apply IH. exact Hin.
    + destruct (IH (p_ns x :: seen) p Hin) as [H|H].
      * cbn [existsb] in H. apply orb_true_iff in H as [H|H].
        -- apply N.eqb_eq in H. right. left. symmetry. exact H.
        -- left. exact H.
      * right. right. exact H.
Qed.

Lemma first_some_of_ns k q T : forall l,
  first_some (map (lookup_decl k q) (map (fun m => of_ns m T) l)) =
  if existsb (N.eqb (fst q)) l then lookup_decl k q T else None.
Proof.
  induction l as [|m l IH]; [reflexivity|].
  cbn [map first_some existsb]. rewrite lookup_of_ns, IH. rewrite (N.eqb_sym (fst q) m).
  destruct (N.eqb m (fst q)); cbn [orb].
  - destruct (lookup_decl k q T); [reflexivity|]. destruct (existsb (N.eqb (fst q)) l); reflexivity.
  - reflexivity.
Qed.

(* SchemaCollection.merge: the merged schema's tables are exactly the declarations
   of all namespaces, each in the table of its own symbol space *)
Lemma merged_tables_are_the_declarations_l : forall C k q,
  lookup_decl k q (merged_schema C) = lookup_decl k q (placed_all C).
Proof.
  intros C k q. unfold merged_schema. set (T := placed_all C).
  assert (Hc : forall p, In p T -> In (p_ns p) (ns_order [] T)).
  { intros p Hp. destruct (ns_order_complete T [] p Hp) as [H|H]; [discriminate|exact H]. }
  assert (Hnone : ~ In (fst q) (ns_order [] T) -> lookup_decl k q T = None).
  { intro Hn. apply lookup_none. intros p Hp. destruct (matches k q p) eqn:Em; [|reflexivity].
    exfalso. apply Hn. rewrite <- (matches_ns _ _ _ Em). apply Hc. exact Hp. }
  destruct (ns_order [] T) as [|n rest] eqn:En.
  - symmetry. apply Hnone. intros [].
  - rewrite merge_all_lookup, lookup_of_ns, first_some_of_ns.
    destruct (N.eqb n (fst q)) eqn:E1.
    + destruct (lookup_decl k q T); [reflexivity|]. destruct (existsb (N.eqb (fst q)) rest); reflexivity.
    + destruct (existsb (N.eqb (fst q)) rest) eqn:E2; [reflexivity|].
      symmetry. apply Hnone. intros [H|H].
      * subst n. rewrite N.eqb_refl in E1. discriminate.
      * assert (existsb (N.eqb (fst q)) rest = true); [|congruence].
        apply existsb_exists. exists (fst q). split; [exact H|apply N.eqb_refl].
Qed.

(* ---------------- nothing is skipped by the merge ---------------- *)

Lemma merge_skips_no_schema_l : forall C p,
  NoDup (map pkey (placed_all C)) -> In p (placed_all C) ->
  lookup_decl (decl_kind (p_decl p)) (p_ns p, decl_name (p_decl p)) (merged_schema C) = Some p.
Proof.
  intros C p ND Hin. rewrite merged_tables_are_the_declarations_l.
  apply lookup_unique; auto. apply matches_key. reflexivity.
Qed.

(* ---------------- the order of blocks of different namespaces ---------------- *)

Lemma first_efd_swap ns b1 b2 : b_ns b1 <> b_ns b2 -> forall pre post,
  first_efd ns (pre ++ b1 :: b2 :: post) = first_efd ns (pre ++ b2 :: b1 :: post).
Proof.
  intros Hne pre post. induction pre as [|x pre IH]; cbn [app first_efd].
  - destruct (N.eqb (b_ns b1) ns) eqn:E1, (N.eqb (b_ns b2) ns) eqn:E2; try reflexivity.
    apply N.eqb_eq in E1, E2. congruence.
  - rewrite IH. reflexivity.
Qed.

Lemma place_all_ext all all' : (forall ns, first_efd ns all = first_efd ns all') ->
  forall bs seen, place seen all bs = place seen all' bs.
Proof.
  intro H. induction bs as [|b bs IH]; intro seen; [reflexivity|].
  cbn [place]. rewrite H, IH. reflexivity.
Qed.

Lemma place_seen_ext all : forall bs seen seen',
  (forall n, existsb (N.eqb n) seen = existsb (N.eqb n) seen') ->
  place seen all bs = place seen' all bs.
Proof.
  induction bs as [|b bs IH]; intros seen seen' H; [reflexivity|].
  cbn [place]. rewrite (H (b_ns b)). f_equal. apply IH.
  intro n. cbn [existsb]. rewrite H. reflexivity.
Qed.

Lemma place_swap_head all seen b1 b2 post : b_ns b1 <> b_ns b2 ->
  Permutation (place seen all (b1 :: b2 :: post)) (place seen all (b2 :: b1 :: post)).
Proof.
  intro Hne. cbn [place existsb].
  assert (E12 : N.eqb (b_ns b2) (b_ns b1) = false) by (apply N.eqb_neq; congruence).
  assert (E21 : N.eqb (b_ns b1) (b_ns b2) = false) by (apply N.eqb_neq; congruence).
  rewrite E12, E21. cbn [orb].
  rewrite (place_seen_ext all post (b_ns b2 :: b_ns b1 :: seen) (b_ns b1 :: b_ns b2 :: seen)).
  - rewrite !app_assoc. apply Permutation_app_tail. apply Permutation_app_comm.
  - intro n. cbn [existsb]. rewrite !orb_assoc, (orb_comm (N.eqb n (b_ns b2))). reflexivity.
Qed.

Lemma place_swap all b1 b2 post : b_ns b1 <> b_ns b2 -> forall pre seen,
  Permutation (place seen all (pre ++ b1 :: b2 :: post)) (place seen all (pre ++ b2 :: b1 :: post)).
Proof.
  intro Hne. induction pre as [|x pre IH]; intro seen; cbn [app].
  - apply place_swap_head. exact Hne.
  - cbn [place]. apply Permutation_app_head. apply IH.
Qed.

Lemma placed_all_swap pre b1 b2 post : b_ns b1 <> b_ns b2 ->
  Permutation (placed_all (pre ++ b1 :: b2 :: post)) (placed_all (pre ++ b2 :: b1 :: post)).
Proof.
  intro Hne. unfold placed_all.
  rewrite (place_all_ext (pre ++ b2 :: b1 :: post) (pre ++ b1 :: b2 :: post)
             (fun ns => eq_sym (first_efd_swap ns b1 b2 Hne pre post))).
  apply place_swap. exact Hne.
Qed.

Lemma filter_length_perm {A} (f : A -> bool) l l' :
  Permutation l l' -> length (filter f l) = length (filter f l').
Proof.
  induction 1 as [|x l l' _ IH|x y l|l l' l'' _ IH1 _ IH2]; cbn.
  - reflexivity.
  - destruct (f x); cbn; rewrite IH; reflexivity.
  - destruct (f x), (f y); reflexivity.
  - congruence.
Qed.

(* Two adjacent schema blocks of DIFFERENT target namespaces may be written in either
   order (any order of the namespaces' blocks that keeps each namespace's own blocks
   in sequence is a chain of such swaps): every type flattens to the same view. *)
Lemma namespace_block_order_independent_l : forall pre b1 b2 post q,
  b_ns b1 <> b_ns b2 ->
  NoDup (map pkey (placed_all (pre ++ b1 :: b2 :: post))) ->
  type_view (pre ++ b1 :: b2 :: post) q = type_view (pre ++ b2 :: b1 :: post) q.
Proof.
  intros pre b1 b2 post q Hne ND. unfold type_view, fuel_of, chain_fuel.
  pose proof (placed_all_swap pre b1 b2 post Hne) as HP.
  rewrite <- (Permutation_length HP), <- (filter_length_perm is_type _ _ HP).
  apply declaration_order_independent_l; assumption.
Qed.
