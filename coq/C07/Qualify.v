(* C07 (2) -- suds/xsd/__init__.py: qualify; suds/sax/__init__.py: splitPrefix;
   suds/sax/element.py: Element.resolvePrefix / defaultNamespace;
   suds/xsd/sxbase.py: SchemaObject.qualify.   Definitions only.

   An element is seen through its chain of ancestors-or-self, innermost first;
   each frame carries the element's own `nsprefixes` dict (association list with
   unique keys, prefix spelled as a string) and its `expns` (the xmlns="..."
   default declaration, None when absent or empty).  Namespace URIs are interned
   as N by the harness (only equality matters); reference strings and prefixes
   are real strings because splitPrefix works on characters. *)
From SV Require Import Lib.Base.

Definition uri := N.
Definition prefix := str.

Record frame := mkF {
  f_pfx : list (prefix * uri);      (* Element.nsprefixes *)
  f_expns : option uri              (* Element.expns *)
}.
Definition chain := list frame.    (* self first, then parent, ... *)

(* "xml" and its fixed namespace (interned as 900 by the harness) *)
Definition s_xml : str := [120; 109; 108]%N.
Definition u_xml : uri := 900%N.

(* splitPrefix: name.split(":", 1) when ":" in name *)
Fixpoint split_colon (s : str) : option (str * str) :=
  match s with
  | [] => None
  | c :: s' =>
      if N.eqb c ch_colon then Some ([], s')
      else match split_colon s' with
           | Some (p, n) => Some (c :: p, n)
           | None => None
           end
  end.

Definition split_prefix (s : str) : option prefix * str :=
  match split_colon s with
  | Some (p, n) => (Some p, n)
  | None => (None, s)
  end.

Fixpoint assoc (p : prefix) (l : list (prefix * uri)) : option uri :=
  match l with
  | [] => None
  | (q, u) :: l' => if str_eqb q p then Some u else assoc p l'
  end.

(* Element.resolvePrefix(prefix) -> uri or None (the (None, None) default):
     n = self
     while n is not None:
         if prefix in n.nsprefixes: return ...
         if prefix in self.specialprefixes: return ...     # {"xml": ...}
         n = n.parent                                                        *)
Fixpoint resolve_prefix (p : prefix) (c : chain) : option uri :=
  match c with
  | [] => None
  | f :: c' =>
      match assoc p (f_pfx f) with
      | Some u => Some u
      | None => if str_eqb p s_xml then Some u_xml else resolve_prefix p c'
      end
  end.

(* Element.defaultNamespace: expns of the first node, looking up, that has it *)
Fixpoint default_namespace (c : chain) : option uri :=
  match c with
  | [] => None
  | f :: c' => match f_expns f with Some u => Some u | None => default_namespace c' end
  end.

Inductive qres := QOk (n : str) (u : option uri) | QUnresolved.

(* qualify(ref, resolvers, defns): resolvers tried in order, the first one that
   resolves the prefix to a non-None uri wins *)
Fixpoint first_resolved (p : prefix) (rs : list chain) : option uri :=
  match rs with
  | [] => None
  | r :: rs' => match resolve_prefix p r with Some u => Some u | None => first_resolved p rs' end
  end.

Definition qualify (ref : str) (resolvers : list chain) (defns : option uri) : qres :=
  match split_prefix ref with
  | (Some p, n) =>
      match first_resolved p resolvers with
      | Some u => QOk n (Some u)
      | None => QUnresolved
      end
  | (None, n) => QOk n defns
  end.

(* SchemaObject.qualify for one attribute value:
     defns = self.root.defaultNamespace()
     if Namespace.none(defns): defns = self.schema.tns
     qualify(ref, self.root, defns)                                           *)
Definition so_qualify (ref : str) (c : chain) (tns : option uri) : qres :=
  let defns := match default_namespace c with Some u => Some u | None => tns end in
  qualify ref [c] defns.

(* wsdl.Part / PortType / Binding / Service: qualify(s, self.root, definitions.tns) *)
Definition wsdl_qualify (ref : str) (c : chain) (tns : option uri) : qres :=
  qualify ref [c] tns.

(* ------------------------------------------------------------------ *)
(* spec: Namespaces in XML 1.0, section 6 (scoping) + QName resolution *)
(* ------------------------------------------------------------------ *)

(* the in-scope environment is built from the root inwards: every element
   inherits its parent's bindings and overrides them with its own declarations *)
Record env := mkEnv { en_pfx : list (prefix * uri); en_default : option uri }.

Definition override (e : env) (f : frame) : env :=
  mkEnv (f_pfx f ++ en_pfx e)
        (match f_expns f with Some u => Some u | None => en_default e end).

(* outermost frame last in the chain: fold from the right *)
Definition in_scope (c : chain) : env :=
  fold_right (fun f e => override e f) (mkEnv [(s_xml, u_xml)] None) c.

(* a QName denotes (namespace name, local part): the prefix must be bound; an
   unprefixed name takes `dflt` (what the surrounding rule designates: the
   default namespace for XSD type/ref attributes, the targetNamespace for WSDL
   references as suds reads them) *)
Definition expand (ref : str) (e : env) (dflt : option uri) : qres :=
  match split_colon ref with
  | Some (p, n) => match assoc p (en_pfx e) with
                   | Some u => QOk n (Some u)
                   | None => QUnresolved
                   end
  | None => QOk ref dflt
  end.

(* the XML prefix may only ever be declared as its fixed namespace *)
Definition xml_ok (c : chain) : bool :=
  forallb (fun f => match assoc s_xml (f_pfx f) with
                    | Some u => N.eqb u u_xml
                    | None => true
                    end) c.

Definition qres_eqb (a b : qres) : bool :=
  match a, b with
  | QOk n u, QOk m v => str_eqb n m && opt_eqb N.eqb u v
  | QUnresolved, QUnresolved => true
  | _, _ => false
  end.

(* prefix renaming applied to a document: every declaration and every use *)
Definition rename_frame (r : prefix -> prefix) (f : frame) : frame :=
  mkF (map (fun pu => (r (fst pu), snd pu)) (f_pfx f)) (f_expns f).

Definition rename_ref (r : prefix -> prefix) (ref : str) : str :=
  match split_colon ref with
  | Some (p, n) => r p ++ ch_colon :: n
  | None => ref
  end.

Fixpoint has_colon (s : str) : bool :=
  match s with [] => false | c :: s' => N.eqb c ch_colon || has_colon s' end.

(* ------------------------------------------------------------------ *)
(* harness cases                                                       *)
(* ------------------------------------------------------------------ *)

Inductive qmode := MSchema | MWsdl | MPlain.

Record qcase := mkQ {
  q_mode : qmode;                (* which caller: SchemaObject.qualify / wsdl / bare qualify *)
  q_ref : str;
  q_chain : chain;               (* as parsed by suds' own SAX handler *)
  q_tns : option uri;
  q_impl : option qres;          (* None = some other exception *)
  q_expat : qres                 (* the same QName resolved by expat's in-scope map *)
}.

Definition q_model (c : qcase) : qres :=
  match q_mode c with
  | MSchema => so_qualify (q_ref c) (q_chain c) (q_tns c)
  | MWsdl => wsdl_qualify (q_ref c) (q_chain c) (q_tns c)
  | MPlain => qualify (q_ref c) [q_chain c] (q_tns c)
  end.

Definition qualify_agrees (c : qcase) : bool :=
  match q_impl c with Some r => qres_eqb (q_model c) r | None => false end.

(* spec: the expansion under the in-scope environment; unprefixed names take the
   default namespace in schema mode when one is in scope, else the caller's
   designated namespace *)
Definition q_spec (c : qcase) : qres :=
  let e := in_scope (q_chain c) in
  let d := match q_mode c with
           | MSchema => match en_default e with Some u => Some u | None => q_tns c end
           | _ => q_tns c
           end in
  expand (q_ref c) e d.

Definition qualify_spec_ok (c : qcase) : bool :=
  match q_impl c with
  | Some r => qres_eqb (q_spec c) r && qres_eqb (q_expat c) r
  | None => false
  end.
