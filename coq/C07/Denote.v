(* C07 (4b) -- the denotation of a concrete schema: the abstract interface
   (Fam/Schema.v) obtained by expanding every reference the way XSD Structures
   prescribes, and the boolean guards under which ConcreteProofs/DenoteProofs
   show that the model's flattened view IS the flattened denotation.

     element ref        -> the global declaration's name/type/nillable/default,
                           qualified in the declaration's namespace, with the
                           reference's own occurrence
     group ref          -> a sequence with the reference's occurrence holding the
                           group's model group
     attributeGroup ref -> the group's attributes, in place
     local element      -> qualified per form=, else per the elementFormDefault of
                           the <schema> block it is WRITTEN in
     extension          -> kept as c_base (Fam's flat_elems walks the chain)

   Definitions only. *)
From SV Require Import Lib.Base Fam.Schema C01.Marshal C07.Concrete.

Section Den.
Variable T : list placed.

Fixpoint denote_cp (fuel : nat) (ns : nsid) (efd : bool) (p : cpart) {struct fuel} : option particle :=
  match fuel with
  | O => None
  | S f =>
      (fix go (p : cpart) {struct p} : option particle :=
         match p with
         | CEl nm ty opt multi nl dflt form =>
             Some (PE (mkE nm ns (local_qual efd form) ty opt multi nl dflt))
         | CRef q opt multi =>
             match lookup_decl KElem q T with
             | Some pl =>
                 match p_decl pl with
                 | DElem nm ty nl dflt => Some (PE (mkE nm (p_ns pl) true ty opt multi nl dflt))
                 | _ => None
                 end
             | None => None
             end
         | CAnyP => Some PAny
         | CCont k opt kids =>
             match (fix gol (l : list cpart) : option (list particle) :=
                      match l with
                      | [] => Some []
                      | x :: l' => match go x, gol l' with
                                   | Some a, Some b => Some (a :: b)
                                   | _, _ => None
                                   end
                      end) kids with
             | Some ks => Some (PC k opt ks)
             | None => None
             end
         | CGrp q opt =>
             match lookup_decl KGroup q T with
             | Some pl =>
                 match p_decl pl with
                 | DGroup _ body =>
                     match denote_cp f (p_ns pl) (p_own pl) body with
                     | Some d => Some (PC KSeq opt [d])
                     | None => None
                     end
                 | _ => None
                 end
             | None => None
             end
         end) p
  end.

Fixpoint denote_cps (fuel : nat) (ns : nsid) (efd : bool) (ps : list cpart) : option (list particle) :=
  match ps with
  | [] => Some []
  | p :: ps' => match denote_cp fuel ns efd p, denote_cps fuel ns efd ps' with
                | Some a, Some b => Some (a :: b)
                | _, _ => None
                end
  end.

Definition denote_type (g : nat) (pl : placed) : option ctype :=
  match p_decl pl with
  | DType nm base content attrs =>
      match denote_cps g (p_ns pl) (p_own pl) content, flat_attrs_c T g attrs with
      | Some c, Some a => Some (mkC nm (p_ns pl) base c a)
      | _, _ => None
      end
  | _ => None
  end.

Fixpoint denote_all (g : nat) (l : list placed) : option schema :=
  match l with
  | [] => Some []
  | pl :: l' =>
      if is_type pl then
        match denote_type g pl, denote_all g l' with
        | Some t, Some r => Some (t :: r)
        | _, _ => None
        end
      else denote_all g l'
  end.

End Den.

(* None: some reference does not resolve, or groups nest deeper than there are
   declarations (every acyclic schema stays below that) *)
Definition denote (C : cschema) : option schema :=
  denote_all (placed_all C) (fuel_of C) (placed_all C).

(* ---------------- guards ---------------- *)

Definition pkey_eqb (a b : dkind * qn) : bool := dkind_eqb (fst a) (fst b) && qn_eqb (snd a) (snd b).

Definition pkey_of (p : placed) : dkind * qn := (decl_kind (p_decl p), (p_ns p, decl_name (p_decl p))).

Fixpoint nodup_keys (l : list (dkind * qn)) : bool :=
  match l with
  | [] => true
  | k :: l' => negb (existsb (pkey_eqb k) l') && nodup_keys l'
  end.

(* every (kind, qualified name) is declared once *)
Definition unique_names (C : cschema) : bool := nodup_keys (map pkey_of (placed_all C)).

(* known finding C07:same-namespace-blocks-elementFormDefault excluded: every block
   states the elementFormDefault of the first block of its namespace *)
Definition same_efd (C : cschema) : bool :=
  forallb (fun p => Bool.eqb (p_own p) (p_efd p)) (placed_all C).

(* known finding C07:split-block-global-element-not-top-level excluded: global
   elements of an unqualified namespace are written in its first block *)
Definition globals_first (C : cschema) : bool :=
  forallb (fun p => match p_decl p with
                    | DElem _ _ _ _ => p_first p || p_efd p
                    | _ => true
                    end) (placed_all C).

Definition is_some {A} (o : option A) : bool := match o with Some _ => true | None => false end.

(* references resolve and group nesting is bounded: the expansion exists *)
Definition expandable (C : cschema) : bool := is_some (denote C).

(* the extension chain of q resolves within as many steps as there are types
   (true of every acyclic derivation graph) *)
Definition view_defined (C : cschema) (q : qn) : bool := is_some (type_view C q).

Definition wf (C : cschema) : bool := unique_names C && same_efd C && expandable C.

(* what the denotation flattens to *)
Definition denoted_view (D : schema) (q : qn) : option (list fchild * list adecl) :=
  match find_type D q with
  | Some t => Some (flat_elems D t, flat_attrs D t)
  | None => None
  end.

(* evaluated by the harness on every rendering: inside the guard, and the model's
   view of every listed type is the denotation's *)
Definition in_guard (C : cschema) (qs : list qn) : bool :=
  wf C && forallb (view_defined C) qs.

(* ---------------- harness predicates (one rendering) ---------------- *)

Definition schema_in_guard (c : scase) : bool :=
  in_guard (sc_concrete c) (map fst (sc_types c)).

Definition oview_eqb (a b : option (list fchild * list adecl)) : bool :=
  match a, b with
  | Some x, Some y => view_eqb x y
  | None, None => true
  | _, _ => false
  end.

(* the instance of model_is_denotation on this rendering (true outside the guard) *)
Definition schema_theorem_instance (c : scase) : bool :=
  negb (schema_in_guard c) ||
  match denote (sc_concrete c) with
  | Some D => forallb (fun x => oview_eqb (type_view (sc_concrete c) (fst x)) (denoted_view D (fst x)))
                      (sc_types c)
  | None => false
  end.
