(* C07 (2) -- lemmas about qualify: it computes the XML-Namespaces expansion and
   is therefore independent of how prefixes are spelled. *)
From SV Require Import Lib.Base C07.Qualify.

Lemma split_colon_app p n :
  has_colon p = false -> split_colon (p ++ ch_colon :: n) = Some (p, n).
Proof.
  induction p as [|c p IH]; cbn; intro H.
  - reflexivity.
  - apply orb_false_iff in H as [H1 H2]. rewrite H1, (IH H2). reflexivity.
Qed.

Lemma split_colon_none s : has_colon s = false -> split_colon s = None.
Proof.
  induction s as [|c s IH]; cbn; intro H; [reflexivity|].
  apply orb_false_iff in H as [H1 H2]. rewrite H1, (IH H2). reflexivity.
Qed.

Lemma split_colon_prefix_nocolon s p n : split_colon s = Some (p, n) -> has_colon p = false.
Proof.
  revert p n. induction s as [|c s IH]; cbn; intros p n H; [discriminate|].
  destruct (N.eqb c ch_colon) eqn:E.
  - inversion H; subst. reflexivity.
  - destruct (split_colon s) as [[p' n']|]; [|discriminate]. inversion H; subst.
    cbn. rewrite E. cbn. eapply IH. reflexivity.
Qed.

Lemma split_colon_join s p n : split_colon s = Some (p, n) -> s = p ++ ch_colon :: n.
Proof.
  revert p n. induction s as [|c s IH]; cbn; intros p n H; [discriminate|].
  destruct (N.eqb c ch_colon) eqn:E.
  - apply N.eqb_eq in E. inversion H; subst. reflexivity.
  - destruct (split_colon s) as [[p' n']|]; [|discriminate]. inversion H; subst.
    cbn. f_equal. apply IH. reflexivity.
Qed.

Lemma assoc_app p a b :
  assoc p (a ++ b) = match assoc p a with Some u => Some u | None => assoc p b end.
Proof.
  induction a as [|[q u] a IH]; cbn; [reflexivity|]. destruct (str_eqb q p); auto.
Qed.

(* ---------------- qualify computes the in-scope expansion ---------------- *)

Lemma str_eqb_sym a b : str_eqb a b = str_eqb b a.
Proof.
  destruct (str_eqb a b) eqn:E1, (str_eqb b a) eqn:E2; auto.
  - apply str_eqb_eq in E1. subst. rewrite str_eqb_refl in E2. discriminate.
  - apply str_eqb_eq in E2. subst. rewrite str_eqb_refl in E1. discriminate.
Qed.

Lemma assoc_xml_in_scope c :
  xml_ok c = true -> assoc s_xml (en_pfx (in_scope c)) = Some u_xml.
Proof.
  induction c as [|g c IH]; cbn [xml_ok forallb]; intro Hc.
  - reflexivity.
  - apply andb_true_iff in Hc as [H1 H2].
    cbn [in_scope fold_right override en_pfx]. fold (in_scope c). rewrite assoc_app.
    destruct (assoc s_xml (f_pfx g)) as [u|].
    + apply N.eqb_eq in H1. congruence.
    + apply IH. exact H2.
Qed.

Lemma resolve_prefix_other p c :
  str_eqb p s_xml = false -> resolve_prefix p c = assoc p (en_pfx (in_scope c)).
Proof.
  intro Hp. induction c as [|f c IH].
  - cbn [resolve_prefix in_scope fold_right en_pfx assoc]. rewrite str_eqb_sym, Hp. reflexivity.
  - cbn [resolve_prefix in_scope fold_right override en_pfx]. fold (in_scope c).
    rewrite assoc_app, Hp. destruct (assoc p (f_pfx f)); [reflexivity|exact IH].
Qed.

(* an element always has itself in its chain: chains are non-empty *)
Lemma resolve_prefix_in_scope p f c :
  xml_ok (f :: c) = true -> resolve_prefix p (f :: c) = assoc p (en_pfx (in_scope (f :: c))).
Proof.
  intro H. destruct (str_eqb p s_xml) eqn:Ex.
  - apply str_eqb_eq in Ex. subst p. rewrite (assoc_xml_in_scope _ H).
    cbn [resolve_prefix]. rewrite str_eqb_refl.
    cbn [xml_ok forallb] in H. apply andb_true_iff in H as [H1 _].
    destruct (assoc s_xml (f_pfx f)) as [u|]; [|reflexivity].
    apply N.eqb_eq in H1. congruence.
  - apply resolve_prefix_other. exact Ex.
Qed.

Lemma default_namespace_in_scope c : default_namespace c = en_default (in_scope c).
Proof.
  induction c as [|f c IH]; [reflexivity|].
  cbn [default_namespace in_scope fold_right override en_default]. fold (in_scope c).
  destruct (f_expns f); [reflexivity|exact IH].
Qed.

Lemma qualify_is_expansion_l : forall ref f c d,
  xml_ok (f :: c) = true ->
  qualify ref [f :: c] d = expand ref (in_scope (f :: c)) d.
Proof.
  intros ref f c d H. unfold qualify, expand, split_prefix.
  destruct (split_colon ref) as [[p n]|]; [|reflexivity].
  cbn [first_resolved]. rewrite (resolve_prefix_in_scope p f c H).
  destruct (assoc p (en_pfx (in_scope (f :: c)))); reflexivity.
Qed.

Lemma so_qualify_is_expansion_l : forall ref f c tns,
  xml_ok (f :: c) = true ->
  so_qualify ref (f :: c) tns =
  expand ref (in_scope (f :: c))
         (match en_default (in_scope (f :: c)) with Some u => Some u | None => tns end).
Proof.
  intros. unfold so_qualify. rewrite qualify_is_expansion_l by assumption.
  rewrite default_namespace_in_scope. reflexivity.
Qed.

(* ---------------- independence of the prefix spelling ---------------- *)

Section Rename.
  Variable r : prefix -> prefix.
  Hypothesis r_inj : forall a b, r a = r b -> a = b.
  Hypothesis r_nocolon : forall a, has_colon a = false -> has_colon (r a) = false.
  Hypothesis r_xml : r s_xml = s_xml.

  Lemma r_eqb a b : str_eqb (r a) (r b) = str_eqb a b.
  Proof.
    destruct (str_eqb a b) eqn:E.
    - apply str_eqb_eq in E. subst. apply str_eqb_refl.
    - destruct (str_eqb (r a) (r b)) eqn:E2; [|reflexivity].
      apply str_eqb_eq, r_inj in E2. subst. rewrite str_eqb_refl in E. discriminate.
  Qed.

  Lemma assoc_rename p l :
    assoc (r p) (map (fun pu => (r (fst pu), snd pu)) l) = assoc p l.
  Proof.
    induction l as [|[q u] l IH]; cbn; [reflexivity|]. rewrite r_eqb, IH. reflexivity.
  Qed.

  Lemma resolve_prefix_rename p c :
    resolve_prefix (r p) (map (rename_frame r) c) = resolve_prefix p c.
  Proof.
    induction c as [|f c IH]; [reflexivity|].
    cbn [map resolve_prefix rename_frame f_pfx].
    rewrite assoc_rename, IH.
    assert (E : str_eqb (r p) s_xml = str_eqb p s_xml).
    { rewrite <- r_xml at 1. apply r_eqb. }
    rewrite E. reflexivity.
  Qed.

  Lemma default_namespace_rename c :
    default_namespace (map (rename_frame r) c) = default_namespace c.
  Proof. induction c as [|f c IH]; cbn; [reflexivity|]. rewrite IH. reflexivity. Qed.

  Lemma qualify_rename ref c d :
    qualify (rename_ref r ref) [map (rename_frame r) c] d = qualify ref [c] d.
  Proof.
    unfold qualify, split_prefix, rename_ref.
    destruct (split_colon ref) as [[p n]|] eqn:E.
    - rewrite split_colon_app by (apply r_nocolon; eapply split_colon_prefix_nocolon; eauto).
      cbn [first_resolved]. rewrite resolve_prefix_rename. reflexivity.
    - rewrite E. reflexivity.
  Qed.

  Lemma so_qualify_rename ref c t :
    so_qualify (rename_ref r ref) (map (rename_frame r) c) t = so_qualify ref c t.
  Proof. unfold so_qualify. rewrite default_namespace_rename. apply qualify_rename. Qed.
End Rename.

Lemma qualify_prefix_independent_l :
  forall (r : prefix -> prefix),
  (forall a b, r a = r b -> a = b) ->
  (forall a, has_colon a = false -> has_colon (r a) = false) ->
  r s_xml = s_xml ->
  forall ref c tns,
    so_qualify (rename_ref r ref) (map (rename_frame r) c) tns = so_qualify ref c tns /\
    wsdl_qualify (rename_ref r ref) (map (rename_frame r) c) tns = wsdl_qualify ref c tns.
Proof.
  intros r H1 H2 H3 ref c tns. split.
  - apply so_qualify_rename; assumption.
  - apply qualify_rename; assumption.
Qed.

(* a name written without prefix under a default namespace declaration and the
   same name written with any prefix bound to that namespace are the same
   reference *)
Lemma qualify_default_vs_prefix_l : forall p n c tns u,
  has_colon p = false -> has_colon n = false ->
  default_namespace c = Some u -> resolve_prefix p c = Some u ->
  so_qualify (p ++ ch_colon :: n) c tns = so_qualify n c tns.
Proof.
  intros p n c tns u Hp Hn Hd Hr. unfold so_qualify, qualify, split_prefix.
  rewrite (split_colon_app p n Hp), (split_colon_none n Hn). cbn [first_resolved].
  rewrite Hr, Hd. reflexivity.
Qed.

(* two spellings that denote the same expanded name are the same reference, in
   whatever context each is written *)
Lemma qualify_depends_on_expansion_only_l : forall ref1 f1 c1 ref2 f2 c2 t1 t2,
  xml_ok (f1 :: c1) = true -> xml_ok (f2 :: c2) = true ->
  expand ref1 (in_scope (f1 :: c1))
    (match en_default (in_scope (f1 :: c1)) with Some u => Some u | None => t1 end) =
  expand ref2 (in_scope (f2 :: c2))
    (match en_default (in_scope (f2 :: c2)) with Some u => Some u | None => t2 end) ->
  so_qualify ref1 (f1 :: c1) t1 = so_qualify ref2 (f2 :: c2) t2.
Proof.
  intros. rewrite !so_qualify_is_expansion_l by assumption. assumption.
Qed.
