(* C07 (5) -- suds/xsd/schema.py: Schema.dereference, statement by statement, over
   a store of schema objects (object identity = small integers handed out by the
   harness; rawchildren = list of ids).

     def dereference(self):
         all = []; indexes = {}
         for child in self.children: child.content(all)
         dependencies = {}
         for x in all:
             x.qualify()
             midx, deps = x.dependencies()          # deps = [target] and midx = 0, or [] and None
             dependencies[x] = deps; indexes[x] = midx
         for x, deps in dependency_sort(dependencies):
             midx = indexes.get(x)
             if midx is None: continue
             d = deps[midx]
             x.merge(d)

   The queries behind dependencies() are table lookups (Concrete.v); here their
   results are part of the input: the graph handed to dependency_sort is exactly
   the `dependencies` dict (keys in `all` order).  merge() per class:

     SchemaObject.merge        default, max, min, name, qname, type are taken from
                               the other object where self has None (nillable is a
                               bool, never None, so it is never taken here)
     Group / AttributeGroup    + self.rawchildren = other.rawchildren
     Element                   + self.rawchildren = other.rawchildren; nillable = other.nillable
     Extension / Restriction   + other.rawchildren are inserted before self's own
     Attribute (and others)    the base merge only

   `self.rawchildren = other.rawchildren` REBINDS the attribute, so a later merge of
   `other` (which rebinds other's attribute, or inserts into an Extension's own
   list) is not seen through self: copying the id list at merge time is faithful.
   (The only in-place mutation is Extension/Restriction.merge on their own list,
   and no query ever returns an Extension/Restriction as a merge source.)

   Definitions only. *)
From SV Require Import Lib.Base C07.DepSort.

Inductive scls := ClsElement | ClsGroup | ClsAttrGroup | ClsExtension | ClsRestriction | ClsOther.

Record sobj := mkO {
  o_cls : scls;
  o_default : option N; o_max : option N; o_min : option N;
  o_name : option N; o_qname : option N; o_type : option N;
  o_nil : bool;
  o_kids : list N
}.

Definition empty_obj : sobj := mkO ClsOther None None None None None None false [].

Definition store := list (N * sobj).

Fixpoint get (st : store) (x : N) : sobj :=
  match st with
  | [] => empty_obj
  | (y, o) :: st' => if N.eqb y x then o else get st' x
  end.

Definition set (st : store) (x : N) (o : sobj) : store := (x, o) :: st.

Definition orelse (a b : option N) : option N := match a with Some _ => a | None => b end.

(* SchemaObject.merge *)
Definition merge_base (x d : sobj) : sobj :=
  mkO (o_cls x)
      (orelse (o_default x) (o_default d)) (orelse (o_max x) (o_max d)) (orelse (o_min x) (o_min d))
      (orelse (o_name x) (o_name d)) (orelse (o_qname x) (o_qname d)) (orelse (o_type x) (o_type d))
      (o_nil x) (o_kids x).

Definition with_kids (o : sobj) (k : list N) : sobj :=
  mkO (o_cls o) (o_default o) (o_max o) (o_min o) (o_name o) (o_qname o) (o_type o) (o_nil o) k.

Definition with_nil (o : sobj) (b : bool) : sobj :=
  mkO (o_cls o) (o_default o) (o_max o) (o_min o) (o_name o) (o_qname o) (o_type o) b (o_kids o).

(* x.merge(d), dispatched on x's class *)
Definition merge_obj (x d : sobj) : sobj :=
  let b := merge_base x d in
  match o_cls x with
  | ClsGroup | ClsAttrGroup => with_kids b (o_kids d)
  | ClsElement => with_nil (with_kids b (o_kids d)) (o_nil d)
  | ClsExtension | ClsRestriction => with_kids b (o_kids d ++ o_kids x)
  | ClsOther => b
  end.

(* one iteration of the last loop *)
Definition step (st : store) (e : entry) : store :=
  match snd e with
  | [] => st                                         (* midx is None: continue *)
  | d :: _ => set st (fst e) (merge_obj (get st (fst e)) (get st d))
  end.

Definition merge_in_order (order : list entry) (st : store) : store := fold_left step order st.

Definition dereference (st : store) (g : graph) : store := merge_in_order (dependency_sort g) st.

(* ---------------- harness case: one Schema.dereference call ---------------- *)

Definition oN_eqb := opt_eqb N.eqb.

Definition scls_eqb (a b : scls) : bool :=
  match a, b with
  | ClsElement, ClsElement | ClsGroup, ClsGroup | ClsAttrGroup, ClsAttrGroup
  | ClsExtension, ClsExtension | ClsRestriction, ClsRestriction | ClsOther, ClsOther => true
  | _, _ => false
  end.

Definition sobj_eqb (a b : sobj) : bool :=
  scls_eqb (o_cls a) (o_cls b) &&
  oN_eqb (o_default a) (o_default b) && oN_eqb (o_max a) (o_max b) && oN_eqb (o_min a) (o_min b) &&
  oN_eqb (o_name a) (o_name b) && oN_eqb (o_qname a) (o_qname b) && oN_eqb (o_type a) (o_type b) &&
  Bool.eqb (o_nil a) (o_nil b) && list_eqb N.eqb (o_kids a) (o_kids b).

Record stcase := mkST {
  st_pre : store;            (* every object of `all`, and every merge target, before the call *)
  st_graph : graph;          (* the dependencies dict: keys in `all` order, deps = [target] or [] *)
  st_post : store            (* the same objects after the call *)
}.

Definition store_deref_agrees (c : stcase) : bool :=
  let fin := dereference (st_pre c) (st_graph c) in
  forallb (fun xo => sobj_eqb (get fin (fst xo)) (get (st_post c) (fst xo))) (st_pre c).

(* spec, from XSD Structures: a reference stands for what it refers to.  After the
   call, every object with a dependency carries its target's (final) children --
   after the base's for an extension/restriction --, its target's name/type/default/
   occurrence where it states none itself, and, for an element reference, the
   target's nillability; objects without dependency are untouched. *)
Definition resolved_ok (pre post : store) (e : entry) : bool :=
  let x := get pre (fst e) in
  let x' := get post (fst e) in
  match snd e with
  | [] => sobj_eqb x' x
  | d :: _ =>
      let d' := get post d in
      scls_eqb (o_cls x') (o_cls x) &&
      oN_eqb (o_name x') (orelse (o_name x) (o_name d')) &&
      oN_eqb (o_type x') (orelse (o_type x) (o_type d')) &&
      oN_eqb (o_default x') (orelse (o_default x) (o_default d')) &&
      oN_eqb (o_min x') (orelse (o_min x) (o_min d')) &&
      oN_eqb (o_max x') (orelse (o_max x) (o_max d')) &&
      match o_cls x with
      | ClsGroup | ClsAttrGroup => list_eqb N.eqb (o_kids x') (o_kids d')
      | ClsElement => list_eqb N.eqb (o_kids x') (o_kids d') && Bool.eqb (o_nil x') (o_nil d')
      | ClsExtension | ClsRestriction => list_eqb N.eqb (o_kids x') (o_kids d' ++ o_kids x)
      | ClsOther => list_eqb N.eqb (o_kids x') (o_kids x)
      end
  end.

Definition store_deref_spec_ok (c : stcase) : bool :=
  forallb (resolved_ok (st_pre c) (st_post c)) (st_graph c).

(* is the graph inside the theorem's guard? (unique keys; acyclic) *)
Definition acyclicb (g : graph) : bool := forallb (fun k => negb (reachb g k k)) (keys g).
Definition store_in_guard (c : stcase) : bool := nodupb (keys (st_graph c)) && acyclicb (st_graph c).
