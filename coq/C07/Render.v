(* C07 (3) -- rendering independence.  One abstract interface (Fam/Schema.v) is
   written down K ways by the harness; every client built from a rendering is
   observed and the observations are judged here:

     * spec (`*_spec_ok`): every rendering's observation equals what the XSD/WSDL
       rules assign to the ABSTRACT interface -- requests against the reference
       translator of C01 (member order, occurrence, nillability, form
       qualification, target namespaces), parameter definitions and factory keys
       against the flattened abstract type -- and all K observations are equal;
     * model (`*_agrees`): the marshaller model of C01, run on the abstract
       interface, equals what each rendering's client produced.

   Definitions only. *)
From SV Require Import Lib.Base Fam.Schema C01.Marshal C01.Guard C01.Styles.

(* generic observation tree (service definitions, factory objects, decoded
   replies): only equality matters *)
Inductive obs := ON (tag : N) (kids : list obs).

Fixpoint obs_eqb (a b : obs) {struct a} : bool :=
  match a, b with
  | ON t1 k1, ON t2 k2 =>
      N.eqb t1 t2 &&
      (fix go (l1 l2 : list obs) : bool :=
         match l1, l2 with
         | [], [] => true
         | x :: l1', y :: l2' => obs_eqb x y && go l1' l2'
         | _, _ => false
         end) k1 k2
  end.

Definition all_equal {A} (eqb : A -> A -> bool) (l : list A) : bool :=
  match l with
  | [] => true
  | x :: l' => forallb (eqb x) l'
  end.

(* ---------------- requests ---------------- *)

Record rwcase := mkRW {
  rw_schema : schema; rw_xstq : bool; rw_wrapper : edecl; rw_args : list value;
  rw_impls : list impl_res                    (* one per rendering, baseline first *)
}.

Definition rw_one (c : rwcase) (i : impl_res) : wcase :=
  mkW (rw_schema c) (rw_xstq c) (rw_wrapper c) (rw_args c) i.

Definition render_wrapped_spec_ok (c : rwcase) : bool :=
  forallb (fun i => wrapped_spec_ok (rw_one c i)) (rw_impls c).
Definition render_wrapped_agrees (c : rwcase) : bool :=
  forallb (fun i => wrapped_agrees (rw_one c i)) (rw_impls c).
(* which renderings fail the spec (indexes), for attribution by the harness *)
Definition bad_indexes {A} (f : A -> bool) (l : list A) : list nat :=
  map fst (filter (fun p => negb (f (snd p))) (combine (seq 0 (length l)) l)).

Record rbcase := mkRB {
  rb_schema : schema; rb_xstq : bool; rb_parts : list edecl; rb_args : list value;
  rb_impls : list impl_nodes
}.
Definition rb_one (c : rbcase) (i : impl_nodes) : bcase :=
  mkB (rb_schema c) (rb_xstq c) (rb_parts c) (rb_args c) i.
Definition render_bare_spec_ok (c : rbcase) : bool := forallb (fun i => bare_spec_ok (rb_one c i)) (rb_impls c).
Definition render_bare_agrees (c : rbcase) : bool := forallb (fun i => bare_agrees (rb_one c i)) (rb_impls c).

Record rrcase := mkRR {
  rr_schema : schema; rr_xstq : bool; rr_bodyns : nsid; rr_method : name;
  rr_parts : list edecl; rr_args : list value; rr_impls : list impl_res
}.
Definition rr_one (c : rrcase) (i : impl_res) : rcase :=
  mkR (rr_schema c) (rr_xstq c) (rr_bodyns c) (rr_method c) (rr_parts c) (rr_args c) i.
Definition render_rpc_spec_ok (c : rrcase) : bool := forallb (fun i => rpc_spec_ok (rr_one c i)) (rr_impls c).
Definition render_rpc_agrees (c : rrcase) : bool := forallb (fun i => rpc_agrees (rr_one c i)) (rr_impls c).

(* ---------------- parameter definitions of a wrapped operation ---------------- *)

(* harness encoding of one observed parameter:
     ON name [ON ns-of-name; ON flags; ON type-ns; ON type-name; ON default]
   flags = qualified + 2*optional(self or ancestor) + 4*multi + 8*nillable + 16*under-a-choice;
   type (0, 0) = a type this interface allows to be anonymous; default 0 = none *)
Definition b2n (b : bool) (w : N) : N := if b then w else 0%N.

Definition param_ok (fc : fchild) (o : obs) : bool :=
  match fc, o with
  | FE d anc ch, ON nm [ON ns []; ON fl []; ON tns []; ON tnm []; ON df []] =>
      N.eqb nm (e_name d) && N.eqb ns (e_ns d) &&
      N.eqb fl (b2n (e_qual d) 1 + b2n (e_opt d || anc) 2 + b2n (e_multi d) 4 + b2n (e_nil d) 8 + b2n ch 16) &&
      match e_type d with
      | TNamed n t => (N.eqb tns n && N.eqb tnm t) || (N.eqb tns 0 && N.eqb tnm 0)
      | TBuiltin => N.eqb tns ns_xsd
      end &&
      N.eqb df (match e_default d with Some t => t | None => 0%N end)
  | _, _ => false
  end.

Fixpoint params_ok (fcs : list fchild) (os : list obs) : bool :=
  match fcs, os with
  | [], [] => true
  | fc :: fcs', o :: os' => param_ok fc o && params_ok fcs' os'
  | _, _ => false
  end.

Record pcase := mkPC {
  pc_schema : schema;
  pc_type : qn;                        (* type of the wrapper element *)
  pc_impls : list (list obs)           (* observed parameter lists, one per rendering *)
}.

Definition params_spec_ok (c : pcase) : bool :=
  match find_type (pc_schema c) (pc_type c) with
  | Some t => forallb (params_ok (flat_elems (pc_schema c) t)) (pc_impls c)
  | None => false
  end.

(* ---------------- factory objects ---------------- *)

(* harness encoding: ON class [ON (2*name + is_attr) [value] ...]; the expected
   top-level keys are all attributes of the base chain, then every element that
   is not under a choice (Builder.build: add_attributes, then children, skipping
   wildcard and choice members) *)
Definition expected_keys (S : schema) (t : ctype) : list N :=
  map (fun a => (2 * a_name a + 1)%N) (flat_attrs S t) ++
  flat_map (fun fc => match fc with
                      | FE d _ false => [(2 * e_name d)%N]
                      | _ => []
                      end) (flat_elems S t).

Definition obs_keys (o : obs) : list N :=
  match o with ON _ kids => map (fun k => match k with ON t _ => t end) kids end.

Record fcase := mkFC {
  fc_schema : schema;
  fc_type : qn;
  fc_impls : list obs
}.

Definition factory_spec_ok (c : fcase) : bool :=
  match find_type (fc_schema c) (fc_type c) with
  | Some t => forallb (fun o => list_eqb N.eqb (obs_keys o) (expected_keys (fc_schema c) t)) (fc_impls c)
              && all_equal obs_eqb (fc_impls c)
  | None => false
  end.

(* ---------------- anything else observed (service listing, decoded replies) ---------------- *)

Record ecase := mkEC { ec_impls : list obs }.
Definition equal_spec_ok (c : ecase) : bool := all_equal obs_eqb (ec_impls c).
