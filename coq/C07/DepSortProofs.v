(* C07 (1) -- lemmas about the dependency_sort model (all graphs, no size bound). *)
From Coq Require Import Permutation.
From SV Require Import Lib.Base C07.DepSort.

(* ------------------------------------------------------------------ *)
(* basic facts                                                         *)
(* ------------------------------------------------------------------ *)

Lemma memN_In k l : memN k l = true <-> In k l.
Proof.
  induction l as [|x l IH]; cbn; [split; [discriminate|tauto]|].
  rewrite orb_true_iff, N.eqb_eq, IH. tauto.
Qed.

Lemma memN_false k l : memN k l = false <-> ~ In k l.
Proof. rewrite <- memN_In. destruct (memN k l); split; congruence. Qed.

Lemma lookup_In g k d : lookup g k = Some d -> In (k, d) g.
Proof.
  induction g as [|[k' d'] g IH]; cbn; [discriminate|].
  destruct (N.eqb k' k) eqn:E.
  - apply N.eqb_eq in E. intros [= <-]. left. congruence.
  - intro H. right. auto.
Qed.

Lemma lookup_key g k : lookup g k <> None <-> In k (keys g).
Proof.
  induction g as [|[k' d'] g IH]; cbn; [tauto|].
  destruct (N.eqb k' k) eqn:E.
  - apply N.eqb_eq in E. split; [auto|discriminate].
  - apply N.eqb_neq in E. rewrite IH. split; [auto|]. intros [H|H]; [contradiction|auto].
Qed.

Lemma lookup_nodup g k d : NoDup (keys g) -> In (k, d) g -> lookup g k = Some d.
Proof.
  induction g as [|[k' d'] g IH]; cbn; [tauto|].
  intros ND [H|H].
  - inversion H; subst. rewrite N.eqb_refl. reflexivity.
  - inversion ND as [|? ? Hn ND']; subst.
    destruct (N.eqb k' k) eqn:E.
    + apply N.eqb_eq in E; subst. exfalso. apply Hn. apply (in_map fst) in H. exact H.
    + auto.
Qed.

(* the local fix of sort_r is deps_loop *)
Lemma sort_r_S f g st key deps :
  sort_r (S f) g st key deps =
  if memN key (snd st) then Some st else
  match deps_loop f g deps (fst st, key :: snd st) with
  | None => None
  | Some s2 => Some (fst s2 ++ [(key, deps)], snd s2)
  end.
Proof.
  cbn [sort_r]. destruct (memN key (snd st)); [reflexivity|].
  match goal with
  | |- match ?L deps _ with _ => _ end = _ =>
      assert (E : forall ds s, L ds s = deps_loop f g ds s)
  end.
  { induction ds as [|a ds IH]; intros s; cbn; [reflexivity|].
    destruct (lookup g a) as [l|]; [destruct (sort_r f g s a l)|]; auto. }
  rewrite E. reflexivity.
Qed.

(* ------------------------------------------------------------------ *)
(* termination: fuel = number of unprocessed keys + 1 suffices         *)
(* ------------------------------------------------------------------ *)

Definition unproc (g : graph) (P : list node) : nat :=
  length (filter (fun k => negb (memN k P)) (keys g)).

Definition pmono (P P' : list node) : Prop := forall x, memN x P = true -> memN x P' = true.

Lemma filter_le_mono (l : list node) P P' :
  pmono P P' ->
  length (filter (fun k => negb (memN k P')) l) <= length (filter (fun k => negb (memN k P)) l).
Proof.
  intro M. induction l as [|x l IH]; cbn; [lia|].
  destruct (memN x P) eqn:E.
  - rewrite (M _ E). cbn. exact IH.
  - cbn. destruct (memN x P'); cbn; lia.
Qed.

Lemma unproc_mono g P P' : pmono P P' -> unproc g P' <= unproc g P.
Proof. apply filter_le_mono. Qed.

Lemma filter_lt_add (l : list node) key P :
  In key l -> memN key P = false ->
  length (filter (fun k => negb (memN k (key :: P))) l) < length (filter (fun k => negb (memN k P)) l).
Proof.
  intros Hin Hm. induction l as [|x l IH]; [destruct Hin|].
  assert (LE : length (filter (fun k => negb (memN k (key :: P))) l)
               <= length (filter (fun k => negb (memN k P)) l)).
  { apply filter_le_mono. intros y Hy. cbn. rewrite Hy. apply orb_true_r. }
  cbn [filter].
  set (a := filter (fun k => negb (memN k (key :: P))) l) in *.
  set (b := filter (fun k => negb (memN k P)) l) in *.
  destruct Hin as [->|Hin].
  - rewrite Hm. cbn [memN]. rewrite N.eqb_refl. cbn [orb negb length]. lia.
  - specialize (IH Hin). cbn [memN].
    destruct (N.eqb key x) eqn:E.
    + apply N.eqb_eq in E; subst. rewrite Hm. cbn [orb negb length]. lia.
    + cbn [orb]. destruct (memN x P); cbn [negb length]; lia.
Qed.

Lemma unproc_add g key P :
  In key (keys g) -> memN key P = false -> unproc g (key :: P) < unproc g P.
Proof. apply filter_lt_add. Qed.

Lemma sort_r_total f : forall g st key deps,
  In key (keys g) -> unproc g (snd st) < f ->
  exists st', sort_r f g st key deps = Some st' /\ pmono (snd st) (snd st') /\
              memN key (snd st') = true.
Proof.
  induction f as [|f IH]; intros g st key deps Hk Hf; [lia|].
  rewrite sort_r_S. destruct (memN key (snd st)) eqn:Em.
  - exists st. repeat split; auto. intros x Hx; exact Hx.
  - assert (L : forall ds s, unproc g (snd s) < f ->
                exists s', deps_loop f g ds s = Some s' /\ pmono (snd s) (snd s')).
    { induction ds as [|d ds IHd]; intros s Hs; cbn.
      - exists s. split; [reflexivity|intros x Hx; exact Hx].
      - destruct (lookup g d) as [dd|] eqn:El; [|auto].
        assert (Hd : In d (keys g)) by (apply lookup_key; congruence).
        destruct (IH g s d dd Hd Hs) as (s1 & E1 & M1 & _). rewrite E1.
        destruct (IHd s1) as (s2 & E2 & M2).
        { pose proof (unproc_mono g _ _ M1). lia. }
        exists s2. split; [exact E2|]. intros x Hx. apply M2, M1, Hx. }
    pose proof (unproc_add g key (snd st) Hk Em) as Hlt.
    destruct (L deps (fst st, key :: snd st)) as (s2 & E2 & M2); [cbn; lia|].
    rewrite E2. eexists. split; [reflexivity|]. cbn. split.
    + intros x Hx. apply M2. cbn. rewrite Hx. apply orb_true_r.
    + apply M2. cbn. rewrite N.eqb_refl. reflexivity.
Qed.

Lemma unproc_le_length g P : unproc g P <= length g.
Proof.
  unfold unproc, keys.
  assert (H : forall l : list node, length (filter (fun k => negb (memN k P)) l) <= length l).
  { induction l as [|x l IH]; cbn; [lia|]. destruct (negb (memN x P)); cbn; lia. }
  specialize (H (map fst g)). rewrite map_length in H. exact H.
Qed.

Lemma top_loop_total g : forall items s,
  incl items g -> exists s', top_loop (S (length g)) g items s = Some s'.
Proof.
  induction items as [|[k d] rest IH]; intros s Hincl; cbn [top_loop]; [eauto|].
  assert (Hk : In k (keys g)).
  { pose proof (Hincl (k, d) (or_introl eq_refl)) as H. apply (in_map fst) in H. exact H. }
  destruct (sort_r_total (S (length g)) g s k d Hk) as (s1 & E1 & _).
  { pose proof (unproc_le_length g (snd s)). lia. }
  rewrite E1. apply IH. intros e He. apply Hincl. right. exact He.
Qed.

Lemma depsort_terminates_l : forall g, exists r, dependency_sort_opt g = Some r.
Proof.
  intro g. unfold dependency_sort_opt.
  destruct (top_loop_total g g ([], [])) as (s & E); [apply incl_refl|].
  rewrite E. eauto.
Qed.

Lemma dependency_sort_eq g r : dependency_sort_opt g = Some r -> dependency_sort g = r.
Proof. unfold dependency_sort. intros ->. reflexivity. Qed.

(* ------------------------------------------------------------------ *)
(* order: grey/black invariant                                         *)
(* ------------------------------------------------------------------ *)

(* x depends directly on d, and d has an entry of its own *)
Definition edge (g : graph) (x d : node) : Prop :=
  exists dx, lookup g x = Some dx /\ In d dx /\ In d (keys g).

(* x depends on z through one or more edges *)
Inductive reach (g : graph) : node -> node -> Prop :=
| reach1 x y : edge g x y -> reach g x y
| reachS x y z : edge g x y -> reach g y z -> reach g x z.

Lemma reach_snoc g x y z : reach g x y -> edge g y z -> reach g x z.
Proof.
  induction 1 as [x y E|x y w E R IH]; intro E2.
  - eapply reachS; [exact E|apply reach1; exact E2].
  - eapply reachS; [exact E|apply IH; exact E2].
Qed.

Lemma reach_trans g x y z : reach g x y -> reach g y z -> reach g x z.
Proof.
  induction 1 as [x y E|x y w E R IH]; intro R2.
  - eapply reachS; eauto.
  - eapply reachS; [exact E|apply IH; exact R2].
Qed.

Definition before (l : list node) (d k : node) : Prop :=
  exists l1 l2 l3, l = l1 ++ d :: l2 ++ k :: l3.

Lemma before_app l m d k : before l d k -> before (l ++ m) d k.
Proof.
  intros (l1 & l2 & l3 & ->). exists l1, l2, (l3 ++ m).
  rewrite <- !app_assoc. cbn. rewrite <- !app_assoc. reflexivity.
Qed.

Lemma before_snoc l d k : In d l -> before (l ++ [k]) d k.
Proof.
  intro H. apply in_split in H as (l1 & l2 & ->). exists l1, l2, [].
  rewrite <- app_assoc. reflexivity.
Qed.

Definition good (g : graph) (S : list entry) (e : entry) : Prop :=
  forall d, In d (snd e) -> In d (keys g) -> before (keys S) d (fst e) \/ reach g d (fst e).

Lemma good_app g S m e : good g S e -> good g (S ++ m) e.
Proof.
  intros H d H1 H2. destruct (H d H1 H2) as [B|R]; [left|right; exact R].
  unfold keys. rewrite map_app. apply before_app. exact B.
Qed.

(* invariant tying processed to finished (black) + in progress (grey) *)
Definition pinv (S : list entry) (P G : list node) : Prop :=
  forall x, memN x P = true <-> In x (keys S) \/ In x G.

Record post (g : graph) (S : list entry) (P : list node) (S' : list entry) (P' G : list node)
            (newS : list entry) : Prop := {
  po_app : S' = S ++ newS;
  po_inv : pinv S' P' G;
  po_good : forall e, In e newS -> good g S' e /\ lookup g (fst e) = Some (snd e);
  po_fresh : forall x, In x (keys newS) -> memN x P = false;
  po_nodup : NoDup (keys S) -> NoDup (keys S')
}.

Lemma NoDup_app_snoc (l : list node) x : NoDup l -> ~ In x l -> NoDup (l ++ [x]).
Proof.
  induction l as [|y l IH]; cbn; intros ND Hn.
  - constructor; [intros []|constructor].
  - inversion ND; subst. constructor.
    + rewrite in_app_iff. cbn. intuition.
    + apply IH; auto.
Qed.

Lemma keys_app (a b : list entry) : keys (a ++ b) = keys a ++ keys b.
Proof. apply map_app. Qed.

Lemma sort_r_inv f : forall g S P key deps G S' P',
  lookup g key = Some deps ->
  (forall x, In x G -> reach g x key) ->
  pinv S P G ->
  sort_r f g (S, P) key deps = Some (S', P') ->
  exists newS, post g S P S' P' G newS /\ (In key (keys S') \/ In key G).
Proof.
  induction f as [|f IH]; intros g S P key deps G S' P' Hl HG Hinv Hrun; [discriminate|].
  rewrite sort_r_S in Hrun. cbn [fst snd] in Hrun.
  destruct (memN key P) eqn:Em.
  - inversion Hrun; subst. exists []. split.
    + constructor; auto.
      * symmetry; apply app_nil_r.
      * intros e [].
      * intros x [].
    + apply Hinv. exact Em.
  - (* the loop, with key grey *)
    assert (L : forall ds S1 P1 S2 P2,
              incl ds deps ->
              pinv S1 P1 (key :: G) ->
              deps_loop f g ds (S1, P1) = Some (S2, P2) ->
              exists newS, post g S1 P1 S2 P2 (key :: G) newS /\
                (forall d, In d ds -> In d (keys g) -> In d (keys S2) \/ In d (key :: G))).
    { induction ds as [|d ds IHd]; intros S1 P1 S2 P2 Hin Hi Hr; cbn in Hr.
      - inversion Hr; subst. exists []. split.
        + constructor; auto.
          * symmetry; apply app_nil_r.
          * intros e [].
          * intros x [].
        + intros d [].
      - assert (Hin' : incl ds deps) by (intros y Hy; apply Hin; right; exact Hy).
        destruct (lookup g d) as [dd|] eqn:El.
        + destruct (sort_r f g (S1, P1) d dd) as [[Sm Pm]|] eqn:Er; [|discriminate].
          destruct (IH g S1 P1 d dd (key :: G) Sm Pm El) as (n1 & Po1 & Hd1); auto.
          { intros x [<-|Hx].
            - apply reach1. exists deps. repeat split; auto.
              + apply Hin. left. reflexivity.
              + apply lookup_key. congruence.
            - eapply reach_snoc; [apply HG; exact Hx|].
              exists deps. repeat split; auto.
              + apply Hin. left. reflexivity.
              + apply lookup_key. congruence. }
          destruct (IHd Sm Pm S2 P2 Hin' (po_inv _ _ _ _ _ _ _ Po1) Hr) as (n2 & Po2 & Hd2).
          exists (n1 ++ n2). split.
          * constructor.
            -- rewrite (po_app _ _ _ _ _ _ _ Po2), (po_app _ _ _ _ _ _ _ Po1). apply app_assoc_reverse.
            -- exact (po_inv _ _ _ _ _ _ _ Po2).
            -- intros e He. apply in_app_or in He as [He|He].
               ++ destruct (po_good _ _ _ _ _ _ _ Po1 e He) as [Gd Lk]. split; [|exact Lk].
                  rewrite (po_app _ _ _ _ _ _ _ Po2). apply good_app. exact Gd.
               ++ exact (po_good _ _ _ _ _ _ _ Po2 e He).
            -- intros x Hx. rewrite keys_app in Hx. apply in_app_or in Hx as [Hx|Hx].
               ++ exact (po_fresh _ _ _ _ _ _ _ Po1 x Hx).
               ++ pose proof (po_fresh _ _ _ _ _ _ _ Po2 x Hx) as Hf.
                  destruct (memN x P1) eqn:E1; [|reflexivity].
                  apply Hi in E1. assert (memN x Pm = true); [|congruence].
                  apply (po_inv _ _ _ _ _ _ _ Po1). rewrite (po_app _ _ _ _ _ _ _ Po1), keys_app.
                  destruct E1 as [E1|E1]; [left; apply in_or_app; left; exact E1|right; exact E1].
            -- intro ND. apply (po_nodup _ _ _ _ _ _ _ Po2), (po_nodup _ _ _ _ _ _ _ Po1), ND.
          * intros y [<-|Hy] Hk.
            -- destruct Hd1 as [Hd1|Hd1]; [left|right; exact Hd1].
               rewrite (po_app _ _ _ _ _ _ _ Po2), keys_app. apply in_or_app. left. exact Hd1.
            -- apply Hd2; auto.
        + destruct (IHd S1 P1 S2 P2 Hin' Hi Hr) as (n2 & Po2 & Hd2).
          exists n2. split; [exact Po2|].
          intros y [<-|Hy] Hk.
          * apply lookup_key in Hk. congruence.
          * apply Hd2; auto. }
    destruct (deps_loop f g deps (S, key :: P)) as [[S2 P2]|] eqn:El; [|discriminate].
    cbn [fst snd] in Hrun. inversion Hrun; subst S' P'. clear Hrun.
    assert (Hi1 : pinv S (key :: P) (key :: G)).
    { intro x. cbn [memN In]. rewrite orb_true_iff, N.eqb_eq, (Hinv x). tauto. }
    destruct (L deps S (key :: P) S2 P2 (incl_refl _) Hi1 El) as (n & Po & Hd).
    assert (HkS : ~ In key (keys S)).
    { intro H. assert (memN key P = true) by (apply Hinv; left; exact H). congruence. }
    assert (HkS2 : ~ In key (keys S2)).
    { rewrite (po_app _ _ _ _ _ _ _ Po), keys_app. intro H. apply in_app_or in H as [H|H]; [auto|].
      pose proof (po_fresh _ _ _ _ _ _ _ Po key H) as Hf. cbn in Hf. rewrite N.eqb_refl in Hf. discriminate. }
    exists (n ++ [(key, deps)]). split.
    + constructor.
      * rewrite (po_app _ _ _ _ _ _ _ Po). apply app_assoc_reverse.
      * intro x. rewrite (po_inv _ _ _ _ _ _ _ Po x), keys_app. cbn. rewrite in_app_iff. cbn. tauto.
      * intros e He. apply in_app_or in He as [He|[<-|[]]].
        -- destruct (po_good _ _ _ _ _ _ _ Po e He) as [Gd Lk]. split; [apply good_app; exact Gd|exact Lk].
        -- split; [|exact Hl]. intros d Hdd Hdk. cbn [fst snd] in *.
           destruct (Hd d Hdd Hdk) as [H|[<-|H]].
           ++ left. rewrite keys_app. cbn. apply before_snoc. exact H.
           ++ right. apply reach1. exists deps. auto.
           ++ right. apply HG. exact H.
      * intros x Hx. rewrite keys_app in Hx. apply in_app_or in Hx as [Hx|[<-|[]]].
        -- pose proof (po_fresh _ _ _ _ _ _ _ Po x Hx) as Hf. cbn in Hf.
           apply orb_false_iff in Hf. tauto.
        -- exact Em.
      * intro ND. rewrite keys_app. cbn.
        apply NoDup_app_snoc; [apply (po_nodup _ _ _ _ _ _ _ Po ND)|exact HkS2].
    + left. rewrite keys_app. apply in_or_app. right. left. reflexivity.
Qed.

(* ------------------------------------------------------------------ *)
(* the top-level loop and the theorems                                 *)
(* ------------------------------------------------------------------ *)

Lemma top_loop_inv fuel g : NoDup (keys g) -> forall items S P S' P',
  incl items g ->
  pinv S P [] -> NoDup (keys S) ->
  (forall e, In e S -> good g S e /\ lookup g (fst e) = Some (snd e)) ->
  top_loop fuel g items (S, P) = Some (S', P') ->
  pinv S' P' [] /\ NoDup (keys S') /\
  (forall e, In e S' -> good g S' e /\ lookup g (fst e) = Some (snd e)) /\
  (forall x, In x (keys S) \/ In x (keys items) -> In x (keys S')).
Proof.
  intros NDg. induction items as [|[k d] rest IH]; intros S P S' P' Hincl Hi ND HG Hr; cbn [top_loop] in Hr.
  - inversion Hr; subst. split; [exact Hi|split; [exact ND|split; [exact HG|]]].
    intros x [H|[]]. exact H.
  - destruct (sort_r fuel g (S, P) k d) as [[S1 P1]|] eqn:E1; [|discriminate].
    assert (Hl : lookup g k = Some d).
    { apply lookup_nodup; auto. apply Hincl. left. reflexivity. }
    destruct (sort_r_inv fuel g S P k d [] S1 P1 Hl) as (n & Po & Hk); auto.
    { intros x []. }
    assert (HG1 : forall e, In e S1 -> good g S1 e /\ lookup g (fst e) = Some (snd e)).
    { intros e He. rewrite (po_app _ _ _ _ _ _ _ Po) in He. apply in_app_or in He as [He|He].
      - destruct (HG e He) as [A B]. split; [|exact B].
        rewrite (po_app _ _ _ _ _ _ _ Po). apply good_app. exact A.
      - exact (po_good _ _ _ _ _ _ _ Po e He). }
    destruct (IH S1 P1 S' P') as (A & B & C & D); auto.
    { intros e He. apply Hincl. right. exact He. }
    { exact (po_inv _ _ _ _ _ _ _ Po). }
    { exact (po_nodup _ _ _ _ _ _ _ Po ND). }
    split; [exact A|split; [exact B|split; [exact C|]]].
    intros x [H|[<-|H]].
    + apply D. left. rewrite (po_app _ _ _ _ _ _ _ Po), keys_app. apply in_or_app. left. exact H.
    + apply D. left. cbn [fst]. destruct Hk as [Hk|[]]. exact Hk.
    + apply D. right. exact H.
Qed.

Record sorted_spec (g : graph) (out : list entry) : Prop := {
  ss_nodup : NoDup (keys out);
  ss_good : forall e, In e out -> good g out e /\ lookup g (fst e) = Some (snd e);
  ss_all : forall x, In x (keys g) -> In x (keys out)
}.

Lemma dependency_sort_spec g : NoDup (keys g) -> sorted_spec g (dependency_sort g).
Proof.
  intro ND. destruct (depsort_terminates_l g) as (r & E).
  rewrite (dependency_sort_eq _ _ E). unfold dependency_sort_opt in E.
  destruct (top_loop (S (length g)) g g ([], [])) as [[S' P']|] eqn:Et; [|discriminate].
  inversion E; subst r. cbn [fst].
  destruct (top_loop_inv (S (length g)) g ND g [] [] S' P') as (A & B & C & D); auto.
  - apply incl_refl.
  - intro x. cbn. split; [discriminate|tauto].
  - constructor.
  - intros e [].
  - constructor; auto.
Qed.

Lemma nodup_keys_nodup (l : list entry) : NoDup (keys l) -> NoDup l.
Proof. apply NoDup_map_inv. Qed.

Lemma depsort_permutation_l : forall g, NoDup (keys g) -> Permutation (dependency_sort g) g.
Proof.
  intros g ND. destruct (dependency_sort_spec g ND) as [A B C].
  apply NoDup_Permutation; try (apply nodup_keys_nodup; assumption).
  intros [k d]. split; intro H.
  - apply lookup_In. exact (proj2 (B _ H)).
  - assert (Hk : In k (keys (dependency_sort g))).
    { apply C. apply (in_map fst) in H. exact H. }
    unfold keys in Hk. apply in_map_iff in Hk as ([k' d'] & Ek & Hin). cbn in Ek. subst k'.
    pose proof (proj2 (B _ Hin)) as L1. cbn in L1.
    rewrite (lookup_nodup g k d ND H) in L1. inversion L1; subst. exact Hin.
Qed.

Lemma depsort_keys_permutation_l : forall g,
  NoDup (keys g) -> Permutation (keys (dependency_sort g)) (keys g).
Proof. intros g ND. apply Permutation_map, depsort_permutation_l, ND. Qed.

(* all graphs, cyclic or not: a direct dependency that has its own entry comes
   first unless it depends (transitively) on the dependent itself *)
Lemma depsort_dependencies_first_l : forall g k dk d,
  NoDup (keys g) -> In (k, dk) g -> In d dk -> In d (keys g) ->
  before (keys (dependency_sort g)) d k \/ reach g d k.
Proof.
  intros g k dk d ND Hin Hd Hk.
  destruct (dependency_sort_spec g ND) as [A B C].
  assert (Hout : In (k, dk) (dependency_sort g)).
  { eapply Permutation_in; [apply Permutation_sym, depsort_permutation_l, ND|exact Hin]. }
  exact (proj1 (B _ Hout) d Hd Hk).
Qed.

Definition acyclic (g : graph) : Prop := forall x, ~ reach g x x.

Lemma depsort_topological_l : forall g k dk d,
  NoDup (keys g) -> acyclic g -> In (k, dk) g -> In d dk -> In d (keys g) ->
  before (keys (dependency_sort g)) d k.
Proof.
  intros g k dk d ND AC Hin Hd Hk.
  destruct (depsort_dependencies_first_l g k dk d ND Hin Hd Hk) as [B|R]; [exact B|].
  exfalso. apply (AC k). eapply reachS; [|exact R].
  exists dk. repeat split; auto. apply lookup_nodup; auto.
Qed.

(* before is transitive on duplicate-free lists *)
Lemma before_trans l a b c : NoDup l -> before l a b -> before l b c -> before l a c.
Proof.
  intros ND (l1 & l2 & l3 & E1) (m1 & m2 & m3 & E2).
  (* b occurs once: the two decompositions around b coincide *)
  assert (Hb : l1 ++ a :: l2 = m1 /\ l3 = m2 ++ c :: m3).
  { subst l.
    replace (l1 ++ a :: l2 ++ b :: l3) with ((l1 ++ a :: l2) ++ b :: l3) in *
      by (rewrite <- app_assoc; reflexivity).
    revert ND E2. generalize (l1 ++ a :: l2) as p. intros p. revert m1.
    induction p as [|x p IH]; intros m1 ND E2.
    - destruct m1 as [|y m1]; cbn in *.
      + inversion E2; auto.
      + inversion E2; subst. exfalso. inversion ND as [|? ? Hn _]; subst. apply Hn.
        apply in_or_app. right. left. reflexivity.
    - destruct m1 as [|y m1]; cbn in *.
      + inversion E2; subst. exfalso. inversion ND as [|? ? Hn _]; subst. apply Hn.
        apply in_or_app. right. left. reflexivity.
      + inversion E2; subst. inversion ND; subst.
        destruct (IH m1) as [A B]; auto. subst. auto. }
  destruct Hb as [<- ->]. exists l1, (l2 ++ b :: m2), m3.
  subst l. rewrite <- !app_assoc. cbn. reflexivity.
Qed.

(* acyclic graphs: every transitive dependency comes first *)
Lemma depsort_topological_trans_l : forall g k d,
  NoDup (keys g) -> acyclic g -> reach g k d ->
  before (keys (dependency_sort g)) d k.
Proof.
  intros g k d ND AC R.
  pose proof (ss_nodup _ _ (dependency_sort_spec g ND)) as NDo.
  induction R as [x y (dx & L & Hin & Hk)|x y z (dx & L & Hin & Hk) R IH].
  - apply (depsort_topological_l g x dx y ND AC (lookup_In _ _ _ L) Hin Hk).
  - eapply before_trans; [exact NDo|exact IH|].
    apply (depsort_topological_l g x dx y ND AC (lookup_In _ _ _ L) Hin Hk).
Qed.

(* the docstring's stronger claim ("if B depends directly or indirectly on A and
   they are not part of the same cycle then A comes before B") does not hold on
   graphs with cycles: k -> x -> k, x -> d, started at x. *)
Definition docstring_counterexample : graph :=
  [(1, [2; 3]); (2, [1]); (3, [])]%N.

Lemma depsort_docstring_transitive_refuted_l :
  exists g k d, NoDup (keys g) /\ reach g k d /\ ~ reach g d k /\
                before (keys (dependency_sort g)) k d.
Proof.
  exists docstring_counterexample, 2%N, 3%N. split; [|split; [|split]].
  - repeat constructor; cbn; intuition discriminate.
  - eapply reachS; [exists [1%N]|apply reach1; exists [2%N; 3%N]]; cbn; intuition.
  - intro R. inversion R as [? ? (dx & L & Hin & _)|? ? ? (dx & L & Hin & _) _]; subst;
      cbn in L; inversion L; subst; destruct Hin.
  - exists [], [], [1%N]. vm_compute. reflexivity.
Qed.
