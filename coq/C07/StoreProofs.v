(* C07 (5) -- the merges of Schema.dereference in dependency_sort order. *)
From Coq Require Import Permutation.
From SV Require Import Lib.Base C07.DepSort C07.DepSortProofs C07.Store.

Lemma get_set st x o y : get (set st x o) y = if N.eqb x y then o else get st y.
Proof. reflexivity. Qed.

(* a step only writes its own key, and nothing at all when the entry has no dependency *)
Lemma step_frame st e y : (fst e <> y \/ snd e = []) -> get (step st e) y = get st y.
Proof.
  intros H. unfold step. destruct (snd e) as [|d dk] eqn:E; [reflexivity|].
  destruct H as [H|H]; [|discriminate]. rewrite get_set.
  destruct (N.eqb (fst e) y) eqn:Eq; [apply N.eqb_eq in Eq; contradiction|reflexivity].
Qed.

Lemma fold_frame : forall order st y,
  (forall e, In e order -> fst e <> y \/ snd e = []) ->
  get (merge_in_order order st) y = get st y.
Proof.
  induction order as [|e order IH]; intros st y H; [reflexivity|].
  cbn [merge_in_order fold_left]. fold (merge_in_order order (step st e)).
  rewrite IH by (intros e' He'; apply H; right; exact He').
  apply step_frame. apply H. left. reflexivity.
Qed.

Lemma fold_frame_keys order st y : ~ In y (keys order) -> get (merge_in_order order st) y = get st y.
Proof.
  intro Hn. apply fold_frame. intros e He. left. intro E. apply Hn. subst y.
  apply (in_map fst) in He. exact He.
Qed.

Lemma merge_in_order_app a b st : merge_in_order (a ++ b) st = merge_in_order b (merge_in_order a st).
Proof. apply fold_left_app. Qed.

Lemma NoDup_app_mid (l1 l2 : list node) x : NoDup (l1 ++ x :: l2) -> ~ In x l1 /\ ~ In x l2.
Proof.
  intro ND. apply NoDup_remove_2 in ND. split; intro H; apply ND; apply in_or_app; auto.
Qed.

Lemma NoDup_app_disjoint (l1 l2 : list node) y : NoDup (l1 ++ l2) -> In y l1 -> ~ In y l2.
Proof.
  induction l1 as [|a l1 IH]; cbn; intros ND Hy; [destruct Hy|].
  inversion ND as [|? ? Hn ND']; subst. destruct Hy as [->|Hy].
  - intro Hy2. apply Hn. apply in_or_app. right. exact Hy2.
  - apply IH; assumption.
Qed.

(* in a duplicate-free list, what comes before x lies in the part left of x *)
Lemma before_in_prefix (l1 l2 : list node) d x :
  NoDup (l1 ++ x :: l2) -> before (l1 ++ x :: l2) d x -> In d l1.
Proof.
  intros ND (m1 & m2 & m3 & E).
  assert (H : forall (p p' s s' : list node), NoDup (p ++ x :: s) -> p ++ x :: s = p' ++ x :: s' -> p = p').
  { induction p as [|a p IH]; intros p' s s' N Eq.
    - destruct p' as [|b p']; [reflexivity|]. cbn in Eq. inversion Eq; subst.
      exfalso. inversion N as [|? ? Hn _]; subst. apply Hn. apply in_or_app. right. left. reflexivity.
    - destruct p' as [|b p'].
      + cbn in Eq. inversion Eq; subst. exfalso. inversion N as [|? ? Hn _]; subst.
        apply Hn. apply in_or_app. right. left. reflexivity.
      + cbn in Eq. inversion Eq; subst. inversion N; subst. f_equal. eapply IH; eauto. }
  replace (m1 ++ d :: m2 ++ x :: m3) with ((m1 ++ d :: m2) ++ x :: m3) in E
    by (rewrite <- app_assoc; reflexivity).
  rewrite (H _ _ _ _ ND E). apply in_or_app. right. left. reflexivity.
Qed.

(* the equation an object satisfies once everything is resolved *)
Definition resolved (st0 fin : store) (e : entry) : Prop :=
  get fin (fst e) = match snd e with
                    | [] => get st0 (fst e)
                    | d :: _ => merge_obj (get st0 (fst e)) (get fin d)
                    end.

(* the general statement about a merge order in which every dependency that is a
   key comes before its dependent *)
Lemma merges_resolve : forall order st0,
  NoDup (keys order) ->
  (forall done x dk rest d dk', order = done ++ (x, d :: dk') :: rest -> dk = d :: dk' ->
     In d (keys order) -> In d (keys done)) ->
  forall e, In e order -> resolved st0 (merge_in_order order st0) e.
Proof.
  intros order st0 ND TOPO [x dk] Hin. unfold resolved. cbn [fst snd].
  apply in_split in Hin as (done & rest & E).
  assert (NDs : NoDup (keys done ++ x :: keys rest)).
  { subst order. unfold keys in *. rewrite map_app in ND. exact ND. }
  destruct (NoDup_app_mid _ _ _ NDs) as [Hxd Hxr].
  rewrite E at 1. rewrite merge_in_order_app. cbn [merge_in_order fold_left].
  fold (merge_in_order rest (step (merge_in_order done st0) (x, dk))).
  rewrite (fold_frame_keys rest _ x Hxr).
  destruct dk as [|d dk'].
  - cbn [step snd]. apply fold_frame_keys. exact Hxd.
  - unfold step. cbn [snd fst]. rewrite get_set, N.eqb_refl.
    rewrite (fold_frame_keys done st0 x Hxd). f_equal.
    (* the dependency is final already *)
    assert (Hd : ~ In d (x :: keys rest)).
    { destruct (in_dec N.eq_dec d (keys order)) as [Hk|Hk].
      - pose proof (TOPO done x (d :: dk') rest d dk' E eq_refl Hk) as Hdone.
        apply (NoDup_app_disjoint _ _ _ NDs Hdone).
      - intro H. apply Hk. subst order. unfold keys. rewrite map_app. apply in_or_app. right. exact H. }
    rewrite E. rewrite merge_in_order_app. cbn [merge_in_order fold_left].
    fold (merge_in_order rest (step (merge_in_order done st0) (x, d :: dk'))).
    rewrite (fold_frame_keys rest _ d) by (intro H; apply Hd; right; exact H).
    rewrite step_frame; [reflexivity|]. left. cbn. intro Hx. apply Hd. left. exact Hx.
Qed.

(* Schema.dereference: unique objects, acyclic dependencies *)
Lemma deref_sorted_is_resolution_l : forall st0 g,
  NoDup (keys g) -> acyclic g ->
  (forall e, In e g -> resolved st0 (dereference st0 g) e) /\
  (forall y, ~ In y (keys g) -> get (dereference st0 g) y = get st0 y).
Proof.
  intros st0 g ND AC. unfold dereference.
  pose proof (depsort_permutation_l g ND) as HP.
  assert (HPk : Permutation (keys (dependency_sort g)) (keys g)) by (apply Permutation_map; exact HP).
  assert (NDo : NoDup (keys (dependency_sort g))).
  { eapply Permutation_NoDup; [apply Permutation_sym; exact HPk|exact ND]. }
  split.
  - intros e He. apply merges_resolve; auto.
    + intros done x dk rest d dk' E Edk Hk.
      assert (Hing : In (x, d :: dk') g).
      { eapply Permutation_in; [exact HP|]. rewrite E. apply in_or_app. right. left. reflexivity. }
      assert (Hkg : In d (keys g)) by (eapply Permutation_in; [exact HPk|exact Hk]).
      pose proof (depsort_topological_l g x (d :: dk') d ND AC Hing (or_introl eq_refl) Hkg) as B.
      assert (Ek : keys (dependency_sort g) = keys done ++ x :: keys rest).
      { rewrite E. unfold keys. rewrite map_app. reflexivity. }
      rewrite Ek in B, NDo. eapply before_in_prefix; eauto.
    + eapply Permutation_in; [apply Permutation_sym; exact HP|exact He].
  - intros y Hy. apply fold_frame_keys. intro H. apply Hy. eapply Permutation_in; [exact HPk|exact H].
Qed.

(* when no merge target has a dependency of its own (every schema XSD allows:
   references point at global definitions, extensions at types), ANY order of the
   merges gives the same store: each object merged with its ORIGINAL target *)
Lemma merge_any_order_when_targets_stable_l : forall order st0,
  NoDup (keys order) ->
  (forall x d dk, In (x, d :: dk) order -> forall dd, In (d, dd) order -> dd = []) ->
  forall e, In e order ->
    get (merge_in_order order st0) (fst e) =
    match snd e with
    | [] => get st0 (fst e)
    | d :: _ => merge_obj (get st0 (fst e)) (get st0 d)
    end.
Proof.
  intros order st0 ND Stable [x dk] Hin. cbn [fst snd].
  pose proof Hin as Hin0.
  apply in_split in Hin as (done & rest & E).
  assert (NDs : NoDup (keys done ++ x :: keys rest)).
  { subst order. unfold keys in *. rewrite map_app in ND. exact ND. }
  destruct (NoDup_app_mid _ _ _ NDs) as [Hxd Hxr].
  rewrite E. rewrite merge_in_order_app. cbn [merge_in_order fold_left].
  fold (merge_in_order rest (step (merge_in_order done st0) (x, dk))).
  rewrite (fold_frame_keys rest _ x Hxr).
  destruct dk as [|d dk'].
  - cbn [step snd]. apply fold_frame_keys. exact Hxd.
  - unfold step. cbn [snd fst]. rewrite get_set, N.eqb_refl.
    rewrite (fold_frame_keys done st0 x Hxd). f_equal.
    apply fold_frame. intros [y dy] Hy. cbn [fst snd].
    destruct (N.eq_dec y d) as [->|Hne]; [right|left; exact Hne].
    apply (Stable x d dk' Hin0). rewrite E. apply in_or_app. left. exact Hy.
Qed.

(* why the order matters as soon as a target has a dependency of its own: group
   reference 3 -> named group 2, itself written as a reference -> group 1 with one
   member (object 10).  Merging 3 before 2 leaves 3 without members. *)
Definition chain_store : store :=
  [(1, mkO ClsGroup None None None (Some 71) None None false [10]);
   (2, mkO ClsGroup None None None (Some 72) None None false []);
   (3, mkO ClsGroup None None None None None None false [])]%N.
Definition chain_graph : graph := [(3, [2]); (2, [1]); (1, [])]%N.

Lemma acyclic_by_rank (g : graph) (r : node -> nat) :
  (forall x d, edge g x d -> r d < r x) -> acyclic g.
Proof.
  intros H x R.
  assert (L : forall a b, reach g a b -> r b < r a).
  { induction 1 as [a b E|a b c E _ IH]; [apply H; exact E|].
    pose proof (H a b E). lia. }
  pose proof (L x x R). lia.
Qed.

Lemma chain_graph_acyclic : acyclic chain_graph.
Proof.
  apply (acyclic_by_rank chain_graph N.to_nat).
  intros x d (dx & L & Hin & _). unfold chain_graph, lookup in L.
  destruct (N.eqb 3 x) eqn:E3.
  - apply N.eqb_eq in E3. subst x. inversion L; subst dx. destruct Hin as [Hd|Hd].
    + subst d. cbn. lia.
    + destruct Hd.
  - destruct (N.eqb 2 x) eqn:E2.
    + apply N.eqb_eq in E2. subst x. inversion L; subst dx. destruct Hin as [Hd|Hd].
      * subst d. cbn. lia.
      * destruct Hd.
    + destruct (N.eqb 1 x); [|discriminate L]. inversion L; subst dx. destruct Hin.
Qed.

Lemma deref_wrong_order_refuted_l :
  NoDup (keys chain_graph) /\ acyclic chain_graph /\
  o_kids (get (dereference chain_store chain_graph) 3%N) = [10%N] /\
  (exists order, Permutation order chain_graph /\
                 o_kids (get (merge_in_order order chain_store) 3%N) = [] /\
                 ~ resolved chain_store (merge_in_order order chain_store) (3, [2])%N).
Proof.
  split; [repeat constructor; cbn; intuition discriminate|].
  split; [apply chain_graph_acyclic|].
  split; [reflexivity|].
  exists [(3, [2]); (2, [1]); (1, [])]%N. split; [apply Permutation_refl|]. split; [reflexivity|].
  unfold resolved. vm_compute. discriminate.
Qed.
