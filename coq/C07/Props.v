(* C07 -- the meaning of a schema does not depend on how it is written down.
   Property theorems only: each is closed by `exact` of a lemma proved in the
   *Proofs files and followed by Print Assumptions. *)
From Coq Require Import Permutation.
From SV Require Import Lib.Base C07.DepSort C07.DepSortProofs C07.Qualify C07.QualifyProofs.

(* ------------------------------------------------------------------ *)
(* (1) the dependency ordering underneath: ALL graphs, no size bound    *)
(* ------------------------------------------------------------------ *)

(* The recursion of _sort_r never runs out: |g|+1 levels always suffice, for
   cyclic graphs and graphs with dangling edges alike. *)
Theorem depsort_terminates : forall g, exists r, dependency_sort_opt g = Some r.
Proof. exact depsort_terminates_l. Qed.
Print Assumptions depsort_terminates.

(* The result is a rearrangement of the dict's items: every (key, deps) entry
   exactly once, as given. *)
Theorem depsort_permutation : forall g,
  NoDup (keys g) -> Permutation (dependency_sort g) g.
Proof. exact depsort_permutation_l. Qed.
Print Assumptions depsort_permutation.

(* Any graph: a direct dependency d of k that has its own entry comes before k,
   unless d itself depends on k (both lie on one cycle). *)
Theorem depsort_dependencies_first : forall g k dk d,
  NoDup (keys g) -> In (k, dk) g -> In d dk -> In d (keys g) ->
  before (keys (dependency_sort g)) d k \/ reach g d k.
Proof. exact depsort_dependencies_first_l. Qed.
Print Assumptions depsort_dependencies_first.

(* Acyclic graphs (dangling edges allowed): a topological order, for direct ... *)
Theorem depsort_topological : forall g k dk d,
  NoDup (keys g) -> acyclic g -> In (k, dk) g -> In d dk -> In d (keys g) ->
  before (keys (dependency_sort g)) d k.
Proof. exact depsort_topological_l. Qed.
Print Assumptions depsort_topological.

(* ... and for indirect dependencies. *)
Theorem depsort_topological_transitive : forall g k d,
  NoDup (keys g) -> acyclic g -> reach g k d ->
  before (keys (dependency_sort g)) d k.
Proof. exact depsort_topological_trans_l. Qed.
Print Assumptions depsort_topological_transitive.

(* The docstring of dependency_sort promises more for cyclic graphs ("if B depends
   directly or indirectly on A and they are not both part of one cycle then A
   comes before B"); that is false for the algorithm: {1:[2,3], 2:[1], 3:[]}
   yields 2, 3, 1 although 2 depends on 3 through 1 and 3 depends on nothing.
   (Not a schema-level defect: XSD forbids circular refs/derivations.) *)
Theorem depsort_docstring_transitive_refuted :
  exists g k d, NoDup (keys g) /\ reach g k d /\ ~ reach g d k /\
                before (keys (dependency_sort g)) k d.
Proof. exact depsort_docstring_transitive_refuted_l. Qed.
Print Assumptions depsort_docstring_transitive_refuted.

Example depsort_nonvacuous :
  let g := [(1, [2; 9]); (2, [3]); (3, []); (4, [1; 3])]%N in      (* 9 dangles *)
  NoDup (keys g) /\ dependency_sort g = [(3, []); (2, [3]); (1, [2; 9]); (4, [1; 3])]%N /\
  depsort_spec_ok (mkD g (Some (dependency_sort g))) = true.
Proof. split; [repeat constructor; cbn; intuition discriminate|split; reflexivity]. Qed.

(* ------------------------------------------------------------------ *)
(* (2) qualified references                                             *)
(* ------------------------------------------------------------------ *)

(* qualify computes exactly the XML-Namespaces expansion of the QName under the
   in-scope declarations (built from the root inwards), so its result depends on
   nothing else in the document. *)
Theorem qualify_is_expansion : forall ref f c tns,
  xml_ok (f :: c) = true ->
  so_qualify ref (f :: c) tns =
  expand ref (in_scope (f :: c))
         (match en_default (in_scope (f :: c)) with Some u => Some u | None => tns end).
Proof. exact so_qualify_is_expansion_l. Qed.
Print Assumptions qualify_is_expansion.

(* Renaming every prefix of a document consistently (declarations and uses, any
   injective renaming that keeps `xml`) changes no reference. *)
Theorem qualify_prefix_independent :
  forall (r : prefix -> prefix),
  (forall a b, r a = r b -> a = b) ->
  (forall a, has_colon a = false -> has_colon (r a) = false) ->
  r s_xml = s_xml ->
  forall ref c tns,
    so_qualify (rename_ref r ref) (map (rename_frame r) c) tns = so_qualify ref c tns /\
    wsdl_qualify (rename_ref r ref) (map (rename_frame r) c) tns = wsdl_qualify ref c tns.
Proof. exact qualify_prefix_independent_l. Qed.
Print Assumptions qualify_prefix_independent.

(* Default namespace versus prefix: the same reference. *)
Theorem qualify_default_vs_prefix : forall p n c tns u,
  has_colon p = false -> has_colon n = false ->
  default_namespace c = Some u -> resolve_prefix p c = Some u ->
  so_qualify (p ++ ch_colon :: n) c tns = so_qualify n c tns.
Proof. exact qualify_default_vs_prefix_l. Qed.
Print Assumptions qualify_default_vs_prefix.

(* Two spellings, each in its own context, that expand to the same name are the
   same reference. *)
Theorem qualify_depends_on_expansion_only : forall ref1 f1 c1 ref2 f2 c2 t1 t2,
  xml_ok (f1 :: c1) = true -> xml_ok (f2 :: c2) = true ->
  expand ref1 (in_scope (f1 :: c1))
    (match en_default (in_scope (f1 :: c1)) with Some u => Some u | None => t1 end) =
  expand ref2 (in_scope (f2 :: c2))
    (match en_default (in_scope (f2 :: c2)) with Some u => Some u | None => t2 end) ->
  so_qualify ref1 (f1 :: c1) t1 = so_qualify ref2 (f2 :: c2) t2.
Proof. exact qualify_depends_on_expansion_only_l. Qed.
Print Assumptions qualify_depends_on_expansion_only.

Example qualify_nonvacuous :
  let c := [mkF [([116]%N, 7%N)] None; mkF [([116]%N, 5%N); ([117]%N, 7%N)] (Some 7%N)] in
  xml_ok c = true /\
  so_qualify [116; 58; 65]%N c None = QOk [65]%N (Some 7%N) /\        (* t:A, inner t wins *)
  so_qualify [117; 58; 65]%N c None = QOk [65]%N (Some 7%N) /\        (* u:A *)
  so_qualify [65]%N c None = QOk [65]%N (Some 7%N) /\                 (* A, default ns *)
  so_qualify [122; 58; 65]%N c None = QUnresolved.                    (* z:A *)
Proof. repeat split; reflexivity. Qed.
