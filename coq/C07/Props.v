(* C07 -- the meaning of a schema does not depend on how it is written down.
   Property theorems only: each is closed by `exact` of a lemma proved in the
   *Proofs files and followed by Print Assumptions. *)
From Coq Require Import Permutation.
From SV Require Import Lib.Base C07.DepSort C07.DepSortProofs C07.Qualify C07.QualifyProofs.

(* ------------------------------------------------------------------ *)
(* (1) the dependency ordering underneath: ALL graphs, no size bound    *)
(* ------------------------------------------------------------------ *)

(* The recursion of _sort_r never runs out: |g|+1 levels always suffice, for
   cyclic graphs and graphs with dangling edges alike. *)
Theorem depsort_terminates : forall g, exists r, dependency_sort_opt g = Some r.
Proof. exact depsort_terminates_l. Qed.
Print Assumptions depsort_terminates.

(* The result is a rearrangement of the dict's items: every (key, deps) entry
   exactly once, as given. *)
Theorem depsort_permutation : forall g,
  NoDup (keys g) -> Permutation (dependency_sort g) g.
Proof. exact depsort_permutation_l. Qed.
Print Assumptions depsort_permutation.

(* Any graph: a direct dependency d of k that has its own entry comes before k,
   unless d itself depends on k (both lie on one cycle). *)
Theorem depsort_dependencies_first : forall g k dk d,
  NoDup (keys g) -> In (k, dk) g -> In d dk -> In d (keys g) ->
  before (keys (dependency_sort g)) d k \/ reach g d k.
Proof. exact depsort_dependencies_first_l. Qed.
Print Assumptions depsort_dependencies_first.

(* Acyclic graphs (dangling edges allowed): a topological order, for direct ... *)
Theorem depsort_topological : forall g k dk d,
  NoDup (keys g) -> acyclic g -> In (k, dk) g -> In d dk -> In d (keys g) ->
  before (keys (dependency_sort g)) d k.
Proof. exact depsort_topological_l. Qed.
Print Assumptions depsort_topological.

(* ... and for indirect dependencies. *)
Theorem depsort_topological_transitive : forall g k d,
  NoDup (keys g) -> acyclic g -> reach g k d ->
  before (keys (dependency_sort g)) d k.
Proof. exact depsort_topological_trans_l. Qed.
Print Assumptions depsort_topological_transitive.

(* The docstring of dependency_sort promises more for cyclic graphs ("if B depends
   directly or indirectly on A and they are not both part of one cycle then A
   comes before B"); that is false for the algorithm: {1:[2,3], 2:[1], 3:[]}
   yields 2, 3, 1 although 2 depends on 3 through 1 and 3 depends on nothing.
   (Not a schema-level defect: XSD forbids circular refs/derivations.) *)
Theorem depsort_docstring_transitive_refuted :
  exists g k d, NoDup (keys g) /\ reach g k d /\ ~ reach g d k /\
                before (keys (dependency_sort g)) k d.
Proof. exact depsort_docstring_transitive_refuted_l. Qed.
Print Assumptions depsort_docstring_transitive_refuted.

Example depsort_nonvacuous :
  let g := [(1, [2; 9]); (2, [3]); (3, []); (4, [1; 3])]%N in      (* 9 dangles *)
  NoDup (keys g) /\ dependency_sort g = [(3, []); (2, [3]); (1, [2; 9]); (4, [1; 3])]%N /\
  depsort_spec_ok (mkD g (Some (dependency_sort g))) = true.
Proof. split; [repeat constructor; cbn; intuition discriminate|split; reflexivity]. Qed.

(* ------------------------------------------------------------------ *)
(* (2) qualified references                                             *)
(* ------------------------------------------------------------------ *)

(* qualify computes exactly the XML-Namespaces expansion of the QName under the
   in-scope declarations (built from the root inwards), so its result depends on
   nothing else in the document. *)
Theorem qualify_is_expansion : forall ref f c tns,
  xml_ok (f :: c) = true ->
  so_qualify ref (f :: c) tns =
  expand ref (in_scope (f :: c))
         (match en_default (in_scope (f :: c)) with Some u => Some u | None => tns end).
Proof. exact so_qualify_is_expansion_l. Qed.
Print Assumptions qualify_is_expansion.

(* Renaming every prefix of a document consistently (declarations and uses, any
   injective renaming that keeps `xml`) changes no reference. *)
Theorem qualify_prefix_independent :
  forall (r : prefix -> prefix),
  (forall a b, r a = r b -> a = b) ->
  (forall a, has_colon a = false -> has_colon (r a) = false) ->
  r s_xml = s_xml ->
  forall ref c tns,
    so_qualify (rename_ref r ref) (map (rename_frame r) c) tns = so_qualify ref c tns /\
    wsdl_qualify (rename_ref r ref) (map (rename_frame r) c) tns = wsdl_qualify ref c tns.
Proof. exact qualify_prefix_independent_l. Qed.
Print Assumptions qualify_prefix_independent.

(* Default namespace versus prefix: the same reference. *)
Theorem qualify_default_vs_prefix : forall p n c tns u,
  has_colon p = false -> has_colon n = false ->
  default_namespace c = Some u -> resolve_prefix p c = Some u ->
  so_qualify (p ++ ch_colon :: n) c tns = so_qualify n c tns.
Proof. exact qualify_default_vs_prefix_l. Qed.
Print Assumptions qualify_default_vs_prefix.

(* Two spellings, each in its own context, that expand to the same name are the
   same reference. *)
Theorem qualify_depends_on_expansion_only : forall ref1 f1 c1 ref2 f2 c2 t1 t2,
  xml_ok (f1 :: c1) = true -> xml_ok (f2 :: c2) = true ->
  expand ref1 (in_scope (f1 :: c1))
    (match en_default (in_scope (f1 :: c1)) with Some u => Some u | None => t1 end) =
  expand ref2 (in_scope (f2 :: c2))
    (match en_default (in_scope (f2 :: c2)) with Some u => Some u | None => t2 end) ->
  so_qualify ref1 (f1 :: c1) t1 = so_qualify ref2 (f2 :: c2) t2.
Proof. exact qualify_depends_on_expansion_only_l. Qed.
Print Assumptions qualify_depends_on_expansion_only.

Example qualify_nonvacuous :
  let c := [mkF [([116]%N, 7%N)] None; mkF [([116]%N, 5%N); ([117]%N, 7%N)] (Some 7%N)] in
  xml_ok c = true /\
  so_qualify [116; 58; 65]%N c None = QOk [65]%N (Some 7%N) /\        (* t:A, inner t wins *)
  so_qualify [117; 58; 65]%N c None = QOk [65]%N (Some 7%N) /\        (* u:A *)
  so_qualify [65]%N c None = QOk [65]%N (Some 7%N) /\                 (* A, default ns *)
  so_qualify [122; 58; 65]%N c None = QUnresolved.                    (* z:A *)
Proof. repeat split; reflexivity. Qed.

(* ------------------------------------------------------------------ *)
(* (4) the concrete schema: what is written vs. what it means           *)
(* ------------------------------------------------------------------ *)
From SV Require Import Fam.Schema C01.Marshal C07.Concrete C07.ConcreteProofs.

(* Lookups (elements, types, groups, attribute groups) do not depend on the
   order in which the consolidated declarations are listed. *)
Theorem tables_order_independent : forall l l' k q,
  Permutation l l' -> NoDup (map pkey l) -> lookup_decl k q l = lookup_decl k q l'.
Proof. exact tables_order_independent_l. Qed.
Print Assumptions tables_order_independent.

(* Hence every type flattens to the same members, in the same order, whatever
   the order of the top-level declarations. *)
Theorem declaration_order_independent : forall T T' f g q,
  Permutation T T' -> NoDup (map pkey T) -> flat_type T f g q = flat_type T' f g q.
Proof. exact declaration_order_independent_l. Qed.
Print Assumptions declaration_order_independent.

(* A model group in place = the same group factored out and referenced. *)
Theorem group_factoring_invariant : forall T f ns efd anc ch k opt kids q pl gname,
  lookup_decl KGroup q T = Some pl -> p_decl pl = DGroup gname (CCont k false kids) ->
  p_ns pl = ns -> p_efd pl = efd ->
  flat_cp T (S (S f)) ns efd anc ch (CGrp q opt) = flat_cp T (S f) ns efd anc ch (CCont k opt kids).
Proof. exact group_factoring_invariant_l. Qed.
Print Assumptions group_factoring_invariant.

(* A qualified element declared in place = a reference to the same global
   declaration (name, type, nillable, default from the declaration; occurrence
   from the reference). *)
Theorem ref_vs_inline_invariant : forall T f ns efd anc ch q pl nm ty nl dflt opt multi form,
  lookup_decl KElem q T = Some pl -> p_decl pl = DElem nm ty nl dflt ->
  p_ns pl = ns -> local_qual efd form = true ->
  flat_cp T (S f) ns efd anc ch (CRef q opt multi) =
  flat_cp T (S f) ns efd anc ch (CEl nm ty opt multi nl dflt form).
Proof. exact ref_vs_inline_invariant_l. Qed.
Print Assumptions ref_vs_inline_invariant.

Theorem attribute_group_factoring_invariant : forall T f q pl gname attrs r,
  lookup_decl KAGroup q T = Some pl -> p_decl pl = DAGroup gname attrs ->
  flat_attrs_c T (S f) attrs = Some r ->
  flat_attrs_c T (S (S f)) [CAGrp q] = Some r.
Proof. exact attribute_group_factoring_invariant_l. Qed.
Print Assumptions attribute_group_factoring_invariant.

(* An extension's members are the base's, then its own. *)
Theorem extension_prepends_base : forall T f g q pl nm b content attrs own oa be ba,
  lookup_decl KType q T = Some pl -> p_decl pl = DType nm (Some b) content attrs ->
  flat_cps T g (p_ns pl) (p_efd pl) content = Some own -> flat_attrs_c T g attrs = Some oa ->
  flat_type T f g b = Some (be, ba) ->
  flat_type T (S f) g q = Some (be ++ own, ba ++ oa).
Proof. exact extension_prepends_base_l. Qed.
Print Assumptions extension_prepends_base.

(* One versus several schema blocks.  The unguarded statement "a global element is
   qualified wherever it is written" is FALSE of the implementation (and of this
   model, which keeps the quirk): known finding
   C07:split-block-global-element-not-top-level. *)
Theorem global_element_qualified_partial : forall T q pl nm ty nl dflt,
  lookup_decl KElem q T = Some pl -> p_decl pl = DElem nm ty nl dflt ->
  (p_first pl || p_efd pl) = true ->
  global_elem_view T q = Some (p_ns pl, true, ty, nl).
Proof. exact global_element_qualified_partial_l. Qed.
Print Assumptions global_element_qualified_partial.

Theorem global_element_later_block_refuted :
  exists C q, (exists ns nm ty nl dflt efd pre post,
                  C = pre ++ mkBlock ns efd [DElem nm ty nl dflt] :: post /\ q = (ns, nm)) /\
              global_elem_view (placed_all C) q = Some (fst q, false, TBuiltin, false).
Proof. exact global_element_later_block_refuted_l. Qed.
Print Assumptions global_element_later_block_refuted.

(* A local element takes form=, else the elementFormDefault of the FIRST block of
   its namespace -- right wherever the blocks of a namespace agree; where they do
   not: known finding C07:same-namespace-blocks-elementFormDefault. *)
Theorem local_form_partial : forall T f ns efd anc ch nm ty o m n d fm,
  flat_cp T (S f) ns efd anc ch (CEl nm ty o m n d fm) =
  Some [FE (mkE nm ns (match fm with Some b => b | None => efd end) ty o m n d) anc ch].
Proof. exact local_form_partial_l. Qed.
Print Assumptions local_form_partial.

Theorem mixed_element_form_default_refuted :
  type_view efd_counterexample (1, 5)%N =
  Some ([FE (mkE 8 1 true TBuiltin false false false None) false false], [])%N.
Proof. exact mixed_element_form_default_refuted_l. Qed.
Print Assumptions mixed_element_form_default_refuted.

(* non-vacuity: a rendering with a group, an element reference, an attribute group
   and an extension flattens to what the plain rendering flattens to *)
Example concrete_nonvacuous :
  let plain := [mkBlock 1 true
    [DType 5 None [CCont KSeq false [CEl 10 TBuiltin false false true None None;
                                     CCont KChoice true [CEl 11 TBuiltin false true false None None]]]
                  [CAt (mkA 20 true None)];
     DType 6 (Some (1, 5)) [CCont KSeq false [CEl 12 (TNamed 1 5) true false false None None]] []]]%N in
  let fancy := [mkBlock 1 true
    [DType 6 (Some (1, 5)) [CGrp (1, 31) false] [];
     DGroup 30 (CCont KChoice false [CEl 11 TBuiltin false true false None None]);
     DElem 10 TBuiltin true None];
    mkBlock 1 true
    [DAGroup 32 [CAt (mkA 20 true None)];
     DGroup 31 (CCont KSeq false [CEl 12 (TNamed 1 5) true false false None (Some true)]);
     DType 5 None [CCont KSeq false [CRef (1, 10) false false; CGrp (1, 30) true]] [CAGrp (1, 32)]]]%N in
  type_view plain (1, 6)%N = type_view fancy (1, 6)%N /\
  type_view plain (1, 5)%N = type_view fancy (1, 5)%N /\
  exists v, type_view fancy (1, 6)%N = Some v /\ length (fst v) = 3%nat.
Proof. repeat split. eexists. split; reflexivity. Qed.

(* Schema.merge, table by table: the merged schema answers a lookup in a symbol
   space with self's entry if self has one IN THAT SPACE, else the other schema's. *)
Theorem schema_merge_is_union : forall self other k q,
  lookup_decl k q (merge_schema self other) =
  match lookup_decl k q self with Some r => Some r | None => lookup_decl k q other end.
Proof. exact schema_merge_is_union_l. Qed.
Print Assumptions schema_merge_is_union.

(* A name held in another table (an element Item next to an incoming type Item)
   never keeps an entry out. *)
Theorem merge_symbol_spaces_separate : forall self other k q,
  lookup_decl k q self = None ->
  lookup_decl k q (merge_schema self other) = lookup_decl k q other.
Proof. exact merge_symbol_spaces_separate_l. Qed.
Print Assumptions merge_symbol_spaces_separate.

(* ... whereas testing the element table while taking over types loses the type. *)
Theorem merge_wrong_table_refuted :
  exists self other q,
    lookup_decl KType q (merge_schema self other) <> None /\
    lookup_decl KType q (merge_schema_wrong_table self other) = None.
Proof. exact merge_wrong_table_refuted_l. Qed.
Print Assumptions merge_wrong_table_refuted.

(* SchemaCollection.merge over all namespaces (any number of blocks): the merged
   tables are exactly the declarations, each in its own symbol space -- which is
   what the flattened views above look names up in. *)
Theorem merged_tables_are_the_declarations : forall C k q,
  lookup_decl k q (merged_schema C) = lookup_decl k q (placed_all C).
Proof. exact merged_tables_are_the_declarations_l. Qed.
Print Assumptions merged_tables_are_the_declarations.

(* No schema is skipped: every declaration of every block of every namespace is
   found in the merged schema, in the table of its own symbol space. *)
Theorem merge_skips_no_schema : forall C p,
  NoDup (map pkey (placed_all C)) -> In p (placed_all C) ->
  lookup_decl (decl_kind (p_decl p)) (p_ns p, decl_name (p_decl p)) (merged_schema C) = Some p.
Proof. exact merge_skips_no_schema_l. Qed.
Print Assumptions merge_skips_no_schema.

(* The order of schema blocks ACROSS namespaces: two adjacent blocks of different
   target namespaces may be swapped (all orders that keep each namespace's own
   blocks in sequence are chains of such swaps) without changing any view. *)
Theorem namespace_block_order_independent : forall pre b1 b2 post q,
  b_ns b1 <> b_ns b2 ->
  NoDup (map pkey (placed_all (pre ++ b1 :: b2 :: post))) ->
  type_view (pre ++ b1 :: b2 :: post) q = type_view (pre ++ b2 :: b1 :: post) q.
Proof. exact namespace_block_order_independent_l. Qed.
Print Assumptions namespace_block_order_independent.

(* ------------------------------------------------------------------ *)
(* (4b) the model's view IS the denotation's, for every schema in guard *)
(* ------------------------------------------------------------------ *)
From SV Require Import C07.Denote C07.DenoteProofs.

(* For EVERY concrete schema (any number of blocks, declarations, nesting) with
   unique names, blocks of a namespace agreeing on elementFormDefault (the known
   quirk excluded), an existing expansion (references resolve, group nesting
   bounded) and a resolving extension chain for q: what the model says sxbase.Iter
   yields for type q is exactly the flattened denotation (Denote.v: refs, groups,
   attribute groups expanded by the XSD rules; base members first). *)
Theorem model_is_denotation : forall C D q,
  unique_names C = true -> same_efd C = true -> denote C = Some D ->
  view_defined C q = true ->
  type_view C q = denoted_view D q.
Proof. exact model_is_denotation_l. Qed.
Print Assumptions model_is_denotation.

(* Hence two renderings inside the guard whose denotations flatten to the same
   members have the same view: group / attribute-group factoring, ref vs inline,
   declaration order and block splitting are all instances. *)
Theorem equal_denotation_equal_views : forall C1 C2 D1 D2 q,
  wf C1 = true -> wf C2 = true -> denote C1 = Some D1 -> denote C2 = Some D2 ->
  view_defined C1 q = true -> view_defined C2 q = true ->
  denoted_view D1 q = denoted_view D2 q ->
  type_view C1 q = type_view C2 q.
Proof. exact equal_flat_denotation_equal_views_l. Qed.
Print Assumptions equal_denotation_equal_views.

(* what a group reference denotes flattens like the group written in place *)
Theorem group_wrapper_flat : forall anc ch k o ks,
  flat_p anc ch (PC KSeq o [PC k false ks]) = flat_p anc ch (PC k o ks).
Proof. exact group_wrapper_flat_l. Qed.
Print Assumptions group_wrapper_flat.

(* global elements are qualified, in their namespace, inside the guard excluding
   the later-block quirk *)
Theorem global_elements_by_the_rules : forall C q pl nm ty nl dflt,
  globals_first C = true ->
  lookup_decl KElem q (placed_all C) = Some pl -> p_decl pl = DElem nm ty nl dflt ->
  global_elem_view (placed_all C) q = Some (p_ns pl, true, ty, nl).
Proof. exact global_elements_by_the_rules_l. Qed.
Print Assumptions global_elements_by_the_rules.

Example denotation_nonvacuous :
  let fancy := [mkBlock 1 true
    [DType 6 (Some (1, 5)) [CGrp (1, 31) false] [];
     DGroup 30 (CCont KChoice false [CEl 11 TBuiltin false true false None None]);
     DElem 10 TBuiltin true None];
    mkBlock 1 true
    [DAGroup 32 [CAt (mkA 20 true None)];
     DGroup 31 (CCont KSeq false [CEl 12 (TNamed 1 5) true false false None (Some true)]);
     DType 5 None [CCont KSeq false [CRef (1, 10) false false; CGrp (1, 30) true]] [CAGrp (1, 32)]]]%N in
  wf fancy = true /\ globals_first fancy = true /\
  view_defined fancy (1, 6)%N = true /\
  (exists D, denote fancy = Some D /\ length D = 2%nat) /\
  (* the guard really excludes the quirk schema *)
  same_efd efd_counterexample = false.
Proof. repeat split. eexists. split; reflexivity. Qed.

(* ------------------------------------------------------------------ *)
(* (5) Schema.dereference: the merges, in dependency_sort order         *)
(* ------------------------------------------------------------------ *)
From SV Require Import C07.Store C07.StoreProofs.

(* Guard: the objects handed to dependency_sort are distinct and their dependency
   graph is acyclic (a target outside `all`, e.g. in another namespace's Schema, is
   a dangling edge and is allowed).  Then after the loop EVERY object satisfies its
   resolution equation -- it is its original self merged with the FINAL state of
   its dependency (children, name/type/default/occurrence, nillable as per class) --
   and nothing else changed.  This is where depsort_topological and
   depsort_permutation are used: the dependency was merged before, and nothing is
   merged twice. *)
Theorem deref_sorted_is_resolution : forall st0 g,
  NoDup (keys g) -> acyclic g ->
  (forall e, In e g -> resolved st0 (dereference st0 g) e) /\
  (forall y, ~ In y (keys g) -> get (dereference st0 g) y = get st0 y).
Proof. exact deref_sorted_is_resolution_l. Qed.
Print Assumptions deref_sorted_is_resolution.

(* Where no merge target has a dependency of its own (all that XSD allows), the
   order is immaterial: any order merges each object with its original target. *)
Theorem merge_any_order_when_targets_stable : forall order st0,
  NoDup (keys order) ->
  (forall x d dk, In (x, d :: dk) order -> forall dd, In (d, dd) order -> dd = []) ->
  forall e, In e order ->
    get (merge_in_order order st0) (fst e) =
    match snd e with
    | [] => get st0 (fst e)
    | d :: _ => merge_obj (get st0 (fst e)) (get st0 d)
    end.
Proof. exact merge_any_order_when_targets_stable_l. Qed.
Print Assumptions merge_any_order_when_targets_stable.

(* Why dependency_sort matters: with a chain (reference -> named group that is
   itself a reference -> group), an order that merges the dependent first leaves it
   without members; the sorted order does not.  (Replayed on the implementation by
   the harness' hand-written chain schemas.) *)
Theorem deref_wrong_order_refuted :
  NoDup (keys chain_graph) /\ acyclic chain_graph /\
  o_kids (get (dereference chain_store chain_graph) 3%N) = [10%N] /\
  (exists order, Permutation order chain_graph /\
                 o_kids (get (merge_in_order order chain_store) 3%N) = [] /\
                 ~ resolved chain_store (merge_in_order order chain_store) (3, [2])%N).
Proof. exact deref_wrong_order_refuted_l. Qed.
Print Assumptions deref_wrong_order_refuted.

(* ------------------------------------------------------------------ *)
(* (6) WSDL linking                                                     *)
(* ------------------------------------------------------------------ *)
From SV Require Import C07.Wsdl C07.WsdlProofs.

(* Any permutation of the top-level children of wsdl:definitions (types, messages,
   portTypes, bindings, services in any order), names unique per kind: either both
   documents fail to link, or they link the same services -- same ports, same
   operations, same parts, same wrapped flags (the services themselves are listed
   in document order, hence "up to permutation"). *)
Theorem wsdl_link_order_independent : forall tns unwrap eb ch ch',
  Permutation ch ch' -> wuniq ch ->
  match link tns unwrap eb ch, link tns unwrap eb ch' with
  | LOk a, LOk b => Permutation a b
  | LError, LError => True
  | _, _ => False
  end.
Proof. exact wsdl_link_order_independent_l. Qed.
Print Assumptions wsdl_link_order_independent.

(* The order in which resolve() visits the children does not matter either, so
   neither does what children.sort() does with children of equal kind. *)
Theorem resolve_order_immaterial : forall tns unwrap eb ch order,
  Permutation order ch ->
  link_visiting tns unwrap eb ch order = link tns unwrap eb ch.
Proof. exact resolve_order_immaterial_l. Qed.
Print Assumptions resolve_order_immaterial.

(* set_wrapped: wrapped exactly when unwrapping is on, the body has exactly one
   part, the part references an element, and that element's type is not a builtin. *)
Theorem wrapped_rule : forall unwrap eb parts,
  wrapped_flag unwrap eb parts = Some true <->
  unwrap = true /\ exists p q, parts = [p] /\ pt_element p = Some q /\ eb q = Some false.
Proof. exact wrapped_rule_l. Qed.
Print Assumptions wrapped_rule.

(* <soap:body parts="..."> naming all parts of the message = no parts attribute *)
Theorem body_parts_naming_all_is_default : forall tns unwrap eb ch ptops n li lo o mi mo,
  find_ptop n ptops = Some o ->
  message_parts tns ch (po_in o) = Some mi -> message_parts tns ch (po_out o) = Some mo ->
  (forall p, In p mi -> existsb (N.eqb (pt_name p)) li = true) ->
  (forall p, In p mo -> existsb (N.eqb (pt_name p)) lo = true) ->
  link_op tns unwrap eb ch ptops (mkBOp n (Some li) (Some lo)) =
  link_op tns unwrap eb ch ptops (mkBOp n None None).
Proof. exact body_parts_naming_all_is_default_l. Qed.
Print Assumptions body_parts_naming_all_is_default.

Local Open Scope N_scope.
Example wsdl_nonvacuous :
  let m  := WMessage 1 [mkPart 9 (Some (1, 20)) None] in
  let mo := WMessage 2 [] in
  let pt := WPortType 3 [mkPtOp 7 (Some (1, 1)) (Some (1, 2))] in
  let bd := WBinding 4 (1, 3) true [mkBOp 7 (Some [9]) None] in
  let sv := WService 5 [(6, (1, 4))] in
  let eb := fun q : qn => if qn_eqb q (1, 20) then Some false else None in
  link 1 true eb [sv; bd; WTypes; pt; mo; m] = link 1 true eb [WTypes; m; mo; pt; bd; sv] /\
  link 1 true eb [sv; bd; WTypes; pt; mo; m] =
    LOk [(5, [(6, [(7, ([mkPart 9 (Some (1, 20)) None], true), ([], false))])])] /\
  link 1 true eb [sv; bd; pt; m] = LError.        (* the output message is missing *)
Proof. repeat split. Qed.
Local Close Scope N_scope.
