(* C07 (6) -- the linked result does not depend on the order of the top-level
   WSDL children; the wrapped rule. *)
From Coq Require Import Permutation.
From SV Require Import Lib.Base Fam.Schema C07.Wsdl.

(* names are unique per kind (messages, portTypes, bindings, services) *)
Definition wuniq (l : list wchild) : Prop :=
  forall c1 c2, In c1 l -> In c2 l -> wkind_of c1 = wkind_of c2 -> wkind_of c1 <> WKOther ->
                wname_of c1 = wname_of c2 -> c1 = c2.

Lemma wuniq_perm l l' : Permutation l l' -> wuniq l -> wuniq l'.
Proof.
  intros HP U c1 c2 H1 H2. apply U; eapply Permutation_in; try (apply Permutation_sym; exact HP); assumption.
Qed.

Definition wm (tns : nsid) (k : wkind) (q : qn) (c : wchild) : bool :=
  wkind_eqb (wkind_of c) k && qn_eqb (tns, wname_of c) q.

Lemma wkind_eqb_eq a b : wkind_eqb a b = true <-> a = b.
Proof. destruct a, b; cbn; split; congruence. Qed.

Lemma qn_eqb_eq' (a b : qn) : qn_eqb a b = true <-> a = b.
Proof.
  destruct a as [a1 a2], b as [b1 b2]. unfold qn_eqb. cbn.
  rewrite andb_true_iff, !N.eqb_eq. split; [intros [-> ->]; reflexivity|intros [= -> ->]; auto].
Qed.

Section L.
Variable tns : nsid.

Lemma wlookup_cons k q c l :
  wlookup tns k q (c :: l) =
  match wlookup tns k q l with Some r => Some r | None => if wm tns k q c then Some c else None end.
Proof. reflexivity. Qed.

Lemma wl_some k q l c : wlookup tns k q l = Some c -> In c l /\ wm tns k q c = true.
Proof.
  induction l as [|x l IH]; [discriminate|]. rewrite wlookup_cons.
  destruct (wlookup tns k q l) as [r|].
  - intros [= <-]. destruct (IH eq_refl). split; [right|]; assumption.
  - destruct (wm tns k q x) eqn:E; [|discriminate]. intros [= <-]. split; [left; reflexivity|exact E].
Qed.

Lemma wl_none k q l : wlookup tns k q l = None <-> forall c, In c l -> wm tns k q c = false.
Proof.
  induction l as [|x l IH]; [cbn; split; [intros _ c []|reflexivity]|].
  rewrite wlookup_cons. destruct (wlookup tns k q l) as [r|] eqn:E.
  - split; [discriminate|]. intro H. exfalso.
    assert (Hn : Some r = None) by (apply IH; intros c Hc; apply H; right; exact Hc). discriminate.
  - destruct (wm tns k q x) eqn:Em.
    + split; [discriminate|]. intro H. rewrite (H x (or_introl eq_refl)) in Em. discriminate.
    + split; [|reflexivity]. intros _ c [<-|Hc]; [exact Em|]. apply (proj1 IH eq_refl). exact Hc.
Qed.

Lemma wl_unique k q l c :
  wuniq l -> k <> WKOther -> In c l -> wm tns k q c = true -> wlookup tns k q l = Some c.
Proof.
  intros U Hk Hin Hm. destruct (wlookup tns k q l) as [c'|] eqn:E.
  - destruct (wl_some _ _ _ _ E) as [Hin' Hm']. f_equal.
    unfold wm in Hm, Hm'. apply andb_true_iff in Hm as [K1 Q1]. apply andb_true_iff in Hm' as [K2 Q2].
    apply wkind_eqb_eq in K1, K2. apply qn_eqb_eq' in Q1, Q2.
    apply U; auto; try congruence.
  - rewrite (proj1 (wl_none k q l) E c Hin) in Hm. discriminate.
Qed.

Lemma wlookup_perm k q l l' :
  Permutation l l' -> wuniq l -> k <> WKOther -> wlookup tns k q l = wlookup tns k q l'.
Proof.
  intros HP U Hk. destruct (wlookup tns k q l) as [c|] eqn:E.
  - destruct (wl_some _ _ _ _ E) as [Hin Hm]. symmetry.
    apply wl_unique; auto; [eapply wuniq_perm; eauto|eapply Permutation_in; eauto].
  - symmetry. apply wl_none. intros c Hc. apply (proj1 (wl_none k q l) E).
    eapply Permutation_in; [apply Permutation_sym; exact HP|exact Hc].
Qed.

End L.

Lemma forallb_ext {A} (f g : A -> bool) : (forall x, f x = g x) -> forall l, forallb f l = forallb g l.
Proof. intros H l. induction l as [|x l IH]; cbn; [reflexivity|]. rewrite H, IH. reflexivity. Qed.

(* everything is a function of the three dicts *)
Section Ext.
Variables (tns : nsid) (unwrap : bool) (eb : qn -> option bool) (ch ch' : list wchild).
Hypothesis same : forall k q, k <> WKOther -> wlookup tns k q ch = wlookup tns k q ch'.

Lemma message_parts_ext oq : message_parts tns ch oq = message_parts tns ch' oq.
Proof. destruct oq as [q|]; [|reflexivity]. cbn. rewrite same by discriminate. reflexivity. Qed.

Lemma porttype_ok_ext ops : porttype_ok tns ch ops = porttype_ok tns ch' ops.
Proof.
  unfold porttype_ok. apply forallb_ext. intro o. rewrite !message_parts_ext. reflexivity.
Qed.

Lemma link_op_ext ptops b : link_op tns unwrap eb ch ptops b = link_op tns unwrap eb ch' ptops b.
Proof. unfold link_op. destruct (find_ptop (bo_name b) ptops); [|reflexivity]. rewrite !message_parts_ext. reflexivity. Qed.

Lemma link_binding_ext ty ops : link_binding tns unwrap eb ch ty ops = link_binding tns unwrap eb ch' ty ops.
Proof.
  unfold link_binding. rewrite same by discriminate.
  destruct (wlookup tns WKPortType ty ch') as [[]|]; try reflexivity.
  rewrite porttype_ok_ext. destruct (porttype_ok tns ch' ops0); [|reflexivity].
  f_equal. apply map_ext. intro n. apply link_op_ext.
Qed.

Lemma child_ok_ext c : child_ok tns unwrap eb ch c = child_ok tns unwrap eb ch' c.
Proof.
  destruct c as [| |nm parts|nm ops|nm ty soap ops|nm ports]; cbn [child_ok]; try reflexivity.
  - apply porttype_ok_ext.
  - destruct soap.
    + rewrite link_binding_ext. reflexivity.
    + rewrite same by discriminate. destruct (wlookup tns WKPortType ty ch') as [[]|]; try reflexivity.
      apply porttype_ok_ext.
  - apply forallb_ext. intro p. rewrite same by discriminate. reflexivity.
Qed.

Lemma link_ports_ext ports : link_ports tns unwrap eb ch ports = link_ports tns unwrap eb ch' ports.
Proof.
  unfold link_ports. apply flat_map_ext. intro p. rewrite same by discriminate.
  destruct (wlookup tns WKBinding (snd p) ch') as [[]|]; try reflexivity.
  destruct soap; [|reflexivity]. rewrite link_binding_ext. reflexivity.
Qed.

End Ext.

Lemma forallb_perm {A} (f : A -> bool) l l' : Permutation l l' -> forallb f l = forallb f l'.
Proof.
  induction 1 as [|x l l' _ IH|x y l|l l' l'' _ IH1 _ IH2]; cbn.
  - reflexivity.
  - rewrite IH. reflexivity.
  - destruct (f x), (f y); reflexivity.
  - congruence.
Qed.

Lemma insert_perm c l : Permutation (insert_by_rank c l) (c :: l).
Proof.
  induction l as [|x l IH]; cbn [insert_by_rank]; [apply Permutation_refl|].
  destruct (Nat.ltb (wrank c) (wrank x)); [apply Permutation_refl|].
  eapply Permutation_trans; [apply perm_skip; exact IH|apply perm_swap].
Qed.

Lemma sort_children_perm l : Permutation (sort_children l) l.
Proof.
  induction l as [|c l IH]; cbn [sort_children]; [constructor|].
  eapply Permutation_trans; [apply insert_perm|apply perm_skip; exact IH].
Qed.

Lemma flat_map_perm {A B} (f : A -> list B) l l' : Permutation l l' -> Permutation (flat_map f l) (flat_map f l').
Proof.
  induction 1 as [|x l l' _ IH|x y l|l l' l'' _ IH1 _ IH2]; cbn.
  - constructor.
  - apply Permutation_app_head. exact IH.
  - rewrite !app_assoc. apply Permutation_app_tail. apply Permutation_app_comm.
  - eapply Permutation_trans; eauto.
Qed.

(* the order in which resolve() visits the children is immaterial (so the exact
   outcome of children.sort() on ties is, too) *)
Lemma resolve_order_immaterial_l : forall tns unwrap eb ch order,
  Permutation order ch ->
  link_visiting tns unwrap eb ch order = link tns unwrap eb ch.
Proof.
  intros. unfold link, link_visiting.
  rewrite (forallb_perm _ order (sort_children ch)); [reflexivity|].
  eapply Permutation_trans; [exact H|apply Permutation_sym, sort_children_perm].
Qed.

Lemma wsdl_link_order_independent_l : forall tns unwrap eb ch ch',
  Permutation ch ch' -> wuniq ch ->
  match link tns unwrap eb ch, link tns unwrap eb ch' with
  | LOk a, LOk b => Permutation a b
  | LError, LError => True
  | _, _ => False
  end.
Proof.
  intros tns unwrap eb ch ch' HP U. unfold link, link_visiting.
  assert (same : forall k q, k <> WKOther -> wlookup tns k q ch = wlookup tns k q ch').
  { intros k q Hk. apply wlookup_perm; assumption. }
  assert (E : forallb (child_ok tns unwrap eb ch) (sort_children ch) =
              forallb (child_ok tns unwrap eb ch') (sort_children ch')).
  { rewrite (forallb_ext _ _ (child_ok_ext tns unwrap eb ch ch' same)).
    apply forallb_perm.
    eapply Permutation_trans; [apply sort_children_perm|].
    eapply Permutation_trans; [exact HP|apply Permutation_sym, sort_children_perm]. }
  rewrite E. destruct (forallb (child_ok tns unwrap eb ch') (sort_children ch')); [|exact I].
  unfold services_of.
  eapply Permutation_trans; [apply flat_map_perm; exact HP|].
  erewrite flat_map_ext; [apply Permutation_refl|].
  intros [| | | | |nm ports]; try reflexivity. rewrite (link_ports_ext tns unwrap eb ch ch' same). reflexivity.
Qed.

(* set_wrapped *)
Lemma wrapped_rule_l : forall unwrap eb parts,
  wrapped_flag unwrap eb parts = Some true <->
  unwrap = true /\ exists p q, parts = [p] /\ pt_element p = Some q /\ eb q = Some false.
Proof.
  intros unwrap eb parts. unfold wrapped_flag. destruct unwrap; cbn [negb].
  - destruct parts as [|p [|p' l]]; try (split; [discriminate|intros [_ (p0 & q & E & _)]; discriminate]).
    destruct (pt_element p) as [q|] eqn:Ee.
    + destruct (eb q) as [[]|] eqn:Eb; cbn.
      * split; [discriminate|]. intros [_ (p0 & q0 & E & E1 & E2)]. inversion E; subst. congruence.
      * split; [|reflexivity]. intros _. split; [reflexivity|]. exists p, q. auto.
      * split; [discriminate|]. intros [_ (p0 & q0 & E & E1 & E2)]. inversion E; subst. congruence.
    + split; [discriminate|]. intros [_ (p0 & q0 & E & E1 & _)]. inversion E; subst. congruence.
  - split; [discriminate|]. intros [H _]. discriminate.
Qed.

(* a parts= list that names every part of the message selects what no list selects:
   the WSDL with and without it link the same operation *)
Lemma select_all_parts_l : forall l parts,
  (forall p, In p parts -> existsb (N.eqb (pt_name p)) l = true) ->
  select_parts (Some l) parts = parts.
Proof.
  intros l parts H. unfold select_parts. destruct l as [|x l]; [reflexivity|].
  induction parts as [|p parts IH]; [reflexivity|]. cbn [filter].
  rewrite (H p (or_introl eq_refl)). f_equal. apply IH. intros q Hq. apply H. right. exact Hq.
Qed.

Lemma body_parts_naming_all_is_default_l : forall tns unwrap eb ch ptops n li lo o mi mo,
  find_ptop n ptops = Some o ->
  message_parts tns ch (po_in o) = Some mi -> message_parts tns ch (po_out o) = Some mo ->
  (forall p, In p mi -> existsb (N.eqb (pt_name p)) li = true) ->
  (forall p, In p mo -> existsb (N.eqb (pt_name p)) lo = true) ->
  link_op tns unwrap eb ch ptops (mkBOp n (Some li) (Some lo)) =
  link_op tns unwrap eb ch ptops (mkBOp n None None).
Proof.
  intros tns unwrap eb ch ptops n li lo o mi mo Hf Hi Ho Ai Ao. unfold link_op. cbn [bo_name bo_in bo_out].
  rewrite Hf, Hi, Ho, (select_all_parts_l li mi Ai), (select_all_parts_l lo mo Ao). reflexivity.
Qed.
