(* C07 (4b) -- the model's flattened view is the flattened denotation. *)
From Coq Require Import Permutation.
From SV Require Import Lib.Base Fam.Schema C01.Marshal C07.Concrete C07.ConcreteProofs C07.Denote.

(* ---------------- unfolding lemmas ---------------- *)

Fixpoint denote_kids (T : list placed) (fuel : nat) (ns : nsid) (efd : bool) (l : list cpart)
  : option (list particle) :=
  match l with
  | [] => Some []
  | x :: l' => match denote_cp T fuel ns efd x, denote_kids T fuel ns efd l' with
               | Some a, Some b => Some (a :: b)
               | _, _ => None
               end
  end.

Lemma denote_cp_cont T f ns efd k o kids :
  denote_cp T (S f) ns efd (CCont k o kids) =
  match denote_kids T (S f) ns efd kids with Some ks => Some (PC k o ks) | None => None end.
Proof.
  cbn [denote_cp]. f_equal.
  assert (E : forall l,
    (fix gol (l : list cpart) : option (list particle) :=
       match l with
       | [] => Some []
       | x :: l' => match denote_cp T (S f) ns efd x, gol l' with
                    | Some a, Some b => Some (a :: b)
                    | _, _ => None
                    end
       end) l = denote_kids T (S f) ns efd l).
  { induction l as [|x l IH]; [reflexivity|]. cbn [denote_kids]. rewrite <- IH. reflexivity. }
  cbn [denote_cp] in E. rewrite <- E. reflexivity.
Qed.

Lemma denote_cp_grp T f ns efd q o :
  denote_cp T (S f) ns efd (CGrp q o) =
  match lookup_decl KGroup q T with
  | Some pl => match p_decl pl with
               | DGroup _ body => match denote_cp T f (p_ns pl) (p_own pl) body with
                                  | Some d => Some (PC KSeq o [d])
                                  | None => None
                                  end
               | _ => None
               end
  | None => None
  end.
Proof. reflexivity. Qed.

Lemma denote_cp_ref T f ns efd q o m :
  denote_cp T (S f) ns efd (CRef q o m) =
  match lookup_decl KElem q T with
  | Some pl => match p_decl pl with
               | DElem nm ty nl dflt => Some (PE (mkE nm (p_ns pl) true ty o m nl dflt))
               | _ => None
               end
  | None => None
  end.
Proof. reflexivity. Qed.

Lemma flat_p_pc anc ch k o kids :
  flat_p anc ch (PC k o kids) = flat_map (flat_p (anc || o) (ch || is_choice k)) kids.
Proof.
  cbn [flat_p]. induction kids as [|x l IH]; [reflexivity|].
  cbn [flat_map]. rewrite <- IH. reflexivity.
Qed.

(* ---------------- particles ---------------- *)

Section A.
Variable T : list placed.
Hypothesis same : forall pl, In pl T -> p_own pl = p_efd pl.

Lemma flat_is_denotation_cp : forall f p ns efd anc ch d,
  denote_cp T f ns efd p = Some d ->
  flat_cp T f ns efd anc ch p = Some (flat_p anc ch d).
Proof.
  induction f as [|f IHf]; [discriminate|].
  induction p as [nm ty o m n dd fm|q o m| |q o|k o kids IHk] using cpart_ind';
    intros ns efd anc ch d H.
  - cbn in H. inversion H; subst. rewrite flat_cp_el. reflexivity.
  - rewrite denote_cp_ref in H. rewrite flat_cp_ref.
    destruct (lookup_decl KElem q T) as [pl|]; [|discriminate].
    destruct (p_decl pl); try discriminate. inversion H; subst. reflexivity.
  - cbn in H. inversion H; subst. reflexivity.
  - rewrite denote_cp_grp in H. rewrite flat_cp_grp.
    destruct (lookup_decl KGroup q T) as [pl|] eqn:El; [|discriminate].
    destruct (p_decl pl); try discriminate.
    destruct (denote_cp T f (p_ns pl) (p_own pl) body) as [d0|] eqn:E; [|discriminate].
    inversion H; subst. rewrite <- (same pl (proj1 (lookup_some_in _ _ _ _ El))).
    rewrite (IHf _ _ _ (anc || o) ch _ E). rewrite flat_p_pc. cbn [flat_map is_choice].
    rewrite orb_false_r, app_nil_r. reflexivity.
  - rewrite denote_cp_cont in H. rewrite flat_cp_cont.
    destruct (denote_kids T (S f) ns efd kids) as [ks|] eqn:E; [|discriminate].
    inversion H; subst. rewrite flat_p_pc.
    generalize (anc || o) (ch || is_choice k). intros a c. clear H.
    revert ks E. induction IHk as [|x l Hx _ IHl]; intros ks E.
    + cbn in E. inversion E; subst. reflexivity.
    + cbn [denote_kids] in E.
      destruct (denote_cp T (S f) ns efd x) as [dx|] eqn:Ex; [|discriminate].
      destruct (denote_kids T (S f) ns efd l) as [dl|] eqn:Edl; [|discriminate].
      inversion E; subst. cbn [flat_kids flat_map].
      rewrite (Hx _ _ a c _ Ex), (IHl _ eq_refl). reflexivity.
Qed.

Lemma flat_is_denotation_cps : forall g ns efd ps ds,
  denote_cps T g ns efd ps = Some ds ->
  flat_cps T g ns efd ps = Some (flat_content ds).
Proof.
  intros g ns efd. induction ps as [|p ps IH]; intros ds H; cbn in H.
  - inversion H; subst. reflexivity.
  - destruct (denote_cp T g ns efd p) as [d|] eqn:E; [|discriminate].
    destruct (denote_cps T g ns efd ps) as [r|] eqn:Er; [|discriminate].
    inversion H; subst. cbn [flat_cps].
    rewrite (flat_is_denotation_cp _ _ _ _ false false _ E), (IH _ eq_refl). reflexivity.
Qed.

(* one type: its own members and attributes *)
Lemma denote_type_own g pl t :
  In pl T -> denote_type T g pl = Some t ->
  exists nm base content attrs,
    p_decl pl = DType nm base content attrs /\
    c_name t = nm /\ c_ns t = p_ns pl /\ c_base t = base /\
    flat_cps T g (p_ns pl) (p_efd pl) content = Some (flat_content (c_content t)) /\
    flat_attrs_c T g attrs = Some (c_attrs t).
Proof.
  intros Hin H. unfold denote_type in H.
  destruct (p_decl pl) as [nm base content attrs| | |] eqn:Ed; try discriminate.
  destruct (denote_cps T g (p_ns pl) (p_own pl) content) as [c|] eqn:Ec; [|discriminate].
  destruct (flat_attrs_c T g attrs) as [a|] eqn:Ea; [|discriminate].
  inversion H; subst. exists nm, base, content, attrs. cbn.
  rewrite <- (same pl Hin). repeat split; auto. apply flat_is_denotation_cps. exact Ec.
Qed.

End A.

(* ---------------- tables: lookup_decl vs find_type ---------------- *)

Lemma matches_type_key q pl nm base content attrs :
  p_decl pl = DType nm base content attrs ->
  matches KType q pl = qn_eqb (p_ns pl, nm) q.
Proof. intro E. unfold matches. rewrite E. reflexivity. Qed.

Lemma is_type_false_matches q pl : is_type pl = false -> matches KType q pl = false.
Proof. unfold is_type, matches. intros ->. reflexivity. Qed.

Lemma tables_agree T g : forall l D,
  NoDup (map pkey l) -> denote_all T g l = Some D ->
  forall q, match lookup_decl KType q l, find_type D q with
            | Some pl, Some t => In pl l /\ denote_type T g pl = Some t
            | None, None => True
            | _, _ => False
            end.
Proof.
  induction l as [|pl l IH]; intros D ND H q.
  - cbn in H. inversion H; subst. exact I.
  - cbn [map] in ND. inversion ND as [|? ? Hn ND']; subst.
    cbn [denote_all] in H. rewrite lookup_decl_cons.
    destruct (is_type pl) eqn:Et.
    + destruct (denote_type T g pl) as [t|] eqn:Edt; [|discriminate].
      destruct (denote_all T g l) as [r|] eqn:Er; [|discriminate].
      inversion H; subst. specialize (IH r ND' eq_refl q).
      unfold find_type in *. cbn [find].
      assert (Hk : exists nm base content attrs, p_decl pl = DType nm base content attrs /\
                    c_name t = nm /\ c_ns t = p_ns pl).
      { unfold denote_type in Edt. destruct (p_decl pl) as [nm base content attrs| | |]; try discriminate.
        destruct (denote_cps T g (p_ns pl) (p_own pl) content); [|discriminate].
        destruct (flat_attrs_c T g attrs); [|discriminate]. inversion Edt; subst.
        exists nm, base, content, attrs. auto. }
      destruct Hk as (nm & base & content & attrs & Ed & En & Ens).
      rewrite (matches_type_key q pl nm base content attrs Ed). rewrite En, Ens.
      destruct (qn_eqb (p_ns pl, nm) q) eqn:Eq.
      * (* this declaration matches: by uniqueness nothing later does *)
        assert (Hnone : lookup_decl KType q l = None).
        { apply lookup_none. intros p Hp. destruct (matches KType q p) eqn:Em; [|reflexivity].
          exfalso. apply Hn. apply matches_key in Em.
          assert (Hpl : pkey pl = (KType, q)).
          { apply matches_key. rewrite (matches_type_key q pl nm base content attrs Ed). exact Eq. }
          rewrite Hpl, <- Em. apply in_map. exact Hp. }
        rewrite Hnone. split; [left; reflexivity|exact Edt].
      * destruct (lookup_decl KType q l) as [pl'|]; destruct (find _ r) as [t'|]; auto.
        destruct IH as [A B]. split; [right; exact A|exact B].
    + specialize (IH D ND' H q). rewrite (is_type_false_matches q pl Et).
      destruct (lookup_decl KType q l) as [pl'|]; destruct (find_type D q) as [t'|]; auto.
      destruct IH as [A B]. split; [right; exact A|exact B].
Qed.

Lemma denote_all_length T g : forall l D,
  denote_all T g l = Some D -> length D = length (filter is_type l).
Proof.
  induction l as [|pl l IH]; intros D H; cbn in H.
  - inversion H; reflexivity.
  - cbn [filter]. destruct (is_type pl).
    + destruct (denote_type T g pl); [|discriminate]. destruct (denote_all T g l); [|discriminate].
      inversion H; subst. cbn. f_equal. apply IH. reflexivity.
    + apply IH. exact H.
Qed.

(* ---------------- extension chains ---------------- *)

Section B.
Variable T : list placed.
Variable g : nat.
Variable D : schema.
Hypothesis same : forall pl, In pl T -> p_own pl = p_efd pl.
Hypothesis ND : NoDup (map pkey T).
Hypothesis HD : denote_all T g T = Some D.

Lemma chain_base_none n t : c_base t = None -> chain D n t = [t].
Proof. intro H. destruct n; cbn; [reflexivity|]. rewrite H. reflexivity. Qed.

Lemma flat_type_is_chain : forall f q e a,
  flat_type T f g q = Some (e, a) ->
  forall n, f <= S n ->
  exists t, find_type D q = Some t /\
            flat_map (fun c => flat_content (c_content c)) (chain D n t) = e /\
            flat_map c_attrs (chain D n t) = a.
Proof.
  induction f as [|f IHf]; intros q e a H n Hle; [discriminate|].
  cbn [flat_type] in H.
  pose proof (tables_agree T g T D ND HD q) as Ht.
  destruct (lookup_decl KType q T) as [pl|] eqn:El; [|discriminate].
  destruct (find_type D q) as [t|] eqn:Ef; [|contradiction].
  destruct Ht as [Hin Hdt].
  destruct (denote_type_own T same g pl t Hin Hdt)
    as (nm & base & content & attrs & Ed & En & Ens & Eb & Ec & Ea).
  rewrite Ed, Ec, Ea in H. exists t. split; [reflexivity|].
  destruct base as [b|].
  - destruct (flat_type T f g b) as [[be ba]|] eqn:Efb; [|discriminate].
    inversion H; subst e a.
    destruct f as [|f']; [discriminate|].
    destruct n as [|n']; [lia|].
    destruct (IHf b be ba Efb n') as (bt & Efbt & Hbe & Hba); [lia|].
    cbn [chain]. rewrite Eb, Efbt. rewrite !flat_map_app. cbn [flat_map].
    rewrite !app_nil_r, Hbe, Hba. split; reflexivity.
  - inversion H; subst e a. rewrite (chain_base_none n t Eb). cbn [flat_map].
    rewrite !app_nil_r. split; reflexivity.
Qed.

End B.

(* ---------------- boolean guards to propositions ---------------- *)

Lemma pkey_eqb_eq a b : pkey_eqb a b = true <-> a = b.
Proof.
  destruct a as [k1 q1], b as [k2 q2]. unfold pkey_eqb. cbn.
  rewrite andb_true_iff, dkind_eqb_eq, qn_eqb_eq. split; [intros [-> ->]; reflexivity|intros [= -> ->]; auto].
Qed.

Lemma nodup_keys_NoDup l : nodup_keys l = true -> NoDup l.
Proof.
  induction l as [|k l IH]; cbn; intro H; [constructor|].
  apply andb_true_iff in H as [H1 H2]. constructor; [|apply IH; exact H2].
  intro Hin. apply negb_true_iff in H1.
  assert (existsb (pkey_eqb k) l = true); [|congruence].
  apply existsb_exists. exists k. split; [exact Hin|apply pkey_eqb_eq; reflexivity].
Qed.

Lemma same_efd_In C : same_efd C = true -> forall pl, In pl (placed_all C) -> p_own pl = p_efd pl.
Proof.
  unfold same_efd. intros H pl Hin. rewrite forallb_forall in H.
  apply eqb_prop. apply H. exact Hin.
Qed.

(* ---------------- the theorem ---------------- *)

Lemma model_is_denotation_l : forall C D q,
  unique_names C = true -> same_efd C = true -> denote C = Some D ->
  view_defined C q = true ->
  type_view C q = denoted_view D q.
Proof.
  intros C D q Hu Hs HD Hv.
  unfold view_defined in Hv. destruct (type_view C q) as [[e a]|] eqn:Ev; [|discriminate].
  unfold type_view in Ev. unfold denote in HD.
  assert (NDk : NoDup (map pkey (placed_all C))) by (apply nodup_keys_NoDup; exact Hu).
  destruct (flat_type_is_chain (placed_all C) (fuel_of C) D (same_efd_In C Hs) NDk HD
              _ q e a Ev (length D)) as (t & Ef & He & Ha).
  { unfold chain_fuel. rewrite (denote_all_length _ _ _ _ HD). lia. }
  unfold denoted_view. rewrite Ef. unfold flat_elems, flat_attrs, chain_of. rewrite He, Ha. reflexivity.
Qed.

(* renderings with equal denotation have equal views *)
Lemma equal_denotation_equal_views_l : forall C1 C2 q,
  wf C1 = true -> wf C2 = true -> denote C1 = denote C2 ->
  view_defined C1 q = true -> view_defined C2 q = true ->
  type_view C1 q = type_view C2 q.
Proof.
  intros C1 C2 q W1 W2 E V1 V2. unfold wf in *.
  apply andb_true_iff in W1 as [W1 X1]. apply andb_true_iff in W1 as [U1 S1].
  apply andb_true_iff in W2 as [W2 X2]. apply andb_true_iff in W2 as [U2 S2].
  unfold expandable in X1. destruct (denote C1) as [D|] eqn:E1; [|discriminate].
  rewrite (model_is_denotation_l C1 D q U1 S1 E1 V1).
  rewrite (model_is_denotation_l C2 D q U2 S2 (eq_sym E) V2). reflexivity.
Qed.

(* the useful form: it is enough that the two denotations FLATTEN equally *)
Lemma equal_flat_denotation_equal_views_l : forall C1 C2 D1 D2 q,
  wf C1 = true -> wf C2 = true -> denote C1 = Some D1 -> denote C2 = Some D2 ->
  view_defined C1 q = true -> view_defined C2 q = true ->
  denoted_view D1 q = denoted_view D2 q ->
  type_view C1 q = type_view C2 q.
Proof.
  intros C1 C2 D1 D2 q W1 W2 E1 E2 V1 V2 Hd. unfold wf in *.
  apply andb_true_iff in W1 as [W1 _]. apply andb_true_iff in W1 as [U1 S1].
  apply andb_true_iff in W2 as [W2 _]. apply andb_true_iff in W2 as [U2 S2].
  rewrite (model_is_denotation_l C1 D1 q U1 S1 E1 V1), (model_is_denotation_l C2 D2 q U2 S2 E2 V2).
  exact Hd.
Qed.

(* on the abstract side, the wrapper a group reference denotes flattens like the
   model group written in place with the reference's occurrence *)
Lemma group_wrapper_flat_l : forall anc ch k o ks,
  flat_p anc ch (PC KSeq o [PC k false ks]) = flat_p anc ch (PC k o ks).
Proof.
  intros. rewrite (flat_p_pc anc ch KSeq o). cbn [flat_map is_choice].
  rewrite !flat_p_pc, !orb_false_r, app_nil_r. reflexivity.
Qed.

(* global elements, inside the guard that excludes the later-block quirk *)
Lemma global_elements_by_the_rules_l : forall C q pl nm ty nl dflt,
  globals_first C = true ->
  lookup_decl KElem q (placed_all C) = Some pl -> p_decl pl = DElem nm ty nl dflt ->
  global_elem_view (placed_all C) q = Some (p_ns pl, true, ty, nl).
Proof.
  intros C q pl nm ty nl dflt Hg Hl Hd. unfold globals_first in Hg. rewrite forallb_forall in Hg.
  pose proof (Hg pl (proj1 (lookup_some_in _ _ _ _ Hl))) as H. rewrite Hd in H.
  eapply global_element_qualified_partial_l; eauto.
Qed.
