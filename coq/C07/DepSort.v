(* C07 (1) -- suds/xsd/depsort.py: dependency_sort / _sort_r.
   Definitions only.  The dependency tree is Python's insertion-ordered dict,
   modelled as an association list (node ids interned as N by the harness);
   `processed` is the Python set, modelled as a list used only through
   membership; `sorted` is the result list (append at the end).

     def dependency_sort(dependency_tree):
         sorted = []; processed = set()
         for key, deps in dependency_tree.items():
             _sort_r(sorted, processed, key, deps, dependency_tree)
         return sorted

     def _sort_r(sorted, processed, key, deps, dependency_tree):
         if key in processed: return
         processed.add(key)
         for dep_key in deps:
             dep_deps = dependency_tree.get(dep_key)
             if dep_deps is None: continue              # dangling: logged, skipped
             _sort_r(sorted, processed, dep_key, dep_deps, dependency_tree)
         sorted.append((key, deps))

   The Python recursion is unbounded; the model recurses on explicit fuel and
   DepSortProofs.v proves that `length g + 1` always suffices. *)
From SV Require Import Lib.Base.

Definition node := N.
Definition entry := (node * list node)%type.
Definition graph := list entry.

Definition keys (g : graph) : list node := map fst g.

Fixpoint lookup (g : graph) (k : node) : option (list node) :=
  match g with
  | [] => None
  | (k', d) :: g' => if N.eqb k' k then Some d else lookup g' k
  end.

Fixpoint memN (k : node) (l : list node) : bool :=
  match l with
  | [] => false
  | x :: l' => N.eqb x k || memN k l'
  end.

(* (sorted, processed) *)
Definition dstate := (list entry * list node)%type.

Fixpoint sort_r (fuel : nat) (g : graph) (st : dstate) (key : node) (deps : list node)
  : option dstate :=
  match fuel with
  | O => None
  | S f =>
      if memN key (snd st) then Some st else
      let st1 := (fst st, key :: snd st) in
      match (fix loop (ds : list node) (s : dstate) {struct ds} : option dstate :=
               match ds with
               | [] => Some s
               | d :: ds' =>
                   match lookup g d with
                   | None => loop ds' s
                   | Some dd => match sort_r f g s d dd with
                                | None => None
                                | Some s' => loop ds' s'
                                end
                   end
               end) deps st1 with
      | None => None
      | Some s2 => Some (fst s2 ++ [(key, deps)], snd s2)
      end
  end.

(* the `for dep_key in deps` loop, named (equal to the local fix by conversion) *)
Fixpoint deps_loop (f : nat) (g : graph) (ds : list node) (s : dstate) : option dstate :=
  match ds with
  | [] => Some s
  | d :: ds' =>
      match lookup g d with
      | None => deps_loop f g ds' s
      | Some dd => match sort_r f g s d dd with
                   | None => None
                   | Some s' => deps_loop f g ds' s'
                   end
      end
  end.

(* the `for key, deps in dependency_tree.items()` loop; `items` is a suffix of g *)
Fixpoint top_loop (fuel : nat) (g : graph) (items : list entry) (s : dstate) : option dstate :=
  match items with
  | [] => Some s
  | (k, d) :: rest =>
      match sort_r fuel g s k d with
      | None => None
      | Some s' => top_loop fuel g rest s'
      end
  end.

Definition dependency_sort_opt (g : graph) : option (list entry) :=
  match top_loop (S (length g)) g g ([], []) with
  | Some s => Some (fst s)
  | None => None
  end.

(* total version; the None branch is unreachable (depsort_terminates) *)
Definition dependency_sort (g : graph) : list entry :=
  match dependency_sort_opt g with Some r => r | None => [] end.

(* ------------------------------------------------------------------ *)
(* executable spec, written from the property / the docstring          *)
(* ------------------------------------------------------------------ *)

Definition entry_eqb (a b : entry) : bool :=
  N.eqb (fst a) (fst b) && list_eqb N.eqb (snd a) (snd b).

Fixpoint index_of (k : node) (l : list node) : option nat :=
  match l with
  | [] => None
  | x :: l' => if N.eqb x k then Some O
               else match index_of k l' with Some i => Some (S i) | None => None end
  end.

(* d strictly before k *)
Definition beforeb (l : list node) (d k : node) : bool :=
  match index_of d l, index_of k l with
  | Some i, Some j => Nat.ltb i j
  | _, _ => false
  end.

Fixpoint nodupb (l : list node) : bool :=
  match l with
  | [] => true
  | x :: l' => negb (memN x l') && nodupb l'
  end.

(* same multiset of entries as the input dict: every entry of the input occurs,
   nothing else, nothing twice *)
Definition perm_ok (g : graph) (out : list entry) : bool :=
  Nat.eqb (length out) (length g) &&
  nodupb (map fst out) &&
  forallb (fun e => existsb (entry_eqb e) g) out &&
  forallb (fun e => existsb (entry_eqb e) out) g.

(* reachability through >= 1 edges between keys of g, by bounded iteration *)
Definition succs (g : graph) (k : node) : list node :=
  match lookup g k with
  | Some d => filter (fun x => match lookup g x with Some _ => true | None => false end) d
  | None => []
  end.

Fixpoint reach_from (n : nat) (g : graph) (front seen : list node) : list node :=
  match n with
  | O => seen
  | S n' =>
      let new := filter (fun x => negb (memN x seen)) (flat_map (succs g) front) in
      match new with
      | [] => seen
      | _ => reach_from n' g new (seen ++ new)
      end
  end.

(* nodes reachable from k by a path of length >= 1 *)
Definition reachable (g : graph) (k : node) : list node :=
  reach_from (S (length g)) g [k] [] .

Definition reachb (g : graph) (a b : node) : bool := memN b (reachable g a).

(* "dependencies first": whenever k depends directly on a key d, d comes before k
   unless d itself depends (directly or indirectly) on k (a cycle through both) *)
Definition order_ok (g : graph) (out : list entry) : bool :=
  let ks := map fst out in
  forallb (fun e =>
    forallb (fun d =>
      match lookup g d with
      | None => true                                  (* dangling: ignored *)
      | Some _ => beforeb ks d (fst e) || reachb g d (fst e)
      end) (snd e)) g.

(* the harness passes the graph and what the implementation returned *)
Record dcase := mkD {
  d_graph : graph;
  d_impl : option (list entry)        (* None = the implementation raised *)
}.

Definition depsort_agrees (c : dcase) : bool :=
  match d_impl c with
  | Some out => list_eqb entry_eqb (dependency_sort (d_graph c)) out
  | None => false
  end.

Definition depsort_spec_ok (c : dcase) : bool :=
  match d_impl c with
  | Some out => perm_ok (d_graph c) out && order_ok (d_graph c) out
  | None => false
  end.
