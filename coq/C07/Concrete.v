(* C07 (4) -- the concrete schema as written (blocks, refs, groups, attribute
   groups, extension) and what suds makes of it:
     SchemaCollection.add      blocks of one namespace are concatenated into the
                               FIRST block's Schema (its elementFormDefault wins)
     Factory.collate           five tables keyed by qname, a later duplicate wins
     Schema.merge              across namespaces the first definition wins
     Element.__init__          form: ref or top-level => qualified, else form=,
                               else the Schema's elementFormDefault; "top-level"
                               is tested as root.parent is schema.root, which is
                               false for declarations moved in from a later block
     Element.merge             a ref takes name, type, nillable, default of the
                               global declaration, keeps its own min/max
     Group/AttributeGroup.merge  the ref's children become the definition's
     Extension.merge           the base's children are prepended
     sxbase.Iter               containers are transparent; ancestry gives the
                               "optional ancestor" and "under a choice" flags
   The model computes the flattened view (sxbase.Iter over the dereferenced
   object graph) by name lookup; group references recurse on explicit fuel.
   Definitions only. *)
From SV Require Import Lib.Base Fam.Schema C01.Marshal.

Inductive cpart :=
| CEl (nm : name) (ty : tref) (opt multi nl : bool) (dflt : option N) (form : option bool)
| CRef (q : qn) (opt multi : bool)
| CAnyP
| CCont (k : ckind) (opt : bool) (kids : list cpart)
| CGrp (q : qn) (opt : bool).

Inductive cattr := CAt (a : adecl) | CAGrp (q : qn).

Inductive cdecl :=
| DType (nm : name) (base : option qn) (content : list cpart) (attrs : list cattr)
| DElem (nm : name) (ty : tref) (nl : bool) (dflt : option N)
| DGroup (nm : name) (body : cpart)
| DAGroup (nm : name) (attrs : list cattr).

Record cblock := mkBlock { b_ns : nsid; b_efd : bool; b_decls : list cdecl }.
Definition cschema := list cblock.          (* document order *)

(* ---------------- consolidation and tables ---------------- *)

(* a declaration together with the Schema object it ends up in *)
Record placed := mkPl {
  p_ns : nsid;
  p_efd : bool;          (* form_qualified of the consolidated Schema: the first block's *)
  p_own : bool;          (* elementFormDefault of the block the declaration is written in *)
  p_first : bool;        (* written in the first block of its namespace *)
  p_decl : cdecl
}.

Fixpoint first_efd (ns : nsid) (bs : list cblock) : option bool :=
  match bs with
  | [] => None
  | b :: bs' => if N.eqb (b_ns b) ns then Some (b_efd b) else first_efd ns bs'
  end.

(* blocks seen so far decide whether this one is the first of its namespace *)
Fixpoint place (seen : list nsid) (all : cschema) (bs : list cblock) : list placed :=
  match bs with
  | [] => []
  | b :: bs' =>
      let first := negb (existsb (N.eqb (b_ns b)) seen) in
      let efd := match first_efd (b_ns b) all with Some e => e | None => b_efd b end in
      map (mkPl (b_ns b) efd (b_efd b) first) (b_decls b) ++ place (b_ns b :: seen) all bs'
  end.

Definition placed_all (C : cschema) : list placed := place [] C C.

Inductive dkind := KType | KElem | KGroup | KAGroup.
Definition dkind_eqb (a b : dkind) : bool :=
  match a, b with
  | KType, KType | KElem, KElem | KGroup, KGroup | KAGroup, KAGroup => true
  | _, _ => false
  end.

Definition decl_kind (d : cdecl) : dkind :=
  match d with DType _ _ _ _ => KType | DElem _ _ _ _ => KElem | DGroup _ _ => KGroup | DAGroup _ _ => KAGroup end.
Definition decl_name (d : cdecl) : name :=
  match d with DType n _ _ _ => n | DElem n _ _ _ => n | DGroup n _ => n | DAGroup n _ => n end.

(* dict semantics inside one namespace: the LAST declaration of a name wins
   (collate assigns in document order); namespaces never collide *)
Fixpoint lookup_decl (k : dkind) (q : qn) (l : list placed) : option placed :=
  match l with
  | [] => None
  | p :: l' =>
      match lookup_decl k q l' with
      | Some r => Some r
      | None => if dkind_eqb (decl_kind (p_decl p)) k && qn_eqb (p_ns p, decl_name (p_decl p)) q
                then Some p else None
      end
  end.

(* ---------------- the flattened view ---------------- *)

Definition is_choice (k : ckind) : bool := match k with KChoice => true | _ => false end.

Section Flat.
Variable T : list placed.

(* Element.__init__ + SchemaObject.__init__ for a local declaration written in a
   Schema with target namespace ns and elementFormDefault efd *)
Definition local_qual (efd : bool) (form : option bool) : bool :=
  match form with Some f => f | None => efd end.

(* one particle, in the Schema (ns, efd); fuel bounds the group nesting *)
Fixpoint flat_cp (fuel : nat) (ns : nsid) (efd : bool) (anc ch : bool) (p : cpart) {struct fuel}
  : option (list fchild) :=
  match fuel with
  | O => None
  | S f =>
      (fix go (p : cpart) (anc ch : bool) {struct p} : option (list fchild) :=
         match p with
         | CEl nm ty opt multi nl dflt form =>
             Some [FE (mkE nm ns (local_qual efd form) ty opt multi nl dflt) anc ch]
         | CRef q opt multi =>
             match lookup_decl KElem q T with
             | Some pl =>
                 match p_decl pl with
                 | DElem nm ty nl dflt =>
                     (* Element.merge: name, type, nillable, default from the target;
                        namespace() is the target's; a reference is always qualified *)
                     Some [FE (mkE nm (p_ns pl) true ty opt multi nl dflt) anc ch]
                 | _ => None
                 end
             | None => None                           (* TypeNotFound *)
             end
         | CAnyP => Some [FAny anc]
         | CCont k opt kids =>
             (fix gol (l : list cpart) : option (list fchild) :=
                match l with
                | [] => Some []
                | x :: l' =>
                    match go x (anc || opt) (ch || is_choice k), gol l' with
                    | Some a, Some b => Some (a ++ b)
                    | _, _ => None
                    end
                end) kids
         | CGrp q opt =>
             match lookup_decl KGroup q T with
             | Some pl =>
                 match p_decl pl with
                 | DGroup _ body => flat_cp f (p_ns pl) (p_efd pl) (anc || opt) ch body
                 | _ => None
                 end
             | None => None
             end
         end) p anc ch
  end.

Fixpoint flat_cps (fuel : nat) (ns : nsid) (efd : bool) (ps : list cpart) : option (list fchild) :=
  match ps with
  | [] => Some []
  | p :: ps' =>
      match flat_cp fuel ns efd false false p, flat_cps fuel ns efd ps' with
      | Some a, Some b => Some (a ++ b)
      | _, _ => None
      end
  end.

(* attributes: attribute groups may nest *)
Fixpoint flat_attrs_c (fuel : nat) (l : list cattr) : option (list adecl) :=
  match fuel with
  | O => None
  | S f =>
      (fix go (l : list cattr) : option (list adecl) :=
         match l with
         | [] => Some []
         | CAt a :: l' => match go l' with Some r => Some (a :: r) | None => None end
         | CAGrp q :: l' =>
             match lookup_decl KAGroup q T with
             | Some pl =>
                 match p_decl pl with
                 | DAGroup _ attrs =>
                     match flat_attrs_c f attrs, go l' with
                     | Some a, Some b => Some (a ++ b)
                     | _, _ => None
                     end
                 | _ => None
                 end
             | None => None
             end
         end) l
  end.

(* a named type: Extension.merge prepends the base's children (fuel: chain length) *)
Fixpoint flat_type (fuel gfuel : nat) (q : qn) : option (list fchild * list adecl) :=
  match fuel with
  | O => None
  | S f =>
      match lookup_decl KType q T with
      | Some pl =>
          match p_decl pl with
          | DType _ base content attrs =>
              match flat_cps gfuel (p_ns pl) (p_efd pl) content, flat_attrs_c gfuel attrs with
              | Some own, Some oa =>
                  match base with
                  | None => Some (own, oa)
                  | Some b => match flat_type f gfuel b with
                              | Some (be, ba) => Some (be ++ own, ba ++ oa)
                              | None => None
                              end
                  end
              | _, _ => None
              end
          | _ => None
          end
      | None => None
      end
  end.

(* a global element as a message part sees it: (ns, qualified, type, nillable).
   Quirk kept: a declaration moved in from a later block is not recognised as
   top-level and falls back to the Schema's elementFormDefault. *)
Definition global_elem_view (q : qn) : option (nsid * bool * tref * bool) :=
  match lookup_decl KElem q T with
  | Some pl =>
      match p_decl pl with
      | DElem _ ty nl _ => Some (p_ns pl, (p_first pl || p_efd pl), ty, nl)
      | _ => None
      end
  | None => None
  end.

End Flat.

Definition fuel_of (C : cschema) : nat := S (length (placed_all C)).

Definition is_type (p : placed) : bool := dkind_eqb (decl_kind (p_decl p)) KType.

(* extension chains are at most as long as there are types *)
Definition chain_fuel (T : list placed) : nat := S (length (filter is_type T)).

Definition type_view (C : cschema) (q : qn) : option (list fchild * list adecl) :=
  flat_type (placed_all C) (chain_fuel (placed_all C)) (fuel_of C) q.

(* ---------------- spec side ---------------- *)
(* XSD structures: an element reference denotes the global declaration with the
   reference's own occurrence; a group reference denotes the group's model group
   with the reference's occurrence; an attribute group reference denotes its
   attributes; an extension's content is the base's followed by its own; a local
   element is qualified per form= or the elementFormDefault of the <schema> it is
   written in; a global element is always qualified.  On the abstract interface
   (where all of this is already expanded) that is flat_elems / flat_attrs. *)

Definition edecl_eqb (a b : edecl) : bool :=
  N.eqb (e_name a) (e_name b) && N.eqb (e_ns a) (e_ns b) && Bool.eqb (e_qual a) (e_qual b) &&
  match e_type a, e_type b with
  | TBuiltin, TBuiltin => true
  | TNamed n x, TNamed m y => N.eqb n m && N.eqb x y
  | _, _ => false
  end &&
  Bool.eqb (e_opt a) (e_opt b) && Bool.eqb (e_multi a) (e_multi b) && Bool.eqb (e_nil a) (e_nil b) &&
  opt_eqb N.eqb (e_default a) (e_default b).

Definition fchild_eqb (a b : fchild) : bool :=
  match a, b with
  | FE d x y, FE e u v => edecl_eqb d e && Bool.eqb x u && Bool.eqb y v
  | FAny x, FAny u => Bool.eqb x u
  | _, _ => false
  end.

Definition adecl_eqb (a b : adecl) : bool :=
  N.eqb (a_name a) (a_name b) && Bool.eqb (a_req a) (a_req b) && opt_eqb N.eqb (a_default a) (a_default b).

Definition view_eqb (a b : list fchild * list adecl) : bool :=
  list_eqb fchild_eqb (fst a) (fst b) && list_eqb adecl_eqb (snd a) (snd b).

(* one case: a rendering as written, the abstract interface it renders, a type
   that keeps its name, and what suds' schema object for it iterates to
   (anonymous-able element types are reported as TBuiltin by the harness on both
   sides, see strip_types) *)
Record vcase := mkVC {
  vc_concrete : cschema;
  vc_abstract : schema;
  vc_type : qn;
  vc_impl : option (list fchild * list adecl)      (* None: not found / exception *)
}.

Definition deref_agrees (c : vcase) : bool :=
  match type_view (vc_concrete c) (vc_type c), vc_impl c with
  | Some m, Some i => view_eqb m i
  | None, None => true
  | _, _ => false
  end.

Definition deref_spec_ok (c : vcase) : bool :=
  match find_type (vc_abstract c) (vc_type c), vc_impl c with
  | Some t, Some i => view_eqb (flat_elems (vc_abstract c) t, flat_attrs (vc_abstract c) t) i
  | _, _ => false
  end.

(* the model itself against the denotation, evaluated on every rendering *)
Definition deref_model_is_denotation (c : vcase) : bool :=
  match find_type (vc_abstract c) (vc_type c), type_view (vc_concrete c) (vc_type c) with
  | Some t, Some m => view_eqb (flat_elems (vc_abstract c) t, flat_attrs (vc_abstract c) t) m
  | _, _ => false
  end.

(* global elements (message parts, wrappers) *)
Record gcase := mkGC {
  gc_concrete : cschema;
  gc_elem : qn;
  gc_type : tref;                                   (* what the interface says *)
  gc_nil : bool;
  gc_impl : option (nsid * bool * tref * bool)
}.

Definition gview_eqb (a b : nsid * bool * tref * bool) : bool :=
  let '(n1, q1, t1, l1) := a in let '(n2, q2, t2, l2) := b in
  N.eqb n1 n2 && Bool.eqb q1 q2 && Bool.eqb l1 l2 &&
  match t1, t2 with
  | TBuiltin, TBuiltin => true
  | TNamed n x, TNamed m y => N.eqb n m && N.eqb x y
  | _, _ => false
  end.

Definition gelem_agrees (c : gcase) : bool :=
  match global_elem_view (placed_all (gc_concrete c)) (gc_elem c), gc_impl c with
  | Some m, Some i => gview_eqb m i
  | None, None => true
  | _, _ => false
  end.

(* a global element is qualified, in its schema's target namespace *)
Definition gelem_spec_ok (c : gcase) : bool :=
  match gc_impl c with
  | Some i => gview_eqb (fst (gc_elem c), true, gc_type c, gc_nil c) i
  | None => false
  end.

(* ---------------- Schema.merge / SchemaCollection.merge ---------------- *)
(* One Schema object per namespace (SchemaCollection.add), folded into the first
   by Schema.merge: for each of the tables (attributes, elements, types, groups,
   attribute groups) in turn, an entry of the other schema is taken over unless THAT
   table of self already has the key.  Global attributes are not modelled. *)

Definition present (k : dkind) (q : qn) (l : list placed) : bool :=
  match lookup_decl k q l with Some _ => true | None => false end.

Definition merge_schema (self other : list placed) : list placed :=
  self ++ filter (fun p => negb (present (decl_kind (p_decl p)) (p_ns p, decl_name (p_decl p)) self)) other.

Definition of_ns (ns : nsid) (T : list placed) : list placed := filter (fun p => N.eqb (p_ns p) ns) T.

(* namespaces in order of first appearance: SchemaCollection.children *)
Fixpoint ns_order (seen : list nsid) (T : list placed) : list nsid :=
  match T with
  | [] => []
  | p :: T' => if existsb (N.eqb (p_ns p)) seen then ns_order seen T'
               else p_ns p :: ns_order (p_ns p :: seen) T'
  end.

Definition merge_all (l : list (list placed)) (acc : list placed) : list placed :=
  fold_left merge_schema l acc.

Definition merged_schema (C : cschema) : list placed :=
  let T := placed_all C in
  match ns_order [] T with
  | [] => []
  | n :: rest => merge_all (map (fun m => of_ns m T) rest) (of_ns n T)
  end.

Definition table_keys (k : dkind) (l : list placed) : list qn :=
  map (fun p => (p_ns p, decl_name (p_decl p))) (filter (fun p => dkind_eqb (decl_kind (p_decl p)) k) l).

Definition qset_eqb (a b : list qn) : bool :=
  forallb (fun x => existsb (qn_eqb x) b) a && forallb (fun x => existsb (qn_eqb x) a) b.

Record mcase := mkMC {
  mc_concrete : cschema;
  mc_tables : list (dkind * list qn)        (* keys of client.wsdl.schema.{types,elements,groups,agrps} *)
}.

Definition merge_agrees (c : mcase) : bool :=
  forallb (fun kt => qset_eqb (snd kt) (table_keys (fst kt) (merged_schema (mc_concrete c)))) (mc_tables c).

(* spec: the merged schema offers every declaration of every namespace in the table
   of its own symbol space, and nothing else *)
Definition merge_spec_ok (c : mcase) : bool :=
  forallb (fun kt => qset_eqb (snd kt) (table_keys (fst kt) (placed_all (mc_concrete c)))) (mc_tables c).

(* ---------------- one case per rendering ---------------- *)

Record scase := mkSC {
  sc_concrete : cschema;
  sc_abstract : schema;
  sc_types : list (qn * option (list fchild * list adecl));
  sc_elems : list (qn * tref * option (nsid * bool * tref * bool))
}.

Definition sc_v (c : scase) (x : qn * option (list fchild * list adecl)) : vcase :=
  mkVC (sc_concrete c) (sc_abstract c) (fst x) (snd x).
Definition sc_g (c : scase) (x : qn * tref * option (nsid * bool * tref * bool)) : gcase :=
  mkGC (sc_concrete c) (fst (fst x)) (snd (fst x)) false (snd x).

Definition schema_agrees (c : scase) : bool :=
  forallb (fun x => deref_agrees (sc_v c x)) (sc_types c) &&
  forallb (fun x => gelem_agrees (sc_g c x)) (sc_elems c).

Definition schema_spec_ok (c : scase) : bool :=
  forallb (fun x => deref_spec_ok (sc_v c x)) (sc_types c) &&
  forallb (fun x => gelem_spec_ok (sc_g c x)) (sc_elems c).

(* the model against the denotation on this rendering; meaningful where the
   rendering stays clear of the two known quirks (see Props.v) *)
Definition schema_model_is_denotation (c : scase) : bool :=
  forallb (fun x => deref_model_is_denotation (sc_v c x)) (sc_types c).
