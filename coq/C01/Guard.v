(* C01 — the conformance guard (which argument trees "fit the input schema"
   for the purposes of the theorem) and the boolean instance of the theorem
   that the harness evaluates on every generated case.  Definitions only. *)
From SV Require Import Lib.Base Fam.Schema C01.Marshal.

Fixpoint nodup_keys (l : list (name * bool)) : bool :=
  match l with
  | [] => true
  | k :: l' => negb (key_in k l') && nodup_keys l'
  end.

Definition no_wild (l : list fchild) : bool :=
  forallb (fun c => match c with FE _ _ _ => true | FAny _ => false end) l.

Definition is_none (v : value) : bool := match v with VNone => true | _ => false end.

(* the type the members of an object value are looked up in *)
Definition real_type (S : schema) (d : edecl) (ty : option qn) : option ctype :=
  match ty with Some q => find_type S q | None => declared_type S d end.

(* v fits declaration d:
   - object keys are distinct, all declared by the (real) type, whose member
     names are distinct and which has no wildcard;
   - attribute keys carry a text (or None when the attribute is not required);
   - member values fit their own declarations, recursively. *)
Fixpoint conforming (S : schema) (d : edecl) (v : value) {struct v} : bool :=
  match v with
  | VNone => true
  | VText _ => true
  | VList l => (fix all (l : list value) : bool :=
                  match l with [] => true | x :: l' => conforming S d x && all l' end) l
  | VObj ty fs =>
      match real_type S d ty with
      | None => false
      | Some rt =>
          nodup_keys (ordering S rt) && no_wild (flat_elems S rt) &&
          nodup_keys (map (fun f : field => fst f) fs) &&
          forallb (fun f : field => key_in (fst f) (ordering S rt)) fs &&
          (fix each (fs : list field) : bool :=
             match fs with
             | [] => true
             | (k, isattr, x) :: fs' =>
                 (if isattr then
                    match get_attribute k (flat_attrs S rt) with
                    | None => false
                    | Some a => match x with
                                | VText _ => true
                                | VNone => negb (a_req a)
                                | _ => false
                                end
                    end
                  else
                    match get_child k (flat_elems S rt) with
                    | Some (FE d' _ _) => conforming S d' x
                    | _ => false
                    end) && each fs'
             end) fs
      end
  end.

Definition has_none (v : value) : bool :=
  match v with VNone => true | VList l => existsb is_none l | _ => false end.

(* a top-level argument: additionally, None must be unambiguous — suds does
   not see the optional containers above a top-level parameter *)
Definition param_conforming (S : schema) (c : fchild) (v : value) : bool :=
  match c with
  | FAny _ => false
  | FE d anc ch =>
      conforming S d v &&
      (negb (has_none v) || (ch && is_none v) || (is_none v && e_opt d) || (negb anc && negb (e_opt d)))
  end.

Definition args_conforming (S : schema) (wrapper : edecl) (args : list value) : bool :=
  match declared_type S wrapper with
  | None => false
  | Some wt =>
      Nat.eqb (length (flat_elems S wt)) (length args) &&
      forallb (fun pa => param_conforming S (fst pa) (snd pa)) (combine (flat_elems S wt) args)
  end.

(* the theorem's instance on one case, as a boolean *)
Definition mres_is {A} (eqb : A -> A -> bool) (m : mres A) (o : option A) : bool :=
  match m, o with MOk a, Some b => eqb a b | _, _ => false end.

Fixpoint xnodes_eqb (a b : list xnode) : bool :=
  match a, b with
  | [], [] => true
  | x :: a', y :: b' => xnode_eqb x y && xnodes_eqb a' b'
  | _, _ => false
  end.

Definition wrapped_guard (c : wcase) : bool := args_conforming (w_schema c) (w_wrapper c) (w_args c).

Definition wrapped_theorem_instance (c : wcase) : bool :=
  negb (wrapped_guard c) ||
  mres_is xnode_eqb (doc_wrapped_body (w_schema c) (w_xstq c) (w_wrapper c) (w_args c))
                    (ref_doc_wrapped (w_schema c) (w_xstq c) (w_wrapper c) (w_args c)).

(* ------------------------------------------------------------------ *)
(* KNOWN DEFECT of the unchanged code (C01:toplevel-param-in-optional-container-sent-empty):
   a top-level parameter that lies inside an optional container of the wrapper
   type, is not minOccurs=0 itself and is not a choice branch, left None.  The
   reference (ref_param) omits it - an absent optional value -, the code
   (marshal_param: no ancestry, anc = false) writes an empty / nil / default
   element.  [param_conforming] excludes exactly these arguments. *)
Definition toplevel_quirk (c : fchild) (v : value) : bool :=
  match c with
  | FE d anc ch => anc && negb (e_opt d) && negb ch && is_none v
  | FAny _ => false
  end.

(* the reference with the defect admitted for those parameters only *)
Definition ref_param_q (S : schema) (xstq : bool) (c : fchild) (v : value) : option (list xnode) :=
  if toplevel_quirk c v
  then match c with FE d _ _ => ref_elem S xstq d false v | FAny _ => None end
  else ref_param S xstq c v.

Definition ref_doc_wrapped_q (S : schema) (xstq : bool) (wrapper : edecl) (args : list value) : option xnode :=
  match declared_type S wrapper with
  | None => None
  | Some wt =>
      let params := flat_elems S wt in
      if negb (Nat.eqb (length params) (length args)) then None else
      match oconcat (map (fun pa => ref_param_q S xstq (fst pa) (snd pa)) (combine params args)) with
      | Some kids => Some (XN (e_ns wrapper) (e_name wrapper) [] None kids)
      | None => None
      end
  end.

Definition has_toplevel_quirk (S : schema) (wrapper : edecl) (args : list value) : bool :=
  match declared_type S wrapper with
  | None => false
  | Some wt => existsb (fun pa => toplevel_quirk (fst pa) (snd pa)) (combine (flat_elems S wt) args)
  end.

(* a request that misses the reference ONLY by that defect: some argument is of
   the class, and the request is the reference with the defect admitted there *)
Definition wrapped_quirk_explained (c : wcase) : bool :=
  has_toplevel_quirk (w_schema c) (w_wrapper c) (w_args c) &&
  match ref_doc_wrapped_q (w_schema c) (w_xstq c) (w_wrapper c) (w_args c), w_impl c with
  | Some x, IOk y => xnode_eqb x y
  | _, _ => false
  end.
