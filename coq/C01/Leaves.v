(* C01 -- "every leaf's text is the XSD lexical form of the Python value":
   float / double leaves.  The lexical space is C06's (coq/C06/Floats.v,
   imported, not restated): decimal mantissa with optional exponent, or one of
   INF, -INF, NaN.  The harness hands over, for every float leaf it put into a
   request, which value it was (a non-finite one by name) and the text the
   reference expects at that position; that this text is what the request
   carries is part of *_spec_ok (the interned texts are compared there). *)
From SV Require Import Lib.Base C06.Decimal C06.Floats.

Inductive nonfinite := NFNaN | NFPosInf | NFNegInf.

Definition nonfinite_lexical (k : nonfinite) : str :=
  match k with NFNaN => s_NaN | NFPosInf => s_INF | NFNegInf => s_mINF end.

(* (Some k: the value is that non-finite float | None: a finite one, expected text) *)
Definition float_leaf_spec_ok (c : option nonfinite * str) : bool :=
  match fst c with
  | Some k => str_eqb (snd c) (nonfinite_lexical k)
  | None => lex_double (snd c) &&
            negb (str_eqb (snd c) s_NaN || str_eqb (snd c) s_INF || str_eqb (snd c) s_mINF)
  end.

Lemma nonfinite_lexical_in_double_space_l : forall k, lex_double (nonfinite_lexical k) = true.
Proof. intros [| |]; vm_compute; reflexivity. Qed.

Lemma nonfinite_lexical_injective_l : forall a b, nonfinite_lexical a = nonfinite_lexical b -> a = b.
Proof. intros [| |] [| |] H; try reflexivity; vm_compute in H; discriminate. Qed.

(* Python's own spellings are outside the lexical space *)
Lemma python_spellings_refuted_l :
  lex_double [110; 97; 110]%N = false /\ lex_double [105; 110; 102]%N = false /\
  lex_double [45; 105; 110; 102]%N = false.
Proof. vm_compute. repeat split. Qed.
