(* C01 (rpc/encoded) -- the section-5 marshaller meets the reference translator
   on every conforming value (unbounded struct nesting, width, array length
   including 0); shape consequences. *)
From SV Require Import Lib.Base Fam.Schema C01.Marshal C01.Guard C01.MarshalProofs C01.Encoded.

(* ------------------------------------------------------------------ *)
(* named versions of the inner fixes, and the unfolding equations       *)
(* ------------------------------------------------------------------ *)
Section Named.
Variable S : eschema.

Definition enc_item (T : etref) (x : value) : mres (list enode) :=
  match x with
  | VList _ => MError
  | _ => mbind (enc_elem S (item_member T) x) (fun o => MOk (fst o))
  end.

Fixpoint enc_items (T : etref) (l : list value) : mres (list enode) :=
  match l with
  | [] => MOk []
  | x :: l' => mbind (enc_item T x) (fun a => mbind (enc_items T l') (fun b => MOk (a ++ b)))
  end.

Lemma enc_elem_list m l :
  enc_elem S m (VList l) =
  match array_item S (m_type m) with
  | None => MError
  | Some T =>
      if m_opt m && is_nil l then MOk ([], None)
      else mbind (enc_items T l)
             (fun its => MOk ([EX (mem_ns m) (m_name m) [xsi_type (tref_qn (m_type m))] None its],
                              Some (aty_attr T (length l))))
  end.
Proof.
  cbn [enc_elem]. destruct (array_item S (m_type m)) as [T|]; [|reflexivity].
  destruct (m_opt m && is_nil l); [reflexivity|].
  match goal with |- mbind ?f _ = _ => replace f with (enc_items T l); [reflexivity|] end.
  induction l as [|x l IH]; [reflexivity|].
  cbn [enc_items]. rewrite IH. reflexivity.
Qed.

Definition field_out (mems : list emember) (k : name) (isattr : bool) (x : value) : mres eout :=
  if isattr then MTypeNotFound
  else match get_member k mems with
       | None => MTypeNotFound
       | Some m' => enc_elem S m' x
       end.

Fixpoint per_field_of (mems : list emember) (fs : list field) : list (name * bool * mres eout) :=
  match fs with
  | [] => []
  | (k, isattr, x) :: fs' => (k, isattr, field_out mems k isattr x) :: per_field_of mems fs'
  end.

Lemma enc_elem_obj m ty fs :
  enc_elem S m (VObj ty fs) =
  match struct_type S (real_qn m ty) with
  | None => MError
  | Some rt =>
      mbind (assemble_from [] (iter_keyed (eordering (all_members S rt))
                                 (per_field_of (all_members S rt) fs)))
            (fun ks => MOk ([EX (mem_ns m) (m_name m) [xsi_type (real_qn m ty)] None ks], None))
  end.
Proof.
  cbn [enc_elem].
  destruct (struct_type S (real_qn m ty)) as [rt|]; [|reflexivity].
  match goal with |- mbind (assemble_from [] (iter_keyed _ ?f)) _ = _ =>
    replace f with (per_field_of (all_members S rt) fs); [reflexivity|] end.
  induction fs as [|[[k isattr] x] fs' IH]; [reflexivity|].
  cbn [per_field_of]. rewrite IH. reflexivity.
Qed.

Definition ref_item (T : etref) (x : value) : option (list enode) :=
  match x with
  | VNone => None
  | _ => ref_elem S (item_member T) x
  end.

Fixpoint ref_items (T : etref) (l : list value) : option (list enode) :=
  match l with
  | [] => Some []
  | x :: l' => match ref_item T x, ref_items T l' with
               | Some a, Some b => Some (a ++ b)
               | _, _ => None
               end
  end.

Lemma ref_elem_list m l :
  ref_elem S m (VList l) =
  match array_item S (m_type m) with
  | None => None
  | Some T =>
      if m_opt m && is_nil l then Some []
      else match ref_items T l with
           | Some its => Some [EX (mem_ns m) (m_name m)
                                  [xsi_type (tref_qn (m_type m)); aty_attr T (length l)] None its]
           | None => None
           end
  end.
Proof.
  cbn [ref_elem]. destruct (array_item S (m_type m)) as [T|]; [|reflexivity].
  destruct (m_opt m && is_nil l); [reflexivity|].
  match goal with |- match ?f with _ => _ end = _ => replace f with (ref_items T l); [reflexivity|] end.
  induction l as [|x l IH]; [reflexivity|].
  cbn [ref_items]. rewrite IH. reflexivity.
Qed.

Definition ebentry := (name * bool * (emember -> option (list enode)))%type.

Fixpoint ebound_of (fs : list field) : list ebentry :=
  match fs with
  | [] => []
  | (k, isattr, x) :: fs' => (k, isattr, fun m' => ref_elem S m' x) :: ebound_of fs'
  end.

Definition member_kids (bound : list ebentry) (m' : emember) : option (list enode) :=
  match lookup_key (mkey m') bound with
  | Some w => w m'
  | None => Some []
  end.

Fixpoint edecls_of (bound : list ebentry) (l : list emember) : option (list enode) :=
  match l with
  | [] => Some []
  | m' :: l' => match member_kids bound m', edecls_of bound l' with
                | Some a, Some b => Some (a ++ b)
                | _, _ => None
                end
  end.

Lemma ref_elem_obj m ty fs :
  ref_elem S m (VObj ty fs) =
  match struct_type S (real_qn m ty) with
  | None => None
  | Some rt =>
      if negb (derives_or_eq S (real_qn m ty) (tref_qn (m_type m))) then None else
      match edecls_of (ebound_of fs) (all_members S rt) with
      | Some ks => Some [EX (mem_ns m) (m_name m) [xsi_type (real_qn m ty)] None ks]
      | None => None
      end
  end.
Proof.
  cbn [ref_elem].
  destruct (struct_type S (real_qn m ty)) as [rt|]; [|reflexivity].
  destruct (negb (derives_or_eq S (real_qn m ty) (tref_qn (m_type m)))); [reflexivity|].
  match goal with |- match ?f with _ => _ end = _ =>
    replace f with (edecls_of (ebound_of fs) (all_members S rt)); [reflexivity|] end.
  assert (Hb : ebound_of fs =
               (fix bound (fs0 : list field) : list (name * bool * (emember -> option (list enode))) :=
                  match fs0 with
                  | [] => []
                  | (k, isattr, x) :: fs' => (k, isattr, fun m' => ref_elem S m' x) :: bound fs'
                  end) fs).
  { induction fs as [|[[k isattr] x] fs' IH]; [reflexivity|]. cbn [ebound_of]. rewrite IH. reflexivity. }
  rewrite Hb. generalize (all_members S rt) as ms.
  induction ms as [|m' ms IH]; [reflexivity|].
  cbn [edecls_of]. rewrite IH. reflexivity.
Qed.

Definition conf_item (T : etref) (x : value) : bool :=
  negb (is_none x) && negb (is_list x) && enc_conforming S (item_member T) x.

Lemma enc_conforming_list m l :
  enc_conforming S m (VList l) =
  match array_item S (m_type m) with
  | None => false
  | Some T => forallb (conf_item T) l
  end.
Proof.
  cbn [enc_conforming]. destruct (array_item S (m_type m)) as [T|]; [|reflexivity].
  induction l as [|x l IH]; [reflexivity|].
  cbn [forallb]. rewrite <- IH. unfold conf_item. reflexivity.
Qed.

Fixpoint eeach_of (mems : list emember) (fs : list field) : bool :=
  match fs with
  | [] => true
  | (k, isattr, x) :: fs' =>
      negb isattr &&
      match get_member k mems with
      | Some m' => enc_conforming S m' x
      | None => false
      end && eeach_of mems fs'
  end.

Lemma enc_conforming_obj m ty fs :
  enc_conforming S m (VObj ty fs) =
  match struct_type S (real_qn m ty) with
  | None => false
  | Some rt =>
      derives_or_eq S (real_qn m ty) (tref_qn (m_type m)) &&
      nodup_keys (eordering (all_members S rt)) &&
      nodup_keys (map (fun f : field => fst f) fs) &&
      forallb (fun f : field => key_in (fst f) (eordering (all_members S rt))) fs &&
      eeach_of (all_members S rt) fs
  end.
Proof.
  cbn [enc_conforming].
  destruct (struct_type S (real_qn m ty)) as [rt|]; [|reflexivity].
  f_equal. induction fs as [|[[k isattr] x] fs' IH]; [reflexivity|].
  cbn [eeach_of]. rewrite IH. reflexivity.
Qed.

End Named.

(* ------------------------------------------------------------------ *)
(* small facts                                                         *)
(* ------------------------------------------------------------------ *)
Lemma set_on_first_skip n a acc ks :
  Forall (fun k => ename k <> n) acc ->
  set_on_first n a (acc ++ ks) = acc ++ set_on_first n a ks.
Proof.
  induction acc as [|k acc IH]; intros H; [reflexivity|].
  inversion H as [|? ? Hk H']; subst. destruct k as [ns nm ats tx kk]. cbn in Hk.
  cbn [app set_on_first]. destruct (N.eqb nm n) eqn:E.
  - apply N.eqb_eq in E. contradiction.
  - rewrite IH by assumption. reflexivity.
Qed.

Lemma apply_aty_skip n p acc ks :
  Forall (fun k => ename k <> n) acc ->
  apply_aty n p (acc ++ ks) = acc ++ apply_aty n p ks.
Proof. destruct p as [a|]; [apply set_on_first_skip | reflexivity]. Qed.

Lemma ref_elem_names S m v ns :
  ref_elem S m v = Some ns -> Forall (fun k => ename k = m_name m) ns.
Proof.
  destruct v as [|t|l|ty fs].
  - cbn [ref_elem]. destruct (m_opt m); intros H; inversion H; subst; repeat constructor.
  - cbn [ref_elem]. destruct (m_type m); intros H; inversion H; subst; repeat constructor.
  - rewrite ref_elem_list. destruct (array_item S (m_type m)) as [T|]; [|discriminate].
    destruct (m_opt m && is_nil l); [intros H; inversion H; constructor|].
    destruct (ref_items S T l); intros H; inversion H; subst; repeat constructor.
  - rewrite ref_elem_obj. destruct (struct_type S (real_qn m ty)) as [rt|]; [|discriminate].
    destruct (negb (derives_or_eq S (real_qn m ty) (tref_qn (m_type m)))); [discriminate|].
    destruct (edecls_of (ebound_of S fs) (all_members S rt)); intros H; inversion H; subst;
      repeat constructor.
Qed.

(* only a list leaves an arrayType for Encoded.end to set *)
Lemma enc_elem_nonlist_pending S m v o :
  is_list v = false -> enc_elem S m v = MOk o -> snd o = None.
Proof.
  destruct v as [|t|l|ty fs]; intros Hl H; try discriminate.
  - cbn [enc_elem] in H. destruct (m_opt m); inversion H; reflexivity.
  - cbn [enc_elem] in H. inversion H; reflexivity.
  - rewrite enc_elem_obj in H. destruct (struct_type S (real_qn m ty)) as [rt|]; [|discriminate].
    destruct (assemble_from [] _) as [ks| |]; cbn [mbind] in H; inversion H; reflexivity.
Qed.

Lemma get_member_finds : forall l m,
  NoDup (map m_name l) -> In m l -> get_member (m_name m) l = Some m.
Proof.
  induction l as [|b l IH]; intros m Hn Hin; [destruct Hin|].
  cbn [map] in Hn. inversion Hn as [|? ? Hnot Hn']; subst.
  cbn [get_member]. destruct Hin as [->|Hin].
  - rewrite N.eqb_refl. reflexivity.
  - destruct (N.eqb (m_name b) (m_name m)) eqn:E.
    + apply N.eqb_eq in E. exfalso. apply Hnot. rewrite E. apply in_map. exact Hin.
    + apply IH; assumption.
Qed.

Lemma nodup_eordering ms : nodup_keys (eordering ms) = true -> NoDup (map m_name ms).
Proof.
  rewrite nodup_keys_NoDup. unfold eordering.
  replace (map mkey ms) with (map (fun n : name => (n, false)) (map m_name ms))
    by (rewrite map_map; reflexivity).
  apply NoDup_map_inv.
Qed.

Lemma per_field_forallb S mems ord fs :
  forallb (fun f => key_in (fst f) ord) (per_field_of S mems fs) =
  forallb (fun f : field => key_in (fst f) ord) fs.
Proof.
  induction fs as [|[[k isattr] x] fs IH]; [reflexivity|].
  cbn [per_field_of forallb fst]. rewrite IH. reflexivity.
Qed.

(* ------------------------------------------------------------------ *)
(* 1. the marshaller meets the reference on every conforming value      *)
(* ------------------------------------------------------------------ *)
Definition eagree (S : eschema) (v : value) : Prop :=
  forall m, enc_conforming S m v = true ->
    exists ns, ref_elem S m v = Some ns /\ enc_param S m v = MOk ns.

Lemma enc_param_inv S m v ns :
  enc_param S m v = MOk ns ->
  exists o, enc_elem S m v = MOk o /\ apply_aty (m_name m) (snd o) (fst o) = ns.
Proof.
  unfold enc_param. destruct (enc_elem S m v) as [o| |]; cbn [mbind]; intros H; inversion H.
  exists o. split; reflexivity.
Qed.

(* a non-optional accessor is exactly one element *)
Lemma ref_elem_single S m v ns :
  m_opt m = false -> ref_elem S m v = Some ns -> length ns = 1.
Proof.
  intros Ho. destruct v as [|t|l|ty fs].
  - cbn [ref_elem]. rewrite Ho. intros H; inversion H; reflexivity.
  - cbn [ref_elem]. destruct (m_type m); intros H; inversion H; reflexivity.
  - rewrite ref_elem_list, Ho. cbn [andb].
    destruct (array_item S (m_type m)) as [T|]; [|discriminate].
    destruct (ref_items S T l); intros H; inversion H; reflexivity.
  - rewrite ref_elem_obj. destruct (struct_type S (real_qn m ty)) as [rt|]; [|discriminate].
    destruct (negb _); [discriminate|].
    destruct (edecls_of _ _); intros H; inversion H; reflexivity.
Qed.

Lemma items_agree S T l :
  Forall (eagree S) l -> forallb (conf_item S T) l = true ->
  exists its, ref_items S T l = Some its /\ enc_items S T l = MOk its /\ length its = length l.
Proof.
  induction 1 as [|x l Hx _ IH]; intros Hc.
  - exists []. repeat split; reflexivity.
  - cbn [forallb] in Hc. apply andb_true_iff in Hc as [Hcx Hc].
    destruct (IH Hc) as [its [Hr [He Hlen]]].
    unfold conf_item in Hcx. apply andb_true_iff in Hcx as [Hcx Hconf].
    apply andb_true_iff in Hcx as [Hnn Hnl].
    apply negb_true_iff in Hnn. apply negb_true_iff in Hnl.
    destruct (Hx (item_member T) Hconf) as [a [Hra Hea]].
    apply enc_param_inv in Hea as [o [Ho Ha]].
    rewrite (enc_elem_nonlist_pending S _ _ _ Hnl Ho) in Ha. cbn [apply_aty] in Ha.
    assert (Hlen1 : length a = 1) by (apply (ref_elem_single S (item_member T) x a eq_refl Hra)).
    exists (a ++ its). cbn [ref_items enc_items].
    assert (Hri : ref_item S T x = Some a) by (destruct x; try discriminate; exact Hra).
    assert (Hei : enc_item S T x = MOk a).
    { unfold enc_item. destruct x; try discriminate; rewrite Ho; cbn [mbind]; rewrite Ha; reflexivity. }
    rewrite Hri, Hr, Hei, He. cbn [mbind]. repeat split.
    rewrite app_length, Hlen1, Hlen. reflexivity.
Qed.

Section ObjectCase.
Variable S : eschema.
Variable mems : list emember.
Variable fs : list field.
Hypothesis HF : Forall (fun f : field => eagree S (snd f)) fs.

Let pf := per_field_of S mems fs.
Let bound := ebound_of S fs.

(* one member: what the reference writes for it is what the marshaller
   appends (Encoded.end included) when no earlier child has its name *)
Lemma member_agree m' :
  get_member (m_name m') mems = Some m' ->
  eeach_of S mems fs = true ->
  exists ns, member_kids bound m' = Some ns /\
             Forall (fun k => ename k = m_name m') ns /\
             forall acc rest, Forall (fun k => ename k <> m_name m') acc ->
               assemble_from acc (pick pf (mkey m') ++ rest) = assemble_from (acc ++ ns) rest.
Proof.
  intros Hg. unfold pf, bound. clear pf bound.
  induction fs as [|[[k isattr] x] fs' IH]; intros He.
  - exists []. split; [reflexivity|]. split; [constructor|].
    intros acc rest _. cbn. rewrite app_nil_r. reflexivity.
  - inversion HF as [|? ? Hx HF']; subst. cbn [snd] in Hx.
    cbn [eeach_of] in He. apply andb_true_iff in He as [He1 He].
    apply andb_true_iff in He1 as [Hna Hf]. apply negb_true_iff in Hna. subst isattr.
    unfold member_kids, pick, lookup_key in *. cbn [ebound_of per_field_of find fst].
    destruct (key_eqb (k, false) (mkey m')) eqn:E.
    + apply key_eqb_eq in E. unfold mkey in E. inversion E; subst k. cbn [snd].
      unfold field_out. rewrite Hg in *.
      destruct (Hx m' Hf) as [ns [Hr Hm]].
      exists ns. split; [exact Hr|]. split; [exact (ref_elem_names _ _ _ _ Hr)|].
      intros acc rest Hacc.
      apply enc_param_inv in Hm as [o [Ho Ha]].
      cbn [app assemble_from snd fst]. rewrite Ho. cbn [mbind].
      rewrite apply_aty_skip by exact Hacc. unfold mkey. cbn [fst]. rewrite Ha. reflexivity.
    + apply IH; [exact HF' | exact He].
Qed.

Hypothesis Heach : eeach_of S mems fs = true.

Lemma members_agree ms : forall acc,
  (forall m', In m' ms -> get_member (m_name m') mems = Some m') ->
  NoDup (map m_name ms) ->
  Forall (fun k => ~ In (ename k) (map m_name ms)) acc ->
  exists ks, edecls_of bound ms = Some ks /\
             assemble_from acc (flat_map (pick pf) (map mkey ms)) = MOk (acc ++ ks).
Proof.
  induction ms as [|m' ms IH]; intros acc Hg Hnd Hacc.
  - exists []. split; [reflexivity|]. cbn. rewrite app_nil_r. reflexivity.
  - cbn [map] in Hnd. inversion Hnd as [|? ? Hnot Hnd']; subst.
    destruct (member_agree m' (Hg m' (or_introl eq_refl)) Heach) as [ns [Hk [Hnames Hasm]]].
    destruct (IH (acc ++ ns)) as [ks [Hd Ha]].
    + intros m'' Hin. apply Hg. right. exact Hin.
    + exact Hnd'.
    + apply Forall_app. split.
      * eapply Forall_impl; [|exact Hacc]. intros k Hk' Hin. apply Hk'. right. exact Hin.
      * eapply Forall_impl; [|exact Hnames]. intros k Hk' Hin. cbn in Hk'. rewrite Hk' in Hin.
        contradiction.
    + exists (ns ++ ks). split.
      * cbn [edecls_of]. rewrite Hk, Hd. reflexivity.
      * cbn [map flat_map]. rewrite Hasm.
        -- rewrite Ha, app_assoc. reflexivity.
        -- eapply Forall_impl; [|exact Hacc]. intros k Hk' Heq. apply Hk'. left. symmetry. exact Heq.
Qed.

End ObjectCase.

Lemma enc_conforms_v : forall S v, eagree S v.
Proof.
  intros S v. induction v as [|t|l IH|ty fs IH] using value_ind'; intros m Hc.
  - unfold enc_param. cbn [ref_elem enc_elem]. destruct (m_opt m); eexists; split; reflexivity.
  - cbn [enc_conforming] in Hc. unfold enc_param. cbn [ref_elem enc_elem].
    destruct (m_type m); [|discriminate]. eexists; split; reflexivity.
  - rewrite enc_conforming_list in Hc. unfold enc_param. rewrite ref_elem_list, enc_elem_list.
    destruct (array_item S (m_type m)) as [T|]; [|discriminate].
    destruct (m_opt m && is_nil l); [exists []; split; reflexivity|].
    destruct (items_agree S T l IH Hc) as [its [Hr [He _]]].
    rewrite Hr, He. cbn [mbind fst snd apply_aty set_on_first]. rewrite N.eqb_refl.
    eexists; split; reflexivity.
  - rewrite enc_conforming_obj in Hc. unfold enc_param. rewrite ref_elem_obj, enc_elem_obj.
    destruct (struct_type S (real_qn m ty)) as [rt|]; [|discriminate].
    repeat (apply andb_true_iff in Hc as [Hc ?]).
    rename Hc into G0, H2 into G1, H1 into G2, H0 into G3, H into G4.
    rewrite G0. cbn [negb].
    rewrite iter_keyed_then by (rewrite per_field_forallb; exact G3).
    pose proof (nodup_eordering _ G1) as Hnd.
    destruct (members_agree S (all_members S rt) fs IH G4 (all_members S rt) []) as [ks [Hd Ha]].
    + intros m' Hin. apply get_member_finds; assumption.
    + exact Hnd.
    + constructor.
    + rewrite Hd. unfold eordering. rewrite Ha. cbn [mbind app fst snd apply_aty].
      eexists; split; reflexivity.
Qed.

Lemma enc_param_conforms_l : forall S m v,
  enc_conforming S m v = true ->
  exists ns, ref_elem S m v = Some ns /\ enc_param S m v = MOk ns.
Proof. intros S m v. apply enc_conforms_v. Qed.

(* ------------------------------------------------------------------ *)
(* 2. whole request bodies                                             *)
(* ------------------------------------------------------------------ *)
Lemma econcat_agree {X} (f : X -> option (list enode)) (g : X -> mres (list enode)) l :
  Forall (fun x => exists ns, f x = Some ns /\ g x = MOk ns) l ->
  exists ns, oconcat (map f l) = Some ns /\ mconcat (map g l) = MOk ns.
Proof.
  induction 1 as [|x l [a [Hf Hg]] _ [b [Hfl Hgl]]].
  - exists []. split; reflexivity.
  - exists (a ++ b). cbn [map oconcat mconcat]. rewrite Hf, Hg, Hfl, Hgl. split; reflexivity.
Qed.

Lemma enc_request_conforms_l : forall S bodyns method parts args,
  Nat.eqb (length parts) (length args) = true ->
  forallb (fun pa => enc_conforming S (fst pa) (snd pa)) (combine parts args) = true ->
  exists body, ref_enc_body S bodyns method parts args = Some body /\
               enc_body S bodyns method parts args = MOk body.
Proof.
  intros S bodyns method parts args Hlen Hc.
  unfold ref_enc_body, enc_body. rewrite Hlen. cbn [negb].
  destruct (econcat_agree (fun pa : emember * value => ref_elem S (fst pa) (snd pa))
              (fun pa => enc_param S (fst pa) (snd pa)) (combine parts args)) as [ns [Hr Hm]].
  - rewrite forallb_forall in Hc. apply Forall_forall. intros pa Hin.
    apply enc_param_conforms_l. apply Hc. exact Hin.
  - rewrite Hr, Hm. cbn [mbind]. eexists; split; reflexivity.
Qed.

(* ------------------------------------------------------------------ *)
(* 3. shape of what the reference (hence the marshaller) writes         *)
(* ------------------------------------------------------------------ *)
Lemma deep_ok_eq p ns nm ats tx ks :
  deep_ok p (EX ns nm ats tx ks) = p ats (length ks) && forallb (deep_ok p) ks.
Proof.
  cbn [deep_ok]. f_equal.
Qed.

Lemma lookup_ebound S k fs w :
  lookup_key k (ebound_of S fs) = Some w ->
  exists f, In f fs /\ w = fun m' => ref_elem S m' (snd f).
Proof.
  unfold lookup_key. induction fs as [|[[k0 isattr] x] fs IH]; cbn [ebound_of find fst]; intros H.
  - discriminate.
  - destruct (key_eqb (k0, isattr) k).
    + cbn in H. inversion H; subst. exists (k0, isattr, x). split; [left; reflexivity | reflexivity].
    + destruct (IH H) as [f [Hin Hw]]. exists f. split; [right; exact Hin | exact Hw].
Qed.

Lemma ref_elem_atmost1 S m v ns : ref_elem S m v = Some ns -> length ns <= 1.
Proof.
  destruct v as [|t|l|ty fs].
  - cbn [ref_elem]. destruct (m_opt m); intros H; inversion H; cbn; lia.
  - cbn [ref_elem]. destruct (m_type m); intros H; inversion H; cbn; lia.
  - rewrite ref_elem_list. destruct (array_item S (m_type m)) as [T|]; [|discriminate].
    destruct (m_opt m && is_nil l); [intros H; inversion H; cbn; lia|].
    destruct (ref_items S T l); intros H; inversion H; cbn; lia.
  - rewrite ref_elem_obj. destruct (struct_type S (real_qn m ty)) as [rt|]; [|discriminate].
    destruct (negb _); [discriminate|].
    destruct (edecls_of _ _); intros H; inversion H; cbn; lia.
Qed.

Lemma ref_elem_nsids S m v ns :
  ref_elem S m v = Some ns -> Forall (fun k => ensid k = mem_ns m) ns.
Proof.
  destruct v as [|t|l|ty fs].
  - cbn [ref_elem]. destruct (m_opt m); intros H; inversion H; subst; repeat constructor.
  - cbn [ref_elem]. destruct (m_type m); intros H; inversion H; subst; repeat constructor.
  - rewrite ref_elem_list. destruct (array_item S (m_type m)) as [T|]; [|discriminate].
    destruct (m_opt m && is_nil l); [intros H; inversion H; constructor|].
    destruct (ref_items S T l); intros H; inversion H; subst; repeat constructor.
  - rewrite ref_elem_obj. destruct (struct_type S (real_qn m ty)) as [rt|]; [|discriminate].
    destruct (negb _); [discriminate|].
    destruct (edecls_of _ _); intros H; inversion H; subst; repeat constructor.
Qed.

Lemma ref_items_shape S T l its :
  ref_items S T l = Some its ->
  length its = length l /\ Forall (fun k => ename k = n_item /\ ensid k = 0%N) its.
Proof.
  revert its. induction l as [|x l IH]; intros its H.
  - cbn in H. inversion H. split; [reflexivity | constructor].
  - cbn [ref_items] in H. destruct (ref_item S T x) as [a|] eqn:Ea; [|discriminate].
    destruct (ref_items S T l) as [b|]; [|discriminate]. inversion H; subst.
    destruct (IH b eq_refl) as [Hlen Hn].
    assert (Hr : ref_elem S (item_member T) x = Some a) by (destruct x; try discriminate; exact Ea).
    split.
    + rewrite app_length, (ref_elem_single S (item_member T) x a eq_refl Hr), Hlen. reflexivity.
    + apply Forall_app. split; [|exact Hn].
      pose proof (ref_elem_names _ _ _ _ Hr) as H1. pose proof (ref_elem_nsids _ _ _ _ Hr) as H2.
      rewrite Forall_forall in *. intros k Hk. split; [apply H1, Hk | apply H2, Hk].
Qed.

(* a node-local condition that holds of every node shape the reference
   writes holds everywhere in what it writes *)
Section Deep.
Variable p : list eattr -> nat -> bool.
Hypothesis p_none : forall q (b : bool), p (xsi_type q :: if b then [enil_attr] else []) 0 = true.
Hypothesis p_leaf : forall q, p [xsi_type q] 0 = true.
Hypothesis p_array : forall q T n, p [xsi_type q; aty_attr T n] n = true.
Hypothesis p_struct : forall q n, p [xsi_type q] n = true.

Lemma ref_deep_ok S : forall v m ns,
  ref_elem S m v = Some ns -> forallb (deep_ok p) ns = true.
Proof.
  intros v. induction v as [|t|l IH|ty fs IH] using value_ind'; intros m ns H.
  - cbn [ref_elem] in H. destruct (m_opt m); inversion H; subst; [reflexivity|].
    cbn [forallb]. rewrite deep_ok_eq. cbn [length forallb]. rewrite p_none. reflexivity.
  - cbn [ref_elem] in H. destruct (m_type m); inversion H; subst.
    cbn [forallb]. rewrite deep_ok_eq. cbn [length forallb]. rewrite p_leaf. reflexivity.
  - rewrite ref_elem_list in H. destruct (array_item S (m_type m)) as [T|]; [|discriminate].
    destruct (m_opt m && is_nil l); [inversion H; reflexivity|].
    destruct (ref_items S T l) as [its|] eqn:E; inversion H; subst.
    cbn [forallb]. rewrite deep_ok_eq.
    destruct (ref_items_shape _ _ _ _ E) as [Hlen _]. rewrite Hlen, p_array. cbn [andb].
    rewrite andb_true_r. clear H Hlen. revert its E.
    induction IH as [|x l Hx _ IHl]; intros its E.
    + cbn in E. inversion E. reflexivity.
    + cbn [ref_items] in E. destruct (ref_item S T x) as [a|] eqn:Ea; [|discriminate].
      destruct (ref_items S T l) as [b|]; [|discriminate]. inversion E; subst.
      rewrite forallb_app, (IHl b eq_refl), andb_true_r.
      apply (Hx (item_member T)). destruct x; try discriminate; exact Ea.
  - rewrite ref_elem_obj in H. destruct (struct_type S (real_qn m ty)) as [rt|]; [|discriminate].
    destruct (negb _); [discriminate|].
    destruct (edecls_of _ _) as [ks|] eqn:E; inversion H; subst.
    cbn [forallb]. rewrite deep_ok_eq, p_struct. cbn [andb]. rewrite andb_true_r.
    clear H. revert ks E. generalize (all_members S rt) as ms.
    induction ms as [|m' ms IHm]; intros ks E.
    + cbn in E. inversion E. reflexivity.
    + cbn [edecls_of] in E. destruct (member_kids (ebound_of S fs) m') as [a|] eqn:Ea; [|discriminate].
      destruct (edecls_of (ebound_of S fs) ms) as [b|]; [|discriminate]. inversion E; subst.
      rewrite forallb_app, (IHm b eq_refl), andb_true_r.
      unfold member_kids in Ea. destruct (lookup_key (mkey m') (ebound_of S fs)) as [w|] eqn:El.
      * apply lookup_ebound in El as [f [Hin ->]].
        rewrite Forall_forall in IH. exact (IH f Hin m' a Ea).
      * inversion Ea. reflexivity.
Qed.
End Deep.

Lemma ref_lengths_exact S v m ns :
  ref_elem S m v = Some ns -> forallb lengths_exact ns = true.
Proof.
  apply ref_deep_ok.
  - intros q [|]; reflexivity.
  - intros q. reflexivity.
  - intros q T n. unfold aty_len_ok, aty_attr. cbn. rewrite N.eqb_refl. reflexivity.
  - intros q n. reflexivity.
Qed.

Lemma ref_all_typed S v m ns :
  ref_elem S m v = Some ns -> forallb all_typed ns = true.
Proof.
  apply ref_deep_ok.
  - intros q [|]; reflexivity.
  - intros q. reflexivity.
  - intros q T n. reflexivity.
  - intros q n. reflexivity.
Qed.

Lemma array_length_exact_l : forall S m v ns,
  enc_conforming S m v = true -> enc_param S m v = MOk ns ->
  forallb lengths_exact ns = true.
Proof.
  intros S m v ns Hc He. destruct (enc_param_conforms_l S m v Hc) as [ns' [Hr He']].
  rewrite He in He'. inversion He'; subst. exact (ref_lengths_exact _ _ _ _ Hr).
Qed.

Lemma every_element_typed_l : forall S m v ns,
  enc_conforming S m v = true -> enc_param S m v = MOk ns ->
  forallb all_typed ns = true.
Proof.
  intros S m v ns Hc He. destruct (enc_param_conforms_l S m v Hc) as [ns' [Hr He']].
  rewrite He in He'. inversion He'; subst. exact (ref_all_typed _ _ _ _ Hr).
Qed.

(* the empty list given for a non-optional array member is sent, as an array of length 0 *)
Lemma empty_array_is_sent_l : forall S m T,
  array_item S (m_type m) = Some T -> m_opt m = false ->
  enc_param S m (VList []) =
  MOk [EX (mem_ns m) (m_name m) [xsi_type (tref_qn (m_type m)); aty_attr T 0] None []].
Proof.
  intros S m T Ha Ho. unfold enc_param. rewrite enc_elem_list, Ha, Ho.
  cbn [andb enc_items mbind fst snd apply_aty set_on_first length]. rewrite N.eqb_refl. reflexivity.
Qed.

Lemma none_rule_l : forall S m,
  enc_param S m VNone =
  MOk (if m_opt m then []
       else [EX (mem_ns m) (m_name m)
               (xsi_type (tref_qn (m_type m)) :: if m_nil m then [enil_attr] else []) None []]) /\
  ref_elem S m VNone =
  Some (if m_opt m then []
        else [EX (mem_ns m) (m_name m)
                (xsi_type (tref_qn (m_type m)) :: if m_nil m then [enil_attr] else []) None []]).
Proof. intros S m. unfold enc_param. cbn [enc_elem ref_elem]. destruct (m_opt m); split; reflexivity. Qed.

(* the node written for a list: typed with the array type, arrayType = member
   type + [length], exactly one unqualified <item> per entry *)
Lemma array_node_shape_l : forall S m T l,
  array_item S (m_type m) = Some T -> m_opt m && is_nil l = false ->
  enc_conforming S m (VList l) = true ->
  exists its,
    enc_param S m (VList l) =
    MOk [EX (mem_ns m) (m_name m) [xsi_type (tref_qn (m_type m)); aty_attr T (length l)] None its] /\
    length its = length l /\
    Forall (fun k => ename k = n_item /\ ensid k = 0%N) its /\
    forallb all_typed its = true.
Proof.
  intros S m T l Ha Ho Hc. destruct (enc_param_conforms_l S m _ Hc) as [ns [Hr He]].
  rewrite ref_elem_list, Ha, Ho in Hr.
  destruct (ref_items S T l) as [its|] eqn:E; [|discriminate]. inversion Hr; subst.
  exists its. split; [exact He|].
  destruct (ref_items_shape _ _ _ _ E) as [Hlen Hn]. split; [exact Hlen|]. split; [exact Hn|].
  assert (Hr' : ref_elem S m (VList l) = Some [EX (mem_ns m) (m_name m)
                  [xsi_type (tref_qn (m_type m)); aty_attr T (length l)] None its])
    by (rewrite ref_elem_list, Ha, Ho, E; reflexivity).
  apply ref_all_typed in Hr'. cbn [forallb] in Hr'. unfold all_typed in Hr'.
  rewrite deep_ok_eq in Hr'. rewrite andb_true_r in Hr'.
  apply andb_true_iff in Hr' as [_ Hk]. exact Hk.
Qed.

(* the node written for an object: typed with its actual type; its children
   are accessors of declared members in schema order (inherited first), at most
   one per member *)
Lemma edecls_subseq S fs ms ks :
  edecls_of (ebound_of S fs) ms = Some ks -> subseq (map ename ks) (map m_name ms).
Proof.
  revert ks. induction ms as [|m' ms IH]; intros ks H.
  - cbn in H. inversion H. constructor.
  - cbn [edecls_of] in H. destruct (member_kids (ebound_of S fs) m') as [a|] eqn:Ea; [|discriminate].
    destruct (edecls_of (ebound_of S fs) ms) as [b|]; [|discriminate]. inversion H; subst.
    specialize (IH b eq_refl). cbn [map]. rewrite map_app.
    assert (Hshape : length a <= 1 /\ Forall (fun k => ename k = m_name m') a).
    { unfold member_kids in Ea. destruct (lookup_key (mkey m') (ebound_of S fs)) as [w|] eqn:El.
      - apply lookup_ebound in El as [f [_ ->]].
        split; [exact (ref_elem_atmost1 _ _ _ _ Ea) | exact (ref_elem_names _ _ _ _ Ea)].
      - inversion Ea. split; [cbn; lia | constructor]. }
    destruct Hshape as [Hl Hn]. destruct a as [|x [|y a]]; cbn in Hl; try lia.
    + cbn. apply ss_skip. exact IH.
    + inversion Hn; subst. cbn [map app]. rewrite H2. apply ss_take. exact IH.
Qed.

Lemma struct_children_in_schema_order_l : forall S m ty fs rt,
  struct_type S (real_qn m ty) = Some rt ->
  enc_conforming S m (VObj ty fs) = true ->
  exists ks,
    enc_param S m (VObj ty fs) =
    MOk [EX (mem_ns m) (m_name m) [xsi_type (real_qn m ty)] None ks] /\
    subseq (map ename ks) (map m_name (all_members S rt)).
Proof.
  intros S m ty fs rt Hs Hc. destruct (enc_param_conforms_l S m _ Hc) as [ns [Hr He]].
  rewrite ref_elem_obj, Hs in Hr. destruct (negb _); [discriminate|].
  destruct (edecls_of _ _) as [ks|] eqn:E; [|discriminate]. inversion Hr; subst.
  exists ks. split; [exact He | exact (edecls_subseq _ _ _ _ E)].
Qed.

(* ------------------------------------------------------------------ *)
(* 6. arrayType lengths are exact for EVERY input the marshaller        *)
(*    accepts -- no conformance hypothesis (the duplicated-member quirk  *)
(*    included: the misplaced arrayType still has the right length)      *)
(* ------------------------------------------------------------------ *)
Lemma lengths_exact_eq ns nm ats tx ks :
  lengths_exact (EX ns nm ats tx ks) = aty_len_ok ats (length ks) && forallb lengths_exact ks.
Proof. unfold lengths_exact. apply deep_ok_eq. Qed.

Lemma akey_aty_attr T n b : akey_eqb (aty_attr T n) b = is_aty_key b.
Proof.
  unfold akey_eqb, is_aty_key, aty_attr. cbn [fst snd].
  rewrite (N.eqb_sym ns_enc), (N.eqb_sym n_arrayType). reflexivity.
Qed.

Lemma set_attr_len_ok T n ats : aty_len_ok (set_attr (aty_attr T n) ats) n = true.
Proof.
  unfold set_attr, aty_len_ok.
  destruct (existsb (akey_eqb (aty_attr T n)) ats) eqn:E.
  - apply forallb_forall. intros b Hb. apply in_map_iff in Hb as [b0 [Hb0 _]].
    rewrite akey_aty_attr in Hb0. destruct (is_aty_key b0) eqn:Eb; subst b.
    + cbn. rewrite N.eqb_refl. reflexivity.
    + rewrite Eb. reflexivity.
  - rewrite forallb_app. apply andb_true_iff. split.
    + apply forallb_forall. intros b Hb.
      destruct (is_aty_key b) eqn:Eb; [|reflexivity].
      exfalso. assert (Hex : existsb (akey_eqb (aty_attr T n)) ats = true).
      { apply existsb_exists. exists b. split; [exact Hb | rewrite akey_aty_attr; exact Eb]. }
      congruence.
    + cbn. rewrite N.eqb_refl. reflexivity.
Qed.

(* what Core.append leaves behind for one content *)
Definition out_ok (k : name) (o : eout) : Prop :=
  Forall (fun n => ename n = k /\ lengths_exact n = true) (fst o) /\
  match snd o with
  | None => True
  | Some a => exists ns ats tx its T, fst o = [EX ns k ats tx its] /\ a = aty_attr T (length its)
  end.

Definition elem_ok (S : eschema) (v : value) : Prop :=
  forall m o, enc_elem S m v = MOk o -> out_ok (m_name m) o.

Lemma enc_elem_item_single S m x o :
  is_list x = false -> m_opt m = false -> enc_elem S m x = MOk o -> length (fst o) = 1.
Proof.
  destruct x as [|t|l|ty fs]; intros Hl Ho H; try discriminate.
  - cbn [enc_elem] in H. rewrite Ho in H. inversion H. reflexivity.
  - cbn [enc_elem] in H. inversion H. reflexivity.
  - rewrite enc_elem_obj in H. destruct (struct_type S (real_qn m ty)) as [rt|]; [|discriminate].
    destruct (assemble_from [] _) as [ks| |]; cbn [mbind] in H; inversion H. reflexivity.
Qed.

Lemma enc_items_ok S T l : forall its,
  Forall (elem_ok S) l -> enc_items S T l = MOk its ->
  length its = length l /\ forallb lengths_exact its = true.
Proof.
  induction l as [|x l IH]; intros its HF H.
  - cbn in H. inversion H. split; reflexivity.
  - inversion HF as [|? ? Hx HF']; subst. cbn [enc_items] in H.
    destruct (enc_item S T x) as [a| |] eqn:Ea; cbn [mbind] in H; try discriminate.
    destruct (enc_items S T l) as [b| |] eqn:Eb; cbn [mbind] in H; try discriminate.
    inversion H; subst. destruct (IH b HF' eq_refl) as [Hlen Hok].
    assert (Hnl : is_list x = false) by (destruct x; try reflexivity; discriminate).
    assert (Ho : exists o, enc_elem S (item_member T) x = MOk o /\ a = fst o).
    { unfold enc_item in Ea. destruct x; try discriminate;
        (destruct (enc_elem S (item_member T) _) as [o| |]; cbn [mbind] in Ea; try discriminate;
         inversion Ea; exists o; split; reflexivity). }
    destruct Ho as [o [Ho ->]].
    rewrite app_length, (enc_elem_item_single S (item_member T) x o Hnl eq_refl Ho), Hlen. split; [reflexivity|].
    rewrite forallb_app, Hok, andb_true_r.
    destruct (Hx _ _ Ho) as [Hall _]. apply forallb_forall. intros n Hn.
    rewrite Forall_forall in Hall. apply (Hall n Hn).
Qed.

Lemma lookup_key_In {A} k (l : list (name * bool * A)) v :
  lookup_key k l = Some v -> exists kc, In kc l /\ fst kc = k /\ snd kc = v.
Proof.
  unfold lookup_key. destruct (find _ l) as [f|] eqn:E; intros H; inversion H; subst.
  apply find_some in E as [Hin He]. apply key_eqb_eq in He.
  exists f. repeat split; assumption.
Qed.

Lemma set_on_first_In k a l n' :
  In n' (set_on_first k a l) ->
  In n' l \/ exists ns ats tx kk, In (EX ns k ats tx kk) l /\ n' = EX ns k (set_attr a ats) tx kk.
Proof.
  induction l as [|[ns nm ats tx kk] l IH]; [intros []|].
  cbn [set_on_first]. destruct (N.eqb nm k) eqn:E.
  - apply N.eqb_eq in E. subst nm. intros [<-|Hin].
    + right. exists ns, ats, tx, kk. split; [left; reflexivity | reflexivity].
    + left. right. exact Hin.
  - intros [<-|Hin].
    + left. left. reflexivity.
    + destruct (IH Hin) as [H|[ns0 [ats0 [tx0 [kk0 [H1 H2]]]]]].
      * left. right. exact H.
      * right. exists ns0, ats0, tx0, kk0. split; [right; exact H1 | exact H2].
Qed.

Lemma assemble_error L : forall kc,
  In kc L -> (forall o, snd kc <> MOk o) -> forall acc ks, assemble_from acc L <> MOk ks.
Proof.
  induction L as [|kc0 L IH]; intros kc Hin Herr acc ks; [destruct Hin|].
  cbn [assemble_from]. destruct Hin as [->|Hin].
  - destruct (snd kc) as [o| |] eqn:E; cbn [mbind]; try discriminate. exfalso. exact (Herr o eq_refl).
  - destruct (snd kc0) as [o| |]; cbn [mbind]; try discriminate. apply (IH kc Hin Herr).
Qed.

Section Assembly.
Variable pf : list (name * bool * mres eout).
Hypothesis pf_ok : forall kc o, In kc pf -> snd kc = MOk o -> out_ok (fst (fst kc)) o.

(* every child built so far has exact lengths and the same children as what
   the (unique) field of its name produces *)
Definition ainv (acc : list enode) : Prop :=
  forall n0, In n0 acc ->
    lengths_exact n0 = true /\
    exists o n1, lookup_key (ename n0, false) pf = Some (MOk o) /\ In n1 (fst o) /\ ekids n0 = ekids n1.

Lemma assemble_inv : forall L acc ks,
  (forall kc, In kc L -> snd (fst kc) = false /\ lookup_key (fst kc) pf = Some (snd kc)) ->
  ainv acc -> assemble_from acc L = MOk ks -> ainv ks.
Proof.
  induction L as [|kc L IH]; intros acc ks HL Hinv H.
  - cbn in H. inversion H; subst. exact Hinv.
  - cbn [assemble_from] in H. destruct (snd kc) as [o| |] eqn:E; cbn [mbind] in H; try discriminate.
    destruct (HL kc (or_introl eq_refl)) as [Hb Hlk].
    destruct kc as [[k b] r]. cbn [fst snd] in *. subst b. subst r.
    destruct (lookup_key_In _ _ _ Hlk) as [kc' [Hin' [Hk' Hr']]].
    pose proof (pf_ok kc' o Hin' Hr') as Hok. rewrite Hk' in Hok. cbn [fst] in Hok.
    destruct Hok as [Hall Hpend].
    refine (IH _ ks (fun kc0 Hin0 => HL kc0 (or_intror Hin0)) _ H).
    assert (Hinv1 : ainv (acc ++ fst o)).
    { intros n0 Hn0. apply in_app_or in Hn0 as [Hn0|Hn0]; [apply Hinv; exact Hn0|].
      rewrite Forall_forall in Hall. destruct (Hall n0 Hn0) as [Hname Hle].
      split; [exact Hle|]. exists o, n0. rewrite Hname. repeat split; [exact Hlk | exact Hn0]. }
    destruct (snd o) as [a|] eqn:Es; cbn [apply_aty]; [|exact Hinv1].
    destruct Hpend as [ns [ats [tx [its [T [Hfst Ha]]]]]].
    intros n' Hn'. apply set_on_first_In in Hn' as [Hn'|[ns0 [ats0 [tx0 [kk0 [Hn0 ->]]]]]].
    + apply Hinv1. exact Hn'.
    + destruct (Hinv1 _ Hn0) as [Hle [o' [n1 [Hlk' [Hn1 Hkids]]]]].
      cbn [ename] in Hlk'. rewrite Hlk in Hlk'. inversion Hlk'; subst o'.
      rewrite Hfst in Hn1. destruct Hn1 as [<-|[]]. cbn [ekids] in Hkids. subst kk0.
      split.
      * rewrite lengths_exact_eq in *. apply andb_true_iff in Hle as [_ Hk].
        rewrite Ha, set_attr_len_ok, Hk. reflexivity.
      * exists o, (EX ns k ats tx its). cbn [ename ekids]. rewrite Hfst.
        repeat split; [exact Hlk | left; reflexivity].
Qed.
End Assembly.

Lemma get_member_In n l m' : get_member n l = Some m' -> In m' l /\ m_name m' = n.
Proof.
  induction l as [|b l IH]; [discriminate|]. cbn [get_member].
  destruct (N.eqb (m_name b) n) eqn:E.
  - intros H. inversion H; subst. apply N.eqb_eq in E. split; [left; reflexivity | exact E].
  - intros H. destruct (IH H) as [H1 H2]. split; [right; exact H1 | exact H2].
Qed.

Lemma per_field_In S mems fs kc :
  In kc (per_field_of S mems fs) ->
  exists x, In (fst kc, x) fs /\ snd kc = field_out S mems (fst (fst kc)) (snd (fst kc)) x.
Proof.
  induction fs as [|[[k isattr] x] fs IH]; [intros []|].
  cbn [per_field_of]. intros [<-|Hin].
  - exists x. split; [left; reflexivity | reflexivity].
  - destruct (IH Hin) as [y [H1 H2]]. exists y. split; [right; exact H1 | exact H2].
Qed.

Lemma elem_ok_all S : forall v, elem_ok S v.
Proof.
  intros v. induction v as [|t|l IH|ty fs IH] using value_ind'; intros m o H.
  - cbn [enc_elem] in H. destruct (m_opt m); inversion H; subst; (split; [|exact I]).
    + constructor.
    + repeat constructor. rewrite lengths_exact_eq. destruct (m_nil m); reflexivity.
  - cbn [enc_elem] in H. inversion H; subst. split; [|exact I]. repeat constructor.
  - rewrite enc_elem_list in H. destruct (array_item S (m_type m)) as [T|]; [|discriminate].
    destruct (m_opt m && is_nil l).
    + inversion H; subst. split; [constructor | exact I].
    + destruct (enc_items S T l) as [its| |] eqn:E; cbn [mbind] in H; try discriminate.
      inversion H; subst. destruct (enc_items_ok S T l its IH E) as [Hlen Hok]. split.
      * repeat constructor. rewrite lengths_exact_eq, Hok. reflexivity.
      * cbn [snd fst]. exists (mem_ns m), [xsi_type (tref_qn (m_type m))], None, its, T.
        rewrite Hlen. split; reflexivity.
  - rewrite enc_elem_obj in H. destruct (struct_type S (real_qn m ty)) as [rt|]; [|discriminate].
    destruct (assemble_from [] _) as [ks| |] eqn:EA; cbn [mbind] in H; try discriminate.
    inversion H; subst. split; [|exact I]. repeat constructor. cbn [fst].
    rewrite lengths_exact_eq. cbn [aty_len_ok forallb xsi_type is_aty_key fst snd].
    replace (N.eqb ns_xsi ns_enc) with false by reflexivity. cbn [andb].
    set (mems := all_members S rt) in *. set (pf := per_field_of S mems fs) in *.
    assert (Hpf : forall kc o, In kc pf -> snd kc = MOk o -> out_ok (fst (fst kc)) o).
    { intros kc o Hin Hr. apply per_field_In in Hin as [x [Hx Hs]]. rewrite Hs in Hr.
      unfold field_out in Hr. destruct (snd (fst kc)); [discriminate|].
      destruct (get_member (fst (fst kc)) mems) as [m'|] eqn:Eg; [|discriminate].
      apply get_member_In in Eg as [_ Hname]. rewrite <- Hname.
      rewrite Forall_forall in IH. exact (IH _ Hx m' o Hr). }
    assert (Hks : ainv pf ks).
    { unfold iter_keyed in EA. destruct (forallb _ pf) eqn:EF.
      - eapply (assemble_inv pf Hpf _ [] ks); [| intros n0 [] | exact EA].
        intros kc Hin. apply in_flat_map in Hin as [k [Hk Hin]].
        destruct (lookup_key k pf) as [v|] eqn:El; [|destruct Hin].
        destruct Hin as [<-|[]]. cbn [fst snd]. split; [|exact El].
        unfold eordering in Hk. apply in_map_iff in Hk as [m' [<- _]]. reflexivity.
      - exfalso. assert (Hex : exists kc, In kc pf /\ key_in (fst kc) (eordering mems) = false).
        { clear - EF. induction pf as [|kc l IHl]; [discriminate|]. cbn [forallb] in EF.
          destruct (key_in (fst kc) (eordering mems)) eqn:Ek.
          - destruct (IHl EF) as [kc' [H1 H2]]. exists kc'. split; [right; exact H1 | exact H2].
          - exists kc. split; [left; reflexivity | exact Ek]. }
        destruct Hex as [kc [Hin Hk]].
        apply (assemble_error _ kc Hin) with (acc := []) (ks := ks); [|exact EA].
        intros o Ho. pose proof Hin as Hin2. apply per_field_In in Hin2 as [x [_ Hs]].
        rewrite Hs in Ho. unfold field_out in Ho.
        destruct kc as [[k b] r]. cbn [fst snd] in *. destruct b; [discriminate|].
        destruct (get_member k mems) as [m'|] eqn:Eg; [|discriminate].
        apply get_member_In in Eg as [Hm' Hname].
        assert (Hkin : key_in (k, false) (eordering mems) = true).
        { apply key_in_In. unfold eordering. apply in_map_iff. exists m'. split; [|exact Hm'].
          unfold mkey. rewrite Hname. reflexivity. }
        congruence. }
    apply forallb_forall. intros n0 Hn0. apply (Hks n0 Hn0).
Qed.

Lemma array_length_exact_all_l : forall S m v ns,
  enc_param S m v = MOk ns -> forallb lengths_exact ns = true.
Proof.
  intros S m v ns H. apply enc_param_inv in H as [o [Ho <-]].
  destruct (elem_ok_all S v m o Ho) as [Hall Hpend].
  destruct (snd o) as [a|]; cbn [apply_aty].
  - destruct Hpend as [ns0 [ats [tx [its [T [Hfst ->]]]]]]. rewrite Hfst in *.
    cbn [set_on_first]. rewrite N.eqb_refl. cbn [forallb]. rewrite andb_true_r.
    inversion Hall as [|? ? [_ Hle] _]; subst. rewrite lengths_exact_eq in *.
    apply andb_true_iff in Hle as [_ Hk]. rewrite set_attr_len_ok, Hk. reflexivity.
  - apply forallb_forall. intros n Hn. rewrite Forall_forall in Hall. apply (Hall n Hn).
Qed.

Lemma mconcat_lengths {X} (g : X -> mres (list enode)) l : forall ns,
  (forall x a, In x l -> g x = MOk a -> forallb lengths_exact a = true) ->
  mconcat (map g l) = MOk ns -> forallb lengths_exact ns = true.
Proof.
  induction l as [|x l IH]; intros ns Hg H.
  - cbn in H. inversion H. reflexivity.
  - cbn [map mconcat] in H. destruct (g x) as [a| |] eqn:Ea; cbn [mbind] in H; try discriminate.
    destruct (mconcat (map g l)) as [b| |] eqn:Eb; cbn [mbind] in H; try discriminate.
    inversion H; subst. rewrite forallb_app, (Hg x a (or_introl eq_refl) Ea). cbn [andb].
    apply IH; [|reflexivity]. intros y c Hy. apply Hg. right. exact Hy.
Qed.

Lemma request_lengths_exact_l : forall S bodyns method parts args body,
  enc_body S bodyns method parts args = MOk body -> lengths_exact body = true.
Proof.
  intros S bodyns method parts args body H. unfold enc_body in H.
  destruct (negb _); [discriminate|].
  destruct (mconcat _) as [kids| |] eqn:E; cbn [mbind] in H; inversion H; subst.
  rewrite lengths_exact_eq.
  replace (aty_len_ok [style_attr] (length kids)) with true by reflexivity. cbn [andb].
  eapply mconcat_lengths; [|exact E].
  intros pa a _ Ha. exact (array_length_exact_all_l _ _ _ _ Ha).
Qed.

(* ------------------------------------------------------------------ *)
(* 4. the boolean instance evaluated on every generated case            *)
(* ------------------------------------------------------------------ *)
Section NodeInd.
Variable P : enode -> Prop.
Hypothesis H : forall ns nm ats tx ks, Forall P ks -> P (EX ns nm ats tx ks).
Fixpoint enode_ind' (n : enode) : P n :=
  match n with
  | EX ns nm ats tx ks =>
      H ns nm ats tx ks ((fix go (l : list enode) : Forall P l :=
                            match l with
                            | [] => Forall_nil _
                            | x :: l' => Forall_cons x (enode_ind' x) (go l')
                            end) ks)
  end.
End NodeInd.

Lemma eaval_eqb_refl a : eaval_eqb a a = true.
Proof. destruct a; cbn; rewrite ?N.eqb_refl; reflexivity. Qed.

Lemma eattr_eqb_refl a : eattr_eqb a a = true.
Proof. unfold eattr_eqb, akey_eqb. rewrite !N.eqb_refl, eaval_eqb_refl. reflexivity. Qed.

Lemma eattrs_eqb_refl a : eattrs_eqb a a = true.
Proof.
  unfold eattrs_eqb. rewrite Nat.eqb_refl. cbn [andb].
  assert (Hx : forallb (fun x => existsb (eattr_eqb x) a) a = true).
  { apply forallb_forall. intros x Hx. apply existsb_exists. exists x. split; [exact Hx | apply eattr_eqb_refl]. }
  rewrite Hx. reflexivity.
Qed.

Lemma enode_eqb_refl : forall n, enode_eqb n n = true.
Proof.
  induction n as [ns nm ats tx ks IH] using enode_ind'.
  cbn [enode_eqb]. rewrite !N.eqb_refl, eattrs_eqb_refl. cbn [andb].
  assert (Ht : opt_eqb N.eqb tx tx = true) by (destruct tx; cbn; [apply N.eqb_refl | reflexivity]).
  rewrite Ht. cbn [andb].
  induction IH as [|k ks Hk _ IHk]; [reflexivity|]. rewrite Hk, IHk. reflexivity.
Qed.

Lemma enc_theorem_instance_holds_l : forall c, enc_theorem_instance c = true.
Proof.
  intros c. unfold enc_theorem_instance. destruct (enc_guard c) eqn:G; [|reflexivity].
  cbn [negb orb]. unfold enc_guard in G. apply andb_true_iff in G as [G1 G2].
  destruct (enc_request_conforms_l (x_schema c) (x_bodyns c) (x_method c) (x_parts c) (x_args c) G1 G2)
    as [body [Hr Hm]].
  rewrite Hr, Hm. apply enode_eqb_refl.
Qed.

(* ------------------------------------------------------------------ *)
(* 5. outside the guard: the known quirk                                *)
(* ------------------------------------------------------------------ *)
(* type D = sequence(xs : IntArr, k : int, xs : IntArr); d = {xs: [1, 2], k: 5}
   (names: D=10 IntArr=11 xs=12 k=13 int=14 d=15; texts 20,21,22) *)
Definition quirk_schema : eschema :=
  [mkT 11 1 (KArray (EB 14));
   mkT 10 1 (KStruct None [mkM 12 1 false (EN (1, 11)) false false;
                           mkM 13 1 false (EB 14) false false;
                           mkM 12 1 false (EN (1, 11)) false false])]%N.
Definition quirk_part : emember := part_member 15%N (EN (1, 10)%N).
Definition quirk_value : value :=
  VObj None [(12, false, VList [VText 20; VText 21]); (13, false, VText 22)]%N.

Lemma arraytype_first_same_tag_child_refuted_l :
  exists S m v ns ns',
    ref_elem S m v = Some ns /\ enc_param S m v = MOk ns' /\
    forallb lengths_exact ns = true /\
    (* the second copy of the array member carries no arrayType at all *)
    list_eqb enode_eqb ns ns' = false /\
    enc_conforming S m v = false.
Proof.
  exists quirk_schema, quirk_part, quirk_value.
  eexists. eexists. split; [vm_compute; reflexivity|]. split; [vm_compute; reflexivity|].
  split; [vm_compute; reflexivity|]. split; vm_compute; reflexivity.
Qed.
