From SV Require Import Lib.Base Fam.Schema C01.Marshal C01.Guard C01.MarshalProofs C01.Styles C01.Request.

Lemma headers_conform_l : forall S xstq dict hs hvs,
  headers_conforming S dict hs hvs = true ->
  exists hn, ref_headers S xstq hs hvs = Some hn /\ header_nodes S xstq dict hs hvs = MOk hn.
Proof.
  intros S xstq dict hs hvs H. unfold ref_headers, header_nodes.
  apply (concat_agree
           (fun hv => if is_none (snd hv) then Some [] else ref_elem S xstq (fst hv) false (snd hv))
           (fun hv => if dict && is_none (snd hv) then MOk []
                      else marshal_elem S xstq (fst hv) false (snd hv))).
  unfold headers_conforming in H. rewrite forallb_forall in H.
  apply Forall_forall. intros [d v] Hin. specialize (H _ Hin).
  unfold header_conforming in H. cbn [fst snd] in *.
  apply andb_true_iff in H as [Hc Hs].
  destruct v as [| t | l | ty fs]; cbn [is_none].
  - (* None: only in a dict, where it is passed over *)
    subst dict. cbn. eexists; split; reflexivity.
  - rewrite andb_false_r. apply marshal_conforms_l. exact Hc.
  - discriminate.
  - rewrite andb_false_r. apply marshal_conforms_l. exact Hc.
Qed.

Lemma request_conforms_l : forall S xstq sn dict hs hvs wrapper args,
  headers_conforming S dict hs hvs = true ->
  args_conforming S wrapper args = true ->
  args_lists_ok S wrapper args = true ->
  exists env, ref_request S xstq sn hs hvs wrapper args = Some env /\
              request_env S xstq sn dict hs hvs wrapper args = MOk env.
Proof.
  intros S xstq sn dict hs hvs wrapper args Hh Ha Hl.
  destruct (headers_conform_l S xstq dict hs hvs Hh) as [hn [Hr Hm]].
  destruct (doc_wrapped_conforms_l S xstq wrapper args Ha Hl) as [b [Hrb Hmb]].
  unfold ref_request, request_env. rewrite Hr, Hm, Hrb, Hmb. cbn.
  eexists; split; reflexivity.
Qed.

(* shape: whatever the headers, the Body is the second child of the Envelope, in
   the envelope namespace, and holds exactly the wrapper *)
Lemma request_shape_l : forall S xstq sn dict hs hvs wrapper args env,
  request_env S xstq sn dict hs hvs wrapper args = MOk env ->
  exists hn b,
    env = XN ns_env (sn_envelope sn) [] None
             [XN ns_env (sn_header sn) [] None hn; XN ns_env (sn_body sn) [] None [b]] /\
    doc_wrapped_body S xstq wrapper args = MOk b /\
    header_nodes S xstq dict hs hvs = MOk hn.
Proof.
  intros S xstq sn dict hs hvs wrapper args env H. unfold request_env in H.
  destruct (header_nodes S xstq dict hs hvs) as [hn| |]; cbn in H; try discriminate.
  destruct (doc_wrapped_body S xstq wrapper args) as [b| |]; cbn in H; try discriminate.
  inversion H; subst. exists hn, b. repeat split; reflexivity.
Qed.

(* the body of a request does not depend on the headers sent with it *)
Lemma body_independent_of_headers_l : forall S xstq sn d1 d2 hs1 hvs1 hs2 hvs2 wrapper args e1 e2,
  request_env S xstq sn d1 hs1 hvs1 wrapper args = MOk e1 ->
  request_env S xstq sn d2 hs2 hvs2 wrapper args = MOk e2 ->
  match e1, e2 with
  | XN _ _ _ _ [_; b1], XN _ _ _ _ [_; b2] => b1 = b2
  | _, _ => False
  end.
Proof.
  intros S xstq sn d1 d2 hs1 hvs1 hs2 hvs2 wrapper args e1 e2 H1 H2.
  apply request_shape_l in H1 as [hn1 [b1 [-> [Hb1 _]]]].
  apply request_shape_l in H2 as [hn2 [b2 [-> [Hb2 _]]]].
  rewrite Hb1 in Hb2. inversion Hb2; subst. reflexivity.
Qed.
