(* C01 — the other binding styles over the same element marshaller:
   document/literal bare (one global element per message part) and
   rpc/literal (operation wrapper in the soap:body namespace, one unqualified
   child per message part named after the part).  Definitions only. *)
From SV Require Import Lib.Base Fam.Schema C01.Marshal C01.Guard.

(* a message part that references a TYPE acts like an element declaration:
   bindings.binding.PartElement — unqualified, optional, named after the part *)
Definition part_elem (pname : name) (t : tref) : edecl :=
  mkE pname 0%N false t true false false None.

(* a global element declaration used as a bare part: qualified, required *)
Definition global_elem (gname : name) (ns : nsid) (t : tref) : edecl :=
  mkE gname ns true t false false false None.

Section Styles.
Variable S : schema.
Variable xstq : bool.

(* Document.bodycontent, not wrapped: the body holds one element per part *)
Definition doc_bare_body (parts : list edecl) (args : list value) : mres (list xnode) :=
  if negb (Nat.eqb (length parts) (length args)) then MError else
  mconcat (map (fun pa => marshal_param S xstq (FE (fst pa) false false) (snd pa)) (combine parts args)).

Definition ref_doc_bare (parts : list edecl) (args : list value) : option (list xnode) :=
  if negb (Nat.eqb (length parts) (length args)) then None else
  oconcat (map (fun pa => ref_param S xstq (FE (fst pa) false false) (snd pa)) (combine parts args)).

(* RPC.bodycontent: Binding.mkparam for every part (no list expansion), under
   the method element in the soap:body namespace *)
Definition rpc_body (bodyns : nsid) (method : name) (parts : list edecl) (args : list value) : mres xnode :=
  if negb (Nat.eqb (length parts) (length args)) then MError else
  mbind (mconcat (map (fun pa => marshal_elem S xstq (fst pa) false (snd pa)) (combine parts args)))
        (fun kids => MOk (XN bodyns method [] None kids)).

(* WSDL 1.1 section 3.5: the wrapper is named after the operation, in the
   namespace of the soap:body; each part appears as an accessor named after
   the part; parts without a value are omitted *)
Definition ref_rpc (bodyns : nsid) (method : name) (parts : list edecl) (args : list value) : option xnode :=
  if negb (Nat.eqb (length parts) (length args)) then None else
  match oconcat (map (fun pa => ref_elem S xstq (fst pa) false (snd pa)) (combine parts args)) with
  | Some kids => Some (XN bodyns method [] None kids)
  | None => None
  end.

End Styles.

Inductive impl_nodes := INodes (l : list xnode) | INTypeNotFound | INOther.

Record bcase := mkB { b_schema : schema; b_xstq : bool; b_parts : list edecl; b_args : list value; b_impl : impl_nodes }.
Record rcase := mkR { r_schema : schema; r_xstq : bool; r_bodyns : nsid; r_method : name;
                      r_parts : list edecl; r_args : list value; r_impl : impl_res }.

Definition bare_agrees (c : bcase) : bool :=
  match doc_bare_body (b_schema c) (b_xstq c) (b_parts c) (b_args c), b_impl c with
  | MOk x, INodes y => xnodes_eqb x y
  | MTypeNotFound, INTypeNotFound => true
  | MError, INOther => true
  | _, _ => false
  end.
Definition bare_spec_ok (c : bcase) : bool :=
  match ref_doc_bare (b_schema c) (b_xstq c) (b_parts c) (b_args c), b_impl c with
  | Some x, INodes y => xnodes_eqb x y
  | _, _ => false
  end.
Definition bare_guard (c : bcase) : bool :=
  Nat.eqb (length (b_parts c)) (length (b_args c)) &&
  forallb (fun pa => param_conforming (b_schema c) (FE (fst pa) false false) (snd pa)) (combine (b_parts c) (b_args c)).

Definition rpc_agrees (c : rcase) : bool :=
  match rpc_body (r_schema c) (r_xstq c) (r_bodyns c) (r_method c) (r_parts c) (r_args c), r_impl c with
  | MOk x, IOk y => xnode_eqb x y
  | MTypeNotFound, ITypeNotFound => true
  | MError, IOther => true
  | _, _ => false
  end.
Definition rpc_spec_ok (c : rcase) : bool :=
  match ref_rpc (r_schema c) (r_xstq c) (r_bodyns c) (r_method c) (r_parts c) (r_args c), r_impl c with
  | Some x, IOk y => xnode_eqb x y
  | _, _ => false
  end.
Definition rpc_guard (c : rcase) : bool :=
  Nat.eqb (length (r_parts c)) (length (r_args c)) &&
  forallb (fun pa => conforming (r_schema c) (fst pa) (snd pa)) (combine (r_parts c) (r_args c)).
