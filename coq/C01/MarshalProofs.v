(* C01 — the literal marshaller meets the reference translator on every
   conforming value (unbounded depth, width, list length). *)
From SV Require Import Lib.Base Fam.Schema C01.Marshal C01.Guard.

(* ------------------------------------------------------------------ *)
(* induction principle for the nested inductive [value]                *)
(* ------------------------------------------------------------------ *)
Section ValueInd.
Variable P : value -> Prop.
Hypothesis HNone : P VNone.
Hypothesis HText : forall t, P (VText t).
Hypothesis HList : forall l, Forall P l -> P (VList l).
Hypothesis HObj : forall ty fs, Forall (fun f : field => P (snd f)) fs -> P (VObj ty fs).

Fixpoint value_ind' (v : value) : P v :=
  match v with
  | VNone => HNone
  | VText t => HText t
  | VList l =>
      HList l ((fix go (l : list value) : Forall P l :=
                  match l with
                  | [] => Forall_nil _
                  | x :: l' => Forall_cons x (value_ind' x) (go l')
                  end) l)
  | VObj ty fs =>
      HObj ty fs ((fix go (fs : list field) : Forall (fun f : field => P (snd f)) fs :=
                     match fs with
                     | [] => Forall_nil _
                     | f :: fs' =>
                         Forall_cons f
                           (match f as f0 return P (snd f0) with (kb, x) => value_ind' x end)
                           (go fs')
                     end) fs)
  end.
End ValueInd.

(* ------------------------------------------------------------------ *)
(* named versions of the inner fixes, and the unfolding equations       *)
(* ------------------------------------------------------------------ *)
Definition collect_of : list (name * bool * mres contrib) -> mres contrib :=
  fold_right (fun (kc : name * bool * mres contrib) (acc : mres contrib) =>
                mbind (snd kc) (fun c => mbind acc (fun c' =>
                  MOk (fst c ++ fst c', snd c ++ snd c'))))
             (MOk ([], [])).

Definition field_contrib (me : edecl -> bool -> value -> mres (list xnode))
  (elems : list fchild) (attrs : list adecl) (k : name) (isattr : bool) (x : value) : mres contrib :=
  if isattr then
    match get_attribute k attrs with
    | None => MTypeNotFound
    | Some a =>
        match x with
        | VNone => if a_req a then MError else MOk ([], [])
        | VText t => MOk ([(0%N, k, AText t)], [])
        | VList [] => MOk ([], [])
        | _ => MError
        end
    end
  else
    match get_child k elems with
    | None => MTypeNotFound
    | Some (FAny _) => MError
    | Some (FE d' anc' _) => mbind (me d' anc' x) (fun ns => MOk ([], ns))
    end.

Section PerField.
Variable me : edecl -> bool -> value -> mres (list xnode).
Variable elems : list fchild.
Variable attrs : list adecl.
Fixpoint per_field_of (fs : list field) : list (name * bool * mres contrib) :=
  match fs with
  | [] => []
  | (k, isattr, x) :: fs' =>
      (k, isattr, field_contrib me elems attrs k isattr x) :: per_field_of fs'
  end.
End PerField.

Lemma marshal_elem_obj S xstq d anc ty fs :
  marshal_elem S xstq d anc (VObj ty fs) =
  match real_type S d ty with
  | None => MError
  | Some rt =>
      mbind (collect_of (iter_keyed (ordering S rt)
               (per_field_of (marshal_elem S xstq) (flat_elems S rt) (flat_attrs S rt) fs)))
            (fun c => MOk [XN (elem_ns d) (e_name d)
                             (xsi_type_attr xstq (declared_type S d) rt ++ fst c) None (snd c)])
  end.
Proof. reflexivity. Qed.

Definition xt_of (xstq : bool) (declared : option ctype) (rt : ctype) : list (nsid * name * aval) :=
  match declared with
  | Some dt => if negb (ctype_eqb dt rt) && has_base rt
               then [(ns_xsi, n_type, AQName (if xstq then c_ns rt else 0%N) (c_name rt))] else []
  | None => if has_base rt
            then [(ns_xsi, n_type, AQName (if xstq then c_ns rt else 0%N) (c_name rt))] else []
  end.

Definition at_of (fs : list field) (a : adecl) : list (nsid * name * aval) :=
  match lookup_field (a_name a, true) fs with
  | Some (VText t) => [(0%N, a_name a, AText t)]
  | _ => []
  end.

Definition bentry := (name * bool * (edecl -> bool -> option (list xnode)))%type.

Section Bound.
Variable re : edecl -> bool -> value -> option (list xnode).
Fixpoint bound_of (fs : list field) : list bentry :=
  match fs with
  | [] => []
  | (k, isattr, x) :: fs' => (k, isattr, fun d' anc' => re d' anc' x) :: bound_of fs'
  end.
End Bound.

Definition decl_kids (bound : list bentry) (d' : edecl) (anc' : bool) : option (list xnode) :=
  match lookup_key (e_name d', false) bound with
  | Some w => w d' anc'
  | None => Some []
  end.

Section Decls.
Variable bound : list bentry.
Fixpoint decls_of (l : list fchild) : option (list xnode) :=
  match l with
  | [] => Some []
  | FAny _ :: l' => decls_of l'
  | FE d' anc' _ :: l' =>
      match decl_kids bound d' anc', decls_of l' with
      | Some a, Some b => Some (a ++ b)
      | _, _ => None
      end
  end.
End Decls.

Lemma ref_elem_obj S xstq d anc ty fs :
  ref_elem S xstq d anc (VObj ty fs) =
  match real_type S d ty with
  | None => None
  | Some rt =>
      match decls_of (bound_of (ref_elem S xstq) fs) (flat_elems S rt) with
      | Some ks => Some [XN (elem_ns d) (e_name d)
                           (xt_of xstq (declared_type S d) rt ++ flat_map (at_of fs) (flat_attrs S rt))
                           None ks]
      | None => None
      end
  end.
Proof. reflexivity. Qed.

Section Each.
Variable S : schema.
Variable rt : ctype.
Fixpoint each_of (fs : list field) : bool :=
  match fs with
  | [] => true
  | (k, isattr, x) :: fs' =>
      (if isattr then
         match get_attribute k (flat_attrs S rt) with
         | None => false
         | Some a => match x with
                     | VText _ => true
                     | VNone => negb (a_req a)
                     | _ => false
                     end
         end
       else
         match get_child k (flat_elems S rt) with
         | Some (FE d' _ _) => conforming S d' x
         | _ => false
         end) && each_of fs'
  end.
End Each.

Lemma conforming_obj S d ty fs :
  conforming S d (VObj ty fs) =
  match real_type S d ty with
  | None => false
  | Some rt =>
      nodup_keys (ordering S rt) && no_wild (flat_elems S rt) &&
      nodup_keys (map (fun f : field => fst f) fs) &&
      forallb (fun f : field => key_in (fst f) (ordering S rt)) fs &&
      each_of S rt fs
  end.
Proof. reflexivity. Qed.

Lemma marshal_elem_list S xstq d anc l :
  marshal_elem S xstq d anc (VList l) = mconcat (map (marshal_elem S xstq d anc) l).
Proof.
  induction l as [|x l IH]; [reflexivity|].
  cbn [map mconcat]. rewrite <- IH. reflexivity.
Qed.

Lemma ref_elem_list S xstq d anc l :
  ref_elem S xstq d anc (VList l) = oconcat (map (ref_elem S xstq d anc) l).
Proof.
  induction l as [|x l IH]; [reflexivity|].
  cbn [map oconcat]. rewrite <- IH.
  change (ref_elem S xstq d anc (VList (x :: l)))
    with (match ref_elem S xstq d anc x, ref_elem S xstq d anc (VList l) with
          | Some a, Some b => Some (a ++ b)
          | _, _ => None
          end).
  destruct (ref_elem S xstq d anc x); [|reflexivity].
  destruct (ref_elem S xstq d anc (VList l)); reflexivity.
Qed.

Lemma conforming_list S d l :
  conforming S d (VList l) = forallb (conforming S d) l.
Proof.
  induction l as [|x l IH]; [reflexivity|].
  cbn [forallb]. rewrite <- IH. reflexivity.
Qed.

(* ------------------------------------------------------------------ *)
(* keys                                                                *)
(* ------------------------------------------------------------------ *)
Lemma key_eqb_eq a b : key_eqb a b = true <-> a = b.
Proof.
  destruct a as [a1 a2], b as [b1 b2]; unfold key_eqb; cbn.
  rewrite andb_true_iff, N.eqb_eq, Bool.eqb_true_iff.
  split; [intros [-> ->]; reflexivity | intros H; inversion H; auto].
Qed.

Lemma key_eqb_refl a : key_eqb a a = true.
Proof. apply key_eqb_eq; reflexivity. Qed.

Lemma key_in_In k l : key_in k l = true <-> In k l.
Proof.
  unfold key_in. rewrite existsb_exists. split.
  - intros [x [Hx He]]. apply key_eqb_eq in He. subst. exact Hx.
  - intros H. exists k. split; [exact H | apply key_eqb_refl].
Qed.

Lemma nodup_keys_NoDup l : nodup_keys l = true <-> NoDup l.
Proof.
  induction l as [|k l IH]; cbn.
  - split; [constructor | reflexivity].
  - rewrite andb_true_iff, negb_true_iff, IH. split.
    + intros [H1 H2]. constructor; [|exact H2].
      intro Hin. apply key_in_In in Hin. congruence.
    + intros H. inversion H; subst. split; [|assumption].
      destruct (key_in k l) eqn:E; [|reflexivity].
      apply key_in_In in E. contradiction.
Qed.

Definition akey (a : adecl) : name * bool := (a_name a, true).
Definition is_elem_key (k : name * bool) : bool := negb (snd k).
Definition is_attr_key (k : name * bool) : bool := snd k.

Lemma fchild_names_app l1 l2 : fchild_names (l1 ++ l2) = fchild_names l1 ++ fchild_names l2.
Proof. unfold fchild_names. apply flat_map_app. Qed.

Lemma fchild_names_snd l k : In k (fchild_names l) -> snd k = false.
Proof.
  unfold fchild_names. rewrite in_flat_map. intros [c [_ H]].
  destruct c; cbn in H; [destruct H as [<-|[]]; reflexivity | destruct H].
Qed.

Lemma filter_all {A} (f : A -> bool) l : (forall x, In x l -> f x = true) -> filter f l = l.
Proof.
  induction l as [|x l IH]; cbn; intros H; [reflexivity|].
  rewrite (H x (or_introl eq_refl)). f_equal. apply IH. intros; apply H; right; assumption.
Qed.

Lemma filter_none {A} (f : A -> bool) l : (forall x, In x l -> f x = false) -> filter f l = [].
Proof.
  induction l as [|x l IH]; cbn; intros H; [reflexivity|].
  rewrite (H x (or_introl eq_refl)). apply IH. intros; apply H; right; assumption.
Qed.

Lemma akey_snd l k : In k (map akey l) -> snd k = true.
Proof. rewrite in_map_iff. intros [a [<- _]]. reflexivity. Qed.

Lemma ordering_elems_gen cs :
  filter is_elem_key
    (flat_map (fun c => fchild_names (flat_content (c_content c)) ++ map akey (c_attrs c)) cs)
  = fchild_names (flat_map (fun c => flat_content (c_content c)) cs).
Proof.
  induction cs as [|c cs IH]; [reflexivity|].
  cbn [flat_map]. rewrite !filter_app, IH, fchild_names_app.
  rewrite filter_all, filter_none; [rewrite app_nil_r; reflexivity| |].
  - intros k Hk. apply akey_snd in Hk. unfold is_elem_key. rewrite Hk. reflexivity.
  - intros k Hk. apply fchild_names_snd in Hk. unfold is_elem_key. rewrite Hk. reflexivity.
Qed.

Lemma ordering_attrs_gen cs :
  filter is_attr_key
    (flat_map (fun c => fchild_names (flat_content (c_content c)) ++ map akey (c_attrs c)) cs)
  = map akey (flat_map c_attrs cs).
Proof.
  induction cs as [|c cs IH]; [reflexivity|].
  cbn [flat_map]. rewrite !filter_app, IH, map_app.
  rewrite filter_none, filter_all; [reflexivity| |].
  - intros k Hk. apply akey_snd in Hk. exact Hk.
  - intros k Hk. apply fchild_names_snd in Hk. exact Hk.
Qed.

Lemma ordering_elems S t :
  filter is_elem_key (ordering S t) = fchild_names (flat_elems S t).
Proof. apply ordering_elems_gen. Qed.

Lemma ordering_attrs S t :
  filter is_attr_key (ordering S t) = map akey (flat_attrs S t).
Proof. apply ordering_attrs_gen. Qed.

Lemma nodup_ordering_elems S t :
  nodup_keys (ordering S t) = true -> nodup_keys (fchild_names (flat_elems S t)) = true.
Proof.
  rewrite !nodup_keys_NoDup, <- ordering_elems. apply NoDup_filter.
Qed.

Lemma nodup_ordering_attrs S t :
  nodup_keys (ordering S t) = true -> NoDup (map akey (flat_attrs S t)).
Proof.
  rewrite nodup_keys_NoDup, <- ordering_attrs. apply NoDup_filter.
Qed.

(* ------------------------------------------------------------------ *)
(* lookups find the declaration (names distinct, no wildcard)          *)
(* ------------------------------------------------------------------ *)
Lemma In_fchild_names d anc ch l : In (FE d anc ch) l -> In (e_name d, false) (fchild_names l).
Proof.
  intros H. unfold fchild_names. apply in_flat_map.
  exists (FE d anc ch). split; [exact H | left; reflexivity].
Qed.

Lemma get_child_finds_decl : forall n l d anc ch,
  no_wild l = true -> nodup_keys (fchild_names l) = true ->
  In (FE d anc ch) l -> e_name d = n -> get_child n l = Some (FE d anc ch).
Proof.
  intros n l d anc ch. induction l as [|c l IH]; intros Hw Hn Hin Hd; [destruct Hin|].
  cbn in Hw. apply andb_true_iff in Hw as [Hc Hw].
  destruct c as [d0 a0 c0|a0]; [|discriminate].
  change (fchild_names (FE d0 a0 c0 :: l)) with ((e_name d0, false) :: fchild_names l) in Hn.
  cbn [nodup_keys] in Hn. apply andb_true_iff in Hn as [Hk Hn].
  cbn [get_child]. destruct Hin as [He|Hin].
  - inversion He; subst. rewrite N.eqb_refl. reflexivity.
  - destruct (N.eqb (e_name d0) n) eqn:E.
    + apply N.eqb_eq in E. exfalso.
      apply In_fchild_names in Hin. rewrite Hd, <- E in Hin.
      apply key_in_In in Hin. rewrite Hin in Hk. discriminate.
    + apply IH; assumption.
Qed.

Lemma get_attribute_finds : forall l a,
  NoDup (map akey l) -> In a l -> get_attribute (a_name a) l = Some a.
Proof.
  induction l as [|b l IH]; intros a Hn Hin; [destruct Hin|].
  cbn [map] in Hn. inversion Hn as [|? ? Hnot Hn']; subst.
  cbn [get_attribute]. destruct Hin as [->|Hin].
  - rewrite N.eqb_refl. reflexivity.
  - destruct (N.eqb (a_name b) (a_name a)) eqn:E.
    + apply N.eqb_eq in E. exfalso. apply Hnot.
      apply in_map_iff. exists a. split; [unfold akey; rewrite E; reflexivity | exact Hin].
    + apply IH; assumption.
Qed.

(* ------------------------------------------------------------------ *)
(* collecting contributions in the schema ordering                     *)
(* ------------------------------------------------------------------ *)
Definition pick {A} (l : list (name * bool * A)) (k : name * bool) : list (name * bool * A) :=
  match lookup_key k l with Some v => [(k, v)] | None => [] end.

Lemma iter_keyed_then {A} ord (l : list (name * bool * A)) :
  forallb (fun f => key_in (fst f) ord) l = true ->
  iter_keyed ord l = flat_map (pick l) ord.
Proof. intros H. unfold iter_keyed. rewrite H. reflexivity. Qed.

Lemma collect_app_ok l1 l2 c1 c2 :
  collect_of l1 = MOk c1 -> collect_of l2 = MOk c2 ->
  collect_of (l1 ++ l2) = MOk (fst c1 ++ fst c2, snd c1 ++ snd c2).
Proof.
  revert c1. induction l1 as [|x l1 IH]; intros c1 H1 H2.
  - cbn in H1. inversion H1; subst. cbn. rewrite H2. destruct c2; reflexivity.
  - cbn [app]. unfold collect_of in *. cbn [fold_right] in *.
    destruct (snd x) as [cx| |]; cbn [mbind] in *; try discriminate.
    destruct (fold_right _ _ l1) as [c1'| |] eqn:E1; cbn [mbind] in *; try discriminate.
    rewrite (IH c1' eq_refl H2). cbn [mbind]. inversion H1; subst. cbn [fst snd].
    rewrite !app_assoc. reflexivity.
Qed.

Lemma per_field_forallb me elems attrs ord fs :
  forallb (fun f => key_in (fst f) ord) (per_field_of me elems attrs fs) =
  forallb (fun f : field => key_in (fst f) ord) fs.
Proof.
  induction fs as [|[[k isattr] x] fs IH]; [reflexivity|].
  cbn [per_field_of forallb fst]. rewrite IH. reflexivity.
Qed.

Lemma decls_of_app_ok bound l1 l2 k1 k2 :
  decls_of bound l1 = Some k1 -> decls_of bound l2 = Some k2 ->
  decls_of bound (l1 ++ l2) = Some (k1 ++ k2).
Proof.
  revert k1. induction l1 as [|c l1 IH]; intros k1 H1 H2.
  - cbn in H1. inversion H1; subst. exact H2.
  - cbn [app decls_of] in *. destruct c as [d' anc' ch|a'].
    + destruct (decl_kids bound d' anc') as [a|]; [|discriminate].
      destruct (decls_of bound l1) as [b|]; [|discriminate].
      rewrite (IH b eq_refl H2). inversion H1; subst. rewrite app_assoc. reflexivity.
    + apply IH; assumption.
Qed.

Section ObjectCase.
Variable S : schema.
Variable xstq : bool.
Variable rt : ctype.

Let elems := flat_elems S rt.
Let attrs := flat_attrs S rt.
Let me := marshal_elem S xstq.
Let re := ref_elem S xstq.

Definition agree (v : value) : Prop :=
  forall d anc, conforming S d v = true ->
    exists ns, ref_elem S xstq d anc v = Some ns /\ marshal_elem S xstq d anc v = MOk ns.

(* one element key *)
Lemma elem_key_agree d' anc' ch fs :
  get_child (e_name d') elems = Some (FE d' anc' ch) ->
  Forall (fun f : field => agree (snd f)) fs ->
  each_of S rt fs = true ->
  exists ns, decl_kids (bound_of re fs) d' anc' = Some ns /\
             collect_of (pick (per_field_of me elems attrs fs) (e_name d', false)) = MOk ([], ns).
Proof.
  intros Hg. induction fs as [|[[k isattr] x] fs IH]; intros HF He.
  - exists []. split; reflexivity.
  - inversion HF as [|? ? Hx HF']; subst. cbn [snd] in Hx.
    cbn [each_of] in He. apply andb_true_iff in He as [Hf He].
    unfold decl_kids, pick, lookup_key in *. cbn [bound_of per_field_of find fst].
    destruct (key_eqb (k, isattr) (e_name d', false)) eqn:E.
    + apply key_eqb_eq in E. inversion E; subst. cbn [snd].
      unfold field_contrib. fold elems in Hf. rewrite Hg in *.
      destruct (Hx d' anc' Hf) as [ns [Hr Hm]].
      exists ns. split; [exact Hr|].
      unfold collect_of. cbn [fold_right snd]. fold me in Hm. rewrite Hm. cbn.
      rewrite app_nil_r. reflexivity.
    + apply IH; assumption.
Qed.

(* one attribute key *)
Lemma attr_key_agree a fs :
  get_attribute (a_name a) attrs = Some a ->
  each_of S rt fs = true ->
  collect_of (pick (per_field_of me elems attrs fs) (akey a)) = MOk (at_of fs a, []).
Proof.
  intros Hg. induction fs as [|[[k isattr] x] fs IH]; intros He.
  - reflexivity.
  - cbn [each_of] in He. apply andb_true_iff in He as [Hf He].
    unfold at_of, pick, lookup_key, lookup_field, field_key, akey in *.
    cbn [per_field_of find fst].
    destruct (key_eqb (k, isattr) (a_name a, true)) eqn:E.
    + apply key_eqb_eq in E. inversion E; subst. cbn [snd].
      unfold field_contrib. fold attrs in Hf. rewrite Hg in *.
      destruct x as [|t|l|ty fs0]; try discriminate.
      * apply negb_true_iff in Hf. rewrite Hf. reflexivity.
      * reflexivity.
    + apply IH; assumption.
Qed.

Variable fs : list field.
Hypothesis HF : Forall (fun f : field => agree (snd f)) fs.
Hypothesis Heach : each_of S rt fs = true.

Let pf := per_field_of me elems attrs fs.
Let bound := bound_of re fs.

Lemma collect_elems es :
  (forall d' anc' ch, In (FE d' anc' ch) es -> get_child (e_name d') elems = Some (FE d' anc' ch)) ->
  exists ks, decls_of bound es = Some ks /\
             collect_of (flat_map (pick pf) (fchild_names es)) = MOk ([], ks).
Proof.
  induction es as [|c es IH]; intros H.
  - exists []. split; reflexivity.
  - destruct IH as [ks [Hd Hc]]; [intros; apply H; right; assumption|].
    destruct c as [d' anc' ch|a'].
    + destruct (elem_key_agree d' anc' ch fs (H _ _ _ (or_introl eq_refl)) HF Heach)
        as [ns [Hr Hm]].
      exists (ns ++ ks). split.
      * cbn [decls_of]. fold bound in Hr. rewrite Hr, Hd. reflexivity.
      * change (fchild_names (FE d' anc' ch :: es)) with ((e_name d', false) :: fchild_names es).
        cbn [flat_map]. fold pf in Hm.
        rewrite (collect_app_ok _ _ _ _ Hm Hc). reflexivity.
    + exists ks. split; [exact Hd | exact Hc].
Qed.

Lemma collect_attrs l :
  (forall a, In a l -> get_attribute (a_name a) attrs = Some a) ->
  collect_of (flat_map (pick pf) (map akey l)) = MOk (flat_map (at_of fs) l, []).
Proof.
  induction l as [|a l IH]; intros H; [reflexivity|].
  cbn [map flat_map]. unfold pf in *.
  rewrite (collect_app_ok _ _ _ _
             (attr_key_agree a fs (H a (or_introl eq_refl)) Heach)
             (IH (fun a' Ha' => H a' (or_intror Ha')))).
  reflexivity.
Qed.

Lemma collect_chain cs :
  (forall d' anc' ch, In (FE d' anc' ch) (flat_map (fun c => flat_content (c_content c)) cs) ->
     get_child (e_name d') elems = Some (FE d' anc' ch)) ->
  (forall a, In a (flat_map c_attrs cs) -> get_attribute (a_name a) attrs = Some a) ->
  exists ks,
    decls_of bound (flat_map (fun c => flat_content (c_content c)) cs) = Some ks /\
    collect_of (flat_map (pick pf)
                  (flat_map (fun c => fchild_names (flat_content (c_content c)) ++ map akey (c_attrs c)) cs))
    = MOk (flat_map (at_of fs) (flat_map c_attrs cs), ks).
Proof.
  induction cs as [|c cs IH]; intros He Ha.
  - exists []. split; reflexivity.
  - cbn [flat_map] in *.
    destruct IH as [ks [Hd Hc]].
    { intros; apply He; apply in_or_app; right; assumption. }
    { intros; apply Ha; apply in_or_app; right; assumption. }
    destruct (collect_elems (flat_content (c_content c))) as [k1 [Hd1 Hc1]].
    { intros; apply He; apply in_or_app; left; assumption. }
    pose proof (collect_attrs (c_attrs c)
                  (fun a Hin => Ha a (in_or_app _ _ _ (or_introl Hin)))) as Hc2.
    exists (k1 ++ ks). split.
    + apply decls_of_app_ok; assumption.
    + rewrite !flat_map_app.
      rewrite (collect_app_ok _ _ _ _ (collect_app_ok _ _ _ _ Hc1 Hc2) Hc).
      cbn [fst snd]. rewrite app_nil_r. reflexivity.
Qed.

End ObjectCase.

Lemma xsi_type_attr_xt xstq declared rt : xsi_type_attr xstq declared rt = xt_of xstq declared rt.
Proof.
  unfold xsi_type_attr, xt_of. destruct declared as [dt|].
  - destruct (has_base rt), (ctype_eqb dt rt); reflexivity.
  - destruct (has_base rt); reflexivity.
Qed.

(* ------------------------------------------------------------------ *)
(* 1. the marshaller meets the reference on every conforming value     *)
(* ------------------------------------------------------------------ *)
Lemma concat_agree {X} (f : X -> option (list xnode)) (g : X -> mres (list xnode)) l :
  Forall (fun x => exists ns, f x = Some ns /\ g x = MOk ns) l ->
  exists ns, oconcat (map f l) = Some ns /\ mconcat (map g l) = MOk ns.
Proof.
  induction 1 as [|x l [a [Hf Hg]] _ [b [Hfl Hgl]]].
  - exists []. split; reflexivity.
  - exists (a ++ b). cbn [map oconcat mconcat]. rewrite Hf, Hg, Hfl, Hgl. split; reflexivity.
Qed.

Lemma marshal_conforms_v : forall S xstq v, agree S xstq v.
Proof.
  intros S xstq v. induction v as [|t|l IH|ty fs IH] using value_ind'; intros d anc Hc.
  - cbn. destruct (e_opt d || anc); eexists; split; reflexivity.
  - eexists; split; reflexivity.
  - rewrite conforming_list in Hc. rewrite marshal_elem_list, ref_elem_list.
    apply concat_agree. rewrite forallb_forall in Hc. rewrite Forall_forall in *.
    intros x Hx. apply (IH x Hx). apply Hc, Hx.
  - rewrite conforming_obj in Hc. rewrite marshal_elem_obj, ref_elem_obj.
    destruct (real_type S d ty) as [rt|]; [|discriminate].
    repeat (apply andb_true_iff in Hc as [Hc ?]).
    rename Hc into G1, H2 into G2, H1 into G3, H0 into G4, H into G5.
    rewrite iter_keyed_then by (rewrite per_field_forallb; exact G4).
    destruct (collect_chain S xstq rt fs IH G5 (chain_of S rt)) as [ks [Hd Hm]].
    + intros d' anc' ch Hin. apply get_child_finds_decl; auto.
      apply nodup_ordering_elems; exact G1.
    + intros a Hin. apply get_attribute_finds; auto.
      apply nodup_ordering_attrs; exact G1.
    + change (decls_of (bound_of (ref_elem S xstq) fs) (flat_elems S rt) = Some ks) in Hd.
      rewrite Hd.
      change (collect_of (flat_map
                (pick (per_field_of (marshal_elem S xstq) (flat_elems S rt) (flat_attrs S rt) fs))
                (ordering S rt))
              = MOk (flat_map (at_of fs) (flat_attrs S rt), ks)) in Hm.
      rewrite Hm. cbn [mbind fst snd].
      rewrite xsi_type_attr_xt. eexists; split; reflexivity.
Qed.

Lemma marshal_conforms_l : forall S xstq v d anc,
  conforming S d v = true ->
  exists ns, ref_elem S xstq d anc v = Some ns /\ marshal_elem S xstq d anc v = MOk ns.
Proof. intros S xstq v d anc. apply marshal_conforms_v. Qed.

(* ------------------------------------------------------------------ *)
(* 2. top-level arguments                                              *)
(* ------------------------------------------------------------------ *)
(* a None anywhere in the list spine of a value (lists inside lists included;
   object members have their own declarations and are not looked into) *)
Fixpoint deep_none (v : value) : bool :=
  match v with
  | VNone => true
  | VList l => (fix any (l : list value) : bool :=
                  match l with [] => false | x :: l' => deep_none x || any l' end) l
  | _ => false
  end.

Lemma deep_none_list l : deep_none (VList l) = existsb deep_none l.
Proof.
  induction l as [|x l IH]; [reflexivity|].
  cbn [existsb]. rewrite <- IH. reflexivity.
Qed.

(* the ancestry flag is consulted for None only, and only through [e_opt d || anc] *)
Lemma marshal_anc_irrel S xstq : forall v d a1 a2,
  e_opt d || a1 = e_opt d || a2 \/ deep_none v = false ->
  marshal_elem S xstq d a1 v = marshal_elem S xstq d a2 v.
Proof.
  intros v. induction v as [|t|l IH|ty fs IH] using value_ind'; intros d a1 a2 H.
  - cbn. destruct H as [->|H]; [reflexivity | discriminate].
  - reflexivity.
  - rewrite !marshal_elem_list. f_equal. apply map_ext_in. intros x Hx.
    rewrite Forall_forall in IH. apply (IH x Hx).
    destruct H as [H|H]; [left; exact H | right].
    rewrite deep_none_list in H.
    destruct (deep_none x) eqn:E; [|reflexivity].
    assert (existsb deep_none l = true) by (apply existsb_exists; exists x; auto). congruence.
  - rewrite !marshal_elem_obj. reflexivity.
Qed.

Lemma ref_anc_irrel S xstq : forall v d a1 a2,
  e_opt d || a1 = e_opt d || a2 \/ deep_none v = false ->
  ref_elem S xstq d a1 v = ref_elem S xstq d a2 v.
Proof.
  intros v. induction v as [|t|l IH|ty fs IH] using value_ind'; intros d a1 a2 H.
  - cbn. destruct H as [->|H]; [reflexivity | discriminate].
  - reflexivity.
  - rewrite !ref_elem_list. f_equal. apply map_ext_in. intros x Hx.
    rewrite Forall_forall in IH. apply (IH x Hx).
    destruct H as [H|H]; [left; exact H | right].
    rewrite deep_none_list in H.
    destruct (deep_none x) eqn:E; [|reflexivity].
    assert (existsb deep_none l = true) by (apply existsb_exists; exists x; auto). congruence.
  - rewrite !ref_elem_obj. reflexivity.
Qed.

(* the extra hypothesis: [has_none] of Guard.v looks one level deep only.  A
   None deeper in nested lists, under a non-optional declaration that sits in
   an optional container, is written by the marshaller (which does not see the
   container) and omitted by the reference *)
Definition param_lists_ok (c : fchild) (v : value) : bool :=
  match c with
  | FAny _ => true
  | FE d anc _ => negb anc || e_opt d || has_none v || negb (deep_none v)
  end.

Lemma marshal_param_conforms_l : forall S xstq c v,
  param_conforming S c v = true ->
  param_lists_ok c v = true ->
  exists ns, ref_param S xstq c v = Some ns /\ marshal_param S xstq c v = MOk ns.
Proof.
  intros S xstq [d anc ch|a] v H Hok; [|discriminate].
  unfold param_conforming in H. apply andb_true_iff in H as [Hc Hg].
  unfold marshal_param, ref_param, param_lists_ok in *.
  change (match v with VNone => true | _ => false end) with (is_none v).
  destruct (ch && is_none v) eqn:E1.
  - exists []. split; reflexivity.
  - rewrite orb_false_r in Hg.
    assert (Hm : match v with
                 | VList l =>
                     if e_opt d && existsb (fun x => match x with VNone => true | _ => false end) l
                     then MError else mconcat (map (marshal_elem S xstq d false) l)
                 | _ => marshal_elem S xstq d false v
                 end = marshal_elem S xstq d false v).
    { destruct v as [|t|l|ty fs]; try reflexivity.
      change (existsb (fun x => match x with VNone => true | _ => false end) l)
        with (has_none (VList l)).
      rewrite marshal_elem_list.
      destruct (e_opt d), (has_none (VList l)); cbn in *; try reflexivity.
      destruct anc; discriminate. }
    rewrite Hm.
    assert (Ha : e_opt d || false = e_opt d || anc \/ deep_none v = false).
    { destruct anc; [|left; reflexivity].
      destruct (e_opt d); [left; reflexivity|].
      cbn in Hok, Hg. rewrite andb_false_r, !orb_false_r in Hg.
      destruct (has_none v); [discriminate|].
      right. cbn in Hok. apply negb_true_iff in Hok. exact Hok. }
    rewrite (marshal_anc_irrel S xstq v d false anc Ha).
    apply marshal_conforms_l. exact Hc.
Qed.

(* the statement without the extra hypothesis is false: *)
Lemma marshal_param_nested_none_counterexample :
  let d := mkE 5%N 0%N false TBuiltin false false false None in
  let c := FE d true false in
  let v := VList [VList [VNone]] in
  param_conforming [] c v = true /\
  ref_param [] false c v = Some [] /\
  marshal_param [] false c v = MOk [XN 0%N 5%N [] None []].
Proof. cbv. repeat split. Qed.

(* ------------------------------------------------------------------ *)
(* 2b. whole document/literal wrapped bodies                           *)
(* ------------------------------------------------------------------ *)
Definition args_lists_ok (S : schema) (wrapper : edecl) (args : list value) : bool :=
  match declared_type S wrapper with
  | None => true
  | Some wt => forallb (fun pa => param_lists_ok (fst pa) (snd pa)) (combine (flat_elems S wt) args)
  end.

Lemma doc_wrapped_conforms_l : forall S xstq wrapper args,
  args_conforming S wrapper args = true ->
  args_lists_ok S wrapper args = true ->
  exists body, ref_doc_wrapped S xstq wrapper args = Some body /\
               doc_wrapped_body S xstq wrapper args = MOk body.
Proof.
  intros S xstq wrapper args H Hok.
  unfold args_conforming, args_lists_ok, ref_doc_wrapped, doc_wrapped_body in *.
  destruct (declared_type S wrapper) as [wt|]; [|discriminate].
  apply andb_true_iff in H as [Hl Hp].
  rewrite Hl. cbn [negb].
  destruct (concat_agree
              (fun pa => ref_param S xstq (fst pa) (snd pa))
              (fun pa => marshal_param S xstq (fst pa) (snd pa))
              (combine (flat_elems S wt) args)) as [kids [Hr Hm]].
  - rewrite forallb_forall in Hp, Hok. apply Forall_forall. intros pa Hin.
    apply marshal_param_conforms_l; [apply Hp | apply Hok]; exact Hin.
  - rewrite Hr, Hm. eexists; split; reflexivity.
Qed.

(* ------------------------------------------------------------------ *)
(* 3. shape facts of the reference, stated on the model through 1.     *)
(* ------------------------------------------------------------------ *)
Definition xname (n : xnode) : name := match n with XN _ nm _ _ _ => nm end.
Definition xnsid (n : xnode) : nsid := match n with XN ns _ _ _ _ => ns end.

Lemma oconcat_Forall {X} (P : xnode -> Prop) (f : X -> option (list xnode)) l ns :
  (forall x a, In x l -> f x = Some a -> Forall P a) ->
  oconcat (map f l) = Some ns -> Forall P ns.
Proof.
  revert ns. induction l as [|x l IH]; intros ns H Ho.
  - cbn in Ho. inversion Ho. constructor.
  - cbn [map oconcat] in Ho. destruct (f x) as [a|] eqn:E; [|discriminate].
    destruct (oconcat (map f l)) as [b|]; [|discriminate].
    inversion Ho; subst. apply Forall_app. split.
    + apply (H x a); [left; reflexivity | exact E].
    + apply IH; [|reflexivity]. intros y c Hy. apply H. right. exact Hy.
Qed.

(* every node written for a declaration carries its name and namespace *)
Lemma ref_elem_names S xstq : forall v d anc ns,
  ref_elem S xstq d anc v = Some ns ->
  Forall (fun n => xname n = e_name d /\ xnsid n = elem_ns d) ns.
Proof.
  intros v. induction v as [|t|l IH|ty fs IH] using value_ind'; intros d anc ns H.
  - cbn in H. destruct (e_opt d || anc); inversion H; subst; repeat constructor.
  - cbn in H. inversion H; subst. repeat constructor.
  - rewrite ref_elem_list in H. revert H. apply oconcat_Forall.
    intros x a Hx. rewrite Forall_forall in IH. apply IH. exact Hx.
  - rewrite ref_elem_obj in H. destruct (real_type S d ty); [|discriminate].
    destruct (decls_of _ _); inversion H; subst. repeat constructor.
Qed.

Lemma marshal_elem_names S xstq v d anc ns :
  conforming S d v = true -> marshal_elem S xstq d anc v = MOk ns ->
  Forall (fun n => xname n = e_name d /\ xnsid n = elem_ns d) ns.
Proof.
  intros Hc Hm. destruct (marshal_conforms_l S xstq v d anc Hc) as [ns' [Hr Hm']].
  rewrite Hm in Hm'. inversion Hm'; subst. eapply ref_elem_names; eauto.
Qed.

(* a value that is not a list is written as at most one node *)
Lemma ref_elem_nonlist_len S xstq v d anc ns :
  (forall l, v <> VList l) -> ref_elem S xstq d anc v = Some ns -> length ns <= 1.
Proof.
  intros Hv H. destruct v as [|t|l|ty fs].
  - cbn in H. destruct (e_opt d || anc); inversion H; subst; cbn; lia.
  - cbn in H. inversion H; subst; cbn; lia.
  - exfalso. apply (Hv l). reflexivity.
  - rewrite ref_elem_obj in H. destruct (real_type S d ty); [|discriminate].
    destruct (decls_of _ _); inversion H; subst. cbn; lia.
Qed.

(* [ks] is [decl] with every name repeated some number (possibly zero) of times *)
Inductive rep_subseq : list name -> list name -> Prop :=
| rs_nil : rep_subseq [] []
| rs_skip n ks decl : rep_subseq ks decl -> rep_subseq ks (n :: decl)
| rs_take n ks decl : rep_subseq ks (n :: decl) -> rep_subseq (n :: ks) (n :: decl).

(* plain subsequence *)
Inductive subseq : list name -> list name -> Prop :=
| ss_nil : subseq [] []
| ss_skip n ks decl : subseq ks decl -> subseq ks (n :: decl)
| ss_take n ks decl : subseq ks decl -> subseq (n :: ks) (n :: decl).

Lemma rep_subseq_block m a ks decl :
  Forall (fun n => xname n = m) a -> rep_subseq ks decl ->
  rep_subseq (map xname a ++ ks) (m :: decl).
Proof.
  intros Ha Hk. induction Ha as [|x a Hx _ IH]; cbn.
  - apply rs_skip. exact Hk.
  - rewrite Hx. apply rs_take. exact IH.
Qed.

Lemma subseq_block m a ks decl :
  length a <= 1 -> Forall (fun n => xname n = m) a -> subseq ks decl ->
  subseq (map xname a ++ ks) (m :: decl).
Proof.
  intros Hl Ha Hk. destruct a as [|x [|y a]]; cbn in *; try lia.
  - apply ss_skip. exact Hk.
  - inversion Ha; subst. apply ss_take. exact Hk.
Qed.

Lemma lookup_bound re k fs w :
  lookup_key k (bound_of re fs) = Some w ->
  exists kk x, In (kk, x) fs /\ w = fun d' anc' => re d' anc' x.
Proof.
  unfold lookup_key. induction fs as [|[[k0 isattr] x] fs IH]; cbn [bound_of find fst]; intros H.
  - discriminate.
  - destruct (key_eqb (k0, isattr) k).
    + cbn in H. inversion H; subst. exists (k0, isattr), x. split; [left; reflexivity | reflexivity].
    + destruct (IH H) as [kk [y [Hin Hw]]]. exists kk, y. split; [right; exact Hin | exact Hw].
Qed.

Section Kids.
Variable S : schema.
Variable xstq : bool.
Variable fs : list field.
Let bound := bound_of (ref_elem S xstq) fs.

Lemma decl_kids_names d' anc' a :
  decl_kids bound d' anc' = Some a -> Forall (fun n => xname n = e_name d') a.
Proof.
  unfold decl_kids. destruct (lookup_key (e_name d', false) bound) as [w|] eqn:E; intros H.
  - apply lookup_bound in E as [kk [x [_ ->]]].
    apply ref_elem_names in H. eapply Forall_impl; [|exact H]. cbn. intros n [Hn _]. exact Hn.
  - inversion H. constructor.
Qed.

Lemma decl_kids_len d' anc' a :
  (forall f l, In f fs -> snd f <> VList l) ->
  decl_kids bound d' anc' = Some a -> length a <= 1.
Proof.
  intros Hnl. unfold decl_kids.
  destruct (lookup_key (e_name d', false) bound) as [w|] eqn:E; intros H.
  - apply lookup_bound in E as [kk [x [Hin ->]]].
    eapply ref_elem_nonlist_len; [|exact H]. intros l. apply (Hnl (kk, x) l Hin).
  - inversion H. cbn. lia.
Qed.

Lemma decls_of_rep_subseq es ks :
  decls_of bound es = Some ks -> rep_subseq (map xname ks) (map fst (fchild_names es)).
Proof.
  revert ks. induction es as [|c es IH]; intros ks H.
  - cbn in H. inversion H. constructor.
  - destruct c as [d' anc' ch|a'].
    + cbn [decls_of] in H.
      destruct (decl_kids bound d' anc') as [a|] eqn:E; [|discriminate].
      destruct (decls_of bound es) as [b|]; [|discriminate].
      inversion H; subst.
      change (fchild_names (FE d' anc' ch :: es)) with ((e_name d', false) :: fchild_names es).
      cbn [map fst]. rewrite map_app. apply rep_subseq_block.
      * eapply decl_kids_names; exact E.
      * apply IH. reflexivity.
    + apply IH. exact H.
Qed.

Lemma decls_of_subseq es ks :
  (forall f l, In f fs -> snd f <> VList l) ->
  decls_of bound es = Some ks -> subseq (map xname ks) (map fst (fchild_names es)).
Proof.
  intros Hnl. revert ks. induction es as [|c es IH]; intros ks H.
  - cbn in H. inversion H. constructor.
  - destruct c as [d' anc' ch|a'].
    + cbn [decls_of] in H.
      destruct (decl_kids bound d' anc') as [a|] eqn:E; [|discriminate].
      destruct (decls_of bound es) as [b|]; [|discriminate].
      inversion H; subst.
      change (fchild_names (FE d' anc' ch :: es)) with ((e_name d', false) :: fchild_names es).
      cbn [map fst]. rewrite map_app. apply subseq_block.
      * eapply decl_kids_len; eauto.
      * eapply decl_kids_names; exact E.
      * apply IH. reflexivity.
    + apply IH. exact H.
Qed.
End Kids.

(* the full description of the node the marshaller writes for a conforming
   object: the element's own name and namespace, xsi:type when the actual type
   differs from the declared one, the declared attributes that have a text in
   declaration order (inherited first), the children in schema order *)
Lemma marshal_obj_node : forall S xstq d anc ty fs rt,
  real_type S d ty = Some rt ->
  conforming S d (VObj ty fs) = true ->
  exists ks,
    decls_of (bound_of (ref_elem S xstq) fs) (flat_elems S rt) = Some ks /\
    marshal_elem S xstq d anc (VObj ty fs) =
    MOk [XN (elem_ns d) (e_name d)
           (xt_of xstq (declared_type S d) rt ++ flat_map (at_of fs) (flat_attrs S rt)) None ks].
Proof.
  intros S xstq d anc ty fs rt Hrt Hc.
  destruct (marshal_conforms_l S xstq (VObj ty fs) d anc Hc) as [ns [Hr Hm]].
  rewrite ref_elem_obj, Hrt in Hr.
  destruct (decls_of _ _) as [ks|]; [|discriminate].
  exists ks. split; [reflexivity|]. inversion Hr; subst. exact Hm.
Qed.

(* children come out in schema order: the names of the child nodes of an
   object node are the declared member names (inherited first), each repeated
   as many times as its value has items (zero when it has no value) *)
Lemma marshal_children_schema_order : forall S xstq d anc ty fs rt,
  real_type S d ty = Some rt ->
  conforming S d (VObj ty fs) = true ->
  exists ats ks,
    marshal_elem S xstq d anc (VObj ty fs) = MOk [XN (elem_ns d) (e_name d) ats None ks] /\
    rep_subseq (map xname ks) (map fst (fchild_names (flat_elems S rt))).
Proof.
  intros S xstq d anc ty fs rt Hrt Hc.
  destruct (marshal_obj_node S xstq d anc ty fs rt Hrt Hc) as [ks [Hd Hm]].
  eexists; exists ks. split; [exact Hm|].
  eapply decls_of_rep_subseq; exact Hd.
Qed.

(* ... and a plain subsequence of them when no member value is a list *)
Lemma marshal_children_subseq : forall S xstq d anc ty fs rt,
  real_type S d ty = Some rt ->
  conforming S d (VObj ty fs) = true ->
  (forall f l, In f fs -> snd f <> VList l) ->
  exists ats ks,
    marshal_elem S xstq d anc (VObj ty fs) = MOk [XN (elem_ns d) (e_name d) ats None ks] /\
    subseq (map xname ks) (map fst (fchild_names (flat_elems S rt))).
Proof.
  intros S xstq d anc ty fs rt Hrt Hc Hnl.
  destruct (marshal_obj_node S xstq d anc ty fs rt Hrt Hc) as [ks [Hd Hm]].
  eexists; exists ks. split; [exact Hm|].
  eapply decls_of_subseq; eauto.
Qed.

(* the whole-body statement without the extra hypothesis is false as well:
   a wrapper whose type is an optional sequence of one mandatory element *)
Lemma doc_wrapped_nested_none_counterexample :
  let d := mkE 5%N 0%N false TBuiltin false false false None in
  let S := [mkC 7%N 0%N None [PC KSeq true [PE d]] []] in
  let wrapper := mkE 9%N 0%N true (TNamed 0%N 7%N) false false false None in
  let args := [VList [VList [VNone]]] in
  args_conforming S wrapper args = true /\
  ref_doc_wrapped S false wrapper args = Some (XN 0%N 9%N [] None []) /\
  doc_wrapped_body S false wrapper args = MOk (XN 0%N 9%N [] None [XN 0%N 5%N [] None []]).
Proof. cbv. repeat split. Qed.

(* ------------------------------------------------------------------ *)
(* the extra hypothesis of 2. is necessary                             *)
(* ------------------------------------------------------------------ *)
Lemma ref_elem_anc_length S xstq : forall v d a b,
  e_opt d = false ->
  ref_elem S xstq d true v = Some a -> ref_elem S xstq d false v = Some b ->
  length a <= length b /\ (deep_none v = true -> length a < length b).
Proof.
  intros v. induction v as [|t|l IH|ty fs IH] using value_ind'; intros d a b Ho Ha Hb.
  - cbn in Ha, Hb. rewrite Ho in *. cbn in Ha, Hb. inversion Ha; inversion Hb; subst. cbn. lia.
  - cbn in Ha, Hb. inversion Ha; inversion Hb; subst. cbn. split; [lia | discriminate].
  - rewrite ref_elem_list in Ha, Hb. rewrite deep_none_list.
    revert a b Ha Hb. induction IH as [|x l Hx _ IHl]; intros a b Ha Hb.
    + cbn in *. inversion Ha; inversion Hb; subst. cbn. split; [lia | discriminate].
    + cbn [map oconcat existsb] in *.
      destruct (ref_elem S xstq d true x) as [a1|] eqn:E1; [|discriminate].
      destruct (ref_elem S xstq d false x) as [b1|] eqn:E2; [|discriminate].
      destruct (oconcat (map (ref_elem S xstq d true) l)) as [a2|]; [|discriminate].
      destruct (oconcat (map (ref_elem S xstq d false) l)) as [b2|]; [|discriminate].
      inversion Ha; inversion Hb; subst.
      destruct (Hx d a1 b1 Ho E1 E2) as [H1 H1'].
      destruct (IHl a2 b2 eq_refl eq_refl) as [H2 H2'].
      rewrite !app_length. split; [lia|].
      intros H. apply orb_true_iff in H as [H|H]; [apply H1' in H | apply H2' in H]; lia.
  - rewrite ref_elem_obj in Ha, Hb. rewrite Ha in Hb. inversion Hb; subst.
    split; [lia | discriminate].
Qed.

Lemma param_lists_ok_necessary : forall S xstq c v,
  param_conforming S c v = true ->
  param_lists_ok c v = false ->
  forall ns, ~ (ref_param S xstq c v = Some ns /\ marshal_param S xstq c v = MOk ns).
Proof.
  intros S xstq [d anc ch|a] v H Hok ns [Hr Hm]; [|discriminate].
  unfold param_conforming in H. apply andb_true_iff in H as [Hc _].
  unfold param_lists_ok in Hok.
  repeat (apply orb_false_iff in Hok as [Hok ?]).
  apply negb_false_iff in Hok, H. subst anc. rename H1 into Ho, H0 into Hn.
  destruct v as [|t|l|ty fs]; try discriminate.
  unfold ref_param, marshal_param in *. rewrite andb_false_r in *.
  change (existsb (fun x => match x with VNone => true | _ => false end) l)
    with (has_none (VList l)) in Hm.
  rewrite Hn, andb_false_r, <- marshal_elem_list in Hm.
  destruct (marshal_conforms_l S xstq (VList l) d false Hc) as [ns' [Hr' Hm']].
  rewrite Hm in Hm'. inversion Hm'; subst ns'.
  destruct (ref_elem_anc_length S xstq (VList l) d ns ns Ho Hr Hr') as [_ Hlt].
  specialize (Hlt H). lia.
Qed.

(* ------------------------------------------------------------------ *)
(* the boolean instance of the theorem that the harness evaluates      *)
(* ------------------------------------------------------------------ *)
Section XnodeInd.
Variable P : xnode -> Prop.
Hypothesis HN : forall ns nm ats t kids, Forall P kids -> P (XN ns nm ats t kids).
Fixpoint xnode_ind' (n : xnode) : P n :=
  match n with
  | XN ns nm ats t kids =>
      HN ns nm ats t kids
         ((fix go (l : list xnode) : Forall P l :=
             match l with
             | [] => Forall_nil _
             | x :: l' => Forall_cons x (xnode_ind' x) (go l')
             end) kids)
  end.
End XnodeInd.

Lemma aval_eqb_refl a : aval_eqb a a = true.
Proof. destruct a; cbn; rewrite ?N.eqb_refl; reflexivity. Qed.

Lemma attr_eqb_refl a : attr_eqb a a = true.
Proof. unfold attr_eqb. rewrite !N.eqb_refl, aval_eqb_refl. reflexivity. Qed.

Lemma attrs_eqb_refl a : attrs_eqb a a = true.
Proof.
  unfold attrs_eqb. rewrite Nat.eqb_refl. cbn [andb].
  assert (H : forallb (fun x => existsb (attr_eqb x) a) a = true).
  { apply forallb_forall. intros x Hx. apply existsb_exists. exists x.
    split; [exact Hx | apply attr_eqb_refl]. }
  rewrite H. reflexivity.
Qed.

Lemma xnode_eqb_refl : forall n, xnode_eqb n n = true.
Proof.
  induction n as [ns nm ats t kids IH] using xnode_ind'.
  cbn [xnode_eqb]. rewrite !N.eqb_refl, attrs_eqb_refl. cbn [andb].
  assert (Ht : opt_eqb N.eqb t t = true) by (destruct t; cbn; [apply N.eqb_refl | reflexivity]).
  rewrite Ht. cbn [andb].
  induction IH as [|x l Hx _ IHl]; [reflexivity|].
  rewrite Hx. cbn [andb]. exact IHl.
Qed.

Theorem wrapped_theorem_instance_holds : forall c,
  args_lists_ok (w_schema c) (w_wrapper c) (w_args c) = true ->
  wrapped_theorem_instance c = true.
Proof.
  intros c Hok. unfold wrapped_theorem_instance, wrapped_guard.
  destruct (args_conforming (w_schema c) (w_wrapper c) (w_args c)) eqn:E; [|reflexivity].
  destruct (doc_wrapped_conforms_l _ (w_xstq c) _ _ E Hok) as [body [Hr Hm]].
  rewrite Hr, Hm. cbn. apply xnode_eqb_refl.
Qed.
