From SV Require Import Lib.Base Fam.Schema C01.Marshal C01.Guard C01.MarshalProofs C01.Styles.

(* for bare parts anc = false, so the list side-condition holds trivially *)
Lemma bare_conforms_l : forall S xstq parts args,
  Nat.eqb (length parts) (length args) = true ->
  forallb (fun pa => param_conforming S (FE (fst pa) false false) (snd pa)) (combine parts args) = true ->
  exists ns, ref_doc_bare S xstq parts args = Some ns /\ doc_bare_body S xstq parts args = MOk ns.
Proof.
  intros S xstq parts args Hl Hp. unfold ref_doc_bare, doc_bare_body. rewrite Hl. cbn [negb].
  apply (concat_agree
           (fun pa => ref_param S xstq (FE (fst pa) false false) (snd pa))
           (fun pa => marshal_param S xstq (FE (fst pa) false false) (snd pa))).
  rewrite forallb_forall in Hp. apply Forall_forall. intros pa Hin.
  apply marshal_param_conforms_l; [apply Hp; exact Hin | reflexivity].
Qed.

Lemma rpc_conforms_l : forall S xstq bodyns method parts args,
  Nat.eqb (length parts) (length args) = true ->
  forallb (fun pa => conforming S (fst pa) (snd pa)) (combine parts args) = true ->
  exists body, ref_rpc S xstq bodyns method parts args = Some body /\
               rpc_body S xstq bodyns method parts args = MOk body.
Proof.
  intros S xstq bodyns method parts args Hl Hp. unfold ref_rpc, rpc_body. rewrite Hl. cbn [negb].
  destruct (concat_agree
              (fun pa => ref_elem S xstq (fst pa) false (snd pa))
              (fun pa => marshal_elem S xstq (fst pa) false (snd pa))
              (combine parts args)) as [kids [Hr Hm]].
  - rewrite forallb_forall in Hp. apply Forall_forall. intros pa Hin.
    apply marshal_conforms_l. apply Hp. exact Hin.
  - rewrite Hr, Hm. eexists; split; reflexivity.
Qed.
