(* C01 -- the request as a whole: Binding.get_message assembling
   <Envelope><Header>typed header entries</Header><Body>body</Body></Envelope>
   for a document/literal wrapped operation whose binding declares soap:header
   parts (Binding.headercontent / mkheader / header / body / envelope).
   The prefix fix-up that follows (normalizePrefixes + promotePrefixes, or
   refitPrefixes) must not change the namespace infoset (that is C05's
   theorem); here the infoset an independent parser reads from the bytes sent
   is compared with this model and with the reference.  Definitions only. *)
From SV Require Import Lib.Base Fam.Schema C01.Marshal C01.Guard C01.Styles.

(* the three SOAP names, interned by the harness for each case *)
Record soapnames := mkSN { sn_envelope : name; sn_header : name; sn_body : name }.

Section Request.
Variable S : schema.
Variable xstq : bool.

(* Binding.headercontent over the header parts the binding declares (each a
   global element: qualified, required).
   dict = true : options.soapheaders is a dict keyed by element name; hvs has
                 one value per declared part, VNone = no entry: passed over;
   dict = false: a tuple: the i-th value goes to the i-th declared part,
                 surplus values are dropped; a None there is marshalled. *)
Definition header_nodes (dict : bool) (hs : list edecl) (hvs : list value) : mres (list xnode) :=
  mconcat (map (fun hv => if dict && is_none (snd hv) then MOk []
                          else marshal_elem S xstq (fst hv) false (snd hv))
               (combine hs hvs)).

Definition envelope_of (sn : soapnames) (hdr : list xnode) (body : list xnode) : xnode :=
  XN ns_env (sn_envelope sn) [] None
     [XN ns_env (sn_header sn) [] None hdr; XN ns_env (sn_body sn) [] None body].

(* get_message: header content first, then the body *)
Definition request_env (sn : soapnames) (dict : bool) (hs : list edecl) (hvs : list value)
           (wrapper : edecl) (args : list value) : mres xnode :=
  mbind (header_nodes dict hs hvs) (fun hn =>
  mbind (doc_wrapped_body S xstq wrapper args) (fun b =>
  MOk (envelope_of sn hn [b]))).

(* reference: SOAP 1.1 section 4 (Envelope = optional Header, then Body, all in
   the envelope namespace); WSDL 1.1 section 3.7 (a soap:header part is
   the global element its message part names); a header without a value is
   not sent *)
Definition ref_headers (hs : list edecl) (hvs : list value) : option (list xnode) :=
  oconcat (map (fun hv => if is_none (snd hv) then Some []
                          else ref_elem S xstq (fst hv) false (snd hv))
               (combine hs hvs)).

Definition ref_request (sn : soapnames) (hs : list edecl) (hvs : list value)
           (wrapper : edecl) (args : list value) : option xnode :=
  match ref_headers hs hvs, ref_doc_wrapped S xstq wrapper args with
  | Some hn, Some b => Some (envelope_of sn hn [b])
  | _, _ => None
  end.

(* header values that fit: conforming, a single value (mkheader maps a list
   to a list, which headercontent cannot use), and no None inside a tuple *)
Definition header_conforming (dict : bool) (d : edecl) (v : value) : bool :=
  conforming S d v &&
  match v with VList _ => false | VNone => dict | _ => true end.

Definition headers_conforming (dict : bool) (hs : list edecl) (hvs : list value) : bool :=
  forallb (fun hv => header_conforming dict (fst hv) (snd hv)) (combine hs hvs).

End Request.

(* one generated request with typed headers, as read by the independent parser *)
Record qcase := mkQ {
  q_schema : schema;
  q_xstq : bool;
  q_names : soapnames;
  q_dict : bool;
  q_hdecls : list edecl;
  q_hvals : list value;
  q_wrapper : edecl;
  q_args : list value;
  q_impl : impl_res
}.

Definition request_agrees (c : qcase) : bool :=
  match request_env (q_schema c) (q_xstq c) (q_names c) (q_dict c) (q_hdecls c) (q_hvals c)
                    (q_wrapper c) (q_args c), q_impl c with
  | MOk x, IOk y => xnode_eqb x y
  | MTypeNotFound, ITypeNotFound => true
  | MError, IOther => true
  | _, _ => false
  end.

Definition request_spec_ok (c : qcase) : bool :=
  match ref_request (q_schema c) (q_xstq c) (q_names c) (q_hdecls c) (q_hvals c)
                    (q_wrapper c) (q_args c), q_impl c with
  | Some x, IOk y => xnode_eqb x y
  | _, _ => false
  end.

Definition request_guard (c : qcase) : bool :=
  headers_conforming (q_schema c) (q_dict c) (q_hdecls c) (q_hvals c) &&
  args_conforming (q_schema c) (q_wrapper c) (q_args c).
