(* C01 — model of the literal marshaller (suds.mx.literal.Typed + appenders +
   resolver.GraphResolver + sudsobject.Iter + bindings.document/rpc body
   construction) over the abstract interface of Fam/Schema.v, producing the
   namespace infoset of the request body; and the reference translator
   written from the WSDL/XSD rules.  Definitions only. *)
From SV Require Import Lib.Base Fam.Schema.

(* ------------------------------------------------------------------ *)
(* the flattened view of a type (sxbase.Iter over the merged children) *)
(* ------------------------------------------------------------------ *)
Inductive fchild :=
| FE (d : edecl) (anc_opt : bool) (in_choice : bool)
| FAny (anc_opt : bool).

Fixpoint flat_p (anc ch : bool) (p : particle) : list fchild :=
  match p with
  | PE d => [FE d anc ch]
  | PAny => [FAny anc]
  | PC k opt kids =>
      (fix go (l : list particle) : list fchild :=
         match l with
         | [] => []
         | q :: l' => flat_p (anc || opt) (ch || match k with KChoice => true | _ => false end) q ++ go l'
         end) kids
  end.

Definition flat_content (ps : list particle) : list fchild := flat_map (flat_p false false) ps.

(* base chain, most basic first (Extension.merge prepends the base's children);
   fuel = number of types + 1 *)
Fixpoint chain (S : schema) (fuel : nat) (t : ctype) : list ctype :=
  match fuel with
  | O => [t]
  | Datatypes.S f =>
      match c_base t with
      | Some b => match find_type S b with
                  | Some bt => chain S f bt ++ [t]
                  | None => [t]
                  end
      | None => [t]
      end
  end.

Definition chain_of (S : schema) (t : ctype) : list ctype := chain S (length S) t.

(* Iter order of one chain member: content first, then attributes; so the
   whole type is: base elems, base attrs, own elems, own attrs *)
Definition flat_elems (S : schema) (t : ctype) : list fchild :=
  flat_map (fun c => flat_content (c_content c)) (chain_of S t).
Definition flat_attrs (S : schema) (t : ctype) : list adecl :=
  flat_map c_attrs (chain_of S t).

(* Typed.ordering: names in Iter order; attributes interleaved per chain member;
   wildcards (name None) skipped. (name, is_attr) *)
Definition fchild_names (l : list fchild) : list (name * bool) :=
  flat_map (fun c => match c with FE d _ _ => [(e_name d, false)] | FAny _ => [] end) l.
Definition ordering (S : schema) (t : ctype) : list (name * bool) :=
  flat_map (fun c => fchild_names (flat_content (c_content c)) ++
                     map (fun a => (a_name a, true)) (c_attrs c)) (chain_of S t).

Definition key_eqb (a b : name * bool) : bool := N.eqb (fst a) (fst b) && Bool.eqb (snd a) (snd b).
Definition key_in (k : name * bool) (l : list (name * bool)) : bool := existsb (key_eqb k) l.

Definition field := (name * bool * value)%type.
Definition field_key (f : field) : name * bool := fst f.

(* first field with that key = getattr(object, k) (keys of an Object are unique) *)
Definition lookup_field (k : name * bool) (fs : list field) : option value :=
  match find (fun f => key_eqb (field_key f) k) fs with
  | Some f => Some (snd f)
  | None => None
  end.

(* keyed association lists: first entry with that key *)
Definition lookup_key {A} (k : name * bool) (l : list (name * bool * A)) : option A :=
  match find (fun f => key_eqb (fst f) k) l with
  | Some f => Some (snd f)
  | None => None
  end.

(* sudsobject.Iter: the schema ordering if it is a superset of the object's
   keys (then every ordering entry the object has, duplicates included),
   otherwise the insertion order.  Generic in what is attached to a key. *)
Definition iter_keyed {A} (ord : list (name * bool)) (l : list (name * bool * A)) : list (name * bool * A) :=
  if forallb (fun f => key_in (fst f) ord) l
  then flat_map (fun k => match lookup_key k l with Some v => [(k, v)] | None => [] end) ord
  else l.

(* SchemaObject.get_child: first non-attribute child that is a wildcard or has the name *)
Fixpoint get_child (n : name) (l : list fchild) : option fchild :=
  match l with
  | [] => None
  | c :: l' =>
      match c with
      | FAny _ => Some c
      | FE d _ _ => if N.eqb (e_name d) n then Some c else get_child n l'
      end
  end.

Fixpoint get_attribute (n : name) (l : list adecl) : option adecl :=
  match l with
  | [] => None
  | a :: l' => if N.eqb (a_name a) n then Some a else get_attribute n l'
  end.

(* ------------------------------------------------------------------ *)
(* node construction                                                   *)
(* ------------------------------------------------------------------ *)
Definition has_base (t : ctype) : bool := match c_base t with Some _ => true | None => false end.
Definition ctype_eqb (a b : ctype) : bool := qn_eqb (c_ns a, c_name a) (c_ns b, c_name b).

(* Typed.node + Typed.encode *)
Definition elem_ns (d : edecl) : nsid := if e_qual d then e_ns d else 0%N.

Definition xsi_type_attr (xstq : bool) (declared : option ctype) (real : ctype)
  : list (nsid * name * aval) :=
  if has_base real && negb (match declared with Some dt => ctype_eqb dt real | None => false end)
  then [(ns_xsi, n_type, AQName (if xstq then c_ns real else 0%N) (c_name real))]
  else [].

Definition nil_attr : nsid * name * aval := (ns_xsi, n_nil, AText t_true).

Definition declared_type (S : schema) (d : edecl) : option ctype :=
  match e_type d with TNamed ns n => find_type S (ns, n) | TBuiltin => None end.

(* results as lists of nodes; error propagation *)
Definition mbind {A B} (r : mres A) (f : A -> mres B) : mres B :=
  match r with MOk a => f a | MTypeNotFound => MTypeNotFound | MError => MError end.

Fixpoint mconcat {A} (l : list (mres (list A))) : mres (list A) :=
  match l with
  | [] => MOk []
  | r :: l' => mbind r (fun a => mbind (mconcat l') (fun b => MOk (a ++ b)))
  end.

(* what an object contributes to its node: attributes set on it, child nodes *)
Definition contrib := (list (nsid * name * aval) * list xnode)%type.

Section Marshal.
Variable S : schema.
Variable xstq : bool.

(* Core.append for one (declaration, value): start/skip, appender dispatch, end *)
Fixpoint marshal_elem (d : edecl) (anc : bool) (v : value) {struct v} : mres (list xnode) :=
  let optional := e_opt d || anc in
  match v with
  | VNone =>
      if optional then MOk []
      else MOk [XN (elem_ns d) (e_name d)
                  (match e_default d with
                   | Some _ => []
                   | None => if e_nil d then [nil_attr] else []
                   end)
                  (e_default d) []]
  | VText t => MOk [XN (elem_ns d) (e_name d) [] (Some t) []]
  | VList l =>
      (* optional + empty -> skipped; non-optional + empty -> ListAppender adds nothing *)
      (fix items (l : list value) : mres (list xnode) :=
         match l with
         | [] => MOk []
         | x :: l' => mbind (marshal_elem d anc x) (fun a => mbind (items l') (fun b => MOk (a ++ b)))
         end) l
  | VObj ty fs =>
      let declared := declared_type S d in
      let real := match ty with
                  | Some q => find_type S q
                  | None => declared
                  end in
      match real with
      | None => MError
      | Some rt =>
          let elems := flat_elems S rt in
          let attrs := flat_attrs S rt in
          (* what each field contributes, computed field by field ... *)
          let per_field :=
            (fix per_field (fs : list field) : list (name * bool * mres contrib) :=
               match fs with
               | [] => []
               | (k, isattr, x) :: fs' =>
                   (k, isattr,
                     if isattr then
                       match get_attribute k attrs with
                       | None => MTypeNotFound
                       | Some a =>
                           match x with
                           | VNone => if a_req a then MError else MOk ([], [])
                           | VText t => MOk ([(0%N, k, AText t)], [])
                           | VList [] => MOk ([], [])
                           | _ => MError
                           end
                       end
                     else
                       match get_child k elems with
                       | None => MTypeNotFound
                       | Some (FAny _) => MError
                       | Some (FE d' anc' _) => mbind (marshal_elem d' anc' x) (fun ns => MOk ([], ns))
                       end) :: per_field fs'
               end) fs in
          (* ... and appended in the order the object is iterated *)
          let collect :=
            fold_right (fun (kc : name * bool * mres contrib) (acc : mres contrib) =>
                          mbind (snd kc) (fun c => mbind acc (fun c' =>
                            MOk (fst c ++ fst c', snd c ++ snd c'))))
                       (MOk ([], [])) in
          mbind (collect (iter_keyed (ordering S rt) per_field))
                (fun c => MOk [XN (elem_ns d) (e_name d)
                                  (xsi_type_attr xstq declared rt ++ fst c) None (snd c)])
      end
  end.

(* Document.bodycontent.add_param + Document.mkparam for one parameter.
   Binding.mkparam builds the Content with the parameter's type but WITHOUT
   its ancestry (Frame(content.type) has ancestry ()), so an optional
   container above a top-level parameter does not make it skippable; only the
   argument parser's "in a choice" flag is used. *)
Definition marshal_param (c : fchild) (v : value) : mres (list xnode) :=
  match c with
  | FAny _ => MError
  | FE d _ ch =>
      if ch && match v with VNone => true | _ => false end then MOk []
      else match v with
           | VList l =>
               (* Document.mkparam maps every item; an item that is skipped
                  (None for an optional member) comes back as None and
                  Element.append rejects it with an exception *)
               if e_opt d && existsb (fun x => match x with VNone => true | _ => false end) l
               then MError
               else mconcat (map (marshal_elem d false) l)
           | _ => marshal_elem d false v
           end
  end.

(* document/literal wrapped: the wrapper element and one argument per child
   element of its type; args = value per parameter, in parameter order *)
Definition doc_wrapped_body (wrapper : edecl) (args : list value) : mres xnode :=
  match declared_type S wrapper with
  | None => MError
  | Some wt =>
      let params := flat_elems S wt in
      if negb (Nat.eqb (length params) (length args)) then MError else
      mbind (mconcat (map (fun pa => marshal_param (fst pa) (snd pa)) (combine params args)))
            (fun kids => MOk (XN (e_ns wrapper) (e_name wrapper) [] None kids))
  end.

End Marshal.

(* ------------------------------------------------------------------ *)
(* the reference translator (from the XSD / WSDL rules, not the code)  *)
(* ------------------------------------------------------------------ *)
Section Reference.
Variable S : schema.
Variable xstq : bool.

(* is type a a proper derivation (by extension) of b ? *)
Definition derives (a b : ctype) : bool :=
  negb (ctype_eqb a b) && existsb (ctype_eqb b) (chain_of S a).

(* the element for one value, by the rules in the statement of C01 *)
Fixpoint ref_elem (d : edecl) (anc : bool) (v : value) {struct v} : option (list xnode) :=
  let ns := if e_qual d then e_ns d else 0%N in
  match v with
  | VNone =>
      (* absent optional values omitted; otherwise default, xsi:nil for nillable, or empty *)
      if e_opt d || anc then Some []
      else Some [XN ns (e_name d)
                   (match e_default d with Some _ => [] | None => if e_nil d then [nil_attr] else [] end)
                   (e_default d) []]
  | VText t => Some [XN ns (e_name d) [] (Some t) []]
  | VList l =>
      (* one element per item, in order *)
      (fix items (l : list value) : option (list xnode) :=
         match l with
         | [] => Some []
         | x :: l' => match ref_elem d anc x, items l' with
                      | Some a, Some b => Some (a ++ b)
                      | _, _ => None
                      end
         end) l
  | VObj ty fs =>
      let declared := declared_type S d in
      let real := match ty with Some q => find_type S q | None => declared end in
      match real with
      | None => None
      | Some rt =>
          (* xsi:type names the actual type when it differs from the declared one *)
          let xt := match declared with
                    | Some dt => if negb (ctype_eqb dt rt) && has_base rt
                                 then [(ns_xsi, n_type, AQName (if xstq then c_ns rt else 0%N) (c_name rt))] else []
                    | None => if has_base rt
                              then [(ns_xsi, n_type, AQName (if xstq then c_ns rt else 0%N) (c_name rt))] else []
                    end in
          (* attributes on their owner: every declared attribute (inherited first) that has a value *)
          let ats := flat_map (fun a => match lookup_field (a_name a, true) fs with
                                        | Some (VText t) => [(0%N, a_name a, AText t)]
                                        | _ => []
                                        end) (flat_attrs S rt) in
          (* the value bound to each member name, as "how it is written once its
             declaration is known" *)
          let bound :=
            (fix bound (fs : list field) : list (name * bool * (edecl -> bool -> option (list xnode))) :=
               match fs with
               | [] => []
               | (k, isattr, x) :: fs' => (k, isattr, fun d' anc' => ref_elem d' anc' x) :: bound fs'
               end) fs in
          (* children in schema order (inherited members first): every declared
             element that has a value *)
          let kids :=
            (fix decls (l : list fchild) : option (list xnode) :=
               match l with
               | [] => Some []
               | FAny _ :: l' => decls l'
               | FE d' anc' _ :: l' =>
                   match (match lookup_key (e_name d', false) bound with
                          | Some w => w d' anc'
                          | None => Some []
                          end), decls l' with
                   | Some a, Some b => Some (a ++ b)
                   | _, _ => None
                   end
               end) (flat_elems S rt) in
          match kids with
          | Some ks => Some [XN ns (e_name d) (xt ++ ats) None ks]
          | None => None
          end
      end
  end.

End Reference.

(* ------------------------------------------------------------------ *)
(* whole request bodies and the predicates the harness evaluates        *)
(* ------------------------------------------------------------------ *)
Definition ref_param (S : schema) (xstq : bool) (c : fchild) (v : value) : option (list xnode) :=
  match c with
  | FAny _ => None
  | FE d anc ch =>
      (* a branch of a choice that got no value is simply not chosen *)
      if ch && match v with VNone => true | _ => false end then Some []
      else ref_elem S xstq d anc v
  end.

Fixpoint oconcat {A} (l : list (option (list A))) : option (list A) :=
  match l with
  | [] => Some []
  | Some a :: l' => match oconcat l' with Some b => Some (a ++ b) | None => None end
  | None :: _ => None
  end.

(* document/literal wrapped: the wrapper element named by the message part,
   in its namespace; one child per argument, in parameter (= schema) order *)
Definition ref_doc_wrapped (S : schema) (xstq : bool) (wrapper : edecl) (args : list value) : option xnode :=
  match declared_type S wrapper with
  | None => None
  | Some wt =>
      let params := flat_elems S wt in
      if negb (Nat.eqb (length params) (length args)) then None else
      match oconcat (map (fun pa => ref_param S xstq (fst pa) (snd pa)) (combine params args)) with
      | Some kids => Some (XN (e_ns wrapper) (e_name wrapper) [] None kids)
      | None => None
      end
  end.

Inductive impl_res := IOk (body : xnode) | ITypeNotFound | IOther.

Record wcase := mkW {
  w_schema : schema;
  w_xstq : bool;
  w_wrapper : edecl;
  w_args : list value;
  w_impl : impl_res
}.

Definition wrapped_agrees (c : wcase) : bool :=
  match doc_wrapped_body (w_schema c) (w_xstq c) (w_wrapper c) (w_args c), w_impl c with
  | MOk x, IOk y => xnode_eqb x y
  | MTypeNotFound, ITypeNotFound => true
  | MError, IOther => true
  | _, _ => false
  end.

Definition wrapped_spec_ok (c : wcase) : bool :=
  match ref_doc_wrapped (w_schema c) (w_xstq c) (w_wrapper c) (w_args c), w_impl c with
  | Some x, IOk y => xnode_eqb x y
  | _, _ => false
  end.
