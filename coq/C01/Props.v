(* C01 — Requests conform to the WSDL and schema they were built from.
   Property theorems only (model: C01/Marshal.v, C01/Styles.v; guard:
   C01/Guard.v; proofs: C01/MarshalProofs.v, C01/StylesProofs.v).

   Full statement (kept visible): for EVERY schema, declaration and value that
   fits it, the request the marshaller builds is the one the reference
   translator prescribes.  It is proved below for every value `conforming`
   accepts — objects whose keys are declared by their (possibly derived) type,
   with distinct member names and no wildcard.  Outside that guard the
   unchanged code departs from the reference in known ways, each witnessed:
   a wildcard before a named member captures the lookup
   (wildcard_shortcut_refuted) and keys outside the content model raise
   TypeNotFound (undeclared_key_refuted). *)
From SV Require Import Lib.Base Fam.Schema C01.Marshal C01.Guard C01.MarshalProofs C01.Styles C01.StylesProofs.
From SV Require Import C01.OptionalProofs C01.Request C01.RequestProofs C01.Leaves.
From SV Require Import C06.Floats.

(* 1. element level: unbounded nesting depth, width and list length *)
Theorem marshal_conforms : forall S xstq v d anc,
  conforming S d v = true ->
  exists ns, ref_elem S xstq d anc v = Some ns /\ marshal_elem S xstq d anc v = MOk ns.
Proof. exact marshal_conforms_l. Qed.
Print Assumptions marshal_conforms.

(* 2. whole bodies, for each binding style *)
Theorem doc_wrapped_conforms : forall S xstq wrapper args,
  args_conforming S wrapper args = true ->
  args_lists_ok S wrapper args = true ->
  exists body, ref_doc_wrapped S xstq wrapper args = Some body /\
               doc_wrapped_body S xstq wrapper args = MOk body.
Proof. exact doc_wrapped_conforms_l. Qed.
Print Assumptions doc_wrapped_conforms.

Theorem doc_bare_conforms : forall S xstq parts args,
  Nat.eqb (length parts) (length args) = true ->
  forallb (fun pa => param_conforming S (FE (fst pa) false false) (snd pa)) (combine parts args) = true ->
  exists ns, ref_doc_bare S xstq parts args = Some ns /\ doc_bare_body S xstq parts args = MOk ns.
Proof. exact bare_conforms_l. Qed.
Print Assumptions doc_bare_conforms.

Theorem rpc_conforms : forall S xstq bodyns method parts args,
  Nat.eqb (length parts) (length args) = true ->
  forallb (fun pa => conforming S (fst pa) (snd pa)) (combine parts args) = true ->
  exists body, ref_rpc S xstq bodyns method parts args = Some body /\
               rpc_body S xstq bodyns method parts args = MOk body.
Proof. exact rpc_conforms_l. Qed.
Print Assumptions rpc_conforms.

(* 2b. the request as a whole: Envelope / Header with the typed header entries the
   binding declares (soap:header) / Body with the wrapper *)
Theorem request_conforms : forall S xstq sn dict hs hvs wrapper args,
  headers_conforming S dict hs hvs = true ->
  args_conforming S wrapper args = true ->
  args_lists_ok S wrapper args = true ->
  exists env, ref_request S xstq sn hs hvs wrapper args = Some env /\
              request_env S xstq sn dict hs hvs wrapper args = MOk env.
Proof. exact request_conforms_l. Qed.
Print Assumptions request_conforms.

Theorem request_body_independent_of_headers : forall S xstq sn d1 d2 hs1 hvs1 hs2 hvs2 wrapper args e1 e2,
  request_env S xstq sn d1 hs1 hvs1 wrapper args = MOk e1 ->
  request_env S xstq sn d2 hs2 hvs2 wrapper args = MOk e2 ->
  match e1, e2 with
  | XN _ _ _ _ [_; b1], XN _ _ _ _ [_; b2] => b1 = b2
  | _, _ => False
  end.
Proof. exact body_independent_of_headers_l. Qed.
Print Assumptions request_body_independent_of_headers.

(* 2c. absent optional values: a minOccurs=0 container (sequence/choice/all or
   group reference) makes every member below it, at any depth of nested
   containers and whatever the member's own minOccurs, an optional value that
   is omitted when None; a required member outside such a container is not *)
Theorem optional_container_reaches_every_member : forall k kids anc ch c,
  In c (flat_p anc ch (PC k true kids)) -> fchild_anc c = true.
Proof. exact optional_container_reaches_every_member_l. Qed.
Print Assumptions optional_container_reaches_every_member.

Theorem members_of_optional_container_omitted : forall S xstq k kids anc ch d a c,
  In (FE d a c) (flat_p anc ch (PC k true kids)) ->
  marshal_elem S xstq d a VNone = MOk [] /\ ref_elem S xstq d a VNone = Some [].
Proof. exact members_of_optional_container_omitted_l. Qed.
Print Assumptions members_of_optional_container_omitted.

Theorem required_member_not_omitted : forall S xstq d,
  e_opt d = false -> exists n, marshal_elem S xstq d false VNone = MOk [n].
Proof. exact required_member_not_omitted_l. Qed.
Print Assumptions required_member_not_omitted.

(* 2d. KNOWN DEFECT C01:toplevel-param-in-optional-container-sent-empty.  The full
   statement "doc_wrapped_body = ref_doc_wrapped for every argument list" is
   FALSE of the unchanged code: Binding.mkparam gives a top-level parameter no
   ancestry, so a parameter inside an optional container of the wrapper type
   that is left None is written as an empty element where the reference omits
   it.  doc_wrapped_conforms above is the guarded form; the guard
   (param_conforming) rejects a None argument exactly when it is of that class. *)
Theorem toplevel_optional_param_refuted : exists S xstq wrapper args b1 b2,
  args_conforming S wrapper args = false /\
  has_toplevel_quirk S wrapper args = true /\
  ref_doc_wrapped S xstq wrapper args = Some b1 /\
  doc_wrapped_body S xstq wrapper args = MOk b2 /\
  xnode_eqb b1 b2 = false /\
  ref_doc_wrapped_q S xstq wrapper args = Some b2.
Proof.
  exists [ mkC 10 1 None [PC KSeq false [PE (mkE 20 1 true TBuiltin false false false None);
                                          PC KSeq true [PE (mkE 21 1 true TBuiltin false false false None);
                                                        PE (mkE 22 1 true TBuiltin false false true None)];
                                          PE (mkE 24 1 true TBuiltin false false false None)]] [] ]%N,
         true, (mkE 40 1 true (TNamed 1 10) false false false None)%N,
         [VText 50; VNone; VNone; VText 51]%N.
  eexists. eexists. vm_compute. repeat split.
Qed.
Print Assumptions toplevel_optional_param_refuted.

Theorem guard_excludes_exactly_toplevel_quirk : forall S d anc ch,
  (toplevel_quirk (FE d anc ch) VNone = true <-> param_conforming S (FE d anc ch) VNone = false) /\
  (forall v, toplevel_quirk (FE d anc ch) v = true -> param_conforming S (FE d anc ch) v = false).
Proof.
  intros S d anc ch. split; [split|].
  - apply toplevel_quirk_outside_guard_l.
  - apply none_outside_guard_is_quirk_l.
  - intros v. apply toplevel_quirk_outside_guard_l.
Qed.
Print Assumptions guard_excludes_exactly_toplevel_quirk.

Theorem toplevel_quirk_differs : forall S xstq d,
  e_opt d = false ->
  ref_param S xstq (FE d true false) VNone = Some [] /\
  exists n, marshal_param S xstq (FE d true false) VNone = MOk [n].
Proof. exact toplevel_quirk_differs_l. Qed.
Print Assumptions toplevel_quirk_differs.

(* 2e. leaves of type xsd:float / xsd:double: the texts the reference expects for
   the non-finite values are C06's lexical forms INF, -INF, NaN (pairwise
   distinct, inside the lexical space of xsd:double); Python's spellings are not *)
Theorem nonfinite_lexical_in_double_space : forall k, lex_double (nonfinite_lexical k) = true.
Proof. exact nonfinite_lexical_in_double_space_l. Qed.
Print Assumptions nonfinite_lexical_in_double_space.

Theorem nonfinite_lexical_injective : forall a b, nonfinite_lexical a = nonfinite_lexical b -> a = b.
Proof. exact nonfinite_lexical_injective_l. Qed.
Print Assumptions nonfinite_lexical_injective.

Theorem python_spellings_refuted :
  lex_double [110; 97; 110]%N = false /\ lex_double [105; 110; 102]%N = false /\
  lex_double [45; 105; 110; 102]%N = false.
Proof. exact python_spellings_refuted_l. Qed.
Print Assumptions python_spellings_refuted.

(* 3. shape: children in schema order (inherited members first), each declared
   name repeated once per list item; attributes on their owner; xsi:type *)
Theorem children_in_schema_order : forall S xstq d anc ty fs rt,
  real_type S d ty = Some rt ->
  conforming S d (VObj ty fs) = true ->
  exists ats ks,
    marshal_elem S xstq d anc (VObj ty fs) = MOk [XN (elem_ns d) (e_name d) ats None ks] /\
    rep_subseq (map xname ks) (map fst (fchild_names (flat_elems S rt))).
Proof. exact marshal_children_schema_order. Qed.
Print Assumptions children_in_schema_order.

Theorem object_node_shape : forall S xstq d anc ty fs rt,
  real_type S d ty = Some rt ->
  conforming S d (VObj ty fs) = true ->
  exists ks,
    decls_of (bound_of (ref_elem S xstq) fs) (flat_elems S rt) = Some ks /\
    marshal_elem S xstq d anc (VObj ty fs) =
    MOk [XN (elem_ns d) (e_name d)
           (xt_of xstq (declared_type S d) rt ++ flat_map (at_of fs) (flat_attrs S rt)) None ks].
Proof. exact marshal_obj_node. Qed.
Print Assumptions object_node_shape.

Theorem nodes_named_and_qualified_by_declaration : forall S xstq v d anc ns,
  marshal_elem S xstq d anc v = MOk ns -> conforming S d v = true ->
  Forall (fun n => xname n = e_name d /\ xnsid n = elem_ns d) ns.
Proof. intros S xstq v d anc ns H Hc. exact (marshal_elem_names S xstq v d anc ns Hc H). Qed.
Print Assumptions nodes_named_and_qualified_by_declaration.

(* the side condition on nested lists is necessary, not an artefact *)
Theorem list_side_condition_necessary : forall S xstq c v,
  param_conforming S c v = true -> param_lists_ok c v = false ->
  forall ns, ~ (ref_param S xstq c v = Some ns /\ marshal_param S xstq c v = MOk ns).
Proof. exact param_lists_ok_necessary. Qed.
Print Assumptions list_side_condition_necessary.

(* the boolean instance the harness evaluates on every generated case *)
Theorem theorem_instance_holds : forall c,
  args_lists_ok (w_schema c) (w_wrapper c) (w_args c) = true -> wrapped_theorem_instance c = true.
Proof. exact wrapped_theorem_instance_holds. Qed.
Print Assumptions theorem_instance_holds.

(* ---- non-vacuity: a schema with an extension chain, a choice, attributes;
   a derived-type object with a list member and an attribute conforms ---- *)
Local Open Scope N_scope.
Definition ex_schema : schema :=
  [ mkC 10 1 None [PC KSeq false [PE (mkE 20 1 true TBuiltin false true false None);
                                    PC KChoice true [PE (mkE 21 1 false TBuiltin false false true None);
                                                     PE (mkE 22 1 true TBuiltin true false false None)]]]
        [mkA 30 false None];
    mkC 11 2 (Some (1, 10)%N) [PC KSeq false [PE (mkE 23 2 true (TNamed 1 10) true false false None)]]
        [mkA 31 true None] ]%N.
Definition ex_decl : edecl := mkE 40 1 true (TNamed 1 10) false false false None.
Definition ex_value : value :=
  VObj (Some (2, 11)%N) [ (31, true, VText 50); (23, false, VObj None [(20, false, VList [VText 51])]);
                           (20, false, VList [VText 52; VText 53]); (30, true, VText 54) ]%N.
Example conforming_nonvacuous : conforming ex_schema ex_decl ex_value = true.
Proof. reflexivity. Qed.
Example conforming_nonvacuous_output :
  marshal_elem ex_schema true ex_decl false ex_value =
  MOk [XN 1 40 [(ns_xsi, n_type, AQName 2 11); (0, 30, AText 54); (0, 31, AText 50)] None
         [XN 1 20 [] (Some 52) []; XN 1 20 [] (Some 53) []; XN 2 23 [] None [XN 1 20 [] (Some 51) []]]]%N.
Proof. reflexivity. Qed.

(* an optional sequence two containers deep around required members: None -> omitted *)
Definition ex_schema_opt : schema :=
  [ mkC 10 1 None [PC KSeq false [PE (mkE 20 1 true TBuiltin false false false None);
                                    PC KSeq true [PC KChoice false
                                                    [PE (mkE 21 1 true TBuiltin false false false None);
                                                     PE (mkE 22 1 true TBuiltin false false false None)];
                                                  PE (mkE 23 1 true TBuiltin false false false None)];
                                    PE (mkE 24 1 true TBuiltin false false false None)]] [] ]%N.
Example optional_container_nonvacuous :
  marshal_elem ex_schema_opt true (mkE 40 1 true (TNamed 1 10) false false false None)%N false
    (VObj None [(20, false, VText 50); (21, false, VNone); (22, false, VNone); (23, false, VNone);
                (24, false, VText 51)])%N =
  MOk [XN 1 40 [] None [XN 1 20 [] (Some 50) []; XN 1 24 [] (Some 51) []]]%N.
Proof. reflexivity. Qed.

(* a request with one typed header entry given through a dict *)
Example request_nonvacuous :
  let sn := mkSN 60 61 62 in
  let h := global_elem 41 1 (TNamed 1 10) in
  let w := (mkE 40 1 true (TNamed 1 10) false false false None)%N in
  let hv := (VObj None [(20, false, VText 52); (24, false, VText 53)])%N in
  let args := [VText 50; VNone; VNone; VNone; VText 51]%N in
  headers_conforming ex_schema_opt true [h] [hv] = true /\
  args_conforming ex_schema_opt w args = false /\
  request_env ex_schema_opt true sn true [h] [hv] (mkE 40 1 true (TNamed 1 10) false false false None)%N
              [VText 50; VText 54; VNone; VText 55; VText 51]%N =
  MOk (XN ns_env 60 [] None
         [XN ns_env 61 [] None [XN 1 41 [] None [XN 1 20 [] (Some 52) []; XN 1 24 [] (Some 53) []]];
          XN ns_env 62 [] None [XN 1 40 [] None [XN 1 20 [] (Some 50) []; XN 1 21 [] (Some 54) [];
                                                  XN 1 23 [] (Some 55) []; XN 1 24 [] (Some 51) []]]])%N.
Proof. cbv. repeat split. Qed.

(* ---- the guard is needed: quirks of the unchanged code outside it ---- *)
(* a wildcard declared before a named member answers every lookup *)
Theorem wildcard_shortcut_refuted : exists S d v xstq,
  ref_elem S xstq d false v <> None /\
  marshal_elem S xstq d false v = MError.
Proof.
  exists [mkC 10 1 None [PC KSeq false [PAny; PE (mkE 20 1 true TBuiltin false false false None)]] []]%N,
         (mkE 40 1 true (TNamed 1 10) false false false None)%N,
         (VObj None [(20, false, VText 50)])%N, true.
  split; [discriminate | reflexivity].
Qed.
Print Assumptions wildcard_shortcut_refuted.

(* a key the type does not declare is not a conforming value: the marshaller
   raises TypeNotFound for it (and the object is iterated in insertion order) *)
Theorem undeclared_key_refuted : exists S d v,
  marshal_elem S true d false v = MTypeNotFound /\ conforming S d v = false.
Proof.
  exists [mkC 10 1 None [PC KSeq false [PE (mkE 20 1 true TBuiltin false false false None)]] []]%N,
         (mkE 40 1 true (TNamed 1 10) false false false None)%N,
         (VObj None [(99, false, VText 50); (20, false, VText 51)])%N.
  split; reflexivity.
Qed.
Print Assumptions undeclared_key_refuted.
