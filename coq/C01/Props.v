(* C01 — Requests conform to the WSDL and schema they were built from.
   Property theorems only (model: C01/Marshal.v, C01/Styles.v; guard:
   C01/Guard.v; proofs: C01/MarshalProofs.v, C01/StylesProofs.v).

   Full statement (kept visible): for EVERY schema, declaration and value that
   fits it, the request the marshaller builds is the one the reference
   translator prescribes.  It is proved below for every value `conforming`
   accepts — objects whose keys are declared by their (possibly derived) type,
   with distinct member names and no wildcard.  Outside that guard the
   unchanged code departs from the reference in known ways, each witnessed:
   a wildcard before a named member captures the lookup
   (wildcard_shortcut_refuted) and keys outside the content model raise
   TypeNotFound (undeclared_key_refuted). *)
From SV Require Import Lib.Base Fam.Schema C01.Marshal C01.Guard C01.MarshalProofs C01.Styles C01.StylesProofs.

(* 1. element level: unbounded nesting depth, width and list length *)
Theorem marshal_conforms : forall S xstq v d anc,
  conforming S d v = true ->
  exists ns, ref_elem S xstq d anc v = Some ns /\ marshal_elem S xstq d anc v = MOk ns.
Proof. exact marshal_conforms_l. Qed.
Print Assumptions marshal_conforms.

(* 2. whole bodies, for each binding style *)
Theorem doc_wrapped_conforms : forall S xstq wrapper args,
  args_conforming S wrapper args = true ->
  args_lists_ok S wrapper args = true ->
  exists body, ref_doc_wrapped S xstq wrapper args = Some body /\
               doc_wrapped_body S xstq wrapper args = MOk body.
Proof. exact doc_wrapped_conforms_l. Qed.
Print Assumptions doc_wrapped_conforms.

Theorem doc_bare_conforms : forall S xstq parts args,
  Nat.eqb (length parts) (length args) = true ->
  forallb (fun pa => param_conforming S (FE (fst pa) false false) (snd pa)) (combine parts args) = true ->
  exists ns, ref_doc_bare S xstq parts args = Some ns /\ doc_bare_body S xstq parts args = MOk ns.
Proof. exact bare_conforms_l. Qed.
Print Assumptions doc_bare_conforms.

Theorem rpc_conforms : forall S xstq bodyns method parts args,
  Nat.eqb (length parts) (length args) = true ->
  forallb (fun pa => conforming S (fst pa) (snd pa)) (combine parts args) = true ->
  exists body, ref_rpc S xstq bodyns method parts args = Some body /\
               rpc_body S xstq bodyns method parts args = MOk body.
Proof. exact rpc_conforms_l. Qed.
Print Assumptions rpc_conforms.

(* 3. shape: children in schema order (inherited members first), each declared
   name repeated once per list item; attributes on their owner; xsi:type *)
Theorem children_in_schema_order : forall S xstq d anc ty fs rt,
  real_type S d ty = Some rt ->
  conforming S d (VObj ty fs) = true ->
  exists ats ks,
    marshal_elem S xstq d anc (VObj ty fs) = MOk [XN (elem_ns d) (e_name d) ats None ks] /\
    rep_subseq (map xname ks) (map fst (fchild_names (flat_elems S rt))).
Proof. exact marshal_children_schema_order. Qed.
Print Assumptions children_in_schema_order.

Theorem object_node_shape : forall S xstq d anc ty fs rt,
  real_type S d ty = Some rt ->
  conforming S d (VObj ty fs) = true ->
  exists ks,
    decls_of (bound_of (ref_elem S xstq) fs) (flat_elems S rt) = Some ks /\
    marshal_elem S xstq d anc (VObj ty fs) =
    MOk [XN (elem_ns d) (e_name d)
           (xt_of xstq (declared_type S d) rt ++ flat_map (at_of fs) (flat_attrs S rt)) None ks].
Proof. exact marshal_obj_node. Qed.
Print Assumptions object_node_shape.

Theorem nodes_named_and_qualified_by_declaration : forall S xstq v d anc ns,
  marshal_elem S xstq d anc v = MOk ns -> conforming S d v = true ->
  Forall (fun n => xname n = e_name d /\ xnsid n = elem_ns d) ns.
Proof. intros S xstq v d anc ns H Hc. exact (marshal_elem_names S xstq v d anc ns Hc H). Qed.
Print Assumptions nodes_named_and_qualified_by_declaration.

(* the side condition on nested lists is necessary, not an artefact *)
Theorem list_side_condition_necessary : forall S xstq c v,
  param_conforming S c v = true -> param_lists_ok c v = false ->
  forall ns, ~ (ref_param S xstq c v = Some ns /\ marshal_param S xstq c v = MOk ns).
Proof. exact param_lists_ok_necessary. Qed.
Print Assumptions list_side_condition_necessary.

(* the boolean instance the harness evaluates on every generated case *)
Theorem theorem_instance_holds : forall c,
  args_lists_ok (w_schema c) (w_wrapper c) (w_args c) = true -> wrapped_theorem_instance c = true.
Proof. exact wrapped_theorem_instance_holds. Qed.
Print Assumptions theorem_instance_holds.

(* ---- non-vacuity: a schema with an extension chain, a choice, attributes;
   a derived-type object with a list member and an attribute conforms ---- *)
Local Open Scope N_scope.
Definition ex_schema : schema :=
  [ mkC 10 1 None [PC KSeq false [PE (mkE 20 1 true TBuiltin false true false None);
                                    PC KChoice true [PE (mkE 21 1 false TBuiltin false false true None);
                                                     PE (mkE 22 1 true TBuiltin true false false None)]]]
        [mkA 30 false None];
    mkC 11 2 (Some (1, 10)%N) [PC KSeq false [PE (mkE 23 2 true (TNamed 1 10) true false false None)]]
        [mkA 31 true None] ]%N.
Definition ex_decl : edecl := mkE 40 1 true (TNamed 1 10) false false false None.
Definition ex_value : value :=
  VObj (Some (2, 11)%N) [ (31, true, VText 50); (23, false, VObj None [(20, false, VList [VText 51])]);
                           (20, false, VList [VText 52; VText 53]); (30, true, VText 54) ]%N.
Example conforming_nonvacuous : conforming ex_schema ex_decl ex_value = true.
Proof. reflexivity. Qed.
Example conforming_nonvacuous_output :
  marshal_elem ex_schema true ex_decl false ex_value =
  MOk [XN 1 40 [(ns_xsi, n_type, AQName 2 11); (0, 30, AText 54); (0, 31, AText 50)] None
         [XN 1 20 [] (Some 52) []; XN 1 20 [] (Some 53) []; XN 2 23 [] None [XN 1 20 [] (Some 51) []]]]%N.
Proof. reflexivity. Qed.

(* ---- the guard is needed: quirks of the unchanged code outside it ---- *)
(* a wildcard declared before a named member answers every lookup *)
Theorem wildcard_shortcut_refuted : exists S d v xstq,
  ref_elem S xstq d false v <> None /\
  marshal_elem S xstq d false v = MError.
Proof.
  exists [mkC 10 1 None [PC KSeq false [PAny; PE (mkE 20 1 true TBuiltin false false false None)]] []]%N,
         (mkE 40 1 true (TNamed 1 10) false false false None)%N,
         (VObj None [(20, false, VText 50)])%N, true.
  split; [discriminate | reflexivity].
Qed.
Print Assumptions wildcard_shortcut_refuted.

(* a key the type does not declare is not a conforming value: the marshaller
   raises TypeNotFound for it (and the object is iterated in insertion order) *)
Theorem undeclared_key_refuted : exists S d v,
  marshal_elem S true d false v = MTypeNotFound /\ conforming S d v = false.
Proof.
  exists [mkC 10 1 None [PC KSeq false [PE (mkE 20 1 true TBuiltin false false false None)]] []]%N,
         (mkE 40 1 true (TNamed 1 10) false false false None)%N,
         (VObj None [(99, false, VText 50); (20, false, VText 51)])%N.
  split; reflexivity.
Qed.
Print Assumptions undeclared_key_refuted.
