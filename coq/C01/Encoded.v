(* C01 (rpc/encoded) -- model of the SOAP section-5 marshaller
   (suds.mx.encoded.Encoded.start/end/encode/cast over suds.mx.literal.Typed,
   the appenders of suds.mx.appender, soaparray.Attribute's `aty`,
   bindings.rpc.RPC.bodycontent/method/envelope, binding.PartElement) at the
   level of the namespace infoset of the request body, and the reference
   translator written from the SOAP 1.1 section 5 / WSDL 1.1 section 3.5 rules.
   Definitions only.

   Section-5 schemas are not expressible in Fam/Schema.v (builtin types have no
   name there, there is no array type), so this file has its own small schema
   language; values, names, namespace ids and [mres] are those of Fam/Schema.v,
   the key/ordering machinery is the one of C01/Marshal.v. *)
From SV Require Import Lib.Base Fam.Schema C01.Marshal C01.Guard.

(* ------------------------------------------------------------------ *)
(* section-5 schemas                                                   *)
(* ------------------------------------------------------------------ *)
Inductive etref := EB (b : name)        (* xsd:b *)
                 | EN (q : qn).         (* a named complex type of the schema *)

Record emember := mkM {
  m_name : name;
  m_ns : nsid;            (* namespace of the name when form-qualified *)
  m_qual : bool;          (* form-qualified *)
  m_type : etref;
  m_opt : bool;           (* minOccurs = 0 (message parts: always, PartElement.optional) *)
  m_nil : bool            (* nillable *)
}.

Inductive ekind :=
| KStruct (base : option qn) (members : list emember)   (* sequence, possibly an extension *)
| KArray (item : etref).   (* restriction of soapenc:Array with wsdl:arrayType="item[]" *)

Record etype := mkT { t_name : name; t_ns : nsid; t_kind : ekind }.
Definition eschema := list etype.

Definition find_etype (S : eschema) (q : qn) : option etype :=
  find (fun t => qn_eqb (t_ns t, t_name t) q) S.

(* ------------------------------------------------------------------ *)
(* infoset with a structured soapenc:arrayType value                   *)
(* ------------------------------------------------------------------ *)
Inductive eaval :=
| EText (t : N)
| EQName (ns : nsid) (local : name)
| EArr (ns : nsid) (local : name) (len : N).     (* "p:local[len]" with p bound to ns *)

Definition eattr := (nsid * name * eaval)%type.

Inductive enode :=
| EX (ns : nsid) (nm : name) (attrs : list eattr) (text : option N) (kids : list enode).

Definition ename (n : enode) : name := match n with EX _ nm _ _ _ => nm end.
Definition ensid (n : enode) : nsid := match n with EX ns _ _ _ _ => ns end.
Definition eattrs (n : enode) : list eattr := match n with EX _ _ a _ _ => a end.
Definition ekids (n : enode) : list enode := match n with EX _ _ _ _ k => k end.

Definition eaval_eqb (a b : eaval) : bool :=
  match a, b with
  | EText x, EText y => N.eqb x y
  | EQName n x, EQName m y => N.eqb n m && N.eqb x y
  | EArr n x k, EArr m y j => N.eqb n m && N.eqb x y && N.eqb k j
  | _, _ => false
  end.

Definition akey_eqb (a b : eattr) : bool :=
  N.eqb (fst (fst a)) (fst (fst b)) && N.eqb (snd (fst a)) (snd (fst b)).

Definition eattr_eqb (a b : eattr) : bool := akey_eqb a b && eaval_eqb (snd a) (snd b).

(* attribute lists compare as sets *)
Definition eattrs_eqb (a b : list eattr) : bool :=
  Nat.eqb (length a) (length b) &&
  forallb (fun x => existsb (eattr_eqb x) b) a &&
  forallb (fun x => existsb (eattr_eqb x) a) b.

Fixpoint enode_eqb (a b : enode) {struct a} : bool :=
  match a, b with
  | EX n1 m1 at1 t1 k1, EX n2 m2 at2 t2 k2 =>
      N.eqb n1 n2 && N.eqb m1 m2 && eattrs_eqb at1 at2 && opt_eqb N.eqb t1 t2 &&
      (fix go (l1 l2 : list enode) : bool :=
         match l1, l2 with
         | [], [] => true
         | x :: l1', y :: l2' => enode_eqb x y && go l1' l2'
         | _, _ => false
         end) k1 k2
  end.

(* well-known names, interned by the harness right after type/nil/"true" *)
Definition n_item : name := 4%N.          (* "item" *)
Definition n_arrayType : name := 5%N.     (* "arrayType" *)
Definition n_encodingStyle : name := 6%N. (* "encodingStyle" *)
Definition t_soapenc : N := 7%N.          (* the text "http://schemas.xmlsoap.org/soap/encoding/" *)

Definition tref_qn (t : etref) : qn :=
  match t with EB b => (ns_xsd, b) | EN q => q end.

Definition xsi_type (q : qn) : eattr := (ns_xsi, n_type, EQName (fst q) (snd q)).
Definition enil_attr : eattr := (ns_xsi, n_nil, EText t_true).
Definition aty_attr (T : etref) (len : nat) : eattr :=
  (ns_enc, n_arrayType, EArr (fst (tref_qn T)) (snd (tref_qn T)) (N.of_nat len)).
Definition style_attr : eattr := (ns_env, n_encodingStyle, EText t_soapenc).

Definition mem_ns (m : emember) : nsid := if m_qual m then m_ns m else 0%N.

(* array items: unqualified <item>, typed by the array's item type; found by
   GraphResolver as the wildcard of soapenc:Array, which is not nillable *)
Definition item_member (T : etref) : emember := mkM n_item 0%N false T false false.

(* the type an object value is an instance of: its own (factory objects carry
   it in their metadata) or, for a dict, the declared one *)
Definition real_qn (m : emember) (ty : option qn) : qn :=
  match ty with Some q => q | None => tref_qn (m_type m) end.

(* a message part referencing a type: binding.PartElement *)
Definition part_member (pname : name) (t : etref) : emember := mkM pname 0%N false t true false.

Section Types.
Variable S : eschema.

(* base chain, most basic first (Extension.merge prepends the base's children) *)
Fixpoint echain (fuel : nat) (t : etype) : list etype :=
  match fuel with
  | O => [t]
  | Datatypes.S f =>
      match t_kind t with
      | KStruct (Some b) _ =>
          match find_etype S b with
          | Some bt => echain f bt ++ [t]
          | None => [t]
          end
      | _ => [t]
      end
  end.

Definition echain_of (t : etype) : list etype := echain (length S) t.

Definition members_of (t : etype) : list emember :=
  match t_kind t with KStruct _ ms => ms | KArray _ => [] end.

Definition all_members (t : etype) : list emember := flat_map members_of (echain_of t).

Definition mkey (m : emember) : name * bool := (m_name m, false).

(* Typed.ordering of a struct type *)
Definition eordering (ms : list emember) : list (name * bool) := map mkey ms.

(* SchemaObject.get_child: first child with the name *)
Fixpoint get_member (n : name) (l : list emember) : option emember :=
  match l with
  | [] => None
  | m :: l' => if N.eqb (m_name m) n then Some m else get_member n l'
  end.

(* Encoded.start: the resolved type has a child carrying `aty` *)
Definition array_item (t : etref) : option etref :=
  match t with
  | EB _ => None
  | EN q => match find_etype S q with
            | Some ty => match t_kind ty with KArray T => Some T | KStruct _ _ => None end
            | None => None
            end
  end.

Definition struct_type (q : qn) : option etype :=
  match find_etype S q with
  | Some ty => match t_kind ty with KStruct _ _ => Some ty | KArray _ => None end
  | None => None
  end.

End Types.

(* ------------------------------------------------------------------ *)
(* the marshaller                                                      *)
(* ------------------------------------------------------------------ *)

(* Element.set: replace the value of the attribute with that name, else add *)
Definition set_attr (a : eattr) (ats : list eattr) : list eattr :=
  if existsb (akey_eqb a) ats
  then map (fun b => if akey_eqb a b then a else b) ats
  else ats ++ [a].

(* Encoded.end: parent.getChild(tag).set(arrayType) -- the FIRST child with
   that tag (by local name), not necessarily the one just appended *)
Fixpoint set_on_first (n : name) (a : eattr) (ks : list enode) : list enode :=
  match ks with
  | [] => []
  | EX ns nm ats tx kk :: ks' =>
      if N.eqb nm n then EX ns nm (set_attr a ats) tx kk :: ks'
      else EX ns nm ats tx kk :: set_on_first n a ks'
  end.

Definition apply_aty (n : name) (p : option eattr) (ks : list enode) : list enode :=
  match p with Some a => set_on_first n a ks | None => ks end.

(* what Core.append does for one content: the nodes appended to the parent
   by the appender, and the arrayType that Encoded.end then sets on
   parent.getChild(tag) *)
Definition eout := (list enode * option eattr)%type.

Definition is_nil {A} (l : list A) : bool := match l with [] => true | _ => false end.

(* the children of a struct node: contents appended in iteration order, each
   followed by its Encoded.end on the node built so far *)
Fixpoint assemble_from (acc : list enode) (l : list (name * bool * mres eout)) : mres (list enode) :=
  match l with
  | [] => MOk acc
  | kc :: l' =>
      mbind (snd kc) (fun o =>
        assemble_from (apply_aty (fst (fst kc)) (snd o) (acc ++ fst o)) l')
  end.

Section Enc.
Variable S : eschema.

(* Core.append for one (declaration, value): Encoded.start (Typed.start:
   resolve, translate, sort, skip; then aty + cast for lists), the appender
   chosen by the class of the value, Encoded.end *)
Fixpoint enc_elem (m : emember) (v : value) {struct v} : mres eout :=
  let dq := tref_qn (m_type m) in
  match v with
  | VNone =>
      (* Typed.skip: optional and None; else NoneAppender: node + setnil *)
      if m_opt m then MOk ([], None)
      else MOk ([EX (mem_ns m) (m_name m)
                    (xsi_type dq :: if m_nil m then [enil_attr] else []) None []], None)
  | VText t =>
      (* PrimitiveAppender; Encoded.encode types the node with content.real *)
      MOk ([EX (mem_ns m) (m_name m) [xsi_type dq] (Some t) []], None)
  | VList l =>
      match array_item S (m_type m) with
      | None => MError                 (* repeated accessors: not section 5, not modelled *)
      | Some T =>
          if m_opt m && is_nil l then MOk ([], None)       (* Typed.skip: optional and empty *)
          else
            (* cast: value := Object{item = [typed items]}; ObjectAppender:
               node, then the `item` list through ListAppender *)
            mbind ((fix items (l : list value) : mres (list enode) :=
                      match l with
                      | [] => MOk []
                      | x :: l' =>
                          mbind (match x with
                                 | VList _ => MError    (* appended uncast, then flattened: not modelled *)
                                 | _ => mbind (enc_elem (item_member T) x) (fun o => MOk (fst o))
                                 end)
                                (fun a => mbind (items l') (fun b => MOk (a ++ b)))
                      end) l)
                  (fun its => MOk ([EX (mem_ns m) (m_name m) [xsi_type dq] None its],
                                   Some (aty_attr T (length l))))
      end
  | VObj ty fs =>
      (* dict -> object of the declared type; a typed object keeps its own *)
      let rq := real_qn m ty in
      match struct_type S rq with
      | None => MError
      | Some rt =>
          let mems := all_members S rt in
          let per_field :=
            (fix per_field (fs : list field) : list (name * bool * mres eout) :=
               match fs with
               | [] => []
               | (k, isattr, x) :: fs' =>
                   (k, isattr,
                     if isattr then MTypeNotFound
                     else match get_member k mems with
                          | None => MTypeNotFound
                          | Some m' => enc_elem m' x
                          end) :: per_field fs'
               end) fs in
          mbind (assemble_from [] (iter_keyed (eordering mems) per_field))
                (fun ks => MOk ([EX (mem_ns m) (m_name m) [xsi_type rq] None ks], None))
      end
  end.

(* Binding.mkparam / Core.process: the content is appended to a fresh
   Document, whose getChild(tag) is its root *)
Definition enc_param (m : emember) (v : value) : mres (list enode) :=
  mbind (enc_elem m v) (fun o => MOk (apply_aty (m_name m) (snd o) (fst o))).

(* RPC.bodycontent + RPC.method (+ RPC.envelope: encodingStyle is set on the
   envelope, i.e. in scope at the wrapper, where the harness reads it) *)
Definition enc_body (bodyns : nsid) (method : name) (parts : list emember) (args : list value)
  : mres enode :=
  if negb (Nat.eqb (length parts) (length args)) then MError else
  mbind (mconcat (map (fun pa => enc_param (fst pa) (snd pa)) (combine parts args)))
        (fun kids => MOk (EX bodyns method [style_attr] None kids)).

End Enc.

(* ------------------------------------------------------------------ *)
(* the reference translator (SOAP 1.1 section 5, WSDL 1.1 section 3.5)  *)
(* ------------------------------------------------------------------ *)
Section Ref.
Variable S : eschema.

(* type q is dq or derives from it by extension *)
Definition derives_or_eq (q dq : qn) : bool :=
  match find_etype S q with
  | Some t => existsb (fun c => qn_eqb (t_ns c, t_name c) dq) (echain_of S t)
  | None => false
  end.

Fixpoint ref_elem (m : emember) (v : value) {struct v} : option (list enode) :=
  let dq := tref_qn (m_type m) in
  match v with
  | VNone =>
      (* an absent optional accessor is omitted; otherwise an empty accessor,
         xsi:nil when nillable; every accessor is typed *)
      if m_opt m then Some []
      else Some [EX (mem_ns m) (m_name m)
                    (xsi_type dq :: if m_nil m then [enil_attr] else []) None []]
  | VText t =>
      (* a simple value: its lexical form, typed with the builtin type *)
      match m_type m with
      | EB _ => Some [EX (mem_ns m) (m_name m) [xsi_type dq] (Some t) []]
      | EN _ => None
      end
  | VList l =>
      (* section 5.4.2: an array is typed with its array type, carries
         soapenc:arrayType = item type + [number of members], and has one
         member element per entry, in order *)
      match array_item S (m_type m) with
      | None => None
      | Some T =>
          if m_opt m && is_nil l then Some []
          else
            match (fix items (l : list value) : option (list enode) :=
                     match l with
                     | [] => Some []
                     | x :: l' =>
                         match (match x with
                                | VNone => None           (* null members: out of scope *)
                                | _ => ref_elem (item_member T) x
                                end), items l' with
                         | Some a, Some b => Some (a ++ b)
                         | _, _ => None
                         end
                     end) l with
            | Some its => Some [EX (mem_ns m) (m_name m)
                                   [xsi_type dq; aty_attr T (length l)] None its]
            | None => None
            end
      end
  | VObj ty fs =>
      (* section 5.4.1: a struct; xsi:type names the actual type, which is the
         declared one or an extension of it; one accessor per member that has
         a value, in schema order, inherited members first *)
      let rq := real_qn m ty in
      match struct_type S rq with
      | None => None
      | Some rt =>
          if negb (derives_or_eq rq dq) then None else
          let bound :=
            (fix bound (fs : list field) : list (name * bool * (emember -> option (list enode))) :=
               match fs with
               | [] => []
               | (k, isattr, x) :: fs' => (k, isattr, fun m' => ref_elem m' x) :: bound fs'
               end) fs in
          match (fix decls (l : list emember) : option (list enode) :=
                   match l with
                   | [] => Some []
                   | m' :: l' =>
                       match (match lookup_key (mkey m') bound with
                              | Some w => w m'
                              | None => Some []
                              end), decls l' with
                       | Some a, Some b => Some (a ++ b)
                       | _, _ => None
                       end
                   end) (all_members S rt) with
          | Some ks => Some [EX (mem_ns m) (m_name m) [xsi_type rq] None ks]
          | None => None
          end
      end
  end.

(* WSDL 1.1 section 3.5 / SOAP 1.1 section 7.1: the wrapper is named after the
   operation, in the namespace of the soap:body, under the section-5
   encodingStyle; one accessor per part, named after the part *)
Definition ref_enc_body (bodyns : nsid) (method : name) (parts : list emember) (args : list value)
  : option enode :=
  if negb (Nat.eqb (length parts) (length args)) then None else
  match oconcat (map (fun pa => ref_elem (fst pa) (snd pa)) (combine parts args)) with
  | Some kids => Some (EX bodyns method [style_attr] None kids)
  | None => None
  end.

End Ref.

(* ------------------------------------------------------------------ *)
(* the guard: which argument trees fit a section-5 declaration          *)
(* ------------------------------------------------------------------ *)
Definition is_list (v : value) : bool := match v with VList _ => true | _ => false end.

(* v fits member m:
   - a leaf for a builtin type, a list for an array type, an object for a
     struct type (the declared one or an extension of it);
   - object keys distinct, none an attribute key, all declared by the actual
     type, whose member names are DISTINCT (this excludes the known quirk
     C01:encoded-arraytype-on-first-same-tag-child);
   - array members are neither None nor themselves lists (arrays of arrays are
     flattened by the code: kept out of the model, reported separately). *)
Fixpoint enc_conforming (S : eschema) (m : emember) (v : value) {struct v} : bool :=
  match v with
  | VNone => true
  | VText _ => match m_type m with EB _ => true | EN _ => false end
  | VList l =>
      match array_item S (m_type m) with
      | None => false
      | Some T =>
          (fix all (l : list value) : bool :=
             match l with
             | [] => true
             | x :: l' => negb (is_none x) && negb (is_list x) &&
                          enc_conforming S (item_member T) x && all l'
             end) l
      end
  | VObj ty fs =>
      let dq := tref_qn (m_type m) in
      let rq := real_qn m ty in
      match struct_type S rq with
      | None => false
      | Some rt =>
          derives_or_eq S rq dq &&
          nodup_keys (eordering (all_members S rt)) &&
          nodup_keys (map (fun f : field => fst f) fs) &&
          forallb (fun f : field => key_in (fst f) (eordering (all_members S rt))) fs &&
          (fix each (fs : list field) : bool :=
             match fs with
             | [] => true
             | (k, isattr, x) :: fs' =>
                 negb isattr &&
                 match get_member k (all_members S rt) with
                 | Some m' => enc_conforming S m' x
                 | None => false
                 end && each fs'
             end) fs
      end
  end.

(* ------------------------------------------------------------------ *)
(* shape predicates on the infoset                                     *)
(* ------------------------------------------------------------------ *)
Definition is_aty_key (a : eattr) : bool :=
  N.eqb (fst (fst a)) ns_enc && N.eqb (snd (fst a)) n_arrayType.

(* every soapenc:arrayType on the node is a well-formed "type[len]" whose
   len is the number of child elements *)
Definition aty_len_ok (ats : list eattr) (nkids : nat) : bool :=
  forallb (fun a => if is_aty_key a
                    then match snd a with EArr _ _ len => N.eqb len (N.of_nat nkids) | _ => false end
                    else true) ats.

(* a node-local condition on (attributes, number of child elements), everywhere in the tree *)
Fixpoint deep_ok (p : list eattr -> nat -> bool) (n : enode) : bool :=
  match n with
  | EX _ _ ats _ ks =>
      p ats (length ks) &&
      (fix all (l : list enode) : bool :=
         match l with [] => true | k :: l' => deep_ok p k && all l' end) ks
  end.

Definition lengths_exact : enode -> bool := deep_ok aty_len_ok.

Definition has_xsi_type (ats : list eattr) : bool :=
  existsb (fun a => N.eqb (fst (fst a)) ns_xsi && N.eqb (snd (fst a)) n_type &&
                    match snd a with EQName _ _ => true | _ => false end) ats.

Definition all_typed : enode -> bool := deep_ok (fun ats _ => has_xsi_type ats).

(* ------------------------------------------------------------------ *)
(* cases the harness evaluates                                         *)
(* ------------------------------------------------------------------ *)
Inductive eimpl := EOk (body : enode) | ETypeNotFound | EOther.

Record ecase := mkEC {
  x_schema : eschema;
  x_bodyns : nsid;
  x_method : name;
  x_parts : list emember;
  x_args : list value;
  x_impl : eimpl        (* the wrapper as expat reads it, with the encodingStyle in scope attached *)
}.

Definition enc_agrees (c : ecase) : bool :=
  match enc_body (x_schema c) (x_bodyns c) (x_method c) (x_parts c) (x_args c), x_impl c with
  | MOk x, EOk y => enode_eqb x y
  | MTypeNotFound, ETypeNotFound => true
  | MError, EOther => true
  | _, _ => false
  end.

Definition enc_spec_ok (c : ecase) : bool :=
  match ref_enc_body (x_schema c) (x_bodyns c) (x_method c) (x_parts c) (x_args c), x_impl c with
  | Some x, EOk y => enode_eqb x y && lengths_exact y &&
                     forallb all_typed (ekids y)
  | _, _ => false
  end.

Definition enc_guard (c : ecase) : bool :=
  Nat.eqb (length (x_parts c)) (length (x_args c)) &&
  forallb (fun pa => enc_conforming (x_schema c) (fst pa) (snd pa)) (combine (x_parts c) (x_args c)).

(* the theorem's instance on one case *)
Definition enc_theorem_instance (c : ecase) : bool :=
  negb (enc_guard c) ||
  match enc_body (x_schema c) (x_bodyns c) (x_method c) (x_parts c) (x_args c),
        ref_enc_body (x_schema c) (x_bodyns c) (x_method c) (x_parts c) (x_args c) with
  | MOk a, Some b => enode_eqb a b
  | _, _ => false
  end.
