(* C01 (rpc/encoded) -- Requests conform to the WSDL and schema they were built
   from: the SOAP section-5 marshaller.  Property theorems only (model and
   reference: C01/Encoded.v; proofs: C01/EncodedProofs.v).

   Full statement (kept visible): for EVERY section-5 schema, accessor
   declaration and argument tree that fits it, the request the Encoded
   marshaller builds is the one the reference translator prescribes: wrapper
   named after the operation in the soap:body namespace under the section-5
   encodingStyle, one accessor per part, every element typed with its actual
   type, arrays carrying soapenc:arrayType = member type + [length] and one
   <item> per entry, None written as xsi:nil / omitted.

   It is proved below for every tree [enc_conforming] accepts.  The guard
   excludes, besides trees that do not fit the schema at all,
   (a) struct types that declare the same member name twice -- there the
       unchanged code departs from the reference (known finding
       C01:encoded-arraytype-on-first-same-tag-child), witnessed by
       arraytype_first_same_tag_child_refuted; and
   (b) two shapes the model does not cover: a list directly inside a list
       (arrays of arrays, which the code flattens) and None as an array
       member. *)
From SV Require Import Lib.Base Fam.Schema C01.Marshal C01.Guard C01.MarshalProofs
                       C01.Encoded C01.EncodedProofs.

(* 1. one accessor: unbounded struct nesting, width, array length (0 included) *)
Theorem encoded_param_conforms : forall S m v,
  enc_conforming S m v = true ->
  exists ns, ref_elem S m v = Some ns /\ enc_param S m v = MOk ns.
Proof. exact enc_param_conforms_l. Qed.
Print Assumptions encoded_param_conforms.

(* 2. the whole request body *)
Theorem encoded_request_conforms : forall S bodyns method parts args,
  Nat.eqb (length parts) (length args) = true ->
  forallb (fun pa => enc_conforming S (fst pa) (snd pa)) (combine parts args) = true ->
  exists body, ref_enc_body S bodyns method parts args = Some body /\
               enc_body S bodyns method parts args = MOk body.
Proof. exact enc_request_conforms_l. Qed.
Print Assumptions encoded_request_conforms.

(* 3. arrayType's length is the number of item children, for every list
   anywhere in the request, the empty one included -- for EVERY input the
   marshaller accepts, no conformance hypothesis (in the duplicated-member
   quirk the arrayType lands on the wrong copy, but with the right length) *)
Theorem array_length_exact : forall S m v ns,
  enc_param S m v = MOk ns -> forallb lengths_exact ns = true.
Proof. exact array_length_exact_all_l. Qed.
Print Assumptions array_length_exact.

Theorem request_array_lengths_exact : forall S bodyns method parts args body,
  enc_body S bodyns method parts args = MOk body -> lengths_exact body = true.
Proof. exact request_lengths_exact_l. Qed.
Print Assumptions request_array_lengths_exact.

(* 4. every element of the request carries an xsi:type *)
Theorem every_element_typed : forall S m v ns,
  enc_conforming S m v = true -> enc_param S m v = MOk ns ->
  forallb all_typed ns = true.
Proof. exact every_element_typed_l. Qed.
Print Assumptions every_element_typed.

(* 5. an EMPTY list given for a non-optional array accessor is sent, as an
   array of length 0 (no conformance hypothesis needed) *)
Theorem empty_array_is_sent : forall S m T,
  array_item S (m_type m) = Some T -> m_opt m = false ->
  enc_param S m (VList []) =
  MOk [EX (mem_ns m) (m_name m) [xsi_type (tref_qn (m_type m)); aty_attr T 0] None []].
Proof. exact empty_array_is_sent_l. Qed.
Print Assumptions empty_array_is_sent.

(* None: omitted when the accessor is optional (message parts always are),
   otherwise an empty typed accessor, xsi:nil when nillable *)
Theorem none_is_nil_or_omitted : forall S m,
  enc_param S m VNone =
  MOk (if m_opt m then []
       else [EX (mem_ns m) (m_name m)
               (xsi_type (tref_qn (m_type m)) :: if m_nil m then [enil_attr] else []) None []]) /\
  ref_elem S m VNone =
  Some (if m_opt m then []
        else [EX (mem_ns m) (m_name m)
                (xsi_type (tref_qn (m_type m)) :: if m_nil m then [enil_attr] else []) None []]).
Proof. exact none_rule_l. Qed.
Print Assumptions none_is_nil_or_omitted.

(* 6. the node written for a list *)
Theorem array_node_shape : forall S m T l,
  array_item S (m_type m) = Some T -> m_opt m && is_nil l = false ->
  enc_conforming S m (VList l) = true ->
  exists its,
    enc_param S m (VList l) =
    MOk [EX (mem_ns m) (m_name m) [xsi_type (tref_qn (m_type m)); aty_attr T (length l)] None its] /\
    length its = length l /\
    Forall (fun k => ename k = n_item /\ ensid k = 0%N) its /\
    forallb all_typed its = true.
Proof. exact array_node_shape_l. Qed.
Print Assumptions array_node_shape.

(* 7. the node written for an object: typed with the actual (possibly derived)
   type; children are accessors of declared members, in schema order with
   inherited members first, at most one per member *)
Theorem struct_children_in_schema_order : forall S m ty fs rt,
  struct_type S (real_qn m ty) = Some rt ->
  enc_conforming S m (VObj ty fs) = true ->
  exists ks,
    enc_param S m (VObj ty fs) =
    MOk [EX (mem_ns m) (m_name m) [xsi_type (real_qn m ty)] None ks] /\
    subseq (map ename ks) (map m_name (all_members S rt)).
Proof. exact struct_children_in_schema_order_l. Qed.
Print Assumptions struct_children_in_schema_order.

(* 8. the boolean instance the harness evaluates on every generated case is a theorem *)
Theorem encoded_theorem_instance_holds : forall c, enc_theorem_instance c = true.
Proof. exact enc_theorem_instance_holds_l. Qed.
Print Assumptions encoded_theorem_instance_holds.

(* 9. the guard's exclusion (a) is necessary: with a member name declared
   twice, the second copy of an array member gets no arrayType
   (KNOWN_FINDINGS: C01:encoded-arraytype-on-first-same-tag-child) *)
Theorem arraytype_first_same_tag_child_refuted :
  exists S m v ns ns',
    ref_elem S m v = Some ns /\ enc_param S m v = MOk ns' /\
    forallb lengths_exact ns = true /\
    list_eqb enode_eqb ns ns' = false /\
    enc_conforming S m v = false.
Proof. exact arraytype_first_same_tag_child_refuted_l. Qed.
Print Assumptions arraytype_first_same_tag_child_refuted.

(* ------------------------------------------------------------------ *)
(* non-vacuity: the hypotheses are satisfiable, on a schema with a struct,
   a derived struct in another namespace, arrays of builtin and of struct
   members, and empty arrays nested and top-level                        *)
(* ------------------------------------------------------------------ *)
(* names: P=10 Q=11 ArrInt=12 ArrP=13 H=14 x=15 nums=16 more=17 k=18 ps=19
   int=20 string=21 h=22 arr=23 op=24; texts 30.. *)
Local Open Scope N_scope.
Definition nv_schema : eschema :=
  [mkT 12 1 (KArray (EB 20));
   mkT 10 2 (KStruct None [mkM 15 2 true (EB 21) false false; mkM 16 2 true (EN (1, 12)) false false]);
   mkT 11 1 (KStruct (Some (2, 10)) [mkM 17 1 false (EN (1, 12)) false true]);
   mkT 13 2 (KArray (EN (2, 10)));
   mkT 14 1 (KStruct None [mkM 18 1 false (EB 20) true false;
                           mkM 16 1 false (EN (1, 12)) false false;
                           mkM 19 1 false (EN (2, 13)) false false])]%N.

Definition nv_P (nums : list value) : value :=
  VObj None [(15, false, VText 30); (16, false, VList nums)]%N.
Definition nv_Q (nums more : list value) : value :=
  VObj (Some (1, 11)) [(17, false, VList more); (16, false, VList nums); (15, false, VText 31)]%N.
Definition nv_H : value :=
  VObj None [(19, false, VList [nv_P []; nv_Q [VText 32; VText 33] []]);
             (16, false, VList []); (18, false, VNone)]%N.
Definition nv_parts : list emember :=
  [part_member 22 (EN (1, 14)); part_member 23 (EN (1, 12)); part_member 19 (EN (2, 13))]%N.
Definition nv_args : list value := [nv_H; VList [VText 34]; VList []].

Example encoded_request_conforms_nonvacuous :
  Nat.eqb (length nv_parts) (length nv_args) = true /\
  forallb (fun pa => enc_conforming nv_schema (fst pa) (snd pa)) (combine nv_parts nv_args) = true /\
  (* the request: the nested empty array is there with arrayType int[0], the
     derived member is typed Q, the top-level empty array (an optional part) is omitted *)
  enc_body nv_schema 2 24 nv_parts nv_args =
  MOk (EX 2 24 [style_attr] None
        [EX 0 22 [xsi_type (1, 14)] None
           [EX 0 16 [xsi_type (1, 12); aty_attr (EB 20) 0] None [];
            EX 0 19 [xsi_type (2, 13); aty_attr (EN (2, 10)) 2] None
              [EX 0 n_item [xsi_type (2, 10)] None
                 [EX 2 15 [xsi_type (ns_xsd, 21)] (Some 30) [];
                  EX 2 16 [xsi_type (1, 12); aty_attr (EB 20) 0] None []];
               EX 0 n_item [xsi_type (1, 11)] None
                 [EX 2 15 [xsi_type (ns_xsd, 21)] (Some 31) [];
                  EX 2 16 [xsi_type (1, 12); aty_attr (EB 20) 2] None
                    [EX 0 n_item [xsi_type (ns_xsd, 20)] (Some 32) [];
                     EX 0 n_item [xsi_type (ns_xsd, 20)] (Some 33) []];
                  EX 0 17 [xsi_type (1, 12); aty_attr (EB 20) 0] None []]]];
         EX 0 23 [xsi_type (1, 12); aty_attr (EB 20) 1] None
           [EX 0 n_item [xsi_type (ns_xsd, 20)] (Some 34) []]])%N.
Proof. repeat split; vm_compute; reflexivity. Qed.

Example empty_array_is_sent_nonvacuous :
  let m := mkM 16 1 false (EN (1, 12)) false false in
  array_item nv_schema (m_type m) = Some (EB 20) /\ m_opt m = false /\
  enc_conforming nv_schema m (VList []) = true.
Proof. repeat split. Qed.

Example array_node_shape_nonvacuous :
  let m := part_member 23 (EN (1, 12)) in
  array_item nv_schema (m_type m) = Some (EB 20) /\
  m_opt m && is_nil [VText 34; VText 35] = false /\
  enc_conforming nv_schema m (VList [VText 34; VText 35]) = true.
Proof. repeat split. Qed.

Example struct_children_nonvacuous :
  let m := part_member 22 (EN (2, 10)) in
  exists rt, struct_type nv_schema (real_qn m (Some (1, 11)%N)) = Some rt /\
             enc_conforming nv_schema m (nv_Q [] [VText 36]) = true /\
             map m_name (all_members nv_schema rt) = [15; 16; 17]%N.
Proof. eexists. repeat split. Qed.

(* the guard is not the trivial one: it rejects the quirk's schema and accepts
   the same value once the member names are distinct *)
Example guard_rejects_only_the_duplicate :
  enc_conforming quirk_schema quirk_part quirk_value = false /\
  enc_conforming
    [mkT 11 1 (KArray (EB 14));
     mkT 10 1 (KStruct None [mkM 12 1 false (EN (1, 11)) false false;
                             mkM 13 1 false (EB 14) false false;
                             mkM 16 1 false (EN (1, 11)) false false])]%N
    quirk_part quirk_value = true.
Proof. split; vm_compute; reflexivity. Qed.
