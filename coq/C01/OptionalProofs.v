(* C01 -- optional containers: a minOccurs=0 sequence/choice/all (or group
   reference) makes EVERY member below it skippable, at any nesting depth of
   containers, whatever the member's own minOccurs (Typed.optional walks the
   whole ancestry of the content).  Lemmas. *)
From SV Require Import Lib.Base Fam.Schema C01.Marshal C01.Guard.

Section particle_ind2.
  Variable P : particle -> Prop.
  Hypothesis HE : forall d, P (PE d).
  Hypothesis HA : P PAny.
  Hypothesis HC : forall k o kids, Forall P kids -> P (PC k o kids).
  Fixpoint particle_ind2 (p : particle) : P p :=
    match p with
    | PE d => HE d
    | PAny => HA
    | PC k o kids =>
        HC k o kids
          ((fix go (l : list particle) : Forall P l :=
              match l return Forall P l with
              | [] => Forall_nil _
              | q :: r => Forall_cons _ (particle_ind2 q) (go r)
              end) kids)
    end.
End particle_ind2.

Definition fchild_anc (c : fchild) : bool := match c with FE _ a _ => a | FAny a => a end.

Definition in_choice (k : ckind) : bool := match k with KChoice => true | _ => false end.

Lemma flat_p_kids_l : forall anc ch k opt kids,
  flat_p anc ch (PC k opt kids) = flat_map (flat_p (anc || opt) (ch || in_choice k)) kids.
Proof.
  intros anc ch k opt kids. simpl.
  induction kids as [|q r IH]; simpl; [reflexivity|].
  rewrite IH. reflexivity.
Qed.

Lemma flat_p_anc_true_l : forall p ch c, In c (flat_p true ch p) -> fchild_anc c = true.
Proof.
  induction p using particle_ind2; intros ch c Hin.
  - simpl in Hin. destruct Hin as [<-|[]]. reflexivity.
  - simpl in Hin. destruct Hin as [<-|[]]. reflexivity.
  - rewrite flat_p_kids_l in Hin. apply in_flat_map in Hin as [q [Hq Hc]].
    rewrite Forall_forall in H. exact (H q Hq _ c Hc).
Qed.

Lemma optional_container_reaches_every_member_l : forall k kids anc ch c,
  In c (flat_p anc ch (PC k true kids)) -> fchild_anc c = true.
Proof.
  intros k kids anc ch c Hin. rewrite flat_p_kids_l in Hin.
  apply in_flat_map in Hin as [q [_ Hc]].
  rewrite orb_true_r in Hc. exact (flat_p_anc_true_l q _ c Hc).
Qed.

Lemma absent_member_omitted_l : forall S xstq d anc,
  e_opt d || anc = true ->
  marshal_elem S xstq d anc VNone = MOk [] /\
  marshal_elem S xstq d anc (VList []) = MOk [] /\
  ref_elem S xstq d anc VNone = Some [] /\
  ref_elem S xstq d anc (VList []) = Some [].
Proof.
  intros S xstq d anc H. simpl. rewrite H. repeat split; reflexivity.
Qed.

Lemma members_of_optional_container_omitted_l : forall S xstq k kids anc ch d a c,
  In (FE d a c) (flat_p anc ch (PC k true kids)) ->
  marshal_elem S xstq d a VNone = MOk [] /\ ref_elem S xstq d a VNone = Some [].
Proof.
  intros S xstq k kids anc ch d a c Hin.
  apply optional_container_reaches_every_member_l in Hin. simpl in Hin. subst a.
  destruct (absent_member_omitted_l S xstq d true (orb_true_r _)) as [H1 [_ [H3 _]]].
  split; assumption.
Qed.

(* a required (minOccurs=1, not nillable, no default) member that is NOT below an
   optional container is written as an empty element when None: the skip really
   depends on the ancestry *)
Lemma required_member_not_omitted_l : forall S xstq d,
  e_opt d = false ->
  exists n, marshal_elem S xstq d false VNone = MOk [n].
Proof.
  intros S xstq d H. simpl. rewrite H. simpl. eexists. reflexivity.
Qed.

(* ---- the top-level defect and the theorem guard ---- *)

(* the guard excludes every argument of the defect class ... *)
Lemma toplevel_quirk_outside_guard_l : forall S c v,
  toplevel_quirk c v = true -> param_conforming S c v = false.
Proof.
  intros S [d anc ch|a] v H; [|discriminate]. cbn in H.
  apply andb_true_iff in H as [H Hn]. apply andb_true_iff in H as [H Hch].
  apply andb_true_iff in H as [Ha Ho].
  destruct v; try discriminate. subst anc.
  apply negb_true_iff in Ho. apply negb_true_iff in Hch. subst ch.
  cbn. rewrite Ho. reflexivity.
Qed.

(* ... and nothing else about a None argument: a None that the guard rejects is
   of the defect class (so the guard is not wider than the defect) *)
Lemma none_outside_guard_is_quirk_l : forall S d anc ch,
  param_conforming S (FE d anc ch) VNone = false -> toplevel_quirk (FE d anc ch) VNone = true.
Proof.
  intros S d anc ch H. cbn in H. cbn.
  destruct ch, (e_opt d), anc; cbn in *; try discriminate; reflexivity.
Qed.

(* on such an argument reference and code really differ *)
Lemma toplevel_quirk_differs_l : forall S xstq d,
  e_opt d = false ->
  ref_param S xstq (FE d true false) VNone = Some [] /\
  exists n, marshal_param S xstq (FE d true false) VNone = MOk [n].
Proof.
  intros S xstq d Ho. split.
  - cbn. rewrite Ho. reflexivity.
  - cbn. rewrite Ho. cbn. eexists. reflexivity.
Qed.
