(* C10 - Service, port and method selection is deterministic and matches the WSDL.

   Definitions only.

   PART 1  the WSDL skeleton (what the document declares).
   PART 2  the load step: Service.do_resolve (ports without a SOAP binding are
           discarded), Binding.__init__/add_operations (soapAction quoting
           and style defaulting), Definitions.add_methods (per-port method
           dictionary with location / soapAction / binding style).
   PART 3  the selectors of suds/client.py, statement by statement:
           ServiceSelector.__getattr__/__getitem__/__find/__ds,
           PortSelector.__getattr__/__getitem__/__find/__dp,
           MethodSelector.__getattr__/__getitem__, Method.__call__ up to the
           request handed to the transport (_SoapClient.__location/__headers,
           body root of the Document / RPC binding).
   PART 4  the executable specification `route`, written from the property
           text over the DECLARATIONS (not over the loaded structure).
   PART 5  several clients over one WSDL (set_options / clone / call).
   PART 6  the boolean predicates the harness evaluates on the
           implementation's own outputs.

   Names (services, ports, bindings, operations, URLs, actions, namespaces,
   element names) are interned as N by the harness; 0 is the empty string. *)
From SV Require Import Lib.Base.
Local Open Scope Z_scope.

Definition name := N.

(* ------------------------------------------------------------------ *)
(* PART 1: declarations                                                *)
(* ------------------------------------------------------------------ *)

Inductive style := Doc | Rpc.

Definition style_eqb (a b : style) : bool :=
  match a, b with Doc, Doc | Rpc, Rpc => true | _, _ => false end.

(* <wsdl:operation name> inside a <wsdl:binding>:
   o_action = soap:operation/@soapAction (None: attribute or element absent)
   o_style  = soap:operation/@style      (None: absent)
   o_ns     = input soap:body/@namespace  (None: absent)
   o_elem   = local name of the element of the input message's single part *)
Record opdecl := mkOp {
  o_name : name; o_action : option name; o_style : option style;
  o_ns : option name; o_elem : name }.

(* <wsdl:binding>: b_soap = None when there is no soap:binding child (not a
   SOAP binding), Some st with st = @style (document when absent). *)
Record binding := mkB { b_name : name; b_soap : option style; b_ops : list opdecl }.

(* <wsdl:port name binding> with its address/@location *)
Record portdecl := mkP { p_name : name; p_binding : name; p_loc : name }.

Record service := mkS { s_name : name; s_ports : list portdecl }.

Record wsdl := mkW { w_tns : name; w_bindings : list binding; w_services : list service }.

(* ------------------------------------------------------------------ *)
(* PART 2: loading                                                     *)
(* ------------------------------------------------------------------ *)

(* The Facade("Method") of add_methods, reduced to what routing uses. *)
Record method := mkM {
  m_name : name; m_loc : name; m_action : name; m_style : style;
  m_ns : name; m_elem : name }.

Definition method_eqb (a b : method) : bool :=
  N.eqb (m_name a) (m_name b) && N.eqb (m_loc a) (m_loc b) &&
  N.eqb (m_action a) (m_action b) && style_eqb (m_style a) (m_style b) &&
  N.eqb (m_ns a) (m_ns b) && N.eqb (m_elem a) (m_elem b).

(* Python dict with insertion order: assignment replaces in place. *)
Fixpoint dict_set {V} (k : name) (v : V) (d : list (name * V)) : list (name * V) :=
  match d with
  | [] => [(k, v)]
  | (k', v') :: r => if N.eqb k k' then (k, v) :: r else (k', v') :: dict_set k v r
  end.

Fixpoint dict_get {V} (k : name) (d : list (name * V)) : option V :=
  match d with
  | [] => None
  | (k', v) :: r => if N.eqb k k' then Some v else dict_get k r
  end.

(* Definitions.bindings is a dict keyed by qname filled in document order:
   the LAST binding of a name is the one kept. *)
Fixpoint find_binding (bs : list binding) (n : name) : option binding :=
  match bs with
  | [] => None
  | b :: r => match find_binding r n with
              | Some b' => Some b'
              | None => if N.eqb n (b_name b) then Some b else None
              end
  end.

(* Binding.add_operations + Definitions.add_methods for one operation:
     soap.action = '"%s"' % sop.get("soapAction", default="")   (0 = "")
     soap.style  = sop.get("style", default=self.soap.style)
     body.namespace = @namespace or the definitions' tns
     m.location = p.location *)
Definition mk_method (tns : name) (bst : style) (loc : name) (o : opdecl) : method :=
  mkM (o_name o) loc
      (match o_action o with Some a => a | None => 0%N end)
      (match o_style o with Some s => s | None => bst end)
      (match o_ns o with Some n => n | None => tns end)
      (o_elem o).

(* for name in operations: p.methods[name] = m *)
Fixpoint add_methods (tns : name) (bst : style) (loc : name) (ops : list opdecl)
                     (d : list (name * method)) : list (name * method) :=
  match ops with
  | [] => d
  | o :: r => add_methods tns bst loc r (dict_set (o_name o) (mk_method tns bst loc o) d)
  end.

Record lport := mkLP { lp_name : name; lp_methods : list (name * method) }.
Record lservice := mkLS { ls_name : name; ls_ports : list lport }.

(* Service.do_resolve: a port whose binding is not declared aborts the load
   (Exception "binding ... not-found"); a port whose binding is not a SOAP
   binding is discarded; the others are kept in document order. *)
Fixpoint load_ports (tns : name) (bs : list binding) (ps : list portdecl) : option (list lport) :=
  match ps with
  | [] => Some []
  | p :: r =>
      match find_binding bs (p_binding p) with
      | None => None
      | Some b =>
          match b_soap b with
          | None => load_ports tns bs r
          | Some bst =>
              match load_ports tns bs r with
              | None => None
              | Some l => Some (mkLP (p_name p) (add_methods tns bst (p_loc p) (b_ops b) []) :: l)
              end
          end
      end
  end.

Fixpoint load_services (tns : name) (bs : list binding) (ss : list service) : option (list lservice) :=
  match ss with
  | [] => Some []
  | s :: r =>
      match load_ports tns bs (s_ports s), load_services tns bs r with
      | Some ps, Some l => Some (mkLS (s_name s) ps :: l)
      | _, _ => None
      end
  end.

Definition load (W : wsdl) : option (list lservice) :=
  load_services (w_tns W) (w_bindings W) (w_services W).

(* ------------------------------------------------------------------ *)
(* PART 3: the selectors                                               *)
(* ------------------------------------------------------------------ *)

(* Exception classes as the harness canonicalises them.  PlainException is
   exactly `Exception` ("No services defined", "No ports defined: ...");
   TypeError / AttributeError come from the interpreter (".".join with an
   int, subscripting or reading an attribute of a Method); OtherError is
   any other class (never produced by the model). *)
Inductive exn := ServiceNotFound | PortNotFound | MethodNotFound
               | PlainException | TypeError | AttributeError | OtherError.

Definition exn_eqb (a b : exn) : bool :=
  match a, b with
  | ServiceNotFound, ServiceNotFound | PortNotFound, PortNotFound
  | MethodNotFound, MethodNotFound | PlainException, PlainException
  | TypeError, TypeError | AttributeError, AttributeError
  | OtherError, OtherError => true
  | _, _ => false
  end.

Inductive res (A : Type) := Ok (a : A) | Raise (e : exn).
Arguments Ok {A} a.
Arguments Raise {A} e.

Definition bind {A B} (r : res A) (f : A -> res B) : res B :=
  match r with Ok a => f a | Raise e => Raise e end.

(* A subscript / option value: isinstance(name, int) or anything else (str). *)
Inductive key := KInt (z : Z) | KStr (s : name).

Inductive step := Attr (n : name) | Item (k : key).

Record options := mkO {
  opt_service : option key; opt_port : option key; opt_location : option name }.

(* list[z] with Python's negative indexes; None = IndexError *)
Definition py_index {A} (l : list A) (z : Z) : option A :=
  let n := Z.of_nat (length l) in
  let i := if z <? 0 then z + n else z in
  if (i <? 0) || (n <=? i) then None else nth_error l (Z.to_nat i).

(* ---- ServiceSelector ---- *)

(* __find: "if not self.__services: raise Exception"; int -> list index,
   IndexError -> ServiceNotFound; otherwise first service with that name. *)
Definition ss_find (svcs : list lservice) (k : key) : res (list lport) :=
  match svcs with
  | [] => Raise PlainException
  | _ =>
      match k with
      | KInt z => match py_index svcs z with
                  | Some s => Ok (ls_ports s)
                  | None => Raise ServiceNotFound
                  end
      | KStr n => match find (fun s => N.eqb n (ls_name s)) svcs with
                  | Some s => Ok (ls_ports s)
                  | None => Raise ServiceNotFound
                  end
      end
  end.

(* __ds *)
Definition ss_ds (o : options) (svcs : list lservice) : res (option (list lport)) :=
  match opt_service o with
  | None => Ok None
  | Some ds => bind (ss_find svcs ds) (fun p => Ok (Some p))
  end.

(* ---- PortSelector ---- *)

Definition methods := list (name * method).

Definition ps_find (ports : list lport) (k : key) : res methods :=
  match ports with
  | [] => Raise PlainException
  | _ =>
      match k with
      | KInt z => match py_index ports z with
                  | Some p => Ok (lp_methods p)
                  | None => Raise PortNotFound
                  end
      | KStr n => match find (fun p => N.eqb n (lp_name p)) ports with
                  | Some p => Ok (lp_methods p)
                  | None => Raise PortNotFound
                  end
      end
  end.

Definition ps_dp (o : options) (ports : list lport) : res (option methods) :=
  match opt_port o with
  | None => Ok None
  | Some dp => bind (ps_find ports dp) (fun m => Ok (Some m))
  end.

(* ---- MethodSelector ---- *)

(* __getitem__: m = self.__methods.get(name); if m is None:
   qn = ".".join((self.__qn, name)) -- TypeError for an int -- raise
   MethodNotFound(qn). *)
Definition ms_getitem (ms : methods) (k : key) : res method :=
  match k with
  | KStr n => match dict_get n ms with
              | Some m => Ok m
              | None => Raise MethodNotFound
              end
  | KInt _ => Raise TypeError
  end.

Definition ms_getattr (ms : methods) (n : name) : res method := ms_getitem ms (KStr n).

(* PortSelector.__getattr__ *)
Definition ps_getattr (o : options) (ports : list lport) (n : name) : res method :=
  bind (ps_dp o ports) (fun default =>
  bind (match default with
        | None => ps_find ports (KInt 0)
        | Some m => Ok m
        end) (fun m => ms_getattr m n)).

(* PortSelector.__getitem__ *)
Definition ps_getitem (o : options) (ports : list lport) (k : key) : res methods :=
  bind (ps_dp o ports) (fun default =>
  match default with
  | None => ps_find ports k
  | Some m => Ok m
  end).

(* The objects an expression can evaluate to. *)
Inductive value :=
| VService                      (* client.service *)
| VPorts (ps : list lport)      (* a PortSelector *)
| VMethods (ms : methods)       (* a MethodSelector *)
| VMethod (m : method).         (* a Method wrapper *)

(* ServiceSelector.__getattr__ *)
Definition ss_getattr (o : options) (svcs : list lservice) (n : name) : res method :=
  bind (ss_ds o svcs) (fun default =>
  bind (match default with
        | None => ss_find svcs (KInt 0)
        | Some p => Ok p
        end) (fun port => ps_getattr o port n)).

(* ServiceSelector.__getitem__ *)
Definition ss_getitem (o : options) (svcs : list lservice) (k : key) : res value :=
  if Nat.eqb (length svcs) 1 then
    bind (ss_find svcs (KInt 0)) (fun port =>
    bind (ps_getitem o port k) (fun m => Ok (VMethods m)))
  else
    bind (ss_ds o svcs) (fun default =>
    match default with
    | Some port => bind (ps_getitem o port k) (fun m => Ok (VMethods m))
    | None => bind (ss_find svcs k) (fun p => Ok (VPorts p))
    end).

(* One step of an expression.  A Method has no such attributes and is not
   subscriptable. *)
Definition eval_step (o : options) (svcs : list lservice) (v : value) (s : step) : res value :=
  match v, s with
  | VService, Attr n => bind (ss_getattr o svcs n) (fun m => Ok (VMethod m))
  | VService, Item k => ss_getitem o svcs k
  | VPorts ps, Attr n => bind (ps_getattr o ps n) (fun m => Ok (VMethod m))
  | VPorts ps, Item k => bind (ps_getitem o ps k) (fun m => Ok (VMethods m))
  | VMethods ms, Attr n => bind (ms_getattr ms n) (fun m => Ok (VMethod m))
  | VMethods ms, Item k => bind (ms_getitem ms k) (fun m => Ok (VMethod m))
  | VMethod _, Attr _ => Raise AttributeError
  | VMethod _, Item _ => Raise TypeError
  end.

Fixpoint eval (o : options) (svcs : list lservice) (v : value) (e : list step) : res value :=
  match e with
  | [] => Ok v
  | s :: r => bind (eval_step o svcs v s) (fun v' => eval o svcs v' r)
  end.

(* What the recording transport sees / what the caller gets. *)
Inductive outcome :=
| OSent (url action : name) (root : name * name)   (* one request *)
| ORaise (e : exn)
| OSelector          (* the expression is not callable: a selector object *)
| OLoadFail          (* Client(...) raised *)
| OWeird (c : N).    (* anything else the harness saw (never the model) *)

(* _SoapClient.__location: options.location when set, else method.location *)
Definition location (o : options) (m : method) : name :=
  match opt_location o with Some l => l | None => m_loc m end.

(* first child of the SOAP Body: the message part's element for a document
   binding, the operation name in the soap:body namespace for rpc *)
Definition body_root (tns : name) (m : method) : name * name :=
  match m_style m with
  | Doc => (tns, m_elem m)
  | Rpc => (m_ns m, m_name m)
  end.

Definition invoke (tns : name) (o : options) (r : res value) : outcome :=
  match r with
  | Raise e => ORaise e
  | Ok (VMethod m) => OSent (location o m) (m_action m) (body_root tns m)
  | Ok _ => OSelector
  end.

Definition run (W : wsdl) (o : options) (e : list step) : outcome :=
  match load W with
  | None => OLoadFail
  | Some svcs => invoke (w_tns W) o (eval o svcs VService e)
  end.

(* ------------------------------------------------------------------ *)
(* PART 4: the specification                                           *)
(* ------------------------------------------------------------------ *)

(* What the property text fixes for one selection:
   SRoute  exactly this request;
   SRaise  exactly this exception class (one of the three of the text);
   SFail   no request may be sent (the text names no class: no services or
           ports at all, an index where a method name belongs, a step
           applied to an operation, a WSDL whose port names no binding);
   SNoCall the expression denotes a selector, not an operation. *)
Inductive sout :=
| SRoute (url action : name) (root : name * name)
| SRaise (e : exn)
| SFail
| SNoCall.

(* the declared binding of a port; a port counts when it is a SOAP port *)
Definition binding_of (W : wsdl) (p : portdecl) : option binding :=
  find (fun b => N.eqb (p_binding p) (b_name b)) (w_bindings W).

Definition is_soap_port (W : wsdl) (p : portdecl) : bool :=
  match binding_of W p with
  | Some b => match b_soap b with Some _ => true | None => false end
  | None => false
  end.

Definition soap_ports (W : wsdl) (s : service) : list portdecl :=
  filter (is_soap_port W) (s_ports s).

(* every port names a declared binding *)
Definition loadable (W : wsdl) : bool :=
  forallb (fun s => forallb (fun p => match binding_of W p with Some _ => true | None => false end)
                            (s_ports s)) (w_services W).

(* "by name or index": the first item of that name; the item at that
   position, negative positions counting from the end *)
Definition pick {A} (nm : A -> name) (l : list A) (k : key) : option A :=
  match k with
  | KStr n => find (fun x => N.eqb n (nm x)) l
  | KInt z =>
      let len := Z.of_nat (length l) in
      if (0 <=? z) && (z <? len) then nth_error l (Z.to_nat z)
      else if (z <? 0) && (0 <=? z + len) then nth_error l (Z.to_nat (z + len))
      else None
  end.

(* the request the WSDL declares for operation n of port p *)
Definition declared (W : wsdl) (o : options) (p : portdecl) (n : name) : sout :=
  match binding_of W p with
  | None => SFail
  | Some b =>
      match b_soap b, find (fun op => N.eqb n (o_name op)) (b_ops b) with
      | Some bst, Some op =>
          let url := match opt_location o with Some l => l | None => p_loc p end in
          let action := match o_action op with Some a => a | None => 0%N end in
          let st := match o_style op with Some s => s | None => bst end in
          let root := match st with
                      | Doc => (w_tns W, o_elem op)
                      | Rpc => (match o_ns op with Some ns => ns | None => w_tns W end, n)
                      end in
          SRoute url action root
      | Some _, None => SRaise MethodNotFound
      | None, _ => SFail
      end
  end.

(* an operation was reached; anything applied to it is not a selection *)
Definition finish (rest : list step) (r : sout) : sout :=
  match rest with [] => r | _ => match r with SRoute _ _ _ => SFail | _ => r end end.

(* the port of service s: the default port when the option is set (it
   overrides a subscript), else the subscript, else the first one *)
Definition the_port (W : wsdl) (o : options) (s : service) (sub : option key) : sout + portdecl :=
  let ports := soap_ports W s in
  match ports with
  | [] => inl SFail
  | _ =>
      let k := match opt_port o, sub with
               | Some dp, _ => dp
               | None, Some k => k
               | None, None => KInt 0
               end in
      match pick p_name ports k with
      | Some p => inr p
      | None => inl (SRaise PortNotFound)
      end
  end.

(* ... then the operation, named by attribute or by string subscript *)
Definition op_level (W : wsdl) (o : options) (p : portdecl) (rest : list step) : sout :=
  match rest with
  | [] => SNoCall
  | Attr n :: rest' => finish rest' (declared W o p n)
  | Item (KStr n) :: rest' => finish rest' (declared W o p n)
  | Item (KInt _) :: _ => SFail
  end.

(* a subscript k at port level *)
Definition port_level (W : wsdl) (o : options) (s : service) (k : key) (rest : list step) : sout :=
  match the_port W o s (Some k) with
  | inl r => r
  | inr p => op_level W o p rest
  end.

(* attribute access at service or port level names the operation *)
Definition attr_level (W : wsdl) (o : options) (s : service) (n : name) (rest : list step) : sout :=
  match the_port W o s None with
  | inl r => r
  | inr p => finish rest (declared W o p n)
  end.

(* the service in force without a subscript: the default service when the
   option is set, else the first *)
Definition the_service (W : wsdl) (o : options) : sout + service :=
  match w_services W with
  | [] => inl SFail
  | first :: _ =>
      match opt_service o with
      | None => inr first
      | Some ds => match pick s_name (w_services W) ds with
                   | Some s => inr s
                   | None => inl (SRaise ServiceNotFound)
                   end
      end
  end.

Definition route (W : wsdl) (o : options) (e : list step) : sout :=
  if negb (loadable W) then SFail else
  match e with
  | [] => SNoCall
  | Attr n :: rest =>
      (* attribute access: default/first service, default/first port *)
      match the_service W o with
      | inl r => r
      | inr s => attr_level W o s n rest
      end
  | Item k :: rest =>
      match w_services W with
      | [] => SFail
      | [only] => port_level W o only k rest   (* single service: k selects a port *)
      | _ =>
          match opt_service o with
          | Some _ =>                                    (* default service: k selects a port *)
              match the_service W o with
              | inl r => r
              | inr s => port_level W o s k rest
              end
          | None =>                                      (* k selects the service *)
              match pick s_name (w_services W) k with
              | None => SRaise ServiceNotFound
              | Some s =>
                  match rest with
                  | [] => SNoCall
                  | Attr n :: rest' => attr_level W o s n rest'
                  | Item k' :: rest' => port_level W o s k' rest'
                  end
              end
          end
      end
  end.

(* does an outcome meet what the text fixes? *)
Definition pair_eqb (a b : name * name) : bool :=
  N.eqb (fst a) (fst b) && N.eqb (snd a) (snd b).

Definition sat (s : sout) (x : outcome) : bool :=
  match s, x with
  | SRoute u a r, OSent u' a' r' => N.eqb u u' && N.eqb a a' && pair_eqb r r'
  | SRaise e, ORaise e' => exn_eqb e e'
  | SFail, ORaise _ => true
  | SFail, OLoadFail => true
  | SNoCall, OSelector => true
  | _, _ => false
  end.

(* Well-formedness the text presupposes ("the binding", "the operation"):
   binding names are distinct, operation names distinct within a binding. *)
Fixpoint nodup_names (l : list name) : bool :=
  match l with
  | [] => true
  | x :: r => negb (existsb (N.eqb x) r) && nodup_names r
  end.

Definition wf (W : wsdl) : bool :=
  nodup_names (map b_name (w_bindings W)) &&
  forallb (fun b => nodup_names (map o_name (b_ops b))) (w_bindings W).

(* ------------------------------------------------------------------ *)
(* PART 5: several clients over one WSDL                               *)
(* ------------------------------------------------------------------ *)

(* Client 0 is the one constructed from the WSDL; clone() appends a client
   whose options are a copy of the cloned client's options at that moment
   (Client.clone: deepcopy of the option values); the WSDL is shared. *)
Inductive event :=
| ESetService (c : nat) (v : option key)
| ESetPort (c : nat) (v : option key)
| ESetLocation (c : nat) (v : option name)
| EClone (c : nat)
| ECall (c : nat) (e : list step).

Definition world := list options.

Definition no_options : options := mkO None None None.

Fixpoint upd (ws : world) (c : nat) (f : options -> options) : world :=
  match ws, c with
  | [], _ => []
  | o :: r, O => f o :: r
  | o :: r, S c' => o :: upd r c' f
  end.

Definition set_service v (o : options) := mkO v (opt_port o) (opt_location o).
Definition set_port v (o : options) := mkO (opt_service o) v (opt_location o).
Definition set_location v (o : options) := mkO (opt_service o) (opt_port o) v.

Definition world_call (W : wsdl) (ws : world) (c : nat) (e : list step) : outcome :=
  match nth_error ws c with
  | Some o => run W o e
  | None => OWeird 0
  end.

Definition world_step (W : wsdl) (ws : world) (ev : event) : world * option outcome :=
  match ev with
  | ESetService c v => (upd ws c (set_service v), None)
  | ESetPort c v => (upd ws c (set_port v), None)
  | ESetLocation c v => (upd ws c (set_location v), None)
  | EClone c => (match nth_error ws c with Some o => ws ++ [o] | None => ws end, None)
  | ECall c e => (ws, Some (world_call W ws c e))
  end.

Fixpoint world_run (W : wsdl) (ws : world) (evs : list event) : list outcome :=
  match evs with
  | [] => []
  | ev :: r =>
      let '(ws', out) := world_step W ws ev in
      match out with
      | Some x => x :: world_run W ws' r
      | None => world_run W ws' r
      end
  end.

(* ------------------------------------------------------------------ *)
(* PART 6: what the harness evaluates                                  *)
(* ------------------------------------------------------------------ *)

Definition outcome_eqb (a b : outcome) : bool :=
  match a, b with
  | OSent u x r, OSent u' x' r' => N.eqb u u' && N.eqb x x' && pair_eqb r r'
  | ORaise e, ORaise e' => exn_eqb e e'
  | OSelector, OSelector => true
  | OLoadFail, OLoadFail => true
  | _, _ => false       (* OWeird never agrees *)
  end.

(* one selection: the WSDL, the client's options, the expression, and what
   the implementation did *)
Definition sel_case := (wsdl * options * list step * outcome)%type.

Definition sel_agrees (c : sel_case) : bool :=
  let '(W, o, e, x) := c in outcome_eqb (run W o e) x.

Definition sel_spec_ok (c : sel_case) : bool :=
  let '(W, o, e, x) := c in wf W && sat (route W o e) x.

Definition selection := (options * list step * outcome)%type.

(* the same, many selections over one WSDL at a time (cheaper to check) *)
Definition sel_group := (wsdl * list selection)%type.

Definition grp_agrees (g : sel_group) : bool :=
  let '(W, l) := g in forallb (fun s => let '(o, e, x) := s in sel_agrees (W, o, e, x)) l.

Definition grp_spec_ok (g : sel_group) : bool :=
  let '(W, l) := g in forallb (fun s => let '(o, e, x) := s in sel_spec_ok (W, o, e, x)) l.

(* a history over several clients: the events, and for every ECall in order
   the options the harness itself had put on that client, the expression
   and what the implementation did *)
Definition hist_case := (wsdl * list event * list selection)%type.

Definition hist_agrees (c : hist_case) : bool :=
  let '(W, evs, l) := c in
  list_eqb outcome_eqb (world_run W [no_options] evs) (map snd l).

Definition hist_spec_ok (c : hist_case) : bool :=
  let '(W, evs, l) := c in
  wf W && forallb (fun s => let '(o, e, x) := s in sat (route W o e) x) l.
