(* C10 - Service, port and method selection is deterministic and matches the
   WSDL.  Property theorems only: each is closed by `exact` of a lemma proved
   in Proofs.v and followed by Print Assumptions.

   Model.v: `run W o e` is what a client over the WSDL W with options o does
   for the selector expression e (the three selector classes of
   suds/client.py statement by statement, after the load step of
   suds/wsdl.py); `route W o e` is what the property text fixes, computed
   from the declarations.  All theorems hold for ANY number of services,
   ports, bindings and operations and expressions of ANY depth. *)
From SV Require Import Lib.Base C10.Model C10.Proofs.
Local Open Scope Z_scope.

(* The refinement.  wf: binding names distinct, operation names distinct
   within a binding ("the" binding, "the" operation of the text). *)
Theorem select_correct : forall W o e, wf W = true -> sat (route W o e) (run W o e) = true.
Proof. exact select_correct_l. Qed.
Print Assumptions select_correct.

(* Never falls through to something undeclared - no hypothesis at all:
   every request that leaves belongs to a declared service/port/operation
   triple (that port's address unless the location option is set, that
   operation's action, style and body root). *)
Theorem routed_request_is_declared : forall W o e u a r,
  run W o e = OSent u a r ->
  exists s p b bst op,
    In s (w_services W) /\ In p (s_ports s) /\
    find_binding (w_bindings W) (p_binding p) = Some b /\ b_soap b = Some bst /\
    In op (b_ops b) /\
    u = match opt_location o with Some l => l | None => p_loc p end /\
    a = match o_action op with Some x => x | None => 0%N end /\
    r = body_root (w_tns W) (mk_method (w_tns W) bst (p_loc p) op).
Proof. exact routed_request_is_declared_l. Qed.
Print Assumptions routed_request_is_declared.

(* Unknown service: an explicit key ... *)
Theorem unknown_service_raises : forall W o k rest,
  wf W = true -> loadable W = true ->
  (2 <= length (w_services W))%nat -> opt_service o = None ->
  pick s_name (w_services W) k = None ->
  run W o (Item k :: rest) = ORaise ServiceNotFound.
Proof. exact unknown_service_raises_l. Qed.
Print Assumptions unknown_service_raises.

(* ... or the default service option. *)
Theorem unknown_default_service_raises : forall W o ds n k rest,
  wf W = true -> loadable W = true ->
  opt_service o = Some ds -> pick s_name (w_services W) ds = None ->
  w_services W <> [] ->
  run W o (Attr n :: rest) = ORaise ServiceNotFound /\
  ((2 <= length (w_services W))%nat -> run W o (Item k :: rest) = ORaise ServiceNotFound).
Proof. exact unknown_default_service_raises_l. Qed.
Print Assumptions unknown_default_service_raises.

(* Unknown port: the key in force is the default port option when set, else
   the subscript. *)
Theorem unknown_port_raises : forall W o ks s kp rest,
  wf W = true -> loadable W = true ->
  (2 <= length (w_services W))%nat -> opt_service o = None ->
  pick s_name (w_services W) ks = Some s ->
  soap_ports W s <> [] ->
  pick p_name (soap_ports W s) (match opt_port o with Some dp => dp | None => kp end) = None ->
  run W o (Item ks :: Item kp :: rest) = ORaise PortNotFound.
Proof. exact unknown_port_raises_l. Qed.
Print Assumptions unknown_port_raises.

Theorem unknown_default_port_raises : forall W o ks s dp n rest,
  wf W = true -> loadable W = true ->
  (2 <= length (w_services W))%nat -> opt_service o = None ->
  pick s_name (w_services W) ks = Some s ->
  soap_ports W s <> [] -> opt_port o = Some dp ->
  pick p_name (soap_ports W s) dp = None ->
  run W o (Item ks :: Attr n :: rest) = ORaise PortNotFound.
Proof. exact unknown_default_port_raises_l. Qed.
Print Assumptions unknown_default_port_raises.

(* Unknown operation of the selected port's binding. *)
Theorem unknown_method_raises : forall W o ks s kp p b n st rest,
  wf W = true -> loadable W = true ->
  (2 <= length (w_services W))%nat -> opt_service o = None -> opt_port o = None ->
  pick s_name (w_services W) ks = Some s ->
  pick p_name (soap_ports W s) kp = Some p ->
  binding_of W p = Some b ->
  find (fun op => N.eqb n (o_name op)) (b_ops b) = None ->
  st = Attr n \/ st = Item (KStr n) ->
  run W o (Item ks :: Item kp :: st :: rest) = ORaise MethodNotFound.
Proof. exact unknown_method_raises_l. Qed.
Print Assumptions unknown_method_raises.

(* service[ks][kp].n reaches exactly the declared endpoint, action and
   binding style of that service/port pair. *)
Theorem explicit_pair_exact : forall W o ks s kp p b bst n op st,
  wf W = true -> loadable W = true ->
  (2 <= length (w_services W))%nat -> opt_service o = None -> opt_port o = None ->
  pick s_name (w_services W) ks = Some s ->
  pick p_name (soap_ports W s) kp = Some p ->
  binding_of W p = Some b -> b_soap b = Some bst ->
  find (fun op => N.eqb n (o_name op)) (b_ops b) = Some op ->
  st = Attr n \/ st = Item (KStr n) ->
  run W o [Item ks; Item kp; st] =
  OSent (match opt_location o with Some l => l | None => p_loc p end)
        (match o_action op with Some a => a | None => 0%N end)
        (match (match o_style op with Some x => x | None => bst end) with
         | Doc => (w_tns W, o_elem op)
         | Rpc => (match o_ns op with Some ns => ns | None => w_tns W end, n)
         end).
Proof. exact explicit_pair_exact_l. Qed.
Print Assumptions explicit_pair_exact.

(* A default port overrides subscripts (no hypothesis on the WSDL). *)
Theorem default_port_overrides_subscript : forall W o dp,
  opt_port o = Some dp ->
  (forall svcs ps k k', eval_step o svcs (VPorts ps) (Item k) = eval_step o svcs (VPorts ps) (Item k')) /\
  (forall ks k k' rest,
     opt_service o = None -> length (w_services W) <> 1%nat ->
     run W o (Item ks :: Item k :: rest) = run W o (Item ks :: Item k' :: rest)) /\
  (forall k k' rest,
     opt_service o <> None \/ length (w_services W) = 1%nat ->
     run W o (Item k :: rest) = run W o (Item k' :: rest)).
Proof. exact default_port_overrides_subscript_l. Qed.
Print Assumptions default_port_overrides_subscript.

(* With a single service the first subscript selects a port. *)
Theorem single_service_subscript_is_port : forall W o s k rest,
  wf W = true -> loadable W = true -> w_services W = [s] ->
  sat (port_level W o s k rest) (run W o (Item k :: rest)) = true.
Proof. exact single_service_subscript_is_port_l. Qed.
Print Assumptions single_service_subscript_is_port.

(* ... and so it does with a default service, in that service. *)
Theorem default_service_subscript_is_port : forall W o ds s k rest,
  wf W = true -> loadable W = true -> (2 <= length (w_services W))%nat ->
  opt_service o = Some ds -> pick s_name (w_services W) ds = Some s ->
  sat (port_level W o s k rest) (run W o (Item k :: rest)) = true.
Proof. exact default_service_subscript_is_port_l. Qed.
Print Assumptions default_service_subscript_is_port.

(* Attribute access: default service when set else the first; default port
   when set else the first SOAP port (attr_level); an unknown default raises. *)
Theorem attribute_access_uses_defaults : forall W o n rest,
  wf W = true -> loadable W = true ->
  match the_service W o with
  | inr s => sat (attr_level W o s n rest) (run W o (Attr n :: rest)) = true
  | inl r => sat r (run W o (Attr n :: rest)) = true
  end.
Proof. exact attribute_access_uses_defaults_l. Qed.
Print Assumptions attribute_access_uses_defaults.

(* First service and first port by default. *)
Theorem first_service_first_port_by_default : forall W o n s r p r',
  wf W = true -> loadable W = true ->
  opt_service o = None -> opt_port o = None ->
  w_services W = s :: r -> soap_ports W s = p :: r' ->
  sat (declared W o p n) (run W o [Attr n]) = true.
Proof. exact first_service_first_port_by_default_l. Qed.
Print Assumptions first_service_first_port_by_default.

(* The location option replaces the URL and changes nothing else. *)
Theorem location_changes_url_only : forall W o v e,
  match run W (set_location None o) e with
  | OSent u a r =>
      run W (set_location v o) e = OSent (match v with Some l => l | None => u end) a r
  | x => run W (set_location v o) e = x
  end.
Proof. exact location_changes_url_only_l. Qed.
Print Assumptions location_changes_url_only.

(* ... and only for the client it is set on (any option, any client). *)
Theorem location_override_local : forall W ws i j f e,
  i <> j -> world_call W (upd ws i f) j e = world_call W ws j e.
Proof. exact location_override_local_l. Qed.
Print Assumptions location_override_local.

Theorem clone_snapshot_independent : forall W ws c o e,
  nth_error ws c = Some o ->
  let ws1 := fst (world_step W ws (EClone c)) in
  let k := length ws in
  world_call W ws1 k e = world_call W ws c e /\
  world_call W ws1 c e = world_call W ws c e /\
  (forall f, world_call W (upd ws1 c f) k e = world_call W ws c e) /\
  (forall f, world_call W (upd ws1 k f) c e = world_call W ws c e).
Proof. exact clone_snapshot_independent_l. Qed.
Print Assumptions clone_snapshot_independent.

(* Deterministic: a function of the WSDL, the client's own options and the
   expression. *)
Theorem selection_deterministic : forall W ws ws' c c' e,
  nth_error ws c = nth_error ws' c' -> world_call W ws c e = world_call W ws' c' e.
Proof. exact selection_deterministic_l. Qed.
Print Assumptions selection_deterministic.

(* ------------------------------------------------------------------ *)
(* non-vacuity: a WSDL with two services, a non-SOAP port interleaved,  *)
(* two SOAP bindings sharing the operation name 8                       *)
(* ------------------------------------------------------------------ *)

Definition exW : wsdl :=
  mkW 1%N
      [mkB 20 (Some Rpc) [mkOp 8 (Some 31%N) None (Some 40%N) 50; mkOp 9 None (Some Doc) None 51];
       mkB 21 None [mkOp 7 None None None 0];
       mkB 22 (Some Doc) [mkOp 7 (Some 32%N) None None 52; mkOp 8 (Some 33%N) None None 53]]%N
      [mkS 2 [mkP 5 22 60; mkP 6 21 61; mkP 4 20 62]; mkS 3 [mkP 5 20 63]]%N.

Definition exO : options := mkO None None None.

Example select_correct_nonvacuous :
  wf exW = true /\ loadable exW = true /\
  run exW exO [Item (KStr 2%N); Item (KInt (-1)); Attr 8%N] = OSent 62%N 31%N (40%N, 8%N) /\
  run exW exO [Attr 8%N] = OSent 60%N 33%N (1%N, 53%N) /\
  run exW (mkO (Some (KInt 1)) None (Some 99%N)) [Item (KStr 5%N); Item (KStr 9%N)]
    = OSent 99%N 0%N (1%N, 51%N).
Proof. vm_compute. repeat split. Qed.

Example unknown_names_nonvacuous :
  (2 <= length (w_services exW))%nat /\
  pick s_name (w_services exW) (KInt 2) = None /\
  pick s_name (w_services exW) (KStr 5%N) = None /\
  run exW exO [Item (KInt 2); Attr 8%N] = ORaise ServiceNotFound /\
  (* the non-SOAP port 6 is not addressable; index 1 is the third declared port *)
  run exW exO [Item (KInt 0); Item (KStr 6%N); Attr 7%N] = ORaise PortNotFound /\
  run exW exO [Item (KInt 0); Item (KInt 1); Attr 8%N] = OSent 62%N 31%N (40%N, 8%N) /\
  run exW exO [Item (KInt 0); Item (KInt 2); Attr 8%N] = ORaise PortNotFound /\
  run exW exO [Item (KInt 1); Item (KInt 0); Attr 7%N] = ORaise MethodNotFound /\
  run exW (mkO (Some (KStr 9%N)) None None) [Attr 8%N] = ORaise ServiceNotFound /\
  run exW (mkO None (Some (KInt 1)) None) [Item (KInt 1); Attr 8%N] = ORaise PortNotFound.
Proof. vm_compute. repeat split; lia. Qed.

Example explicit_pair_exact_nonvacuous :
  exists s p b op,
    pick s_name (w_services exW) (KInt (-2)) = Some s /\
    pick p_name (soap_ports exW s) (KStr 4%N) = Some p /\
    binding_of exW p = Some b /\ b_soap b = Some Rpc /\
    find (fun op => N.eqb 9%N (o_name op)) (b_ops b) = Some op /\
    run exW exO [Item (KInt (-2)); Item (KStr 4%N); Item (KStr 9%N)] = OSent 62%N 0%N (1%N, 51%N).
Proof. repeat eexists; vm_compute; reflexivity. Qed.

Example default_port_nonvacuous :
  let o := mkO None (Some (KStr 4%N)) None in
  run exW o [Item (KInt 0); Item (KStr 5%N); Attr 8%N] = OSent 62%N 31%N (40%N, 8%N) /\
  run exW o [Item (KInt 0); Item (KInt 7); Attr 8%N] = OSent 62%N 31%N (40%N, 8%N).
Proof. vm_compute. split; reflexivity. Qed.

Example single_service_nonvacuous :
  let W := mkW 1%N (w_bindings exW) [mkS 2 [mkP 5 22 60; mkP 6 21 61; mkP 4 20 62]]%N in
  wf W = true /\ loadable W = true /\
  run W exO [Item (KStr 4%N); Attr 8%N] = OSent 62%N 31%N (40%N, 8%N) /\
  run W exO [Item (KStr 2%N); Attr 8%N] = ORaise PortNotFound.
Proof. vm_compute. repeat split. Qed.

Example clients_nonvacuous :
  let evs := [ESetLocation 0 (Some 99%N); EClone 0; ESetLocation 0 None; ESetService 1 (Some (KInt 1));
              ECall 0 [Attr 8%N]; ECall 1 [Attr 8%N]] in
  world_run exW [no_options] evs = [OSent 60%N 33%N (1%N, 53%N); OSent 99%N 31%N (40%N, 8%N)].
Proof. vm_compute. reflexivity. Qed.

Example defaults_nonvacuous :
  exists s p, w_services exW = s :: [mkS 3 [mkP 5 20 63]]%N /\ soap_ports exW s = p :: [mkP 4 20 62]%N /\
    declared exW exO p 7%N = SRoute 60%N 32%N (1%N, 52%N) /\
    run exW exO [Attr 7%N] = OSent 60%N 32%N (1%N, 52%N) /\
    (* default service 3 (by name): the subscript is a port key there *)
    run exW (mkO (Some (KStr 3%N)) None None) [Item (KInt 0); Attr 8%N] = OSent 63%N 31%N (40%N, 8%N) /\
    run exW (mkO (Some (KStr 3%N)) None None) [Item (KStr 2%N); Attr 8%N] = ORaise PortNotFound.
Proof. repeat eexists; vm_compute; reflexivity. Qed.
