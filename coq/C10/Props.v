(* C10 - property theorems (being built: see Proofs.v). *)
From SV Require Import Lib.Base C10.Model.
