(* C10 - lemmas (names end in _l) behind coq/C10/Props.v. *)
From SV Require Import Lib.Base C10.Model.
From Coq Require Import ZifyBool ZifyNat ZifyN.
Local Open Scope Z_scope.

(* ------------------------------------------------------------------ *)
(* generic                                                             *)
(* ------------------------------------------------------------------ *)

Lemma bind_assoc {A B C} (a : res A) (f : A -> res B) (g : B -> res C) :
  bind (bind a f) g = bind a (fun x => bind (f x) g).
Proof. destruct a; reflexivity. Qed.

Lemma exn_eqb_refl e : exn_eqb e e = true.
Proof. destruct e; reflexivity. Qed.

Lemma exn_eqb_eq a b : exn_eqb a b = true -> a = b.
Proof. destruct a, b; simpl; congruence. Qed.

Lemma pair_eqb_refl p : pair_eqb p p = true.
Proof. destruct p; unfold pair_eqb; simpl. rewrite !N.eqb_refl. reflexivity. Qed.

Lemma pair_eqb_eq a b : pair_eqb a b = true -> a = b.
Proof.
  destruct a, b; unfold pair_eqb; simpl. intro H.
  apply andb_true_iff in H as [H1 H2]. apply N.eqb_eq in H1, H2. congruence.
Qed.

Lemma sat_raise_inv e x : sat (SRaise e) x = true -> x = ORaise e.
Proof. destruct x; simpl; try discriminate. intro H. apply exn_eqb_eq in H. congruence. Qed.

Lemma sat_route_inv u a r x : sat (SRoute u a r) x = true -> x = OSent u a r.
Proof.
  destruct x; simpl; try discriminate. intro H.
  apply andb_true_iff in H as [H H3]. apply andb_true_iff in H as [H1 H2].
  apply N.eqb_eq in H1, H2. apply pair_eqb_eq in H3. congruence.
Qed.

Lemma sat_nocall_inv x : sat SNoCall x = true -> x = OSelector.
Proof. destruct x; simpl; try discriminate. reflexivity. Qed.

(* ------------------------------------------------------------------ *)
(* names, bindings, dictionaries                                       *)
(* ------------------------------------------------------------------ *)

Lemma existsb_find_none {A} (nm : A -> name) x (l : list A) :
  existsb (N.eqb x) (map nm l) = false -> find (fun a => N.eqb x (nm a)) l = None.
Proof.
  induction l as [|a l IH]; simpl; intro H; [reflexivity|].
  apply orb_false_iff in H as [H1 H2]. rewrite H1. auto.
Qed.

Lemma find_binding_first_l bs n :
  nodup_names (map b_name bs) = true ->
  find_binding bs n = find (fun b => N.eqb n (b_name b)) bs.
Proof.
  induction bs as [|b r IH]; simpl; intro H; [reflexivity|].
  apply andb_true_iff in H as [H1 H2]. apply negb_true_iff in H1.
  rewrite (IH H2).
  destruct (N.eqb n (b_name b)) eqn:E.
  - apply N.eqb_eq in E. subst n. rewrite (existsb_find_none b_name _ _ H1). reflexivity.
  - destruct (find _ r); reflexivity.
Qed.

Lemma dict_get_set_same {V} k (v : V) d : dict_get k (dict_set k v d) = Some v.
Proof.
  induction d as [|[k' v'] r IH]; simpl.
  - rewrite N.eqb_refl. reflexivity.
  - destruct (N.eqb k k') eqn:E; simpl.
    + rewrite N.eqb_refl. reflexivity.
    + rewrite E. exact IH.
Qed.

Lemma dict_get_set_other {V} k k' (v : V) d :
  N.eqb k' k = false -> dict_get k' (dict_set k v d) = dict_get k' d.
Proof.
  intro H. induction d as [|[k2 v2] r IH]; simpl.
  - rewrite H. reflexivity.
  - destruct (N.eqb k k2) eqn:E; simpl.
    + apply N.eqb_eq in E. subst k2. rewrite H. reflexivity.
    + destruct (N.eqb k' k2); [reflexivity|exact IH].
Qed.

(* with distinct operation names the table holds, under each name, the
   method made from THE operation of that name *)
Lemma add_methods_get_l tns bst loc ops : forall d n,
  nodup_names (map o_name ops) = true ->
  dict_get n (add_methods tns bst loc ops d) =
  match find (fun op => N.eqb n (o_name op)) ops with
  | Some op => Some (mk_method tns bst loc op)
  | None => dict_get n d
  end.
Proof.
  induction ops as [|o r IH]; simpl; intros d n H; [reflexivity|].
  apply andb_true_iff in H as [H1 H2]. apply negb_true_iff in H1.
  rewrite (IH _ _ H2).
  destruct (N.eqb n (o_name o)) eqn:E.
  - apply N.eqb_eq in E. subst n.
    rewrite (existsb_find_none o_name _ _ H1). apply dict_get_set_same.
  - destruct (find _ r); [reflexivity|]. apply dict_get_set_other. exact E.
Qed.

(* without any assumption: whatever the table holds was made from some
   declared operation of that name *)
Lemma add_methods_get_in_l tns bst loc ops : forall d n m,
  dict_get n (add_methods tns bst loc ops d) = Some m ->
  (exists op, In op ops /\ o_name op = n /\ m = mk_method tns bst loc op) \/
  dict_get n d = Some m.
Proof.
  induction ops as [|o r IH]; simpl; intros d n m H; [right; exact H|].
  apply IH in H. destruct H as [[op [Hi [Hn Hm]]]|H].
  - left. exists op. auto.
  - destruct (N.eqb n (o_name o)) eqn:E.
    + apply N.eqb_eq in E. subst n. rewrite dict_get_set_same in H. inversion H; subst.
      left. exists o. auto.
    + rewrite dict_get_set_other in H by exact E. right. exact H.
Qed.

(* ------------------------------------------------------------------ *)
(* indexes                                                             *)
(* ------------------------------------------------------------------ *)

(* the lookup the selectors do, for both kinds of key *)
Definition sel {A} (nm : A -> name) (l : list A) (k : key) : option A :=
  match k with
  | KInt z => py_index l z
  | KStr n => find (fun x => N.eqb n (nm x)) l
  end.

Lemma pick_int_py_l {A} (nm : A -> name) (l : list A) z : pick nm l (KInt z) = py_index l z.
Proof.
  unfold pick, py_index.
  destruct (0 <=? z) eqn:E1, (z <? Z.of_nat (length l)) eqn:E2, (z <? 0) eqn:E3; simpl;
    try lia;
    repeat match goal with
           | |- context [if ?c then _ else _] => let E := fresh "E" in destruct c eqn:E; simpl
           end; try reflexivity; try lia.
Qed.

Lemma pick_sel_same_l {A} (nm : A -> name) (l : list A) k : pick nm l k = sel nm l k.
Proof. destruct k; [apply pick_int_py_l|reflexivity]. Qed.

Lemma pick_first_l {A} (nm : A -> name) (a : A) l : pick nm (a :: l) (KInt 0) = Some a.
Proof.
  unfold pick. simpl length. rewrite Nat2Z.inj_succ.
  replace (0 <=? 0) with true by reflexivity.
  replace (0 <? Z.succ (Z.of_nat (length l))) with true by lia. reflexivity.
Qed.

Lemma Forall2_nth_error_l {A B} (R : A -> B -> Prop) l l' : Forall2 R l l' ->
  forall n, match nth_error l n, nth_error l' n with
            | Some a, Some b => R a b
            | None, None => True
            | _, _ => False
            end.
Proof.
  induction 1 as [|a b l l' Hab H IH]; intros [|n]; simpl; auto. apply IH.
Qed.

Lemma Forall2_len {A B} (R : A -> B -> Prop) l l' : Forall2 R l l' -> length l = length l'.
Proof. induction 1; simpl; congruence. Qed.

(* the same key picks related items in related lists *)
Lemma sel_rel_l {A B} (R : A -> B -> Prop) (nmA : A -> name) (nmB : B -> name) l l' k :
  Forall2 R l l' -> (forall a b, R a b -> nmA a = nmB b) ->
  match sel nmA l k, sel nmB l' k with
  | Some a, Some b => R a b
  | None, None => True
  | _, _ => False
  end.
Proof.
  intros H Hn. destruct k as [z|n]; simpl.
  - unfold py_index. rewrite <- (Forall2_len _ _ _ H).
    destruct ((_ <? 0) || _); [exact I|]. apply Forall2_nth_error_l. exact H.
  - induction H as [|a b l l' Hab H IH]; simpl; [exact I|].
    rewrite <- (Hn _ _ Hab). destruct (N.eqb n (nmA a)); [exact Hab|exact IH].
Qed.

Lemma pick_rel_l {A B} (R : A -> B -> Prop) (nmA : A -> name) (nmB : B -> name) l l' k :
  Forall2 R l l' -> (forall a b, R a b -> nmA a = nmB b) ->
  match pick nmA l k, sel nmB l' k with
  | Some a, Some b => R a b
  | None, None => True
  | _, _ => False
  end.
Proof. rewrite pick_sel_same_l. apply sel_rel_l. Qed.

Lemma nth_error_in {A} (l : list A) n x : nth_error l n = Some x -> In x l.
Proof. apply nth_error_In. Qed.

Lemma py_index_in {A} (l : list A) z x : py_index l z = Some x -> In x l.
Proof.
  unfold py_index. destruct ((_ <? 0) || _); [discriminate|]. apply nth_error_In.
Qed.

Lemma sel_in {A} (nm : A -> name) l k x : sel nm l k = Some x -> In x l.
Proof.
  destruct k; simpl; [apply py_index_in|]. intro H. apply find_some in H. tauto.
Qed.

(* ------------------------------------------------------------------ *)
(* what load produces, relative to the declarations                    *)
(* ------------------------------------------------------------------ *)

Definition has_b (W : wsdl) (p : portdecl) : bool :=
  match binding_of W p with Some _ => true | None => false end.

Definition meth_rel (W : wsdl) (p : portdecl) (ms : methods) : Prop :=
  exists b bst, binding_of W p = Some b /\ b_soap b = Some bst /\
                ms = add_methods (w_tns W) bst (p_loc p) (b_ops b) [].

Definition port_rel (W : wsdl) (p : portdecl) (lp : lport) : Prop :=
  lp_name lp = p_name p /\ meth_rel W p (lp_methods lp).

Definition svc_rel (W : wsdl) (s : service) (ls : lservice) : Prop :=
  ls_name ls = s_name s /\ Forall2 (port_rel W) (soap_ports W s) (ls_ports ls).

Lemma load_ports_char_l W ps :
  nodup_names (map b_name (w_bindings W)) = true ->
  match load_ports (w_tns W) (w_bindings W) ps with
  | Some l => forallb (has_b W) ps = true /\ Forall2 (port_rel W) (filter (is_soap_port W) ps) l
  | None => forallb (has_b W) ps = false
  end.
Proof.
  intro Hn. induction ps as [|p r IH]; simpl; [split; [reflexivity|constructor]|].
  rewrite (find_binding_first_l _ _ Hn).
  assert (Hh : has_b W p =
               match find (fun b => N.eqb (p_binding p) (b_name b)) (w_bindings W) with
               | Some _ => true | None => false end) by reflexivity.
  assert (Hi : is_soap_port W p =
               match find (fun b => N.eqb (p_binding p) (b_name b)) (w_bindings W) with
               | Some b => match b_soap b with Some _ => true | None => false end
               | None => false end) by reflexivity.
  rewrite Hh, Hi. clear Hh Hi.
  destruct (find (fun b => N.eqb (p_binding p) (b_name b)) (w_bindings W)) as [b|] eqn:Eb; simpl.
  - destruct (b_soap b) as [bst|] eqn:Es.
    + destruct (load_ports (w_tns W) (w_bindings W) r) as [l|].
      * destruct IH as [IH1 IH2]. split; [exact IH1|]. constructor; [|exact IH2].
        split; [reflexivity|]. exists b, bst. unfold binding_of. auto.
      * exact IH.
    + exact IH.
  - reflexivity.
Qed.

Lemma load_services_char_l W ss :
  nodup_names (map b_name (w_bindings W)) = true ->
  match load_services (w_tns W) (w_bindings W) ss with
  | Some l => forallb (fun s => forallb (has_b W) (s_ports s)) ss = true /\ Forall2 (svc_rel W) ss l
  | None => forallb (fun s => forallb (has_b W) (s_ports s)) ss = false
  end.
Proof.
  intro Hn. induction ss as [|s r IH]; simpl; [split; [reflexivity|constructor]|].
  pose proof (load_ports_char_l W (s_ports s) Hn) as Hp.
  destruct (load_ports (w_tns W) (w_bindings W) (s_ports s)) as [ps|].
  - destruct Hp as [Hp1 Hp2]. rewrite Hp1. simpl.
    destruct (load_services (w_tns W) (w_bindings W) r) as [l|].
    + destruct IH as [IH1 IH2]. split; [exact IH1|]. constructor; [|exact IH2].
      split; [reflexivity|exact Hp2].
    + exact IH.
  - rewrite Hp. reflexivity.
Qed.

Lemma wf_bindings W : wf W = true -> nodup_names (map b_name (w_bindings W)) = true.
Proof. unfold wf. intro H. apply andb_true_iff in H. tauto. Qed.

Lemma load_char_l W : wf W = true ->
  match load W with
  | Some svcs => loadable W = true /\ Forall2 (svc_rel W) (w_services W) svcs
  | None => loadable W = false
  end.
Proof. intro H. apply (load_services_char_l W (w_services W)). apply wf_bindings. exact H. Qed.

(* ------------------------------------------------------------------ *)
(* the selectors against the text                                      *)
(* ------------------------------------------------------------------ *)

Definition rel_sum {A B} (R : A -> B -> Prop) (x : sout + A) (y : res B) : Prop :=
  match x, y with
  | inl r, Raise e => sat r (ORaise e) = true
  | inr a, Ok b => R a b
  | _, _ => False
  end.

Lemma ss_find_cons_l a l k :
  ss_find (a :: l) k = match sel ls_name (a :: l) k with
                       | Some s => Ok (ls_ports s)
                       | None => Raise ServiceNotFound
                       end.
Proof. destruct k; reflexivity. Qed.

Lemma ps_find_cons_l a l k :
  ps_find (a :: l) k = match sel lp_name (a :: l) k with
                       | Some p => Ok (lp_methods p)
                       | None => Raise PortNotFound
                       end.
Proof. destruct k; reflexivity. Qed.

Definition ss_default_or_first (o : options) (svcs : list lservice) : res (list lport) :=
  bind (ss_ds o svcs) (fun d => match d with None => ss_find svcs (KInt 0) | Some p => Ok p end).

Definition port_sel (o : options) (ports : list lport) (sub : option key) : res methods :=
  bind (ps_dp o ports) (fun d =>
    match d with
    | None => ps_find ports (match sub with Some k => k | None => KInt 0 end)
    | Some m => Ok m
    end).

Lemma svc_rel_name W a b : svc_rel W a b -> s_name a = ls_name b.
Proof. intros [H _]. congruence. Qed.

Lemma port_rel_name W a b : port_rel W a b -> p_name a = lp_name b.
Proof. intros [H _]. congruence. Qed.

Lemma the_service_rel_l W o svcs : Forall2 (svc_rel W) (w_services W) svcs ->
  rel_sum (fun s ps => Forall2 (port_rel W) (soap_ports W s) ps)
          (the_service W o) (ss_default_or_first o svcs).
Proof.
  intro H. unfold the_service, ss_default_or_first, ss_ds.
  destruct H as [|s ls ss lss Hs H].
  - destruct (opt_service o); reflexivity.
  - assert (HF : Forall2 (svc_rel W) (s :: ss) (ls :: lss)) by (constructor; assumption).
    destruct (opt_service o) as [ds|].
    + pose proof (pick_rel_l _ s_name ls_name _ _ ds HF (svc_rel_name W)) as HR.
      rewrite ss_find_cons_l.
      destruct (pick s_name (s :: ss) ds) as [s'|], (sel ls_name (ls :: lss) ds) as [ls'|];
        simpl; try contradiction; [|reflexivity].
      destruct HR as [_ HR]. exact HR.
    + cbn [bind]. rewrite ss_find_cons_l.
      pose proof (pick_rel_l _ s_name ls_name _ _ (KInt 0) HF (svc_rel_name W)) as HR.
      rewrite pick_first_l in HR.
      destruct (sel ls_name (ls :: lss) (KInt 0)) as [ls'|]; [|contradiction].
      simpl. destruct HR as [_ HR]. exact HR.
Qed.

Lemma the_port_rel_l W o s ps sub : Forall2 (port_rel W) (soap_ports W s) ps ->
  rel_sum (meth_rel W) (the_port W o s sub) (port_sel o ps sub).
Proof.
  intro H. unfold the_port, port_sel, ps_dp.
  destruct H as [|p lp pp lpp Hp H].
  - destruct (opt_port o); reflexivity.
  - assert (HF : Forall2 (port_rel W) (p :: pp) (lp :: lpp)) by (constructor; assumption).
    destruct (opt_port o) as [dp|].
    + pose proof (pick_rel_l _ p_name lp_name _ _ dp HF (port_rel_name W)) as HR.
      rewrite ps_find_cons_l.
      destruct (pick p_name (p :: pp) dp) as [p'|], (sel lp_name (lp :: lpp) dp) as [lp'|];
        simpl; try contradiction; [|reflexivity].
      destruct HR as [_ HR]. exact HR.
    + cbn [bind]. rewrite ps_find_cons_l.
      set (k := match sub with Some k => k | None => KInt 0 end).
      pose proof (pick_rel_l _ p_name lp_name _ _ k HF (port_rel_name W)) as HR.
      destruct (pick p_name (p :: pp) k) as [p'|], (sel lp_name (lp :: lpp) k) as [lp'|];
        simpl; try contradiction; [|reflexivity].
      destruct HR as [_ HR]. exact HR.
Qed.

Lemma wf_ops W b : wf W = true -> In b (w_bindings W) -> nodup_names (map o_name (b_ops b)) = true.
Proof.
  unfold wf. intros H Hi. apply andb_true_iff in H as [_ H].
  rewrite forallb_forall in H. apply H. exact Hi.
Qed.

(* an operation named on a port *)
Lemma declared_rel_l W o p ms n rest svcs : wf W = true -> meth_rel W p ms ->
  sat (finish rest (declared W o p n))
      (invoke (w_tns W) o
         (bind (bind (ms_getitem ms (KStr n)) (fun m => Ok (VMethod m)))
               (fun v => eval o svcs v rest))) = true.
Proof.
  intros Hwf [b [bst [Hb [Hs Hm]]]]. subst ms. unfold declared. rewrite Hb, Hs.
  assert (Hin : In b (w_bindings W)) by (unfold binding_of in Hb; apply find_some in Hb; tauto).
  unfold ms_getitem. rewrite (add_methods_get_l _ _ _ _ _ _ (wf_ops W b Hwf Hin)).
  destruct (find (fun op => N.eqb n (o_name op)) (b_ops b)) as [op|] eqn:Ef; simpl.
  - apply find_some in Ef as [_ En]. apply N.eqb_eq in En.
    destruct rest as [|st rest]; simpl.
    + unfold location, body_root, mk_method; simpl.
      destruct (opt_location o); rewrite !N.eqb_refl; simpl;
        destruct (match o_style op with Some s => s | None => bst end); subst n;
        apply pair_eqb_refl.
    + destruct st; reflexivity.
  - destruct rest; simpl; reflexivity.
Qed.

Lemma op_level_rel_l W o p ms rest svcs : wf W = true -> meth_rel W p ms ->
  sat (op_level W o p rest) (invoke (w_tns W) o (eval o svcs (VMethods ms) rest)) = true.
Proof.
  intros Hwf Hm. destruct rest as [|[n|[z|n]] rest]; simpl.
  - reflexivity.
  - apply (declared_rel_l W o p ms n rest svcs Hwf Hm).
  - reflexivity.
  - apply (declared_rel_l W o p ms n rest svcs Hwf Hm).
Qed.

Lemma port_level_rel_l W o s ps k rest svcs : wf W = true ->
  Forall2 (port_rel W) (soap_ports W s) ps ->
  sat (port_level W o s k rest)
      (invoke (w_tns W) o
         (bind (bind (ps_getitem o ps k) (fun m => Ok (VMethods m)))
               (fun v => eval o svcs v rest))) = true.
Proof.
  intros Hwf H. pose proof (the_port_rel_l W o s ps (Some k) H) as HR.
  unfold port_level. change (ps_getitem o ps k) with (port_sel o ps (Some k)).
  destruct (the_port W o s (Some k)) as [r|p], (port_sel o ps (Some k)) as [ms|e];
    simpl in HR; try contradiction; simpl.
  - exact HR.
  - apply op_level_rel_l; assumption.
Qed.

Lemma ps_getattr_port_sel_l o ps n :
  ps_getattr o ps n = bind (port_sel o ps None) (fun m => ms_getattr m n).
Proof.
  unfold ps_getattr, port_sel. rewrite bind_assoc. reflexivity.
Qed.

Lemma attr_level_rel_l W o s ps n rest svcs : wf W = true ->
  Forall2 (port_rel W) (soap_ports W s) ps ->
  sat (attr_level W o s n rest)
      (invoke (w_tns W) o
         (bind (bind (ps_getattr o ps n) (fun m => Ok (VMethod m)))
               (fun v => eval o svcs v rest))) = true.
Proof.
  intros Hwf H. pose proof (the_port_rel_l W o s ps None H) as HR.
  unfold attr_level. rewrite ps_getattr_port_sel_l.
  destruct (the_port W o s None) as [r|p], (port_sel o ps None) as [ms|e];
    simpl in HR; try contradiction; simpl.
  - exact HR.
  - apply (declared_rel_l W o p ms n rest svcs Hwf HR).
Qed.

Lemma ss_getattr_default_l o svcs n :
  ss_getattr o svcs n = bind (ss_default_or_first o svcs) (fun port => ps_getattr o port n).
Proof. unfold ss_getattr, ss_default_or_first. rewrite bind_assoc. reflexivity. Qed.

(* THE refinement: on every well-formed WSDL, for every option setting and
   every expression, the selectors do what the text fixes. *)
Lemma select_correct_l : forall W o e, wf W = true -> sat (route W o e) (run W o e) = true.
Proof.
  intros W o e Hwf. unfold run, route.
  pose proof (load_char_l W Hwf) as HL.
  destruct (load W) as [svcs|]; [|rewrite HL; reflexivity].
  destruct HL as [HL HF]. rewrite HL. simpl negb. cbv iota.
  destruct e as [|[n|k] rest].
  - reflexivity.
  - (* attribute access on client.service *)
    simpl eval. rewrite ss_getattr_default_l.
    pose proof (the_service_rel_l W o svcs HF) as HR.
    destruct (the_service W o) as [r|s], (ss_default_or_first o svcs) as [ps|ex];
      simpl in HR; try contradiction; simpl.
    + exact HR.
    + apply attr_level_rel_l; assumption.
  - (* subscript on client.service *)
    simpl eval. unfold ss_getitem.
    pose proof (the_service_rel_l W o svcs HF) as HR.
    destruct HF as [|s1 l1 ss lss H1 HF].
    + (* no services *)
      simpl. unfold ss_ds. destruct (opt_service o); reflexivity.
    + destruct HF as [|s2 l2 ss lss H2 HF].
      * (* one service: the subscript selects a port *)
        simpl length. simpl Nat.eqb. cbv iota.
        change (ss_find [l1] (KInt 0)) with (Ok (A := list lport) (ls_ports l1)). simpl bind at 2.
        destruct H1 as [_ H1]. apply port_level_rel_l; assumption.
      * (* several services *)
        simpl length. simpl Nat.eqb. cbv iota.
        assert (HF' : Forall2 (svc_rel W) (s1 :: s2 :: ss) (l1 :: l2 :: lss))
          by (constructor; [exact H1|constructor; [exact H2|exact HF]]).
        unfold ss_default_or_first in HR. unfold ss_ds in *.
        destruct (opt_service o) as [ds|] eqn:Eds.
        -- (* default service: the subscript selects a port *)
           destruct (the_service W o) as [r|s] eqn:Ets.
           ++ destruct (ss_find (l1 :: l2 :: lss) ds) as [ps|ex]; simpl in HR; [contradiction|].
              simpl. exact HR.
           ++ destruct (ss_find (l1 :: l2 :: lss) ds) as [ps|ex]; simpl in HR; [|contradiction].
              simpl. apply port_level_rel_l; assumption.
        -- (* the subscript selects the service *)
           simpl bind at 3. rewrite ss_find_cons_l.
           pose proof (pick_rel_l _ s_name ls_name _ _ k HF' (svc_rel_name W)) as HP.
           destruct (pick s_name (s1 :: s2 :: ss) k) as [s|],
                    (sel ls_name (l1 :: l2 :: lss) k) as [ls|]; try contradiction.
           ++ destruct HP as [_ HP]. simpl bind.
              destruct rest as [|[n|k'] rest'].
              ** reflexivity.
              ** simpl eval. apply attr_level_rel_l; assumption.
              ** simpl eval. apply port_level_rel_l; assumption.
           ++ reflexivity.
Qed.

(* ------------------------------------------------------------------ *)
(* corollaries of the refinement: unknown names and indexes            *)
(* ------------------------------------------------------------------ *)

Lemma route_loadable W o e : loadable W = true ->
  route W o e = match e with
  | [] => SNoCall
  | Attr n :: rest =>
      match the_service W o with inl r => r | inr s => attr_level W o s n rest end
  | Item k :: rest =>
      match w_services W with
      | [] => SFail
      | [only] => port_level W o only k rest
      | _ =>
          match opt_service o with
          | Some _ => match the_service W o with inl r => r | inr s => port_level W o s k rest end
          | None =>
              match pick s_name (w_services W) k with
              | None => SRaise ServiceNotFound
              | Some s =>
                  match rest with
                  | [] => SNoCall
                  | Attr n :: rest' => attr_level W o s n rest'
                  | Item k' :: rest' => port_level W o s k' rest'
                  end
              end
          end
      end
  end.
Proof. intro H. unfold route. rewrite H. reflexivity. Qed.

Lemma two_services {A} (l : list A) : (2 <= length l)%nat -> exists a b r, l = a :: b :: r.
Proof. destruct l as [|a [|b r]]; simpl; try lia. eauto. Qed.

(* An explicit service key that names nothing raises ServiceNotFound,
   whatever follows it; so does a default service option naming nothing. *)
Lemma unknown_service_raises_l : forall W o k rest,
  wf W = true -> loadable W = true ->
  (2 <= length (w_services W))%nat -> opt_service o = None ->
  pick s_name (w_services W) k = None ->
  run W o (Item k :: rest) = ORaise ServiceNotFound.
Proof.
  intros W o k rest Hwf Hl H2 Ho Hp. apply sat_raise_inv.
  rewrite <- (select_correct_l W o (Item k :: rest) Hwf) at 1.
  f_equal. rewrite (route_loadable _ _ _ Hl).
  destruct (two_services _ H2) as [a [b [r E]]]. rewrite E in *. rewrite Ho, Hp. reflexivity.
Qed.

Lemma unknown_default_service_raises_l : forall W o ds n k rest,
  wf W = true -> loadable W = true ->
  opt_service o = Some ds -> pick s_name (w_services W) ds = None ->
  w_services W <> [] ->
  run W o (Attr n :: rest) = ORaise ServiceNotFound /\
  ((2 <= length (w_services W))%nat -> run W o (Item k :: rest) = ORaise ServiceNotFound).
Proof.
  intros W o ds n k rest Hwf Hl Ho Hp Hne.
  assert (Hs : the_service W o = inl (SRaise ServiceNotFound)).
  { unfold the_service. destruct (w_services W) as [|a r] eqn:E; [congruence|].
    rewrite Ho, Hp. reflexivity. }
  split; [|intro H2]; apply sat_raise_inv.
  - rewrite <- (select_correct_l W o (Attr n :: rest) Hwf) at 1.
    f_equal. rewrite (route_loadable _ _ _ Hl). rewrite Hs. reflexivity.
  - rewrite <- (select_correct_l W o (Item k :: rest) Hwf) at 1.
    f_equal. rewrite (route_loadable _ _ _ Hl).
    destruct (two_services _ H2) as [a [b [r E]]]. rewrite E in *.
    rewrite Ho, Hs. reflexivity.
Qed.

(* A port key that names no SOAP port of the selected service raises
   PortNotFound (explicit subscript, or the default port option). *)
Lemma unknown_port_raises_l : forall W o ks s kp rest,
  wf W = true -> loadable W = true ->
  (2 <= length (w_services W))%nat -> opt_service o = None ->
  pick s_name (w_services W) ks = Some s ->
  soap_ports W s <> [] ->
  pick p_name (soap_ports W s) (match opt_port o with Some dp => dp | None => kp end) = None ->
  run W o (Item ks :: Item kp :: rest) = ORaise PortNotFound.
Proof.
  intros W o ks s kp rest Hwf Hl H2 Ho Hs Hne Hp. apply sat_raise_inv.
  rewrite <- (select_correct_l W o (Item ks :: Item kp :: rest) Hwf) at 1.
  f_equal. rewrite (route_loadable _ _ _ Hl).
  destruct (two_services _ H2) as [a [b [r E]]]. rewrite E in *. rewrite Ho, Hs.
  unfold port_level, the_port.
  destruct (soap_ports W s) as [|p ps] eqn:Ep; [congruence|].
  destruct (opt_port o); rewrite Hp; reflexivity.
Qed.

Lemma unknown_default_port_raises_l : forall W o ks s dp n rest,
  wf W = true -> loadable W = true ->
  (2 <= length (w_services W))%nat -> opt_service o = None ->
  pick s_name (w_services W) ks = Some s ->
  soap_ports W s <> [] -> opt_port o = Some dp ->
  pick p_name (soap_ports W s) dp = None ->
  run W o (Item ks :: Attr n :: rest) = ORaise PortNotFound.
Proof.
  intros W o ks s dp n rest Hwf Hl H2 Ho Hs Hne Hd Hp. apply sat_raise_inv.
  rewrite <- (select_correct_l W o (Item ks :: Attr n :: rest) Hwf) at 1.
  f_equal. rewrite (route_loadable _ _ _ Hl).
  destruct (two_services _ H2) as [a [b [r E]]]. rewrite E in *. rewrite Ho, Hs.
  unfold attr_level, the_port.
  destruct (soap_ports W s) as [|p ps] eqn:Ep; [congruence|].
  rewrite Hd, Hp. reflexivity.
Qed.

(* An operation name the port's binding does not declare raises
   MethodNotFound, by attribute or by subscript, whatever follows. *)
Lemma unknown_method_raises_l : forall W o ks s kp p b n st rest,
  wf W = true -> loadable W = true ->
  (2 <= length (w_services W))%nat -> opt_service o = None -> opt_port o = None ->
  pick s_name (w_services W) ks = Some s ->
  pick p_name (soap_ports W s) kp = Some p ->
  binding_of W p = Some b ->
  find (fun op => N.eqb n (o_name op)) (b_ops b) = None ->
  st = Attr n \/ st = Item (KStr n) ->
  run W o (Item ks :: Item kp :: st :: rest) = ORaise MethodNotFound.
Proof.
  intros W o ks s kp p b n st rest Hwf Hl H2 Ho Hop Hs Hp Hb Hf Hst. apply sat_raise_inv.
  rewrite <- (select_correct_l W o (Item ks :: Item kp :: st :: rest) Hwf) at 1.
  f_equal. rewrite (route_loadable _ _ _ Hl).
  destruct (two_services _ H2) as [a [b' [r E]]]. rewrite E in *. rewrite Ho, Hs.
  unfold port_level, the_port. rewrite Hop.
  destruct (soap_ports W s) as [|p0 ps] eqn:Ep.
  { destruct kp; simpl in Hp; try discriminate.
    unfold pick in Hp. simpl in Hp.
    destruct ((0 <=? z) && (z <? 0)); [destruct (Z.to_nat z); discriminate|].
    destruct ((z <? 0) && (0 <=? z + 0)); [destruct (Z.to_nat (z + 0)); discriminate|discriminate]. }
  rewrite Hp.
  assert (Hsoap : is_soap_port W p = true).
  { rewrite pick_sel_same_l in Hp. apply sel_in in Hp. rewrite <- Ep in Hp.
    unfold soap_ports in Hp. apply filter_In in Hp. tauto. }
  unfold is_soap_port in Hsoap. rewrite Hb in Hsoap.
  assert (Hd : declared W o p n = SRaise MethodNotFound).
  { unfold declared. rewrite Hb, Hf. destruct (b_soap b); [reflexivity|discriminate]. }
  destruct Hst; subst st; simpl; rewrite Hd; destruct rest; reflexivity.
Qed.

(* The fully explicit expression reaches exactly the declared triple. *)
Lemma explicit_pair_exact_l : forall W o ks s kp p b bst n op st,
  wf W = true -> loadable W = true ->
  (2 <= length (w_services W))%nat -> opt_service o = None -> opt_port o = None ->
  pick s_name (w_services W) ks = Some s ->
  pick p_name (soap_ports W s) kp = Some p ->
  binding_of W p = Some b -> b_soap b = Some bst ->
  find (fun op => N.eqb n (o_name op)) (b_ops b) = Some op ->
  st = Attr n \/ st = Item (KStr n) ->
  run W o [Item ks; Item kp; st] =
  OSent (match opt_location o with Some l => l | None => p_loc p end)
        (match o_action op with Some a => a | None => 0%N end)
        (match (match o_style op with Some x => x | None => bst end) with
         | Doc => (w_tns W, o_elem op)
         | Rpc => (match o_ns op with Some ns => ns | None => w_tns W end, n)
         end).
Proof.
  intros W o ks s kp p b bst n op st Hwf Hl H2 Ho Hop Hs Hp Hb Hbs Hf Hst. apply sat_route_inv.
  rewrite <- (select_correct_l W o [Item ks; Item kp; st] Hwf) at 1.
  f_equal. rewrite (route_loadable _ _ _ Hl).
  destruct (two_services _ H2) as [a [b' [r E]]]. rewrite E in *. rewrite Ho, Hs.
  unfold port_level, the_port. rewrite Hop.
  destruct (soap_ports W s) as [|p0 ps] eqn:Ep.
  { destruct kp; simpl in Hp; try discriminate.
    unfold pick in Hp. simpl in Hp.
    destruct ((0 <=? z) && (z <? 0)); [destruct (Z.to_nat z); discriminate|].
    destruct ((z <? 0) && (0 <=? z + 0)); [destruct (Z.to_nat (z + 0)); discriminate|discriminate]. }
  rewrite Hp.
  assert (Hd : declared W o p n = SRoute
        (match opt_location o with Some l => l | None => p_loc p end)
        (match o_action op with Some a => a | None => 0%N end)
        (match (match o_style op with Some x => x | None => bst end) with
         | Doc => (w_tns W, o_elem op)
         | Rpc => (match o_ns op with Some ns => ns | None => w_tns W end, n)
         end)).
  { unfold declared. rewrite Hb, Hbs, Hf. reflexivity. }
  destruct Hst; subst st; simpl; rewrite Hd; reflexivity.
Qed.

(* With a single service the first subscript is a port key. *)
Lemma single_service_subscript_is_port_l : forall W o s k rest,
  wf W = true -> loadable W = true -> w_services W = [s] ->
  sat (port_level W o s k rest) (run W o (Item k :: rest)) = true.
Proof.
  intros W o s k rest Hwf Hl Hs.
  rewrite <- (select_correct_l W o (Item k :: rest) Hwf) at 1.
  f_equal. rewrite (route_loadable _ _ _ Hl). rewrite Hs. reflexivity.
Qed.

(* ------------------------------------------------------------------ *)
(* nothing is ever sent that the WSDL does not declare (no wf needed)  *)
(* ------------------------------------------------------------------ *)

(* m is the method of a declared (service, port, operation) triple *)
Definition declared_method (W : wsdl) (m : method) : Prop :=
  exists s p b bst op,
    In s (w_services W) /\ In p (s_ports s) /\
    find_binding (w_bindings W) (p_binding p) = Some b /\ b_soap b = Some bst /\
    In op (b_ops b) /\ m = mk_method (w_tns W) bst (p_loc p) op.

Definition good_methods W (ms : methods) : Prop :=
  forall n m, dict_get n ms = Some m -> declared_method W m.
Definition good_ports W (ps : list lport) : Prop :=
  forall lp, In lp ps -> good_methods W (lp_methods lp).
Definition good_services W (svcs : list lservice) : Prop :=
  forall ls, In ls svcs -> good_ports W (ls_ports ls).

Definition good_value W (v : value) : Prop :=
  match v with
  | VService => True
  | VPorts ps => good_ports W ps
  | VMethods ms => good_methods W ms
  | VMethod m => declared_method W m
  end.

Lemma load_ports_good W s : forall ps l,
  In s (w_services W) -> (forall p, In p ps -> In p (s_ports s)) ->
  load_ports (w_tns W) (w_bindings W) ps = Some l -> good_ports W l.
Proof.
  induction ps as [|p r IH]; simpl; intros l Hs Hsub H.
  - inversion H. intros lp [].
  - destruct (find_binding (w_bindings W) (p_binding p)) as [b|] eqn:Eb; [|discriminate].
    destruct (b_soap b) as [bst|] eqn:Es.
    + destruct (load_ports (w_tns W) (w_bindings W) r) as [l'|] eqn:El; [|discriminate].
      inversion H; subst l. intros lp [Hlp|Hlp].
      * subst lp. simpl. intros n m Hg.
        apply add_methods_get_in_l in Hg. destruct Hg as [[op [Hi [_ Hm]]]|Hg]; [|discriminate].
        exists s, p, b, bst, op. repeat split; auto.
      * apply (IH l' Hs (fun q Hq => Hsub q (or_intror Hq)) eq_refl lp Hlp).
    + apply (IH l Hs (fun q Hq => Hsub q (or_intror Hq)) H).
Qed.

Lemma load_services_good W : forall ss l,
  (forall s, In s ss -> In s (w_services W)) ->
  load_services (w_tns W) (w_bindings W) ss = Some l -> good_services W l.
Proof.
  induction ss as [|s r IH]; simpl; intros l Hsub H.
  - inversion H. intros ls [].
  - destruct (load_ports (w_tns W) (w_bindings W) (s_ports s)) as [ps|] eqn:Ep; [|discriminate].
    destruct (load_services (w_tns W) (w_bindings W) r) as [l'|] eqn:El; [|discriminate].
    inversion H; subst l. intros ls [Hls|Hls].
    + subst ls. simpl. apply (load_ports_good W s (s_ports s) ps); auto.
    + apply (IH l' (fun q Hq => Hsub q (or_intror Hq)) eq_refl ls Hls).
Qed.

Lemma ss_find_good W svcs k ps : good_services W svcs -> ss_find svcs k = Ok ps -> good_ports W ps.
Proof.
  intros Hg H. destruct svcs as [|a l]; [discriminate|]. rewrite ss_find_cons_l in H.
  destruct (sel ls_name (a :: l) k) as [s|] eqn:E; [|discriminate].
  inversion H; subst ps. apply Hg. apply (sel_in _ _ _ _ E).
Qed.

Lemma ps_find_good W ports k ms : good_ports W ports -> ps_find ports k = Ok ms -> good_methods W ms.
Proof.
  intros Hg H. destruct ports as [|a l]; [discriminate|]. rewrite ps_find_cons_l in H.
  destruct (sel lp_name (a :: l) k) as [p|] eqn:E; [|discriminate].
  inversion H; subst ms. apply Hg. apply (sel_in _ _ _ _ E).
Qed.

Lemma ms_getitem_good W ms k m : good_methods W ms -> ms_getitem ms k = Ok m -> declared_method W m.
Proof.
  intros Hg H. destruct k as [z|n]; simpl in H; [discriminate|].
  destruct (dict_get n ms) as [m'|] eqn:E; [|discriminate]. inversion H; subst. apply (Hg n). exact E.
Qed.

Lemma port_sel_good W o ports sub ms :
  good_ports W ports -> port_sel o ports sub = Ok ms -> good_methods W ms.
Proof.
  intros Hg H. unfold port_sel, ps_dp in H.
  destruct (opt_port o) as [dp|].
  - destruct (ps_find ports dp) as [m|] eqn:E; simpl in H; [|discriminate].
    inversion H; subst. apply (ps_find_good W ports dp); assumption.
  - simpl in H. apply (ps_find_good W ports _ ms Hg H).
Qed.

Lemma ss_default_good W o svcs ps :
  good_services W svcs -> ss_default_or_first o svcs = Ok ps -> good_ports W ps.
Proof.
  intros Hg H. unfold ss_default_or_first, ss_ds in H.
  destruct (opt_service o) as [ds|].
  - destruct (ss_find svcs ds) as [p|] eqn:E; simpl in H; [|discriminate].
    inversion H; subst. apply (ss_find_good W svcs ds); assumption.
  - simpl in H. apply (ss_find_good W svcs _ ps Hg H).
Qed.

Lemma ps_getattr_good W o ports n m :
  good_ports W ports -> ps_getattr o ports n = Ok m -> declared_method W m.
Proof.
  intros Hg H. rewrite ps_getattr_port_sel_l in H.
  destruct (port_sel o ports None) as [ms|] eqn:E; simpl in H; [|discriminate].
  apply (ms_getitem_good W ms (KStr n)); [|exact H]. apply (port_sel_good W o ports None); assumption.
Qed.

Lemma eval_step_good W o svcs v st v' :
  good_services W svcs -> good_value W v -> eval_step o svcs v st = Ok v' -> good_value W v'.
Proof.
  intros Hs Hv H. destruct v as [|ps|ms|m], st as [n|k]; simpl in H; try discriminate.
  - rewrite ss_getattr_default_l in H.
    destruct (ss_default_or_first o svcs) as [ps|] eqn:E; simpl in H; [|discriminate].
    destruct (ps_getattr o ps n) as [m|] eqn:E2; simpl in H; [|discriminate].
    inversion H; subst. simpl. apply (ps_getattr_good W o ps n); [|exact E2].
    apply (ss_default_good W o svcs); assumption.
  - unfold ss_getitem in H. destruct (Nat.eqb (length svcs) 1).
    + destruct (ss_find svcs (KInt 0)) as [ps|] eqn:E; simpl in H; [|discriminate].
      change (ps_getitem o ps k) with (port_sel o ps (Some k)) in H.
      destruct (port_sel o ps (Some k)) as [ms|] eqn:E2; simpl in H; [|discriminate].
      inversion H; subst. simpl. apply (port_sel_good W o ps (Some k)); [|exact E2].
      apply (ss_find_good W svcs (KInt 0)); assumption.
    + unfold ss_ds in H. destruct (opt_service o) as [ds|].
      * destruct (ss_find svcs ds) as [ps|] eqn:E; simpl in H; [|discriminate].
        change (ps_getitem o ps k) with (port_sel o ps (Some k)) in H.
        destruct (port_sel o ps (Some k)) as [ms|] eqn:E2; simpl in H; [|discriminate].
        inversion H; subst. simpl. apply (port_sel_good W o ps (Some k)); [|exact E2].
        apply (ss_find_good W svcs ds); assumption.
      * simpl in H. destruct (ss_find svcs k) as [ps|] eqn:E; simpl in H; [|discriminate].
        inversion H; subst. simpl. apply (ss_find_good W svcs k); assumption.
  - destruct (ps_getattr o ps n) as [m|] eqn:E2; simpl in H; [|discriminate].
    inversion H; subst. simpl. apply (ps_getattr_good W o ps n); assumption.
  - change (ps_getitem o ps k) with (port_sel o ps (Some k)) in H.
    destruct (port_sel o ps (Some k)) as [ms|] eqn:E2; simpl in H; [|discriminate].
    inversion H; subst. simpl. apply (port_sel_good W o ps (Some k)); assumption.
  - unfold ms_getattr in H. destruct (ms_getitem ms (KStr n)) as [m|] eqn:E; simpl in H; [|discriminate].
    inversion H; subst. simpl. apply (ms_getitem_good W ms (KStr n)); assumption.
  - destruct (ms_getitem ms k) as [m|] eqn:E; simpl in H; [|discriminate].
    inversion H; subst. simpl. apply (ms_getitem_good W ms k); assumption.
Qed.

Lemma eval_good W o svcs : forall e v v',
  good_services W svcs -> good_value W v -> eval o svcs v e = Ok v' -> good_value W v'.
Proof.
  induction e as [|st r IH]; simpl; intros v v' Hs Hv H.
  - inversion H; subst. exact Hv.
  - destruct (eval_step o svcs v st) as [v1|] eqn:E; simpl in H; [|discriminate].
    apply (IH v1 v' Hs); [|exact H]. apply (eval_step_good W o svcs v st); assumption.
Qed.

(* Every request that leaves is the request of a declared service / port /
   operation triple: the port is a port of a declared service, its binding
   is the SOAP binding it names, the operation is one of that binding; the
   URL is that port's address (or the location option), the action and the
   body root are that operation's.  For ALL WSDLs, options, expressions. *)
Lemma routed_request_is_declared_l : forall W o e u a r,
  run W o e = OSent u a r ->
  exists s p b bst op,
    In s (w_services W) /\ In p (s_ports s) /\
    find_binding (w_bindings W) (p_binding p) = Some b /\ b_soap b = Some bst /\
    In op (b_ops b) /\
    u = match opt_location o with Some l => l | None => p_loc p end /\
    a = match o_action op with Some x => x | None => 0%N end /\
    r = body_root (w_tns W) (mk_method (w_tns W) bst (p_loc p) op).
Proof.
  intros W o e u a r H. unfold run in H.
  destruct (load W) as [svcs|] eqn:El; [|discriminate].
  assert (Hg : good_services W svcs)
    by (apply (load_services_good W (w_services W) svcs (fun s Hs => Hs) El)).
  destruct (eval o svcs VService e) as [v|] eqn:Ee; simpl in H; [|discriminate].
  pose proof (eval_good W o svcs e VService v Hg I Ee) as Hv.
  destruct v; try discriminate. simpl in Hv. inversion H; subst.
  destruct Hv as [s [p [b [bst [op [H1 [H2 [H3 [H4 [H5 H6]]]]]]]]]].
  exists s, p, b, bst, op. subst m. repeat split; auto.
Qed.

(* ------------------------------------------------------------------ *)
(* options: default port, location, several clients                    *)
(* ------------------------------------------------------------------ *)

(* With a default port the port-level subscript is not even looked at. *)
Lemma default_port_overrides_subscript_l : forall W o dp,
  opt_port o = Some dp ->
  (forall svcs ps k k', eval_step o svcs (VPorts ps) (Item k) = eval_step o svcs (VPorts ps) (Item k')) /\
  (forall ks k k' rest,
     opt_service o = None -> length (w_services W) <> 1%nat ->
     run W o (Item ks :: Item k :: rest) = run W o (Item ks :: Item k' :: rest)) /\
  (forall k k' rest,
     opt_service o <> None \/ length (w_services W) = 1%nat ->
     run W o (Item k :: rest) = run W o (Item k' :: rest)).
Proof.
  intros W o dp Hd.
  assert (Hp : forall ps k k', ps_getitem o ps k = ps_getitem o ps k').
  { intros. unfold ps_getitem, ps_dp. rewrite Hd.
    destruct (ps_find ps dp); reflexivity. }
  split; [|split].
  - intros. simpl. rewrite (Hp ps k k'). reflexivity.
  - intros ks k k' rest Ho Hlen. unfold run.
    destruct (load W) as [svcs|] eqn:El; [|reflexivity]. f_equal.
    simpl eval.
    destruct (ss_getitem o svcs ks) as [v|ex] eqn:E; [|reflexivity].
    simpl bind.
    assert (Hv : exists ps, v = VPorts ps).
    { unfold ss_getitem in E.
      assert (Hl : length svcs = length (w_services W)).
      { clear - El. unfold load in El. revert svcs El.
        generalize (w_services W). induction l as [|s r IH]; simpl; intros svcs H.
        - inversion H. reflexivity.
        - destruct (load_ports _ _ _); [|discriminate].
          destruct (load_services _ _ r) eqn:E; [|discriminate].
          inversion H; subst. simpl. f_equal. apply IH. reflexivity. }
      rewrite Hl in E. destruct (Nat.eqb_spec (length (w_services W)) 1); [contradiction|].
      unfold ss_ds in E. rewrite Ho in E. simpl in E.
      destruct (ss_find svcs ks); simpl in E; [|discriminate]. inversion E. eauto. }
    destruct Hv as [ps Hv]. subst v. simpl eval_step. rewrite (Hp ps k k'). reflexivity.
  - intros k k' rest Hc. unfold run.
    destruct (load W) as [svcs|] eqn:El; [|reflexivity]. f_equal.
    simpl eval. unfold ss_getitem.
    assert (Hl : length svcs = length (w_services W)).
    { clear - El. unfold load in El. revert svcs El.
      generalize (w_services W). induction l as [|s r IH]; simpl; intros svcs H.
      - inversion H. reflexivity.
      - destruct (load_ports _ _ _); [|discriminate].
        destruct (load_services _ _ r) eqn:E; [|discriminate].
        inversion H; subst. simpl. f_equal. apply IH. reflexivity. }
    rewrite Hl.
    destruct (Nat.eqb (length (w_services W)) 1) eqn:E1.
    + destruct (ss_find svcs (KInt 0)); [|reflexivity]. simpl. rewrite (Hp a k k'). reflexivity.
    + destruct Hc as [Hc|Hc]; [|apply Nat.eqb_neq in E1; contradiction].
      unfold ss_ds. destruct (opt_service o) as [ds|]; [|congruence].
      destruct (ss_find svcs ds); [|reflexivity]. simpl. rewrite (Hp a k k'). reflexivity.
Qed.

(* The selectors read the service and port options only. *)
Lemma eval_step_ext_l o o' svcs v st :
  opt_service o = opt_service o' -> opt_port o = opt_port o' ->
  eval_step o svcs v st = eval_step o' svcs v st.
Proof.
  intros Hs Hp.
  destruct v, st; simpl; unfold ss_getattr, ss_getitem, ss_ds, ps_getattr, ps_getitem, ps_dp;
    rewrite ?Hs, ?Hp; reflexivity.
Qed.

Lemma eval_ext_l o o' svcs : forall e v,
  opt_service o = opt_service o' -> opt_port o = opt_port o' ->
  eval o svcs v e = eval o' svcs v e.
Proof.
  induction e as [|st r IH]; simpl; intros v Hs Hp; [reflexivity|].
  rewrite (eval_step_ext_l o o' svcs v st Hs Hp).
  destruct (eval_step o' svcs v st); simpl; [apply IH; assumption|reflexivity].
Qed.

(* The location option changes the URL of the request and nothing else:
   not the operation, not the action, not the body, not the exception.
   Stated against the same client without the option. *)
Lemma location_changes_url_only_l : forall W o v e,
  match run W (set_location None o) e with
  | OSent u a r =>
      run W (set_location v o) e = OSent (match v with Some l => l | None => u end) a r
  | x => run W (set_location v o) e = x
  end.
Proof.
  intros W o v e. unfold run.
  destruct (load W) as [svcs|]; [|reflexivity].
  rewrite (eval_ext_l (set_location None o) o svcs e VService eq_refl eq_refl).
  rewrite (eval_ext_l (set_location v o) o svcs e VService eq_refl eq_refl).
  destruct (eval o svcs VService e) as [[|ps|ms|m]|ex]; simpl; reflexivity.
Qed.

(* several clients *)
Lemma nth_upd_other (ws : world) : forall i j f, i <> j -> nth_error (upd ws i f) j = nth_error ws j.
Proof.
  induction ws as [|o r IH]; intros [|i] [|j] f H; simpl; try reflexivity; try congruence.
  apply IH. congruence.
Qed.

Lemma nth_upd_same (ws : world) : forall i f o, nth_error ws i = Some o ->
  nth_error (upd ws i f) i = Some (f o).
Proof.
  induction ws as [|o' r IH]; intros [|i] f o H; simpl in *; try discriminate.
  - congruence.
  - apply IH. exact H.
Qed.

(* Whatever is set on client i - location, service, port - no call made
   through another client j changes. *)
Lemma location_override_local_l : forall W ws i j f e,
  i <> j -> world_call W (upd ws i f) j e = world_call W ws j e.
Proof. intros. unfold world_call. rewrite nth_upd_other by assumption. reflexivity. Qed.

(* ... and on client i itself the call is the one its own options give *)
Lemma location_override_own_l : forall W ws i o v e,
  nth_error ws i = Some o ->
  world_call W (upd ws i (set_location v)) i e = run W (set_location v o) e.
Proof. intros. unfold world_call. rewrite (nth_upd_same ws i _ o H). reflexivity. Qed.

Lemma nth_app_len {A} (l : list A) x : nth_error (l ++ [x]) (length l) = Some x.
Proof. induction l; simpl; auto. Qed.

Lemma nth_app_lt {A} (l : list A) x : forall i, (i < length l)%nat -> nth_error (l ++ [x]) i = nth_error l i.
Proof. induction l; simpl; intros [|i] H; try lia; auto. apply IHl. lia. Qed.

(* clone(): the new client starts with the options the cloned one has at
   that moment, and from then on the two are independent. *)
Lemma clone_snapshot_independent_l : forall W ws c o e,
  nth_error ws c = Some o ->
  let ws1 := fst (world_step W ws (EClone c)) in
  let k := length ws in
  world_call W ws1 k e = world_call W ws c e /\
  world_call W ws1 c e = world_call W ws c e /\
  (forall f, world_call W (upd ws1 c f) k e = world_call W ws c e) /\
  (forall f, world_call W (upd ws1 k f) c e = world_call W ws c e).
Proof.
  intros W ws c o e H. simpl. rewrite H.
  assert (Hc : (c < length ws)%nat) by (apply nth_error_Some; congruence).
  assert (Hne : c <> length ws) by lia.
  assert (H1 : world_call W (ws ++ [o]) (length ws) e = world_call W ws c e).
  { unfold world_call. rewrite nth_app_len, H. reflexivity. }
  assert (H2 : world_call W (ws ++ [o]) c e = world_call W ws c e).
  { unfold world_call. rewrite nth_app_lt by exact Hc. reflexivity. }
  repeat split; auto.
  - intro f. rewrite location_override_local_l by exact Hne. exact H1.
  - intro f. rewrite location_override_local_l by congruence. exact H2.
Qed.

(* What a call does is a function of the WSDL, the options of the client it
   is made through and the expression - not of when it is made or of what
   happened on any client before. *)
Lemma selection_deterministic_l : forall W ws ws' c c' e,
  nth_error ws c = nth_error ws' c' -> world_call W ws c e = world_call W ws' c' e.
Proof. intros. unfold world_call. rewrite H. reflexivity. Qed.

(* With a default service (and several services) the first subscript is a
   port key of THAT service. *)
Lemma default_service_subscript_is_port_l : forall W o ds s k rest,
  wf W = true -> loadable W = true -> (2 <= length (w_services W))%nat ->
  opt_service o = Some ds -> pick s_name (w_services W) ds = Some s ->
  sat (port_level W o s k rest) (run W o (Item k :: rest)) = true.
Proof.
  intros W o ds s k rest Hwf Hl H2 Ho Hp.
  rewrite <- (select_correct_l W o (Item k :: rest) Hwf) at 1.
  f_equal. rewrite (route_loadable _ _ _ Hl).
  assert (Hs : the_service W o = inr s).
  { unfold the_service. destruct (w_services W) as [|a r] eqn:E; [simpl in H2; lia|].
    rewrite Ho, Hp. reflexivity. }
  destruct (two_services _ H2) as [a [b [r E]]]. rewrite E in *. rewrite Ho, Hs. reflexivity.
Qed.

(* Attribute access uses the default service when set, else the first one;
   then the default port when set, else the first SOAP port. *)
Lemma attribute_access_uses_defaults_l : forall W o n rest,
  wf W = true -> loadable W = true ->
  match the_service W o with
  | inr s => sat (attr_level W o s n rest) (run W o (Attr n :: rest)) = true
  | inl r => sat r (run W o (Attr n :: rest)) = true
  end.
Proof.
  intros W o n rest Hwf Hl.
  pose proof (select_correct_l W o (Attr n :: rest) Hwf) as H.
  rewrite (route_loadable _ _ _ Hl) in H.
  destruct (the_service W o); exact H.
Qed.

Lemma first_service_by_default_l : forall W o s r,
  opt_service o = None -> w_services W = s :: r -> the_service W o = inr s.
Proof. intros W o s r Ho Hs. unfold the_service. rewrite Hs, Ho. reflexivity. Qed.

Lemma first_port_by_default_l : forall W o s p r,
  opt_port o = None -> soap_ports W s = p :: r -> the_port W o s None = inr p.
Proof.
  intros W o s p r Ho Hs. unfold the_port. rewrite Hs, Ho. rewrite pick_first_l. reflexivity.
Qed.

(* client.service.n without options: the first service, its first SOAP
   port, the operation n declared by that port's binding. *)
Lemma first_service_first_port_by_default_l : forall W o n s r p r',
  wf W = true -> loadable W = true ->
  opt_service o = None -> opt_port o = None ->
  w_services W = s :: r -> soap_ports W s = p :: r' ->
  sat (declared W o p n) (run W o [Attr n]) = true.
Proof.
  intros W o n s r p r' Hwf Hl Hos Hop Hs Hp.
  pose proof (attribute_access_uses_defaults_l W o n [] Hwf Hl) as H.
  rewrite (first_service_by_default_l W o s r Hos Hs) in H.
  unfold attr_level in H. rewrite (first_port_by_default_l W o s p r' Hop Hp) in H.
  exact H.
Qed.
