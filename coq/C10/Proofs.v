(* C10 - lemmas (names end in _l) behind coq/C10/Props.v. *)
From SV Require Import Lib.Base C10.Model.
From Coq Require Import ZifyBool ZifyNat ZifyN.
Local Open Scope Z_scope.

(* ------------------------------------------------------------------ *)
(* generic                                                             *)
(* ------------------------------------------------------------------ *)

Lemma bind_assoc {A B C} (a : res A) (f : A -> res B) (g : B -> res C) :
  bind (bind a f) g = bind a (fun x => bind (f x) g).
Proof. destruct a; reflexivity. Qed.

Lemma exn_eqb_refl e : exn_eqb e e = true.
Proof. destruct e; reflexivity. Qed.

Lemma exn_eqb_eq a b : exn_eqb a b = true -> a = b.
Proof. destruct a, b; simpl; congruence. Qed.

Lemma pair_eqb_refl p : pair_eqb p p = true.
Proof. destruct p; unfold pair_eqb; simpl. rewrite !N.eqb_refl. reflexivity. Qed.

Lemma pair_eqb_eq a b : pair_eqb a b = true -> a = b.
Proof.
  destruct a, b; unfold pair_eqb; simpl. intro H.
  apply andb_true_iff in H as [H1 H2]. apply N.eqb_eq in H1, H2. congruence.
Qed.

Lemma sat_raise_inv e x : sat (SRaise e) x = true -> x = ORaise e.
Proof. destruct x; simpl; try discriminate. intro H. apply exn_eqb_eq in H. congruence. Qed.

Lemma sat_route_inv u a r x : sat (SRoute u a r) x = true -> x = OSent u a r.
Proof.
  destruct x; simpl; try discriminate. intro H.
  apply andb_true_iff in H as [H H3]. apply andb_true_iff in H as [H1 H2].
  apply N.eqb_eq in H1, H2. apply pair_eqb_eq in H3. congruence.
Qed.

Lemma sat_nocall_inv x : sat SNoCall x = true -> x = OSelector.
Proof. destruct x; simpl; try discriminate. reflexivity. Qed.

(* ------------------------------------------------------------------ *)
(* names, bindings, dictionaries                                       *)
(* ------------------------------------------------------------------ *)

Lemma existsb_find_none {A} (nm : A -> name) x (l : list A) :
  existsb (N.eqb x) (map nm l) = false -> find (fun a => N.eqb x (nm a)) l = None.
Proof.
  induction l as [|a l IH]; simpl; intro H; [reflexivity|].
  apply orb_false_iff in H as [H1 H2]. rewrite H1. auto.
Qed.

Lemma find_binding_first_l bs n :
  nodup_names (map b_name bs) = true ->
  find_binding bs n = find (fun b => N.eqb n (b_name b)) bs.
Proof.
  induction bs as [|b r IH]; simpl; intro H; [reflexivity|].
  apply andb_true_iff in H as [H1 H2]. apply negb_true_iff in H1.
  rewrite (IH H2).
  destruct (N.eqb n (b_name b)) eqn:E.
  - apply N.eqb_eq in E. subst n. rewrite (existsb_find_none b_name _ _ H1). reflexivity.
  - destruct (find _ r); reflexivity.
Qed.

Lemma dict_get_set_same {V} k (v : V) d : dict_get k (dict_set k v d) = Some v.
Proof.
  induction d as [|[k' v'] r IH]; simpl.
  - rewrite N.eqb_refl. reflexivity.
  - destruct (N.eqb k k') eqn:E; simpl.
    + rewrite N.eqb_refl. reflexivity.
    + rewrite E. exact IH.
Qed.

Lemma dict_get_set_other {V} k k' (v : V) d :
  N.eqb k' k = false -> dict_get k' (dict_set k v d) = dict_get k' d.
Proof.
  intro H. induction d as [|[k2 v2] r IH]; simpl.
  - rewrite H. reflexivity.
  - destruct (N.eqb k k2) eqn:E; simpl.
    + apply N.eqb_eq in E. subst k2. rewrite H. reflexivity.
    + destruct (N.eqb k' k2); [reflexivity|exact IH].
Qed.

(* with distinct operation names the table holds, under each name, the
   method made from THE operation of that name *)
Lemma add_methods_get_l tns bst loc ops : forall d n,
  nodup_names (map o_name ops) = true ->
  dict_get n (add_methods tns bst loc ops d) =
  match find (fun op => N.eqb n (o_name op)) ops with
  | Some op => Some (mk_method tns bst loc op)
  | None => dict_get n d
  end.
Proof.
  induction ops as [|o r IH]; simpl; intros d n H; [reflexivity|].
  apply andb_true_iff in H as [H1 H2]. apply negb_true_iff in H1.
  rewrite (IH _ _ H2).
  destruct (N.eqb n (o_name o)) eqn:E.
  - apply N.eqb_eq in E. subst n.
    rewrite (existsb_find_none o_name _ _ H1). apply dict_get_set_same.
  - destruct (find _ r); [reflexivity|]. apply dict_get_set_other. exact E.
Qed.

(* without any assumption: whatever the table holds was made from some
   declared operation of that name *)
Lemma add_methods_get_in_l tns bst loc ops : forall d n m,
  dict_get n (add_methods tns bst loc ops d) = Some m ->
  (exists op, In op ops /\ o_name op = n /\ m = mk_method tns bst loc op) \/
  dict_get n d = Some m.
Proof.
  induction ops as [|o r IH]; simpl; intros d n m H; [right; exact H|].
  apply IH in H. destruct H as [[op [Hi [Hn Hm]]]|H].
  - left. exists op. auto.
  - destruct (N.eqb n (o_name o)) eqn:E.
    + apply N.eqb_eq in E. subst n. rewrite dict_get_set_same in H. inversion H; subst.
      left. exists o. auto.
    + rewrite dict_get_set_other in H by exact E. right. exact H.
Qed.

(* ------------------------------------------------------------------ *)
(* indexes                                                             *)
(* ------------------------------------------------------------------ *)

(* the lookup the selectors do, for both kinds of key *)
Definition sel {A} (nm : A -> name) (l : list A) (k : key) : option A :=
  match k with
  | KInt z => py_index l z
  | KStr n => find (fun x => N.eqb n (nm x)) l
  end.

Lemma pick_int_py_l {A} (nm : A -> name) (l : list A) z : pick nm l (KInt z) = py_index l z.
Proof.
  unfold pick, py_index.
  destruct (0 <=? z) eqn:E1, (z <? Z.of_nat (length l)) eqn:E2, (z <? 0) eqn:E3; simpl;
    try lia;
    repeat match goal with
           | |- context [if ?c then _ else _] => let E := fresh "E" in destruct c eqn:E; simpl
           end; try reflexivity; try lia.
Qed.

Lemma pick_sel_same_l {A} (nm : A -> name) (l : list A) k : pick nm l k = sel nm l k.
Proof. destruct k; [apply pick_int_py_l|reflexivity]. Qed.

Lemma pick_first_l {A} (nm : A -> name) (a : A) l : pick nm (a :: l) (KInt 0) = Some a.
Proof.
  unfold pick. simpl length. rewrite Nat2Z.inj_succ.
  replace (0 <=? 0) with true by reflexivity.
  replace (0 <? Z.succ (Z.of_nat (length l))) with true by lia. reflexivity.
Qed.

Lemma Forall2_nth_error_l {A B} (R : A -> B -> Prop) l l' : Forall2 R l l' ->
  forall n, match nth_error l n, nth_error l' n with
            | Some a, Some b => R a b
            | None, None => True
            | _, _ => False
            end.
Proof.
  induction 1 as [|a b l l' Hab H IH]; intros [|n]; simpl; auto. apply IH.
Qed.

Lemma Forall2_len {A B} (R : A -> B -> Prop) l l' : Forall2 R l l' -> length l = length l'.
Proof. induction 1; simpl; congruence. Qed.

(* the same key picks related items in related lists *)
Lemma sel_rel_l {A B} (R : A -> B -> Prop) (nmA : A -> name) (nmB : B -> name) l l' k :
  Forall2 R l l' -> (forall a b, R a b -> nmA a = nmB b) ->
  match sel nmA l k, sel nmB l' k with
  | Some a, Some b => R a b
  | None, None => True
  | _, _ => False
  end.
Proof.
  intros H Hn. destruct k as [z|n]; simpl.
  - unfold py_index. rewrite <- (Forall2_len _ _ _ H).
    destruct ((_ <? 0) || _); [exact I|]. apply Forall2_nth_error_l. exact H.
  - induction H as [|a b l l' Hab H IH]; simpl; [exact I|].
    rewrite <- (Hn _ _ Hab). destruct (N.eqb n (nmA a)); [exact Hab|exact IH].
Qed.

Lemma pick_rel_l {A B} (R : A -> B -> Prop) (nmA : A -> name) (nmB : B -> name) l l' k :
  Forall2 R l l' -> (forall a b, R a b -> nmA a = nmB b) ->
  match pick nmA l k, sel nmB l' k with
  | Some a, Some b => R a b
  | None, None => True
  | _, _ => False
  end.
Proof. rewrite pick_sel_same_l. apply sel_rel_l. Qed.

Lemma nth_error_in {A} (l : list A) n x : nth_error l n = Some x -> In x l.
Proof. apply nth_error_In. Qed.

Lemma py_index_in {A} (l : list A) z x : py_index l z = Some x -> In x l.
Proof.
  unfold py_index. destruct ((_ <? 0) || _); [discriminate|]. apply nth_error_In.
Qed.

Lemma sel_in {A} (nm : A -> name) l k x : sel nm l k = Some x -> In x l.
Proof.
  destruct k; simpl; [apply py_index_in|]. intro H. apply find_some in H. tauto.
Qed.

(* ------------------------------------------------------------------ *)
(* what load produces, relative to the declarations                    *)
(* ------------------------------------------------------------------ *)

Definition has_b (W : wsdl) (p : portdecl) : bool :=
  match binding_of W p with Some _ => true | None => false end.

Definition meth_rel (W : wsdl) (p : portdecl) (ms : methods) : Prop :=
  exists b bst, binding_of W p = Some b /\ b_soap b = Some bst /\
                ms = add_methods (w_tns W) bst (p_loc p) (b_ops b) [].

Definition port_rel (W : wsdl) (p : portdecl) (lp : lport) : Prop :=
  lp_name lp = p_name p /\ meth_rel W p (lp_methods lp).

Definition svc_rel (W : wsdl) (s : service) (ls : lservice) : Prop :=
  ls_name ls = s_name s /\ Forall2 (port_rel W) (soap_ports W s) (ls_ports ls).

Lemma load_ports_char_l W ps :
  nodup_names (map b_name (w_bindings W)) = true ->
  match load_ports (w_tns W) (w_bindings W) ps with
  | Some l => forallb (has_b W) ps = true /\ Forall2 (port_rel W) (filter (is_soap_port W) ps) l
  | None => forallb (has_b W) ps = false
  end.
Proof.
  intro Hn. induction ps as [|p r IH]; simpl; [split; [reflexivity|constructor]|].
  rewrite (find_binding_first_l _ _ Hn).
  unfold has_b at 1 2, is_soap_port at 1 2, binding_of at 1 2 3 4.
  destruct (find (fun b => N.eqb (p_binding p) (b_name b)) (w_bindings W)) as [b|] eqn:Eb; simpl.
  - destruct (b_soap b) as [bst|] eqn:Es.
    + destruct (load_ports (w_tns W) (w_bindings W) r) as [l|].
      * destruct IH as [IH1 IH2]. split; [exact IH1|]. constructor; [|exact IH2].
        split; [reflexivity|]. exists b, bst. unfold binding_of. auto.
      * exact IH.
    + exact IH.
  - reflexivity.
Qed.

Lemma load_services_char_l W ss :
  nodup_names (map b_name (w_bindings W)) = true ->
  match load_services (w_tns W) (w_bindings W) ss with
  | Some l => forallb (fun s => forallb (has_b W) (s_ports s)) ss = true /\ Forall2 (svc_rel W) ss l
  | None => forallb (fun s => forallb (has_b W) (s_ports s)) ss = false
  end.
Proof.
  intro Hn. induction ss as [|s r IH]; simpl; [split; [reflexivity|constructor]|].
  pose proof (load_ports_char_l W (s_ports s) Hn) as Hp.
  destruct (load_ports (w_tns W) (w_bindings W) (s_ports s)) as [ps|].
  - destruct Hp as [Hp1 Hp2]. rewrite Hp1. simpl.
    destruct (load_services (w_tns W) (w_bindings W) r) as [l|].
    + destruct IH as [IH1 IH2]. split; [exact IH1|]. constructor; [|exact IH2].
      split; [reflexivity|exact Hp2].
    + exact IH.
  - rewrite Hp. reflexivity.
Qed.

Lemma wf_bindings W : wf W = true -> nodup_names (map b_name (w_bindings W)) = true.
Proof. unfold wf. intro H. apply andb_true_iff in H. tauto. Qed.

Lemma load_char_l W : wf W = true ->
  match load W with
  | Some svcs => loadable W = true /\ Forall2 (svc_rel W) (w_services W) svcs
  | None => loadable W = false
  end.
Proof. intro H. apply (load_services_char_l W (w_services W)). apply wf_bindings. exact H. Qed.

(* ------------------------------------------------------------------ *)
(* the selectors against the text                                      *)
(* ------------------------------------------------------------------ *)

Definition rel_sum {A B} (R : A -> B -> Prop) (x : sout + A) (y : res B) : Prop :=
  match x, y with
  | inl r, Raise e => sat r (ORaise e) = true
  | inr a, Ok b => R a b
  | _, _ => False
  end.

Lemma ss_find_cons_l a l k :
  ss_find (a :: l) k = match sel ls_name (a :: l) k with
                       | Some s => Ok (ls_ports s)
                       | None => Raise ServiceNotFound
                       end.
Proof. destruct k; reflexivity. Qed.

Lemma ps_find_cons_l a l k :
  ps_find (a :: l) k = match sel lp_name (a :: l) k with
                       | Some p => Ok (lp_methods p)
                       | None => Raise PortNotFound
                       end.
Proof. destruct k; reflexivity. Qed.

Definition ss_default_or_first (o : options) (svcs : list lservice) : res (list lport) :=
  bind (ss_ds o svcs) (fun d => match d with None => ss_find svcs (KInt 0) | Some p => Ok p end).

Definition port_sel (o : options) (ports : list lport) (sub : option key) : res methods :=
  bind (ps_dp o ports) (fun d =>
    match d with
    | None => ps_find ports (match sub with Some k => k | None => KInt 0 end)
    | Some m => Ok m
    end).

Lemma svc_rel_name W a b : svc_rel W a b -> s_name a = ls_name b.
Proof. intros [H _]. congruence. Qed.

Lemma port_rel_name W a b : port_rel W a b -> p_name a = lp_name b.
Proof. intros [H _]. congruence. Qed.

Lemma the_service_rel_l W o svcs : Forall2 (svc_rel W) (w_services W) svcs ->
  rel_sum (fun s ps => Forall2 (port_rel W) (soap_ports W s) ps)
          (the_service W o) (ss_default_or_first o svcs).
Proof.
  intro H. unfold the_service, ss_default_or_first, ss_ds.
  destruct H as [|s ls ss lss Hs H].
  - destruct (opt_service o); reflexivity.
  - assert (HF : Forall2 (svc_rel W) (s :: ss) (ls :: lss)) by (constructor; assumption).
    destruct (opt_service o) as [ds|].
    + pose proof (pick_rel_l _ s_name ls_name _ _ ds HF (svc_rel_name W)) as HR.
      rewrite ss_find_cons_l.
      destruct (pick s_name (s :: ss) ds) as [s'|], (sel ls_name (ls :: lss) ds) as [ls'|];
        simpl; try contradiction; [|reflexivity].
      destruct HR as [_ HR]. exact HR.
    + simpl. rewrite ss_find_cons_l.
      pose proof (pick_rel_l _ s_name ls_name _ _ (KInt 0) HF (svc_rel_name W)) as HR.
      rewrite pick_first_l in HR.
      destruct (sel ls_name (ls :: lss) (KInt 0)) as [ls'|]; [|contradiction].
      simpl. destruct HR as [_ HR]. exact HR.
Qed.

Lemma the_port_rel_l W o s ps sub : Forall2 (port_rel W) (soap_ports W s) ps ->
  rel_sum (meth_rel W) (the_port W o s sub) (port_sel o ps sub).
Proof.
  intro H. unfold the_port, port_sel, ps_dp.
  destruct H as [|p lp pp lpp Hp H].
  - destruct (opt_port o); reflexivity.
  - assert (HF : Forall2 (port_rel W) (p :: pp) (lp :: lpp)) by (constructor; assumption).
    destruct (opt_port o) as [dp|].
    + pose proof (pick_rel_l _ p_name lp_name _ _ dp HF (port_rel_name W)) as HR.
      rewrite ps_find_cons_l.
      destruct (pick p_name (p :: pp) dp) as [p'|], (sel lp_name (lp :: lpp) dp) as [lp'|];
        simpl; try contradiction; [|reflexivity].
      destruct HR as [_ HR]. exact HR.
    + simpl. rewrite ps_find_cons_l.
      set (k := match sub with Some k => k | None => KInt 0 end).
      pose proof (pick_rel_l _ p_name lp_name _ _ k HF (port_rel_name W)) as HR.
      destruct (pick p_name (p :: pp) k) as [p'|], (sel lp_name (lp :: lpp) k) as [lp'|];
        simpl; try contradiction; [|reflexivity].
      destruct HR as [_ HR]. exact HR.
Qed.

Lemma wf_ops W b : wf W = true -> In b (w_bindings W) -> nodup_names (map o_name (b_ops b)) = true.
Proof.
  unfold wf. intros H Hi. apply andb_true_iff in H as [_ H].
  rewrite forallb_forall in H. apply H. exact Hi.
Qed.

(* an operation named on a port *)
Lemma declared_rel_l W o p ms n rest svcs : wf W = true -> meth_rel W p ms ->
  sat (finish rest (declared W o p n))
      (invoke (w_tns W) o
         (bind (bind (ms_getitem ms (KStr n)) (fun m => Ok (VMethod m)))
               (fun v => eval o svcs v rest))) = true.
Proof.
  intros Hwf [b [bst [Hb [Hs Hm]]]]. subst ms. unfold declared. rewrite Hb, Hs.
  assert (Hin : In b (w_bindings W)) by (unfold binding_of in Hb; apply find_some in Hb; tauto).
  unfold ms_getitem. rewrite (add_methods_get_l _ _ _ _ _ _ (wf_ops W b Hwf Hin)).
  destruct (find (fun op => N.eqb n (o_name op)) (b_ops b)) as [op|] eqn:Ef; simpl.
  - apply find_some in Ef as [_ En]. apply N.eqb_eq in En.
    destruct rest as [|st rest]; simpl.
    + unfold location, body_root, mk_method; simpl.
      destruct (opt_location o); rewrite !N.eqb_refl; simpl;
        destruct (match o_style op with Some s => s | None => bst end); subst n;
        apply pair_eqb_refl.
    + destruct st; reflexivity.
  - destruct rest; simpl; reflexivity.
Qed.

Lemma op_level_rel_l W o p ms rest svcs : wf W = true -> meth_rel W p ms ->
  sat (op_level W o p rest) (invoke (w_tns W) o (eval o svcs (VMethods ms) rest)) = true.
Proof.
  intros Hwf Hm. destruct rest as [|[n|[z|n]] rest]; simpl.
  - reflexivity.
  - apply (declared_rel_l W o p ms n rest svcs Hwf Hm).
  - reflexivity.
  - apply (declared_rel_l W o p ms n rest svcs Hwf Hm).
Qed.

Lemma port_level_rel_l W o s ps k rest svcs : wf W = true ->
  Forall2 (port_rel W) (soap_ports W s) ps ->
  sat (port_level W o s k rest)
      (invoke (w_tns W) o
         (bind (bind (ps_getitem o ps k) (fun m => Ok (VMethods m)))
               (fun v => eval o svcs v rest))) = true.
Proof.
  intros Hwf H. pose proof (the_port_rel_l W o s ps (Some k) H) as HR.
  unfold port_level. change (ps_getitem o ps k) with (port_sel o ps (Some k)).
  destruct (the_port W o s (Some k)) as [r|p], (port_sel o ps (Some k)) as [ms|e];
    simpl in HR; try contradiction; simpl.
  - exact HR.
  - apply op_level_rel_l; assumption.
Qed.

Lemma ps_getattr_port_sel_l o ps n :
  ps_getattr o ps n = bind (port_sel o ps None) (fun m => ms_getattr m n).
Proof.
  unfold ps_getattr, port_sel. rewrite bind_assoc. reflexivity.
Qed.

Lemma attr_level_rel_l W o s ps n rest svcs : wf W = true ->
  Forall2 (port_rel W) (soap_ports W s) ps ->
  sat (attr_level W o s n rest)
      (invoke (w_tns W) o
         (bind (bind (ps_getattr o ps n) (fun m => Ok (VMethod m)))
               (fun v => eval o svcs v rest))) = true.
Proof.
  intros Hwf H. pose proof (the_port_rel_l W o s ps None H) as HR.
  unfold attr_level. rewrite ps_getattr_port_sel_l.
  destruct (the_port W o s None) as [r|p], (port_sel o ps None) as [ms|e];
    simpl in HR; try contradiction; simpl.
  - exact HR.
  - apply (declared_rel_l W o p ms n rest svcs Hwf HR).
Qed.

Lemma ss_getattr_default_l o svcs n :
  ss_getattr o svcs n = bind (ss_default_or_first o svcs) (fun port => ps_getattr o port n).
Proof. unfold ss_getattr, ss_default_or_first. rewrite bind_assoc. reflexivity. Qed.

(* THE refinement: on every well-formed WSDL, for every option setting and
   every expression, the selectors do what the text fixes. *)
Lemma select_correct_l : forall W o e, wf W = true -> sat (route W o e) (run W o e) = true.
Proof.
  intros W o e Hwf. unfold run, route.
  pose proof (load_char_l W Hwf) as HL.
  destruct (load W) as [svcs|]; [|rewrite HL; reflexivity].
  destruct HL as [HL HF]. rewrite HL. simpl negb. cbv iota.
  destruct e as [|[n|k] rest].
  - reflexivity.
  - (* attribute access on client.service *)
    simpl eval. rewrite ss_getattr_default_l.
    pose proof (the_service_rel_l W o svcs HF) as HR.
    destruct (the_service W o) as [r|s], (ss_default_or_first o svcs) as [ps|ex];
      simpl in HR; try contradiction; simpl.
    + exact HR.
    + apply attr_level_rel_l; assumption.
  - (* subscript on client.service *)
    simpl eval. unfold ss_getitem.
    pose proof (the_service_rel_l W o svcs HF) as HR.
    destruct HF as [|s1 l1 ss lss H1 HF].
    + (* no services *)
      simpl. unfold ss_ds. destruct (opt_service o); reflexivity.
    + destruct HF as [|s2 l2 ss lss H2 HF].
      * (* one service: the subscript selects a port *)
        simpl length. simpl Nat.eqb. cbv iota.
        change (ss_find [l1] (KInt 0)) with (Ok (A := list lport) (ls_ports l1)). simpl bind at 2.
        destruct H1 as [_ H1]. apply port_level_rel_l; assumption.
      * (* several services *)
        simpl length. simpl Nat.eqb. cbv iota.
        assert (HF' : Forall2 (svc_rel W) (s1 :: s2 :: ss) (l1 :: l2 :: lss))
          by (repeat constructor; assumption).
        unfold ss_default_or_first in HR. unfold ss_ds in *.
        destruct (opt_service o) as [ds|] eqn:Eds.
        -- (* default service: the subscript selects a port *)
           destruct (the_service W o) as [r|s] eqn:Ets.
           ++ destruct (ss_find (l1 :: l2 :: lss) ds) as [ps|ex]; simpl in HR; [contradiction|].
              simpl. exact HR.
           ++ destruct (ss_find (l1 :: l2 :: lss) ds) as [ps|ex]; simpl in HR; [|contradiction].
              simpl. apply port_level_rel_l; assumption.
        -- (* the subscript selects the service *)
           simpl bind at 3. rewrite ss_find_cons_l.
           pose proof (pick_rel_l _ s_name ls_name _ _ k HF' (svc_rel_name W)) as HP.
           destruct (pick s_name (s1 :: s2 :: ss) k) as [s|],
                    (sel ls_name (l1 :: l2 :: lss) k) as [ls|]; try contradiction.
           ++ destruct HP as [_ HP]. simpl bind.
              destruct rest as [|[n|k'] rest'].
              ** reflexivity.
              ** simpl eval. apply attr_level_rel_l; assumption.
              ** simpl eval. apply port_level_rel_l; assumption.
           ++ reflexivity.
Qed.
