(* C16 -- the class of a hook's exception plays no role in an invocation: replacing the
   classes the hooks raise by any others (f : xcls -> xcls) leaves the hooks that run, what
   each of them is handed and what reaches the transport exactly as they were, and the
   exception in flight is the same hook call's with the class mapped.  For plugin lists of
   any length. *)
From SV Require Import Lib.Base C16.Model C16.Proofs C16.DocProofs C16.MsgProofs C16.FlowProofs.

Definition reclass_slot (f : xcls -> xcls) (sl : slot) : slot :=
  match sl with Fn e (Some x) => Fn e (Some (f x)) | _ => sl end.

Definition reclass (f : xcls -> xcls) (p : plugin) : plugin :=
  Plug (p_init p) (p_doc p) (p_msg p)
       (reclass_slot f (h_initialized p)) (reclass_slot f (h_loaded p)) (reclass_slot f (h_parsed p))
       (reclass_slot f (h_marshalled p)) (reclass_slot f (h_sending p)) (reclass_slot f (h_received p))
       (reclass_slot f (h_unmarshalled p)).

Definition reclass_part (f : xcls -> xcls) (q : part) : part :=
  mkPart (q_idx q) (q_edits q) (option_map f (q_raises q)).

Definition reflag (f : xcls -> xcls) (y : entry * option xcls) : entry * option xcls :=
  (fst y, option_map f (snd y)).

Definition reclass_exc (f : xcls -> xcls) (x : exc) : exc :=
  option_map (fun h => HX (x_site h) (x_idx h) (x_url h) (f (x_cls h))) x.

Lemma get_slot_reclass f n p : get_slot n (reclass f p) = reclass_slot f (get_slot n p).
Proof. destruct n; reflexivity. Qed.

Lemma takes_part_reclass f s p :
  takes_part s (reclass f p) =
  option_map (fun er : bool * option xcls => (fst er, option_map f (snd er))) (takes_part s p).
Proof.
  unfold takes_part. rewrite get_slot_reclass.
  replace (has_kind (site_kind s) (reclass f p)) with (has_kind (site_kind s) p)
    by (destruct (site_kind s); reflexivity).
  destruct (has_kind (site_kind s) p); [|reflexivity].
  destruct (get_slot (site_name s) p) as [| | |e [x|]]; reflexivity.
Qed.

Lemma parts_from_reclass f s : forall ps i,
  parts_from s i (map (reclass f) ps) = map (reclass_part f) (parts_from s i ps).
Proof.
  induction ps as [|p r IH]; intro i; [reflexivity|].
  cbn [map parts_from]. rewrite takes_part_reclass.
  destruct (takes_part s p) as [[e x]|]; cbn [option_map fst snd map]; rewrite IH; reflexivity.
Qed.

Lemma parts_reclass f s ps : parts s (map (reclass f) ps) = map (reclass_part f) (parts s ps).
Proof. apply parts_from_reclass. Qed.

Lemma marks_reclass f s l : marks s (map (reclass_part f) l) = marks s l.
Proof.
  unfold marks. induction l as [|q t IH]; [reflexivity|].
  cbn [map filter reclass_part q_edits]. destruct (q_edits q); cbn [map q_idx]; rewrite IH; reflexivity.
Qed.

Lemma stage_out_reclass f s can d ps : stage_out s can d (map (reclass f) ps) = stage_out s can d ps.
Proof. unfold stage_out. rewrite parts_reclass, marks_reclass. reflexivity. Qed.

Lemma stage_full_reclass f s url can d ps :
  stage_full s url can d (map (reclass f) ps) = map (reflag f) (stage_full s url can d ps).
Proof.
  unfold stage_full. rewrite parts_reclass, map_length, map_map.
  apply map_ext. intro j. unfold reflag. cbn [fst snd].
  change (mkPart 0 false None) with (reclass_part f (mkPart 0 false None)).
  rewrite map_nth, firstn_map, marks_reclass, map_map. reflexivity.
Qed.

Lemma cut_reflag f l :
  cut (map (reflag f) l) = (fst (cut l), reclass_exc f (snd (cut l))).
Proof.
  induction l as [|[e r] t IH]; [reflexivity|].
  cbn [map reflag fst snd cut option_map]. destruct r as [x|]; [reflexivity|].
  cbn [option_map]. rewrite IH. destruct (cut t) as [l' x']. reflexivity.
Qed.

Lemma msg_stages_reclass f ps b :
  msg_stages (map (reclass f) ps) b = map (map (reflag f)) (msg_stages ps b).
Proof.
  unfold msg_stages, d_decoded, d_parsed, d_sending.
  rewrite !stage_full_reclass, !stage_out_reclass.
  destruct b; reflexivity.
Qed.

Lemma stages_cut_reclass f ps b n :
  cut (concat (firstn n (msg_stages (map (reclass f) ps) b))) =
  (fst (cut (concat (firstn n (msg_stages ps b)))),
   reclass_exc f (snd (cut (concat (firstn n (msg_stages ps b)))))).
Proof. rewrite msg_stages_reclass, firstn_map, <- concat_map, cut_reflag. reflexivity. Qed.

Lemma d_sent_reclass f ps : d_sent (map (reclass f) ps) = d_sent ps.
Proof. unfold d_sent, d_sending. rewrite !stage_out_reclass. reflexivity. Qed.

Lemma is_early_reclass f x : is_early (reclass_exc f x) = is_early x.
Proof. destruct x; reflexivity. Qed.

(* the hooks that run, what each is handed, and what reaches the transport do not depend
   on the classes of the exceptions the hooks raise; the exception in flight is the same
   hook call's *)
Lemma exception_class_irrelevant_l f ps v :
  o_log (invoke (map (reclass f) ps) v) = o_log (invoke ps v) /\
  o_sent (invoke (map (reclass f) ps) v) = o_sent (invoke ps v) /\
  snd (cut (concat (firstn (reach v) (msg_stages (map (reclass f) ps) (i_body v))))) =
  reclass_exc f (snd (cut (concat (firstn (reach v) (msg_stages ps (i_body v)))))).
Proof.
  split; [|split].
  - rewrite !hook_log_l, stages_cut_reclass. reflexivity.
  - rewrite !invoke_eq. unfold invoke_decl. rewrite stages_cut_reclass, d_sent_reclass.
    cbn [fst snd]. rewrite is_early_reclass.
    destruct (snd (cut (concat (firstn (reach v) (msg_stages ps (i_body v)))))) as [h|];
      cbn [reclass_exc option_map].
    + destruct (is_early (Some h)); [reflexivity|]. destruct (i_via v); reflexivity.
    + destruct (i_via v) as [|[|]]; reflexivity.
  - rewrite stages_cut_reclass. reflexivity.
Qed.

(* the same for the construction of a client: documents' hooks and the init hook *)
Lemma doc_stages_reclass f ps pre os :
  doc_stages (map (reclass f) ps) pre os = map (map (reflag f)) (doc_stages ps pre os).
Proof.
  unfold doc_stages. rewrite map_map. apply map_ext. intros [u fe].
  unfold doc_root. rewrite map_app, !stage_full_reclass, !stage_out_reclass.
  destruct fe; reflexivity.
Qed.

Lemma init_stage_reclass f ps pre os :
  init_stage (map (reclass f) ps) pre os = map (reflag f) (init_stage ps pre os).
Proof.
  unfold init_stage, doc_root. destruct os as [|[u fe] t]; rewrite stage_full_reclass, ?stage_out_reclass;
    reflexivity.
Qed.

Lemma ctor_log_class_irrelevant_l f ps pre os :
  fst (cut (concat (doc_stages (map (reclass f) ps) pre os) ++ init_stage (map (reclass f) ps) pre os)) =
  fst (cut (concat (doc_stages ps pre os) ++ init_stage ps pre os)).
Proof.
  rewrite doc_stages_reclass, init_stage_reclass, <- concat_map, <- map_app, cut_reflag. reflexivity.
Qed.

Lemma hook_reclass f s url can ps d :
  hook s url can (map (reclass f) ps) d =
  (fst (fst (hook s url can ps d)), snd (fst (hook s url can ps d)), reclass_exc f (snd (hook s url can ps d))).
Proof.
  rewrite !hook_eq. unfold hook_decl. rewrite stage_full_reclass, stage_out_reclass, cut_reflag.
  cbn [fst snd]. destruct (snd (cut (stage_full s url can d ps))); reflexivity.
Qed.

Lemma open_doc_reclass f ps caching c u :
  open_doc (map (reclass f) ps) caching c u =
  let '(l, fe, c', root, x) := open_doc ps caching c u in (l, fe, c', root, reclass_exc f x).
Proof.
  unfold open_doc. destruct (if caching then lookup u c else None) as [ms|].
  - rewrite hook_reclass. destruct (hook SD u true ps (Some ms)) as [[l d] x]. reflexivity.
  - rewrite hook_reclass. destruct (hook SL u true ps (Some [])) as [[l1 d1] x1]. cbn [fst snd].
    destruct x1 as [h|]; cbn [reclass_exc option_map]; [reflexivity|].
    rewrite hook_reclass. destruct (hook SD u true ps d1) as [[l2 d2] x2]. reflexivity.
Qed.

Lemma open_all_reclass f ps caching : forall urls c,
  open_all (map (reclass f) ps) caching c urls =
  let '(l, os, roots, x) := open_all ps caching c urls in (l, os, roots, reclass_exc f x).
Proof.
  induction urls as [|u r IH]; intro c; [reflexivity|].
  cbn [open_all]. rewrite open_doc_reclass.
  destruct (open_doc ps caching c u) as [[[[l fe] c'] root] x].
  destruct x as [h|]; cbn [reclass_exc option_map]; [reflexivity|].
  rewrite IH. destruct (open_all ps caching c' r) as [[[l2 os] roots] x2]. reflexivity.
Qed.

(* the documents opened, which of them are fetched, and the document / init hooks that run
   with what each is handed do not depend on the classes the hooks raise *)
Lemma construct_class_irrelevant_l f ps caching pre xsd urls :
  fst (construct (map (reclass f) ps) caching pre xsd urls) = fst (construct ps caching pre xsd urls).
Proof.
  unfold construct. rewrite open_all_reclass.
  destruct (open_all ps caching (map (fun u : N => (u, [])) pre) urls) as [[[l os] roots] x].
  destruct x as [h|]; cbn [reclass_exc option_map]; [reflexivity|].
  rewrite hook_reclass. destruct (hook SI 0 true ps (hd (Some []) roots)) as [[li d] xi]. reflexivity.
Qed.

(* ------------------------------------------------------------------ *)
(* a send() whose TransportError handler also covers the reply          *)
(* processing (NOT suds' code: the variant the specification must       *)
(* reject, see Props.wide_handler_is_rejected)                          *)
(* ------------------------------------------------------------------ *)

(*   try: reply = transport.send(request); return self.process_reply(reply.message, None, None)
     except TransportError as e: return self.process_reply(e.fp and e.fp.read() or "", e.httpcode, tostr(e))
   `code`: the httpcode the hook's TransportError carries (no fp: empty content) *)
Definition invoke_wide (code : N) (ps : list plugin) (v : inv) : iobs :=
  let o := invoke ps v in
  match i_via v, i_crash v, N.eqb (i_status v) 200, o_res o with
  | Direct, false, true, RHookExc s i x =>
    if is_transport x && negb (is_early (Some (HX s i 0 x))) then
      let '(lr2, res2) := process_reply ps (Inv Direct (i_retxml v) (i_faults v) false code BEmpty) in
      IObs (o_log o ++ lr2) (o_sent o) (proxy v res2) RNotRun
    else o
  | _, _, _, _ => o
  end.
