(* C16 -- readable consequences of the closed forms: order, data flow, early exits,
   exceptions.  All for plugin lists of any length. *)
From SV Require Import Lib.Base C16.Model C16.Proofs C16.DocProofs C16.MsgProofs.
From Coq Require Import Sorted.

(* ------------------------------------------------------------------ *)
(* the log                                                             *)
(* ------------------------------------------------------------------ *)

Lemma hook_log_l ps v :
  o_log (invoke ps v) = fst (cut (concat (firstn (reach v) (msg_stages ps (i_body v))))).
Proof.
  rewrite invoke_eq. unfold invoke_decl.
  destruct (snd (cut (concat (firstn (reach v) (msg_stages ps (i_body v)))))) as [h|].
  - destruct (is_early _); [reflexivity|]. destruct (i_via v); reflexivity.
  - destruct (i_via v) as [|[|]]; reflexivity.
Qed.

(* position of a message stage *)
Definition rank (s : site) : nat :=
  match s with SM => 0 | SS => 1 | SR => 2 | SP => 3 | SU => 4 | _ => 5 end.

Lemma stages_rank ps b n x :
  In x (concat (firstn n (msg_stages ps b))) -> rank (e_site (fst x)) < n.
Proof.
  unfold msg_stages.
  do 6 (try destruct n as [|n]); cbn [firstn concat]; rewrite ?in_app_iff; intro H;
    repeat match goal with
           | H : _ \/ _ |- _ => destruct H as [H|H]
           | H : In _ [] |- _ => destruct H
           | H : In _ (stage_full _ _ _ _ _) |- _ => apply stage_full_site in H as [H _]; rewrite H
           end; cbn; lia.
Qed.

Lemma log_rank_l ps v e : In e (o_log (invoke ps v)) -> rank (e_site e) < reach v.
Proof.
  rewrite hook_log_l. intro H. apply cut_log_in in H as [r H].
  apply stages_rank in H. exact H.
Qed.

Lemma no_reply_hooks_without_reply_l ps v e :
  no_reply v = true -> In e (o_log (invoke ps v)) -> e_site e = SM \/ e_site e = SS.
Proof.
  intros NR H. apply log_rank_l in H. rewrite (reach_no_reply v NR) in H.
  destruct (e_site e); cbn in H; auto; lia.
Qed.

Lemma reach_fault v : is_fault v = true -> reach v <= 4.
Proof.
  unfold reach, is_fault. intro F. destruct (no_reply v); [lia|].
  apply andb_true_iff in F as [F1 F2]. rewrite F1.
  destruct (i_body v); try discriminate. lia.
Qed.

Lemma no_unmarshalled_for_fault_l ps v e :
  is_fault v = true -> In e (o_log (invoke ps v)) -> e_site e <> SU.
Proof.
  intros F H. apply log_rank_l in H. pose proof (reach_fault v F).
  intro E. rewrite E in H. cbn in H. lia.
Qed.

(* ------------------------------------------------------------------ *)
(* once per participant, in registration order, matching kind only     *)
(* ------------------------------------------------------------------ *)

Lemma stage_once_in_order_l s url can d ps :
  map (fun x => e_idx (fst x)) (stage_full s url can d ps) = map q_idx (parts s ps) /\
  StronglySorted lt (map q_idx (parts s ps)) /\
  (forall q, In q (parts s ps) <->
     exists p, nth_error ps (q_idx q) = Some p /\ takes_part s p = Some (q_edits q, q_raises q)).
Proof.
  split; [apply stage_full_idx|]. split; [apply parts_from_sorted|].
  intro q. unfold parts. rewrite parts_from_in. rewrite Nat.sub_0_r.
  split; intros (p & H1 & H2); exists p.
  - destruct H2 as [_ H2]. auto.
  - split; [exact H1|]. split; [lia|exact H2].
Qed.

Lemma takes_part_kind_l s p e r :
  takes_part s p = Some (e, r) ->
  has_kind (site_kind s) p = true /\ get_slot (site_name s) p = Fn e r.
Proof.
  unfold takes_part. destruct (has_kind (site_kind s) p); [|discriminate].
  destruct (get_slot (site_name s) p); try discriminate. intro H. inversion H. auto.
Qed.

(* ------------------------------------------------------------------ *)
(* data flow                                                           *)
(* ------------------------------------------------------------------ *)

(* the j-th participant of a stage finds what the stage was handed plus the edits of the
   participants before it *)
Lemma stage_entry_view_l s url l ps j :
  s <> SU -> s <> SI -> j < length (parts s ps) ->
  nth j (stage_full s url true (Some l) ps) (mkE s 0 url None [], None) =
  (mkE s (q_idx (nth j (parts s ps) dq)) url
       (Some (l ++ marks s (firstn j (parts s ps))))
       (map q_idx (firstn j (parts s ps))),
   q_raises (nth j (parts s ps) dq)).
Proof.
  intros H1 H2 Hj. unfold stage_full.
  set (f := fun j0 : nat => _).
  rewrite (nth_indep _ _ (f 0)) by (rewrite map_length, seq_length; exact Hj).
  rewrite map_nth. rewrite seq_nth by exact Hj. cbn [plus]. unfold f.
  rewrite apply_marks_some by assumption. reflexivity.
Qed.

Lemma stage_out_some s l ps :
  s <> SU -> s <> SI -> stage_out s true (Some l) ps = Some (l ++ marks s (parts s ps)).
Proof. intros. unfold stage_out. apply apply_marks_some; assumption. Qed.

Lemma stage_out_SU l ps : stage_out SU true (Some l) ps = Some (l ++ marks SU (parts SU ps)).
Proof.
  unfold stage_out. destruct (marks SU (parts SU ps)) as [|m t].
  - cbn. rewrite app_nil_r. reflexivity.
  - rewrite apply_marks_SU. reflexivity.
Qed.

Definition mM ps := marks SM (parts SM ps).
Definition mS ps := marks SS (parts SS ps).
Definition mR ps := marks SR (parts SR ps).
Definition mP ps := marks SP (parts SP ps).
Definition mU ps := marks SU (parts SU ps).

Lemma d_sending_closed ps : d_sending ps = Some (mM ps).
Proof. unfold d_sending, d_marshalled. rewrite stage_out_some by discriminate. reflexivity. Qed.

Lemma d_sent_closed ps : d_sent ps = mM ps ++ mS ps.
Proof. unfold d_sent. rewrite d_sending_closed, stage_out_some by discriminate. reflexivity. Qed.

Lemma d_parsed_closed ps b : markable b = true -> d_parsed ps b = Some (mR ps).
Proof.
  intro M. unfold d_parsed, d_received. rewrite M.
  destruct b; try discriminate; rewrite stage_out_some by discriminate; reflexivity.
Qed.

Lemma d_decoded_closed ps b : markable b = true -> d_decoded ps b = Some (mR ps ++ mP ps).
Proof.
  intro M. unfold d_decoded. rewrite (d_parsed_closed ps b M), stage_out_some by discriminate.
  reflexivity.
Qed.

Lemma d_result_closed ps b : markable b = true -> d_result ps b = Some (mR ps ++ mP ps ++ mU ps).
Proof.
  intro M. unfold d_result. rewrite (d_decoded_closed ps b M), stage_out_SU, <- app_assoc.
  reflexivity.
Qed.

(* the five stages for a reply that can carry markers *)
Lemma msg_stages_closed_l ps b : markable b = true ->
  msg_stages ps b =
  [ stage_full SM 0 true (Some []) ps;
    stage_full SS 0 true (Some (mM ps)) ps;
    stage_full SR 0 true (Some []) ps;
    stage_full SP 0 true (Some (mR ps)) ps;
    stage_full SU 0 true (Some (mR ps ++ mP ps)) ps ].
Proof.
  intro M. unfold msg_stages.
  rewrite d_sending_closed, (d_parsed_closed ps b M), (d_decoded_closed ps b M), M. reflexivity.
Qed.

Lemma is_normal_inv v : is_normal v = true -> N.eqb (i_status v) 200 = true /\ i_body v = BNormal.
Proof.
  unfold is_normal. intro H. apply andb_true_iff in H as [H1 H2]. split; [exact H1|].
  destruct (i_body v); try discriminate. reflexivity.
Qed.

Lemma is_fault_inv v : is_fault v = true ->
  N.eqb (i_status v) 200 || N.eqb (i_status v) 500 = true /\ i_body v = BFault.
Proof.
  unfold is_fault. intro H. apply andb_true_iff in H as [H1 H2]. split; [exact H1|].
  destruct (i_body v); try discriminate. reflexivity.
Qed.

Lemma eqb200_not24 st : N.eqb st 200 = true -> N.eqb st 202 || N.eqb st 204 = false.
Proof. intro H. apply N.eqb_eq in H. subst. reflexivity. Qed.

Lemma eqb25_not24 st : N.eqb st 200 || N.eqb st 500 = true -> N.eqb st 202 || N.eqb st 204 = false.
Proof.
  intro H. apply orb_true_iff in H as [H|H]; apply N.eqb_eq in H; subst; reflexivity.
Qed.

Lemma final_normal ps v : is_normal v = true ->
  final ps v =
  if i_retxml v then RBytes (mR ps)
  else if i_faults v then RValue (Some (mR ps ++ mP ps ++ mU ps)) else ROk (Some (mR ps ++ mP ps ++ mU ps)).
Proof.
  intro H. destruct (is_normal_inv v H) as [S B]. unfold final.
  rewrite (eqb200_not24 _ S), S, B. cbn [orb negb markable].
  rewrite (d_result_closed ps BNormal eq_refl). unfold d_received.
  rewrite stage_out_some by discriminate. reflexivity.
Qed.

Lemma final_fault ps v : is_fault v = true ->
  final ps v = if i_faults v then RFault (mR ps ++ mP ps) else RFaultT (mR ps ++ mP ps).
Proof.
  intro H. destruct (is_fault_inv v H) as [S B]. unfold final.
  rewrite (eqb25_not24 _ S), S, B. rewrite (d_decoded_closed ps BFault eq_refl). reflexivity.
Qed.

Lemma reply_res_decl ps v :
  snd (cut (concat (firstn (reach v) (msg_stages ps (i_body v))))) = None ->
  no_reply v = false ->
  reply_res v (invoke ps v) = final ps v.
Proof.
  intros C NR. rewrite invoke_eq. unfold invoke_decl, reply_res. rewrite C.
  unfold no_reply in NR.
  destruct (i_via v) as [|[|]]; try discriminate NR; cbn [o_res o_res2]; [|reflexivity].
  destruct (i_crash v); [discriminate NR|reflexivity].
Qed.

Lemma dataflow_l ps v :
  snd (cut (concat (firstn (reach v) (msg_stages ps (i_body v))))) = None ->
  (* the tree edited in marshalled is what is serialised, the bytes returned from sending
     are what the transport sends (or what the RequestContext holds) *)
  (i_via v = Direct -> o_sent (invoke ps v) = [mM ps ++ mS ps]) /\
  (forall p, i_via v = NoSend p ->
     o_sent (invoke ps v) = [] /\ o_res (invoke ps v) = RRequest (mM ps ++ mS ps)) /\
  (* the bytes returned from received are what is parsed, the tree edited in parsed is what
     is decoded, the value set in unmarshalled is what the caller gets *)
  (no_reply v = false -> is_normal v = true ->
     reply_res v (invoke ps v) =
     if i_retxml v then RBytes (mR ps)
     else if i_faults v then RValue (Some (mR ps ++ mP ps ++ mU ps))
          else ROk (Some (mR ps ++ mP ps ++ mU ps))) /\
  (no_reply v = false -> is_fault v = true ->
     reply_res v (invoke ps v) =
     if i_faults v then RFault (mR ps ++ mP ps) else RFaultT (mR ps ++ mP ps)).
Proof.
  intro C. repeat split.
  - intro V. rewrite invoke_eq. unfold invoke_decl. rewrite C, V, d_sent_closed. reflexivity.
  - rewrite invoke_eq. unfold invoke_decl. rewrite C, H. destruct p; reflexivity.
  - rewrite invoke_eq. unfold invoke_decl. rewrite C, H, d_sent_closed. destruct p; reflexivity.
  - intros NR Nm. rewrite (reply_res_decl ps v C NR). apply final_normal, Nm.
  - intros NR F. rewrite (reply_res_decl ps v C NR). apply final_fault, F.
Qed.

(* ------------------------------------------------------------------ *)
(* exceptions                                                          *)
(* ------------------------------------------------------------------ *)

Lemma cut_none_iff l : snd (cut l) = None <-> forall x, In x l -> snd x = None.
Proof.
  induction l as [|[e r] t IH]; cbn [cut].
  - split; [intros _ x []|reflexivity].
  - destruct r as [x0|].
    + cbn. split; [discriminate|]. intro H. specialize (H (e, Some x0) (or_introl eq_refl)). discriminate.
    + destruct (cut t) as [l' x']. cbn [snd] in *. rewrite IH. split.
      * intros H x [<-|Hx]; [reflexivity|apply H, Hx].
      * intros H x Hx. apply H. right. exact Hx.
Qed.

Lemma cut_last l h :
  snd (cut l) = Some h ->
  exists e, last (fst (cut l)) e = e /\ e_site e = x_site h /\ e_idx e = x_idx h /\ In e (fst (cut l)).
Proof.
  induction l as [|[e r] t IH]; cbn [cut]; [discriminate|].
  destruct r as [x0|].
  - cbn. intro H. inversion H. exists e. repeat split; try reflexivity. left. reflexivity.
  - destruct (cut t) as [l' x']. cbn [fst snd] in *. intro H.
    destruct (IH H) as (e' & H1 & H2 & H3 & H4). exists e'.
    split; [|split; [exact H2|split; [exact H3|right; exact H4]]].
    destruct l' as [|a l'']; [destruct H4|]. cbn [last] in *. exact H1.
Qed.

(* what the caller gets for an exception h in flight: through the service call the WebFault
   handler of _MethodProxy.__call__ sees it, through RequestContext.process_reply nothing does *)
Lemma exception_delivery_l ps v h :
  snd (cut (concat (firstn (reach v) (msg_stages ps (i_body v))))) = Some h ->
  (is_early (Some h) = true \/ i_via v = Direct ->
     o_res (invoke ps v) = proxy v (raised h) /\ o_res2 (invoke ps v) = RNotRun) /\
  (is_early (Some h) = false -> i_via v <> Direct -> o_res2 (invoke ps v) = raised h).
Proof.
  intro C. rewrite invoke_eq. unfold invoke_decl. rewrite C.
  destruct (is_early (Some h)) eqn:E.
  - split; [intros _; split; reflexivity|discriminate].
  - split.
    + intros [H|H]; [discriminate|]. rewrite H. split; reflexivity.
    + intros _ H. destruct (i_via v); [contradiction|reflexivity].
Qed.

(* the first raising hook among the stages the invocation goes through: its exception -
   of ANY class x_cls h - is what the caller gets, and it is the last hook that ran.  The
   one place where suds looks at the class of what comes out of an invocation is the
   service call's  except WebFault  with faults off, which hands the same object back as
   (500, exception). *)
Lemma hook_exception_propagates_l ps v h :
  snd (cut (concat (firstn (reach v) (msg_stages ps (i_body v))))) = Some h ->
  let r := RHookExc (x_site h) (x_idx h) (x_cls h) in
  ((o_res (invoke ps v) = r \/ o_res2 (invoke ps v) = r) \/
   (is_webfault (x_cls h) = true /\ i_faults v = false /\
    o_res (invoke ps v) = RHookRet (x_site h) (x_idx h) (x_cls h))) /\
  (is_webfault (x_cls h) && negb (i_faults v) = false ->
   o_res (invoke ps v) = r \/ o_res2 (invoke ps v) = r) /\
  exists e, last (o_log (invoke ps v)) e = e /\ e_site e = x_site h /\ e_idx e = x_idx h.
Proof.
  intro C. cbn zeta. destruct (exception_delivery_l ps v h C) as [D1 D2].
  assert (o_res (invoke ps v) = proxy v (raised h) \/ o_res2 (invoke ps v) = raised h) as D.
  { destruct (is_early (Some h)) eqn:E; [left; apply D1; auto|].
    destruct (i_via v) eqn:V; [left; apply D1; auto|right; apply D2; congruence]. }
  unfold proxy, raised in D.
  split; [|split].
  - destruct (is_webfault (x_cls h) && negb (i_faults v)) eqn:W.
    + apply andb_true_iff in W as [W1 W2]. apply negb_true_iff in W2.
      destruct D as [D|D]; [right; auto|left; right; exact D].
    + left. exact D.
  - intro W. rewrite W in D. exact D.
  - rewrite hook_log_l. destruct (cut_last _ _ C) as (e & H1 & H2 & H3 & _). eauto.
Qed.

(* ... and some hook among them raising is enough for that *)
Lemma raising_hook_reaches_caller_l ps v y x :
  In y (concat (firstn (reach v) (msg_stages ps (i_body v)))) -> snd y = Some x ->
  exists h, (o_res (invoke ps v) = raised h \/ o_res2 (invoke ps v) = raised h \/
             o_res (invoke ps v) = RHookRet (x_site h) (x_idx h) (x_cls h)) /\
            exists y', In y' (concat (firstn (reach v) (msg_stages ps (i_body v)))) /\
                       e_site (fst y') = x_site h /\ e_idx (fst y') = x_idx h /\
                       snd y' = Some (x_cls h).
Proof.
  intros Hy Hr.
  destruct (snd (cut (concat (firstn (reach v) (msg_stages ps (i_body v)))))) as [h|] eqn:C.
  - exists h. split.
    + destruct (hook_exception_propagates_l ps v h C) as [[[H|H]|(_ & _ & H)] _]; auto.
    + apply cut_sites in C as (y' & H1 & H2 & H3 & _ & H4). exists y'. auto.
  - rewrite cut_none_iff in C. rewrite (C y Hy) in Hr. discriminate.
Qed.

(* no hook raises: the caller never sees a hook exception *)
Lemma no_spurious_hook_exception_l ps v :
  snd (cut (concat (firstn (reach v) (msg_stages ps (i_body v))))) = None ->
  is_hook_exc (o_res (invoke ps v)) = false /\ is_hook_exc (o_res2 (invoke ps v)) = false.
Proof.
  intro C. rewrite invoke_eq. unfold invoke_decl. rewrite C.
  destruct (i_via v) as [|[|]]; cbn [o_res o_res2 is_hook_exc]; rewrite ?final_not_hook_exc; auto.
  destruct (i_crash v); rewrite ?final_not_hook_exc; auto.
Qed.
