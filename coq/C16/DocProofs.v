(* C16 -- document and init hooks: Client.__init__ in closed form, for any plugin list,
   any list of documents and any cache state a plugin-free client can leave. *)
From SV Require Import Lib.Base C16.Model C16.Proofs.

(* folds of appends *)
Lemma apply_marks_some s l ms :
  s <> SU -> s <> SI -> apply_marks s true (Some l) ms = Some (l ++ ms).
Proof.
  intros H1 H2. revert l. induction ms as [|m t IH]; intro l.
  - cbn. rewrite app_nil_r. reflexivity.
  - rewrite apply_marks_cons.
    replace (edit s true m (Some l)) with (Some (l ++ [m])) by (destruct s; try reflexivity; congruence).
    rewrite IH, <- app_assoc. reflexivity.
Qed.

Lemma apply_marks_none s can ms : s <> SU -> apply_marks s can None ms = None.
Proof.
  intro H. induction ms as [|m t IH]; [reflexivity|].
  rewrite apply_marks_cons.
  replace (edit s can m None) with (@None (list marker)) by (destruct s, can; try reflexivity; congruence).
  exact IH.
Qed.

Lemma apply_marks_cannot s d ms : s <> SU -> apply_marks s false d ms = d.
Proof.
  intro H. induction ms as [|m t IH]; [reflexivity|].
  rewrite apply_marks_cons.
  replace (edit s false m d) with d by (destruct s; try reflexivity; congruence).
  exact IH.
Qed.

Lemma apply_marks_SU can d m ms :
  apply_marks SU can d (m :: ms) = Some (odflt d ++ m :: ms).
Proof.
  rewrite apply_marks_cons. cbn [edit]. fold (odflt d).
  revert d m. induction ms as [|m' t IH]; intros d m; [reflexivity|].
  rewrite apply_marks_cons. cbn [edit]. change (Some (odflt d ++ [m] ++ [m'])) with (Some (odflt d ++ [m; m'])).
  specialize (IH (Some (odflt d ++ [m])) m'). cbn [odflt] in IH.
  cbn [edit] in IH.
  replace (Some ((odflt d ++ [m]) ++ [m'])) with (edit SU can m' (Some (odflt d ++ [m]))) by reflexivity.
  cbn [edit]. rewrite IH. rewrite <- app_assoc. reflexivity.
Qed.

Definition loaded_out (ps : list plugin) : datum := stage_out SL true (Some []) ps.

Lemma loaded_out_some ps : loaded_out ps = Some (marks SL (parts SL ps)).
Proof. unfold loaded_out, stage_out. rewrite apply_marks_some by discriminate. reflexivity. Qed.

(* ------------------------------------------------------------------ *)
(* the cache                                                           *)
(* ------------------------------------------------------------------ *)

(* every cached document is either one of the pre-cached ones (no marker) or was put
   there after the loaded hooks of this plugin list *)
Definition cache_inv (ps : list plugin) (pre : list N) (c : cache) : Prop :=
  (forall u ms, lookup u c = Some ms ->
     Some ms = (if mem_N u pre then Some [] else loaded_out ps)) /\
  (forall u, mem_N u pre = true -> lookup u c <> None).

Lemma cache_inv_init ps pre : cache_inv ps pre (map (fun u => (u, [])) pre).
Proof.
  split.
  - induction pre as [|v r IH]; intros u ms; cbn; [discriminate|].
    destruct (N.eqb u v); [intro H; inversion H; reflexivity|].
    cbn [orb]. apply IH.
  - induction pre as [|v r IH]; intros u; cbn; [discriminate|].
    destruct (N.eqb u v); [discriminate|]. cbn [orb]. apply IH.
Qed.

Lemma cache_inv_put ps pre c u :
  cache_inv ps pre c -> lookup u c = None ->
  cache_inv ps pre ((u, odflt (loaded_out ps)) :: c).
Proof.
  intros [I1 I2] Hm. split.
  - intros v ms. cbn [lookup]. destruct (N.eqb v u) eqn:E; [|apply I1].
    apply N.eqb_eq in E. subst v. intro H. inversion H.
    destruct (mem_N u pre) eqn:M; [destruct (I2 u M Hm)|].
    rewrite loaded_out_some. reflexivity.
  - intros v M. cbn [lookup]. destruct (N.eqb v u); [discriminate|]. apply I2, M.
Qed.

(* ------------------------------------------------------------------ *)
(* DocumentReader.open                                                 *)
(* ------------------------------------------------------------------ *)

Lemma doc_root_false ps pre u :
  doc_root ps pre u false = if mem_N u pre then Some [] else loaded_out ps.
Proof. reflexivity. Qed.
Lemma doc_root_true ps pre u : doc_root ps pre u true = loaded_out ps.
Proof. reflexivity. Qed.

Definition open_stages (ps : list plugin) (pre : list N) (u : N) (f : bool) : list (entry * option xcls) :=
  (if f then stage_full SL u true (Some []) ps else []) ++
  stage_full SD u true (doc_root ps pre u f) ps.

Lemma open_doc_spec ps pre caching c u :
  cache_inv ps pre c ->
  let '(l, f, c', root, x) := open_doc ps caching c u in
  (l, x) = cut (open_stages ps pre u f) /\
  (x = None -> cache_inv ps pre c' /\ root = stage_out SD true (doc_root ps pre u f) ps).
Proof.
  intros I. unfold open_doc, open_stages.
  destruct (if caching then lookup u c else None) as [ms|] eqn:L.
  - (* cached *)
    destruct caching; [|discriminate].
    rewrite hook_eq. unfold hook_decl. cbn beta iota. cbn [app].
    destruct I as [I1 I2].
    assert (doc_root ps pre u false = Some ms) as -> by (symmetry; apply (I1 u ms L)).
    split; [destruct (cut (stage_full SD u true (Some ms) ps)); reflexivity|].
    intros ->. split; [split; assumption|reflexivity].
  - (* fetched *)
    rewrite hook_eq. unfold hook_decl. cbn beta iota.
    destruct (cut (stage_full SL u true (Some []) ps)) as [l1 [e|]] eqn:E1; cbn [fst snd out_of].
    + rewrite cut_app, E1. cbn [fst snd]. split; [reflexivity|discriminate].
    + rewrite hook_eq. unfold hook_decl. cbn beta iota. rewrite cut_app, E1, doc_root_true.
      cbn [fst snd]. fold (loaded_out ps).
      split; [reflexivity|].
      intros ->. split; [|reflexivity].
      destruct caching; [|exact I]. apply cache_inv_put; assumption.
Qed.

Lemma open_all_spec ps pre caching : forall urls c,
  cache_inv ps pre c ->
  let '(l, os, roots, x) := open_all ps caching c urls in
  (l, x) = cut (concat (doc_stages ps pre os)) /\
  (x = None ->
   map fst os = urls /\
   roots = map (fun o : N * bool => stage_out SD true (doc_root ps pre (fst o) (snd o)) ps) os).
Proof.
  induction urls as [|u r IH]; intros c I.
  - cbn. split; [reflexivity|]. intros _. split; reflexivity.
  - cbn [open_all].
    pose proof (open_doc_spec ps pre caching c u I) as H.
    destruct (open_doc ps caching c u) as [[[[l f] c'] root] x].
    destruct H as [H1 H2].
    unfold open_stages in H1. unfold doc_stages in *.
    destruct x as [e|].
    + cbn [map concat fst snd]. rewrite app_nil_r, <- H1. split; [reflexivity|discriminate].
    + destruct (H2 eq_refl) as [I' ->].
      specialize (IH c' I').
      destruct (open_all ps caching c' r) as [[[l2 os] roots] x2].
      destruct IH as [IH1 IH2].
      cbn [map concat fst snd]. rewrite cut_app, <- H1, <- IH1. cbn [fst snd].
      split; [reflexivity|].
      intros ->. destruct (IH2 eq_refl) as [-> ->]. split; reflexivity.
Qed.

Lemma doc_stages_unfold ps pre os :
  doc_stages ps pre os = map (fun o : N * bool => open_stages ps pre (fst o) (snd o)) os.
Proof. unfold doc_stages, open_stages. apply map_ext. intros [u f]. reflexivity. Qed.

(* an exception coming out of the documents' hooks was raised by a loaded / parsed hook *)
Lemma doc_stages_site ps pre os y :
  In y (concat (doc_stages ps pre os)) -> e_site (fst y) = SL \/ e_site (fst y) = SD.
Proof.
  intro H. apply in_concat in H as (st & Hst & Hy). unfold doc_stages in Hst.
  apply in_map_iff in Hst as ([u f] & <- & _).
  apply in_app_iff in Hy as [Hy|Hy].
  - destruct f; [|destruct Hy]. apply stage_full_site in Hy as [-> _]. auto.
  - apply stage_full_site in Hy as [-> _]. auto.
Qed.

(* what the caller of Client() gets for an exception in flight *)
Definition ctor_fail (xsd : list N) (h : hexc) : cres :=
  match x_site h with
  | SI => CHookExc (x_site h) (x_idx h) (x_cls h)
  | _ => doc_fail xsd h
  end.

(* Client.__init__ in closed form *)
Lemma construct_closed_l ps caching pre xsd urls :
  let '(l, os, r) := construct ps caching pre xsd urls in
  let c := cut (concat (doc_stages ps pre os) ++ init_stage ps pre os) in
  l = fst c /\
  r = match snd c with Some h => ctor_fail xsd h | None => COk end /\
  (snd c = None -> map fst os = urls).
Proof.
  unfold construct.
  pose proof (open_all_spec ps pre caching urls _ (cache_inv_init ps pre)) as H.
  destruct (open_all ps caching (map (fun u : N => (u, [])) pre) urls) as [[[l os] roots] x].
  destruct H as [H1 H2].
  destruct x as [h|].
  - cbn beta iota zeta. rewrite cut_app, <- H1. cbn [fst snd].
    split; [reflexivity|]. split; [|discriminate].
    assert (snd (cut (concat (doc_stages ps pre os))) = Some h) as Hc by (rewrite <- H1; reflexivity).
    apply cut_sites in Hc as (y & Hy & Hs & _). apply doc_stages_site in Hy.
    unfold ctor_fail. rewrite <- Hs. destruct Hy as [-> | ->]; reflexivity.
  - destruct (H2 eq_refl) as [Hu ->].
    rewrite hook_eq. unfold hook_decl. cbn beta iota zeta. rewrite cut_app, <- H1. cbn [fst snd].
    assert (hd (Some []) (map (fun o : N * bool => stage_out SD true (doc_root ps pre (fst o) (snd o)) ps) os)
            = match os with [] => Some [] | (u, f) :: _ => stage_out SD true (doc_root ps pre u f) ps end) as ->.
    { destruct os as [|[u f] t]; reflexivity. }
    unfold init_stage.
    destruct os as [|[u f] t]; cbn [fst snd];
      (split; [reflexivity|]; split; [|intros _; exact Hu]);
      match goal with |- context [cut (stage_full SI ?u0 ?c0 ?d0 ps)] =>
        pose proof (cut_stage_site SI u0 c0 d0 ps) as CS;
        destruct (cut (stage_full SI u0 c0 d0 ps)) as [li [h|]]
      end; try reflexivity;
      cbn [fst snd] in *; destruct (CS h eq_refl) as [Hs _]; unfold ctor_fail; rewrite Hs; reflexivity.
Qed.

Lemma ctor_fail_reaches xsd h :
  ctor_exc_reaches xsd h (ctor_fail xsd h) = true.
Proof.
  unfold ctor_exc_reaches, ctor_fail, doc_fail.
  destruct (x_site h); try (rewrite cres_eqb_refl; reflexivity);
    destruct (is_transport (x_cls h) && mem_N (x_url h) xsd); cbn [andb];
    rewrite cres_eqb_refl; cbn; try reflexivity; apply orb_true_r.
Qed.

Lemma construct_meets_spec_l ps caching pre xsd urls :
  let '(l, os, r) := construct ps caching pre xsd urls in spec_ctor ps pre xsd os l r = true.
Proof.
  pose proof (construct_closed_l ps caching pre xsd urls) as H.
  destruct (construct ps caching pre xsd urls) as [[l os] r].
  cbn zeta in H. destruct H as (Hl & Hr & _).
  unfold spec_ctor, spec_ctor_g, log_eqb_g. cbn [negb orb].
  rewrite cut_app in Hl, Hr. rewrite cut_app.
  destruct (cut (concat (doc_stages ps pre os))) as [dlog [h|]]; cbn [fst snd] in *.
  - subst. rewrite log_spec_eqb_refl, ctor_fail_reaches. reflexivity.
  - destruct (cut (init_stage ps pre os)) as [ilog [h|]] eqn:E; cbn [fst snd] in *; subst;
      rewrite log_spec_eqb_refl; cbn [andb]; [|apply cres_eqb_refl].
    assert (x_site h = SI) as Hs.
    { unfold init_stage in E. destruct os as [|[u f] t];
        match type of E with cut (stage_full SI ?u0 ?c0 ?d0 ps) = _ =>
          destruct (cut_stage_site SI u0 c0 d0 ps h) as [Hs _]; [rewrite E; reflexivity|exact Hs]
        end. }
    unfold ctor_fail. rewrite Hs. rewrite <- Hs. apply cres_eqb_refl.
Qed.

(* the exception of the first raising document / init hook is what the caller of Client()
   gets, whatever its class - unless it is a TransportError raised by a hook of a document
   the schema loader downloads *)
Lemma document_hook_exception_propagates_l ps caching pre xsd urls h :
  let '(l, os, r) := construct ps caching pre xsd urls in
  snd (cut (concat (doc_stages ps pre os) ++ init_stage ps pre os)) = Some h ->
  is_transport (x_cls h) && mem_N (x_url h) xsd = false ->
  r = CHookExc (x_site h) (x_idx h) (x_cls h).
Proof.
  pose proof (construct_closed_l ps caching pre xsd urls) as H.
  destruct (construct ps caching pre xsd urls) as [[l os] r].
  cbn zeta in H. destruct H as (_ & Hr & _).
  intros C G. rewrite C in Hr. subst r. unfold ctor_fail, doc_fail. rewrite G.
  destruct (x_site h); reflexivity.
Qed.
