(* C16 -- the send / process_reply pipeline in closed form, and the specification
   holding of it, for plugin lists of any length. *)
From SV Require Import Lib.Base C16.Model C16.Proofs.

Lemma status_cases (st : N) :
  st = 200%N \/ st = 202%N \/ st = 204%N \/ st = 500%N \/
  (N.eqb st 200 = false /\ N.eqb st 202 = false /\ N.eqb st 204 = false /\ N.eqb st 500 = false).
Proof.
  destruct (N.eqb st 200) eqn:A; [apply N.eqb_eq in A; auto|].
  destruct (N.eqb st 202) eqn:B; [apply N.eqb_eq in B; auto|].
  destruct (N.eqb st 204) eqn:C; [apply N.eqb_eq in C; auto|].
  destruct (N.eqb st 500) eqn:D; [apply N.eqb_eq in D; auto 6|].
  auto 10.
Qed.

Ltac hk := rewrite hook_eq; unfold hook_decl; cbn beta iota.

(* destruct the cut of the stage of site s, learning that a raise there is at site s *)
Ltac dcut s :=
  match goal with
  | |- context [cut (stage_full s ?u ?c ?d ?ps)] =>
    let l := fresh "l" in
    let h := fresh "h" in
    let E := fresh "E" in
    destruct (cut (stage_full s u c d ps)) as [l [h|]] eqn:E;
    [ let H := fresh "H" in
      assert (H : x_site h = s) by (eapply cut_stage_site; rewrite E; reflexivity);
      unfold is_early; cbn [fst snd out_of]; rewrite ?H
    | ];
    cbn [fst snd out_of is_early]
  end.

Ltac fin := cbn [fst snd out_of is_early app]; rewrite ?app_nil_r; repeat rewrite <- app_assoc; reflexivity.

(* the reply part *)
Definition reply_decl (ps : list plugin) (v : inv) : list entry * result :=
  let c := cut (concat (skipn 2 (firstn (reach v) (msg_stages ps (i_body v))))) in
  (fst c, match snd c with Some h => raised h | None => final ps v end).

Lemma process_reply_eq ps v :
  no_reply v = false -> process_reply ps v = reply_decl ps v.
Proof.
  destruct v as [via retxml faults crash st b].
  unfold process_reply, reply_decl, reach, final, no_reply, msg_stages,
    d_result, d_decoded, d_parsed, d_received.
  cbn [i_via i_retxml i_faults i_crash i_status i_body].
  intro NR.
  assert (N.eqb st 202 || N.eqb st 204 = false) as E24.
  { destruct via as [|[|]]; [|exact NR|discriminate].
    destruct crash; [discriminate|exact NR]. }
  rewrite NR, E24.
  destruct (status_cases st) as [->|[->|[->|[->|(H1 & H2 & H3 & H4)]]]];
    try discriminate E24.
  - (* 200 *)
    cbn [N.eqb Pos.eqb orb negb].
    destruct b; cbn [firstn skipn concat markable]; hk.
    + destruct retxml; cbn [firstn skipn concat]; rewrite !cut_app, ?cut_nil;
        dcut SR; try fin; hk; dcut SP; try fin; hk; dcut SU; fin.
    + rewrite !cut_app, ?cut_nil. dcut SR; try fin. hk. dcut SP; fin.
    + destruct retxml; cbn [firstn skipn concat]; rewrite !cut_app, ?cut_nil;
        dcut SR; try fin; hk; dcut SP; try fin; hk; dcut SU; fin.
    + rewrite !cut_app, ?cut_nil. dcut SR; fin.
  - (* 500 *)
    cbn [N.eqb Pos.eqb orb negb].
    destruct b; cbn [firstn skipn concat markable]; hk; rewrite !cut_app, ?cut_nil;
      dcut SR; try fin; hk; dcut SP; fin.
  - (* any other status *)
    rewrite H1, H4. cbn [orb negb firstn skipn concat]. hk. rewrite !cut_app, ?cut_nil.
    dcut SR; fin.
Qed.

Lemma process_reply_24 ps v :
  N.eqb (i_status v) 202 || N.eqb (i_status v) 204 = true ->
  process_reply ps v = ([], RValue None) /\ final ps v = RValue None.
Proof. intro H. unfold process_reply, final. rewrite H. split; reflexivity. Qed.

Lemma reach_ge2 v : exists k, reach v = S (S k).
Proof.
  unfold reach.
  destruct (no_reply v); [eexists; reflexivity|].
  destruct (N.eqb (i_status v) 200 || N.eqb (i_status v) 500); [|eexists; reflexivity].
  destruct (i_body v), (N.eqb (i_status v) 200), (i_retxml v); eexists; reflexivity.
Qed.

Lemma stages_split ps b n :
  concat (firstn (S (S n)) (msg_stages ps b)) =
  stage_full SM 0 true d_marshalled ps ++ stage_full SS 0 true (d_sending ps) ps ++
  concat (skipn 2 (firstn (S (S n)) (msg_stages ps b))).
Proof. unfold msg_stages. cbn [firstn skipn concat]. reflexivity. Qed.

Lemma reply_sites ps b n x :
  In x (concat (skipn 2 (firstn n (msg_stages ps b)))) ->
  e_site (fst x) = SR \/ e_site (fst x) = SP \/ e_site (fst x) = SU.
Proof.
  unfold msg_stages.
  do 6 (try destruct n as [|n]); cbn [firstn skipn concat]; rewrite ?in_app_iff; intro H;
    repeat match goal with
           | H : _ \/ _ |- _ => destruct H as [H|H]
           | H : In _ [] |- _ => destruct H
           | H : In _ (stage_full _ _ _ _ _) |- _ => apply stage_full_site in H as [H _]
           end; auto.
Qed.

Lemma reply_not_early ps b n h :
  snd (cut (concat (skipn 2 (firstn n (msg_stages ps b))))) = Some h ->
  is_early (Some h) = false.
Proof.
  intro H. apply cut_sites in H as (x & Hx & H1 & _). apply reply_sites in Hx.
  unfold is_early. rewrite <- H1. destruct Hx as [->|[->| ->]]; reflexivity.
Qed.

Lemma reach_no_reply v : no_reply v = true -> reach v = 2.
Proof. unfold reach. intros ->. reflexivity. Qed.

Lemma final_not_hook_exc ps v : is_hook_exc (final ps v) = false.
Proof.
  unfold final.
  destruct (N.eqb (i_status v) 202 || N.eqb (i_status v) 204); [reflexivity|].
  destruct (N.eqb (i_status v) 200 || N.eqb (i_status v) 500).
  - destruct (i_body v), (N.eqb (i_status v) 200), (i_retxml v), (i_faults v); reflexivity.
  - destruct (i_faults v); reflexivity.
Qed.

(* the service call's WebFault handler leaves everything alone that is no hook exception *)
Lemma proxy_id v r : is_hook_exc r = false -> proxy v r = r.
Proof. destruct r; cbn; try reflexivity; discriminate. Qed.

Lemma proxy_final ps v : proxy v (final ps v) = final ps v.
Proof. apply proxy_id, final_not_hook_exc. Qed.

Lemma invoke_eq ps v : invoke ps v = invoke_decl ps v.
Proof.
  unfold invoke, invoke_decl.
  destruct (reach_ge2 v) as [k Hk].
  rewrite Hk, stages_split, <- Hk. rewrite !cut_app.
  unfold d_sent, d_sending, d_marshalled.
  hk. dcut SM; [reflexivity|].
  hk. dcut SS; [reflexivity|].
  destruct (no_reply v) eqn:NR.
  - (* no reply to process *)
    rewrite (reach_no_reply v NR). unfold msg_stages. cbn [firstn skipn concat cut fst snd].
    rewrite !app_nil_r.
    unfold no_reply in NR. destruct (i_via v) as [|[|]].
    + destruct (i_crash v); [reflexivity|]. cbn [orb] in NR.
      destruct (process_reply_24 ps v NR) as [-> ->]. rewrite app_nil_r. reflexivity.
    + destruct (process_reply_24 ps v NR) as [-> ->]. rewrite app_nil_r. reflexivity.
    + reflexivity.
  - rewrite (process_reply_eq ps v NR). unfold reply_decl.
    set (c := cut (concat (skipn 2 (firstn (reach v) (msg_stages ps (i_body v)))))).
    assert (forall h, snd c = Some h -> is_early (Some h) = false) as NE.
    { intros h H. eapply reply_not_early. exact H. }
    unfold no_reply in NR.
    destruct (snd c) as [h|] eqn:Ec.
    + rewrite (NE h eq_refl).
      destruct (i_via v) as [|[|]]; try discriminate NR.
      * destruct (i_crash v); [discriminate NR|]. reflexivity.
      * reflexivity.
    + destruct (i_via v) as [|[|]]; try discriminate NR.
      * destruct (i_crash v); [discriminate NR|]. rewrite proxy_final. reflexivity.
      * reflexivity.
Qed.

(* ------------------------------------------------------------------ *)
(* the specification holds of the closed form                          *)
(* ------------------------------------------------------------------ *)

Ltac split_inv v :=
  let via := fresh "via" in
  let retxml := fresh "retxml" in
  let faults := fresh "faults" in
  let crash := fresh "crash" in
  let st := fresh "st" in
  let b := fresh "b" in
  destruct v as [via retxml faults crash st b];
  cbn [i_via i_retxml i_faults i_crash i_status i_body];
  destruct (status_cases st) as [->|[->|[->|[->|(?H1 & ?H2 & ?H3 & ?H4)]]]];
  [ | | | | rewrite ?H1, ?H2, ?H3, ?H4 ];
  destruct via as [|[|]], crash, b, retxml.

Lemma reach_in_range v :
  Nat.leb (fst (reach_range v)) (reach v) && Nat.leb (reach v) (snd (reach_range v)) = true /\
  In (reach v) (seq 0 6).
Proof.
  unfold reach_range, reach, no_reply, is_fault, is_normal.
  split_inv v; cbn; auto 10.
Qed.

Lemma final_ok ps v : reply_result_ok ps v (reach v) (final ps v) = true.
Proof.
  unfold reply_result_ok. rewrite final_not_hook_exc. cbn [negb andb].
  unfold reach, final, no_reply, is_fault, is_normal.
  split_inv v; cbn [N.eqb Pos.eqb orb andb negb Nat.eqb]; try reflexivity;
    destruct faults; rewrite ?markers_eqb_refl, ?datum_eqb_refl; reflexivity.
Qed.

Lemma crash_ok ps v : i_via v = Direct -> i_crash v = true ->
  reply_result_ok ps v (reach v) RTransportExc = true.
Proof.
  intros V C. unfold reply_result_ok, no_reply. rewrite V, C. reflexivity.
Qed.

(* whatever the class: raised as it is, or, through the service call, as the WebFault
   handler leaves it *)
Lemma raised_reaches call v h : exc_reaches call v h (raised h) = true.
Proof. unfold exc_reaches, raised. rewrite result_eqb_refl. reflexivity. Qed.

Lemma proxy_reaches v h : exc_reaches true v h (proxy v (raised h)) = true.
Proof.
  unfold exc_reaches, raised, proxy.
  destruct (is_webfault (x_cls h) && negb (i_faults v)) eqn:E.
  - apply andb_true_iff in E as [-> ->]. rewrite result_eqb_refl. cbn. rewrite ?orb_true_r. reflexivity.
  - rewrite result_eqb_refl. reflexivity.
Qed.

Lemma spec_inv_n_decl ps v : spec_inv_n ps v (invoke_decl ps v) (reach v) = true.
Proof.
  unfold spec_inv_n, spec_inv_n_g, invoke_decl.
  set (c := cut (concat (firstn (reach v) (msg_stages ps (i_body v))))).
  destruct c as [elog ex] eqn:Ec. cbn [fst snd negb orb].
  unfold log_eqb_g.
  destruct ex as [h|].
  - destruct (is_early (Some h)) eqn:EE.
    + cbn [o_log o_sent o_res o_res2]. rewrite log_spec_eqb_refl, proxy_reaches, !result_eqb_refl.
      destruct (i_via v) as [|[|]]; reflexivity.
    + destruct (i_via v) as [|[|]]; cbn [o_log o_sent o_res o_res2];
        rewrite log_spec_eqb_refl, ?markers_eqb_refl, ?proxy_reaches, ?raised_reaches, !result_eqb_refl;
        reflexivity.
  - cbn [is_early].
    destruct (i_via v) as [|[|]] eqn:V; cbn [o_log o_sent o_res o_res2];
      rewrite log_spec_eqb_refl, ?markers_eqb_refl, ?result_eqb_refl, ?final_ok; try reflexivity.
    destruct (i_crash v) eqn:C; [rewrite (crash_ok ps v V C)|rewrite final_ok]; reflexivity.
Qed.

Lemma spec_inv_decl ps v : spec_inv ps v (invoke_decl ps v) = true.
Proof.
  unfold spec_inv, spec_inv_g.
  destruct (reach_in_range v) as [R I].
  destruct (reach_range v) as [lo hi]. cbn [fst snd] in R.
  apply existsb_exists. exists (reach v). split; [exact I|].
  rewrite R. cbn [andb]. apply spec_inv_n_decl.
Qed.

Lemma model_meets_spec_l ps v : spec_inv ps v (invoke ps v) = true.
Proof. rewrite invoke_eq. apply spec_inv_decl. Qed.
