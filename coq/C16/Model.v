(* C16 -- Plugins run in order, once per stage, and later stages see their edits.

   MODEL of suds/plugin.py (PluginContainer.__getattr__, PluginDomain, Method.__call__),
   of the five message-hook call sites in suds/client.py (_SoapClient.send /
   process_reply, RequestContext.process_reply), of the document hooks in
   suds/reader.py (DocumentReader.open / __fetch, with the cache) and of the init hook
   in Client.__init__.

   Every hook edit is abstracted to "append the marker (site, plugin index)" to the datum
   the hook is handed, so the order of edits and what a later stage sees are observable:
     envelope tree  -> list of markers   (marshalled: edited in place)
     request bytes  -> list of markers   (sending: ctx.envelope RETURNED)
     reply bytes    -> list of markers   (received: ctx.reply RETURNED)
     reply tree     -> option (list of markers)  (parsed: in place; None for an empty reply)
     reply value    -> option (list of markers)  (unmarshalled: ctx.reply RETURNED)
     document bytes / document root -> list of markers (loaded RETURNED / parsed in place)

   SPEC (second half of the file): written from the property text with filters, folds
   and prefixes, not from the control flow. *)
From SV Require Import Lib.Base.

(* ------------------------------------------------------------------ *)
(* plugins                                                             *)
(* ------------------------------------------------------------------ *)

(* call sites: document loaded / document parsed / initialized /
   marshalled / sending / received / message parsed / unmarshalled *)
Inductive site := SL | SD | SI | SM | SS | SR | SP | SU.

Definition site_code (s : site) : N :=
  match s with SL => 0 | SD => 1 | SI => 2 | SM => 3 | SS => 4 | SR => 5 | SP => 6 | SU => 7 end.
Definition site_eqb (a b : site) : bool := N.eqb (site_code a) (site_code b).

Inductive kind := KInit | KDoc | KMsg.
(* method names: the document and the message domain both use the name "parsed" *)
Inductive mname := NInitialized | NLoaded | NParsed | NMarshalled | NSending | NReceived | NUnmarshalled.

Definition site_kind (s : site) : kind :=
  match s with SL | SD => KDoc | SI => KInit | _ => KMsg end.
Definition site_name (s : site) : mname :=
  match s with
  | SL => NLoaded | SD => NParsed | SI => NInitialized | SM => NMarshalled
  | SS => NSending | SR => NReceived | SP => NParsed | SU => NUnmarshalled
  end.

(* the class of the exception a hook raises.  The classes are those suds itself catches
   somewhere or raises itself, next to ordinary ones:
     XPlain Exception, XSub a user subclass of Exception, XValue ValueError, XLookup KeyError,
     XAttr AttributeError, XType TypeError, XOS OSError,
     XWebFault suds.WebFault                 (caught by the service call when faults is off)
     XTransport suds.transport.TransportError, XTransportSub a subclass of it
                                              (caught around transport.send and around the
                                               schema loader's download of an import/include)
     XSax xml.sax.SAXParseException          (what the reply parser raises itself)
     XBase a subclass of BaseException that is no Exception *)
Inductive xcls := XPlain | XSub | XValue | XLookup | XAttr | XType | XOS
                | XWebFault | XTransport | XTransportSub | XSax | XBase.

Definition xcls_code (x : xcls) : N :=
  match x with
  | XPlain => 0 | XSub => 1 | XValue => 2 | XLookup => 3 | XAttr => 4 | XType => 5 | XOS => 6
  | XWebFault => 7 | XTransport => 8 | XTransportSub => 9 | XSax => 10 | XBase => 11
  end.
Definition xcls_eqb (a b : xcls) : bool := N.eqb (xcls_code a) (xcls_code b).
(* isinstance(e, WebFault) / isinstance(e, TransportError) *)
Definition is_webfault (x : xcls) : bool := match x with XWebFault => true | _ => false end.
Definition is_transport (x : xcls) : bool :=
  match x with XTransport | XTransportSub => true | _ => false end.

(* what getattr(plugin, name, None) finds:
   Inherit       the no-op of the suds base class (called, nothing observable)
   NonCallable   an attribute that is not callable (None, 7): skipped
   FalsyCallable a callable object whose truth value is False: skipped by `if method and ...`
   Fn e r        an overriding function; e: it edits its datum, r: the class of the
                 exception it raises (None: it returns) *)
Inductive slot := Inherit | NonCallable | FalsyCallable | Fn (edits : bool) (raises : option xcls).

Record plugin := Plug {
  p_init : bool; p_doc : bool; p_msg : bool;          (* isinstance(p, InitPlugin/DocumentPlugin/MessagePlugin) *)
  h_initialized : slot; h_loaded : slot; h_parsed : slot; h_marshalled : slot;
  h_sending : slot; h_received : slot; h_unmarshalled : slot }.

Definition has_kind (k : kind) (p : plugin) : bool :=
  match k with KInit => p_init p | KDoc => p_doc p | KMsg => p_msg p end.
Definition get_slot (n : mname) (p : plugin) : slot :=
  match n with
  | NInitialized => h_initialized p | NLoaded => h_loaded p | NParsed => h_parsed p
  | NMarshalled => h_marshalled p | NSending => h_sending p | NReceived => h_received p
  | NUnmarshalled => h_unmarshalled p
  end.

Definition marker := (site * nat)%type.
Definition datum := option (list marker).

Record entry := mkE {
  e_site : site; e_idx : nat; e_url : N;
  e_view : datum;             (* the markers the hook finds in the datum it is handed *)
  e_seen : list nat }.        (* the plugins that wrote to this very context object before *)

(* one hook's edit.  unmarshalled assigns ctx.reply whatever it was; the init hook only looks;
   everything else appends to a datum that exists and can carry a marker *)
Definition edit (s : site) (can : bool) (m : marker) (d : datum) : datum :=
  match s with
  | SU => Some (match d with Some ms => ms | None => [] end ++ [m])
  | SI => d
  | _ => if can then match d with Some ms => Some (ms ++ [m]) | None => None end else d
  end.

(* ------------------------------------------------------------------ *)
(* MODEL: plugin.py                                                    *)
(* ------------------------------------------------------------------ *)

Fixpoint index_from {A} (i : nat) (l : list A) : list (nat * A) :=
  match l with [] => [] | x :: r => (i, x) :: index_from (S i) r end.

(* PluginContainer.__getattr__:  [p for p in self.plugins if isinstance(p, pclass)] *)
Definition domain (k : kind) (ps : list (nat * plugin)) : list (nat * plugin) :=
  filter (fun ip => has_kind k (snd ip)) ps.

(* an exception in flight: the hook call that raised it (site, plugin, URL of the document
   for the document hooks, 0 otherwise) and its class *)
Record hexc := HX { x_site : site; x_idx : nat; x_url : N; x_cls : xcls }.
Definition exc := option hexc.

(* Method.__call__: a fresh context, then the plugins of the domain in order;
   an exception - of whatever class: there is no try in the loop - leaves the loop at once *)
Fixpoint call (s : site) (url : N) (can : bool) (ps : list (nat * plugin)) (d : datum) (seen : list nat)
  : list entry * datum * exc :=
  match ps with
  | [] => ([], d, None)
  | (i, p) :: r =>
    match get_slot (site_name s) p with
    | Fn e raises =>
      let ent := mkE s i url d seen in
      match raises with
      | Some x => ([ent], None, Some (HX s i url x))        (* no context comes back *)
      | None =>
        let '(l, d', x) := call s url can r (if e then edit s can (s, i) d else d) (seen ++ [i]) in
        (ent :: l, d', x)
      end
    | _ => call s url can r d seen
    end
  end.

Definition hook (s : site) (url : N) (can : bool) (ps : list plugin) (d : datum) :=
  call s url can (domain (site_kind s) (index_from 0 ps)) d [].

(* ------------------------------------------------------------------ *)
(* MODEL: reader.py / Client.__init__                                  *)
(* ------------------------------------------------------------------ *)

Definition cache := list (N * list marker).

Fixpoint lookup (u : N) (c : cache) : option (list marker) :=
  match c with [] => None | (v, ms) :: r => if N.eqb u v then Some ms else lookup u r end.

(* the documents opened, in order, each with "was it fetched" *)
Definition opens := list (N * bool).

(* DocumentReader.open: log, fetched?, cache, document root, exception *)
Definition open_doc (ps : list plugin) (caching : bool) (c : cache) (u : N)
  : list entry * bool * cache * datum * exc :=
  match (if caching then lookup u c else None) with
  | Some ms =>
    let '(l, d, x) := hook SD u true ps (Some ms) in (l, false, c, d, x)
  | None =>
    (* __fetch: content from the store, loaded hooks, ctx.document parsed *)
    let '(l1, d1, x1) := hook SL u true ps (Some []) in
    match x1 with
    | Some e => (l1, true, c, d1, Some e)
    | None =>
      let c' := if caching then (u, match d1 with Some ms => ms | None => [] end) :: c else c in
      let '(l2, d2, x2) := hook SD u true ps d1 in
      (l1 ++ l2, true, c', d2, x2)
    end
  end.

Fixpoint open_all (ps : list plugin) (caching : bool) (c : cache) (urls : list N)
  : list entry * opens * list datum * exc :=
  match urls with
  | [] => ([], [], [], None)
  | u :: r =>
    let '(l, f, c', root, x) := open_doc ps caching c u in
    match x with
    | Some e => (l, [(u, f)], [root], Some e)
    | None =>
      let '(l2, os, roots, x2) := open_all ps caching c' r in
      (l ++ l2, (u, f) :: os, root :: roots, x2)
    end
  end.

(* COk the client; CHookExc the exception object a hook raised; CWrapped a new
   Exception("import/include schema ... failed") raised while handling the hook's one *)
Inductive cres := COk | CHookExc (s : site) (i : nat) (x : xcls) | CWrapped (s : site) (i : nat) (x : xcls) | COther.

Fixpoint mem_N (u : N) (l : list N) : bool :=
  match l with [] => false | v :: r => N.eqb u v || mem_N u r end.

(* suds/xsd/sxbasic.py Import/Include.__download: the document of an xsd:import / xsd:include
   is opened inside  try: ... except TransportError: raise Exception(msg);  every other
   document (the WSDL, a wsdl:import) is opened without a handler.  xsd: the URLs the
   schema loader opens. *)
Definition doc_fail (xsd : list N) (h : hexc) : cres :=
  if is_transport (x_cls h) && mem_N (x_url h) xsd
  then CWrapped (x_site h) (x_idx h) (x_cls h)
  else CHookExc (x_site h) (x_idx h) (x_cls h).

(* Client.__init__: the documents are opened (the WSDL first), then the init hook *)
Definition construct (ps : list plugin) (caching : bool) (pre xsd : list N) (urls : list N)
  : list entry * opens * cres :=
  let '(l, os, roots, x) := open_all ps caching (map (fun u => (u, [])) pre) urls in
  match x with
  | Some h => (l, os, doc_fail xsd h)
  | None =>
    let '(li, _, xi) := hook SI 0 true ps (hd (Some []) roots) in
    (l ++ li, os, match xi with Some h => CHookExc (x_site h) (x_idx h) (x_cls h) | None => COk end)
  end.

(* ------------------------------------------------------------------ *)
(* MODEL: client.py                                                    *)
(* ------------------------------------------------------------------ *)

Inductive body := BNormal | BFault | BEmpty | BGarbage.
Inductive via := Direct | NoSend (process : bool).

Record inv := Inv {
  i_via : via; i_retxml : bool; i_faults : bool;
  i_crash : bool;              (* transport.send raises something that is no TransportError *)
  i_status : N;                (* 200 = a Reply object / status None *)
  i_body : body }.

Inductive result :=
| RNotRun
| RRequest (bytes : list marker)        (* nosend: RequestContext.envelope *)
| RBytes (ms : list marker)             (* retxml *)
| RValue (v : datum)                    (* the decoded value; RValue None is Python's None *)
| ROk (v : datum)                       (* (200, value) with faults=False *)
| RFault (ms : list marker)             (* WebFault raised *)
| RFaultT (ms : list marker)            (* (500, fault) *)
| RStatusExc (s : N)                    (* Exception((status, description)) *)
| RStatusT (s : N)                      (* (status, description) *)
| RParseExc
| RHookExc (s : site) (i : nat) (x : xcls)    (* the exception object raised by hook s of plugin i, raised *)
| RHookRet (s : site) (i : nat) (x : xcls)    (* (500, that exception object) returned *)
| RTransportExc
| ROther.

Definition markable (b : body) : bool := match b with BNormal | BFault => true | _ => false end.
Definition odflt (d : datum) : list marker := match d with Some ms => ms | None => [] end.

Definition raised (h : hexc) : result := RHookExc (x_site h) (x_idx h) (x_cls h).

(* _MethodProxy.__call__ around _SoapClient.invoke:
     try: return client.invoke(args, kwargs)
     except WebFault as e:  if self.faults(): raise;  return 500, e
   applies to whatever exception comes out of the service call, a hook's included *)
Definition proxy (v : inv) (r : result) : result :=
  match r with
  | RHookExc s i x => if is_webfault x && negb (i_faults v) then RHookRet s i x else r
  | _ => r
  end.

(* _SoapClient.process_reply: no handler around any hook call *)
Definition process_reply (ps : list plugin) (v : inv) : list entry * result :=
  let status := i_status v in
  if N.eqb status 202 || N.eqb status 204 then ([], RValue None)
  else
    let '(lr, dr, xr) := hook SR 0 (markable (i_body v)) ps (Some []) in
    match xr with
    | Some h => (lr, raised h)
    | None =>
      let status_exit (l : list entry) :=
        (l, if i_faults v then RStatusExc status else RStatusT status) in
      let tail (l : list entry) (root : datum) :=
        (* after the fault check *)
        if negb (N.eqb status 200) then status_exit l
        else if i_retxml v then (l, RBytes (odflt dr))
        else
          let '(lu, du, xu) := hook SU 0 true ps root in       (* result = replyroot and get_reply(..) *)
          match xu with
          | Some h => (l ++ lu, raised h)
          | None => (l ++ lu, if i_faults v then RValue du else ROk du)
          end in
      if N.eqb status 200 || N.eqb status 500 then
        match i_body v with
        | BGarbage => (lr, RParseExc)                           (* _parse raises *)
        | b =>
          let root : datum := match b with BEmpty => None | _ => dr end in
          let '(lp, dp, xp) := hook SP 0 true ps root in
          match xp with
          | Some h => (lr ++ lp, raised h)
          | None =>
            match b with
            | BFault => (lr ++ lp, if i_faults v then RFault (odflt dp) else RFaultT (odflt dp))
            | _ => tail (lr ++ lp) dp
            end
          end
        end
      else tail lr None
    end.

Record iobs := IObs {
  o_log : list entry;
  o_sent : list (list marker);     (* the messages handed to transport.send *)
  o_res : result;                  (* what the invocation returns / raises *)
  o_res2 : result }.               (* nosend: what RequestContext.process_reply returns / raises *)

(* _SoapClient.send (followed, for nosend, by the caller's RequestContext.process_reply).
     try: reply = transport.send(request)
     except TransportError as e: return self.process_reply(content, e.httpcode, tostr(e))
     return self.process_reply(reply.message, None, None)
   The handler covers transport.send alone (i_status says which way it went); both calls
   of process_reply are outside the try, so the class of an exception coming out of
   process_reply plays no role here.  The service call's own handler (proxy) is around all
   of it; RequestContext.process_reply is called by the user directly. *)
Definition invoke (ps : list plugin) (v : inv) : iobs :=
  let '(lm, dm, xm) := hook SM 0 true ps (Some []) in
  match xm with
  | Some h => IObs lm [] (proxy v (raised h)) RNotRun
  | None =>
    (* soapenv.plain().encode(): the markers in the tree are in the bytes *)
    let '(ls, ds, xs) := hook SS 0 true ps dm in
    match xs with
    | Some h => IObs (lm ++ ls) [] (proxy v (raised h)) RNotRun
    | None =>
      let bytes := odflt ds in
      match i_via v with
      | NoSend false => IObs (lm ++ ls) [] (RRequest bytes) RNotRun
      | NoSend true =>
        let '(lr, res) := process_reply ps v in
        IObs (lm ++ ls ++ lr) [] (RRequest bytes) res
      | Direct =>
        if i_crash v then IObs (lm ++ ls) [bytes] RTransportExc RNotRun
        else
          let '(lr, res) := process_reply ps v in
          IObs (lm ++ ls ++ lr) [bytes] (proxy v res) RNotRun
      end
    end
  end.

(* ------------------------------------------------------------------ *)
(* SPECIFICATION (from the property text)                              *)
(* ------------------------------------------------------------------ *)

(* a plugin takes part in a stage when it is of the matching kind and overrides the hook
   with a function *)
Definition takes_part (s : site) (p : plugin) : option (bool * option xcls) :=
  if has_kind (site_kind s) p then
    match get_slot (site_name s) p with Fn e r => Some (e, r) | _ => None end
  else None.

Record part := mkPart { q_idx : nat; q_edits : bool; q_raises : option xcls }.

(* the participants of a stage, in registration order *)
Fixpoint parts_from (s : site) (i : nat) (ps : list plugin) : list part :=
  match ps with
  | [] => []
  | p :: r =>
    match takes_part s p with
    | Some (e, x) => mkPart i e x :: parts_from s (S i) r
    | None => parts_from s (S i) r
    end
  end.
Definition parts (s : site) (ps : list plugin) : list part := parts_from s 0 ps.

(* the markers left by a list of participants, and a datum after these edits (a fold) *)
Definition marks (s : site) (l : list part) : list marker :=
  map (fun q => (s, q_idx q)) (filter q_edits l).
Definition apply_marks (s : site) (can : bool) (d : datum) (ms : list marker) : datum :=
  fold_left (fun d m => edit s can m d) ms d.

(* a stage handed d0: each participant exactly once, in order; the j-th one finds d0 edited
   by the participants before it, on a context the earlier ones have written to *)
Definition stage_full (s : site) (url : N) (can : bool) (d0 : datum) (ps : list plugin)
  : list (entry * option xcls) :=
  let l := parts s ps in
  map (fun j =>
         let q := nth j l (mkPart 0 false None) in
         (mkE s (q_idx q) url (apply_marks s can d0 (marks s (firstn j l))) (map q_idx (firstn j l)),
          q_raises q))
      (seq 0 (length l)).
(* what the stage hands on *)
Definition stage_out (s : site) (can : bool) (d0 : datum) (ps : list plugin) : datum :=
  apply_marks s can d0 (marks s (parts s ps)).

(* everything stops at the first hook that raises - whatever it raises *)
Fixpoint cut (l : list (entry * option xcls)) : list entry * exc :=
  match l with
  | [] => ([], None)
  | (e, r) :: t =>
    match r with
    | Some x => ([e], Some (HX (e_site e) (e_idx e) (e_url e) x))
    | None => let '(l', x) := cut t in (e :: l', x)
    end
  end.

(* ---- message hooks ---- *)

(* data flow: what each stage is handed *)
Definition d_marshalled : datum := Some [].
Definition d_sending (ps : list plugin) : datum := stage_out SM true d_marshalled ps.
Definition d_sent (ps : list plugin) : list marker := odflt (stage_out SS true (d_sending ps) ps).
Definition d_received : datum := Some [].
Definition d_parsed (ps : list plugin) (b : body) : datum :=
  match b with
  | BEmpty => None                                      (* nothing to parse *)
  | _ => stage_out SR (markable b) d_received ps
  end.
Definition d_decoded (ps : list plugin) (b : body) : datum := stage_out SP true (d_parsed ps b) ps.
Definition d_result (ps : list plugin) (b : body) : datum := stage_out SU true (d_decoded ps b) ps.

Definition msg_stages (ps : list plugin) (b : body) : list (list (entry * option xcls)) :=
  [ stage_full SM 0 true d_marshalled ps;
    stage_full SS 0 true (d_sending ps) ps;
    stage_full SR 0 (markable b) d_received ps;
    stage_full SP 0 true (d_parsed ps b) ps;
    stage_full SU 0 true (d_decoded ps b) ps ].

(* is there a reply to work on at all? *)
Definition no_reply (v : inv) : bool :=
  match i_via v with
  | NoSend false => true
  | NoSend true => N.eqb (i_status v) 202 || N.eqb (i_status v) 204
  | Direct => i_crash v || N.eqb (i_status v) 202 || N.eqb (i_status v) 204
  end.
Definition is_fault (v : inv) : bool :=
  (N.eqb (i_status v) 200 || N.eqb (i_status v) 500) &&
  match i_body v with BFault => true | _ => false end.
Definition is_normal (v : inv) : bool :=
  N.eqb (i_status v) 200 && match i_body v with BNormal => true | _ => false end.

(* how many of the five stages an invocation must / may reach.  Where the property text
   is silent (empty reply body, error statuses, garbage) the range is wide. *)
Definition reach_range (v : inv) : nat * nat :=
  if no_reply v then (2, 2)
  else if is_fault v then (4, 4)                              (* no unmarshalled for a fault *)
  else if is_normal v then (if i_retxml v then (3, 4) else (5, 5))
  else if N.eqb (i_status v) 200 then
    match i_body v with
    | BEmpty => (2, if i_retxml v then 4 else 5)
    | _ => (2, 4)
    end
  else (2, 4).

Definition marker_eqb (a b : marker) : bool := site_eqb (fst a) (fst b) && Nat.eqb (snd a) (snd b).
Definition markers_eqb := list_eqb marker_eqb.
Definition datum_eqb : datum -> datum -> bool := opt_eqb markers_eqb.
Definition entry_eqb (a b : entry) : bool :=
  site_eqb (e_site a) (e_site b) && Nat.eqb (e_idx a) (e_idx b) && N.eqb (e_url a) (e_url b) &&
  datum_eqb (e_view a) (e_view b) && list_eqb Nat.eqb (e_seen a) (e_seen b).
Definition log_eqb := list_eqb entry_eqb.
(* which hook ran for which plugin on which URL, ignoring what it saw (diagnosis only) *)
Definition entry_key_eqb (a b : entry) : bool :=
  site_eqb (e_site a) (e_site b) && Nat.eqb (e_idx a) (e_idx b) && N.eqb (e_url a) (e_url b).
(* the property text does not speak about the context object the hooks of one stage
   share: e_seen is compared by c16_agrees only, not by the specification *)
Definition entry_spec_eqb (a b : entry) : bool :=
  entry_key_eqb a b && datum_eqb (e_view a) (e_view b).
Definition log_spec_eqb := list_eqb entry_spec_eqb.
Definition log_eqb_g (views : bool) := if views then log_spec_eqb else list_eqb entry_key_eqb.

Definition result_eqb (a b : result) : bool :=
  match a, b with
  | RNotRun, RNotRun | RParseExc, RParseExc | RTransportExc, RTransportExc
  | ROther, ROther => true
  | RRequest x, RRequest y | RBytes x, RBytes y | RFault x, RFault y | RFaultT x, RFaultT y => markers_eqb x y
  | RValue x, RValue y | ROk x, ROk y => datum_eqb x y
  | RStatusExc x, RStatusExc y | RStatusT x, RStatusT y => N.eqb x y
  | RHookExc s i x, RHookExc t j y | RHookRet s i x, RHookRet t j y =>
    site_eqb s t && Nat.eqb i j && xcls_eqb x y
  | _, _ => false
  end.

Definition is_hook_exc (r : result) : bool :=
  match r with RHookExc _ _ _ | RHookRet _ _ _ => true | _ => false end.

(* "an exception raised by a hook reaches the caller": the caller of the operation (call =
   true) or of RequestContext.process_reply (call = false) gets the very exception object
   the hook raised - raised, or, suds' convention for faults=False, a WebFault handed back
   by the service call as (500, exception).  Nothing about the class otherwise: the
   requirement is the same for every exception a hook can raise. *)
Definition exc_reaches (call : bool) (v : inv) (h : hexc) (r : result) : bool :=
  result_eqb r (RHookExc (x_site h) (x_idx h) (x_cls h)) ||
  (call && is_webfault (x_cls h) && negb (i_faults v) &&
   result_eqb r (RHookRet (x_site h) (x_idx h) (x_cls h))).

(* the caller-visible outcome of the reply part when no hook raised *)
Definition reply_result_ok (ps : list plugin) (v : inv) (n : nat) (r : result) : bool :=
  negb (is_hook_exc r) &&
  (if no_reply v then true
   else if is_fault v then
     (* the fault the caller gets was decoded from the tree the parsed hooks left *)
     match r with
     | RFault ms | RFaultT ms => markers_eqb ms (odflt (d_decoded ps (i_body v)))
     | _ => false
     end
   else if Nat.eqb n 5 then
     (* the value set in unmarshalled is what the caller gets *)
     match r with
     | RValue x | ROk x => datum_eqb x (d_result ps (i_body v))
     | _ => negb (is_normal v)
     end
   else true).

(* did a marshalled / sending hook raise *)
Definition is_early (x : exc) : bool :=
  match x with
  | Some h => match x_site h with SM | SS => true | _ => false end
  | None => false
  end.

(* one candidate number of stages reached.  The three flags switch parts of the check
   off; they are all true in the specification and only used to name what failed. *)
Definition spec_inv_n_g (cv cs cr : bool) (ps : list plugin) (v : inv) (o : iobs) (n : nat) : bool :=
  let '(elog, ex) := cut (concat (firstn n (msg_stages ps (i_body v)))) in
  log_eqb_g cv (o_log o) elog &&
  (* does the request leave the client, and with which bytes *)
  let raised_early := is_early ex in        (* a marshalled / sending hook raised *)
  let sent_ok :=
    match i_via v with
    | Direct => if raised_early then match o_sent o with [] => true | _ => false end
                else match o_sent o with [b] => markers_eqb b (d_sent ps) | _ => false end
    | NoSend _ => match o_sent o with [] => true | _ => false end
    end in
  (negb cs || sent_ok) &&
  (negb cr ||
  match ex with
  | Some h =>
    (* an exception raised by a hook reaches the caller *)
    if raised_early then exc_reaches true v h (o_res o) && result_eqb (o_res2 o) RNotRun
    else match i_via v with
         | Direct => exc_reaches true v h (o_res o) && result_eqb (o_res2 o) RNotRun
         | NoSend _ => result_eqb (o_res o) (RRequest (d_sent ps)) && exc_reaches false v h (o_res2 o)
         end
  | None =>
    match i_via v with
    | Direct => reply_result_ok ps v n (o_res o) && result_eqb (o_res2 o) RNotRun
    | NoSend false => result_eqb (o_res o) (RRequest (d_sent ps)) && result_eqb (o_res2 o) RNotRun
    | NoSend true => result_eqb (o_res o) (RRequest (d_sent ps)) && reply_result_ok ps v n (o_res2 o)
    end
  end).

Definition spec_inv_g (cv cs cr : bool) (ps : list plugin) (v : inv) (o : iobs) : bool :=
  let '(lo, hi) := reach_range v in
  existsb (fun n => Nat.leb lo n && Nat.leb n hi && spec_inv_n_g cv cs cr ps v o n) (seq 0 6).

Definition spec_inv_n := spec_inv_n_g true true true.
Definition spec_inv := spec_inv_g true true true.


(* ------------------------------------------------------------------ *)
(* closed form of an invocation (proved equal to `invoke` in MsgProofs) *)
(* ------------------------------------------------------------------ *)

(* how many stages an invocation goes through when no hook raises *)
Definition reach (v : inv) : nat :=
  if no_reply v then 2
  else if N.eqb (i_status v) 200 || N.eqb (i_status v) 500 then
    match i_body v with
    | BGarbage => 3
    | BFault => 4
    | _ => if N.eqb (i_status v) 200 then (if i_retxml v then 4 else 5) else 4
    end
  else 3.

(* what the reply part gives the caller when no hook raises *)
Definition final (ps : list plugin) (v : inv) : result :=
  let st := i_status v in
  let b := i_body v in
  let status_exit := if i_faults v then RStatusExc st else RStatusT st in
  if N.eqb st 202 || N.eqb st 204 then RValue None
  else if N.eqb st 200 || N.eqb st 500 then
    match b with
    | BGarbage => RParseExc
    | BFault => if i_faults v then RFault (odflt (d_decoded ps b)) else RFaultT (odflt (d_decoded ps b))
    | _ =>
      if negb (N.eqb st 200) then status_exit
      else if i_retxml v then RBytes (odflt (stage_out SR (markable b) d_received ps))
      else if i_faults v then RValue (d_result ps b) else ROk (d_result ps b)
    end
  else status_exit.

Definition invoke_decl (ps : list plugin) (v : inv) : iobs :=
  let c := cut (concat (firstn (reach v) (msg_stages ps (i_body v)))) in
  let bytes := d_sent ps in
  match snd c with
  | Some h =>
    if is_early (snd c) then IObs (fst c) [] (proxy v (raised h)) RNotRun
    else match i_via v with
         | Direct => IObs (fst c) [bytes] (proxy v (raised h)) RNotRun
         | NoSend _ => IObs (fst c) [] (RRequest bytes) (raised h)
         end
  | None =>
    match i_via v with
    | Direct => IObs (fst c) [bytes] (if i_crash v then RTransportExc else final ps v) RNotRun
    | NoSend false => IObs (fst c) [] (RRequest bytes) RNotRun
    | NoSend true => IObs (fst c) [] (RRequest bytes) (final ps v)
    end
  end.

(* the result of the reply part: with nosend it comes from RequestContext.process_reply *)
Definition reply_res (v : inv) (o : iobs) : result :=
  match i_via v with Direct => o_res o | NoSend _ => o_res2 o end.

(* ---- document and init hooks ---- *)

(* what the parsed hooks of a document are handed: the fetched text as the loaded hooks
   left it; for a document that was not fetched, the cached one *)
Definition doc_root (ps : list plugin) (pre : list N) (u : N) (fetched : bool) : datum :=
  if fetched then stage_out SL true (Some []) ps
  else if mem_N u pre then Some [] else stage_out SL true (Some []) ps.

(* loaded once per fetched document, parsed once per opened document, each with its URL *)
Definition doc_stages (ps : list plugin) (pre : list N) (os : opens) : list (list (entry * option xcls)) :=
  map (fun o : N * bool =>
         let (u, f) := o in
         (if f then stage_full SL u true (Some []) ps else []) ++
         stage_full SD u true (doc_root ps pre u f) ps) os.

Definition init_stage (ps : list plugin) (pre : list N) (os : opens) : list (entry * option xcls) :=
  match os with
  | [] => stage_full SI 0 true (Some []) ps
  | (u, f) :: _ => stage_full SI 0 true (stage_out SD true (doc_root ps pre u f) ps) ps
  end.

Definition cres_eqb (a b : cres) : bool :=
  match a, b with
  | COk, COk | COther, COther => true
  | CHookExc s i x, CHookExc t j y | CWrapped s i x, CWrapped t j y =>
    site_eqb s t && Nat.eqb i j && xcls_eqb x y
  | _, _ => false
  end.

(* the hook's exception reaches the caller of Client(): the very object, whatever its class.
   One reading is left open (see the report: suds answers a TransportError raised while the
   schema loader downloads an xsd:import / xsd:include - by the transport or by a document
   hook - with a new Exception("import schema ... failed") chained to it): for a hook of a
   document in `xsd` raising a TransportError, that chained exception is accepted too. *)
Definition ctor_exc_reaches (xsd : list N) (h : hexc) (r : cres) : bool :=
  cres_eqb r (CHookExc (x_site h) (x_idx h) (x_cls h)) ||
  (is_transport (x_cls h) && mem_N (x_url h) xsd &&
   cres_eqb r (CWrapped (x_site h) (x_idx h) (x_cls h))).

(* construction: the log is the documents' hooks then the init hook, cut at the first hook
   that raises; that exception reaches the caller.  When a hook raised, later documents
   are not opened: `os` then lists the opens that did happen. *)
Definition spec_ctor_g (cv cr : bool) (ps : list plugin) (pre xsd : list N) (os : opens) (log : list entry) (r : cres) : bool :=
  let '(elog, ex) := cut (concat (doc_stages ps pre os) ++ init_stage ps pre os) in
  let '(dlog, dx) := cut (concat (doc_stages ps pre os)) in
  match dx with
  | Some h => log_eqb_g cv log dlog && (negb cr || ctor_exc_reaches xsd h r)
  | None =>
    log_eqb_g cv log elog &&
    (negb cr || match ex with
                | Some h => cres_eqb r (CHookExc (x_site h) (x_idx h) (x_cls h))
                | None => cres_eqb r COk
                end)
  end.
Definition spec_ctor := spec_ctor_g true true.

(* ------------------------------------------------------------------ *)
(* the cases the harness evaluates                                     *)
(* ------------------------------------------------------------------ *)

Record ccase := CCase {
  c_plugins : list plugin;
  c_caching : bool;                (* the cache keeps what it is given *)
  c_pre : list N;                  (* documents cached beforehand (by a client without plugins) *)
  c_xsd : list N;                  (* documents the schema loader opens (xsd:import / xsd:include) *)
  c_opens : opens;                 (* observed: DocumentReader.open calls, with "fetched" *)
  c_clog : list entry;             (* observed: hook log of the construction *)
  c_cres : cres;                   (* observed: outcome of the construction *)
  c_inv : option (inv * iobs) }.   (* an invocation on the constructed client, observed *)

Definition open_eqb (a b : N * bool) : bool := N.eqb (fst a) (fst b) && Bool.eqb (snd a) (snd b).

Definition iobs_eqb (a b : iobs) : bool :=
  log_eqb (o_log a) (o_log b) && list_eqb markers_eqb (o_sent a) (o_sent b) &&
  result_eqb (o_res a) (o_res b) && result_eqb (o_res2 a) (o_res2 b).

(* model = implementation.  The model is given the URLs opened (the loader decides these;
   C16 is about the hooks) and predicts which are fetched, the log and the outcome. *)
Definition c16_agrees (c : ccase) : bool :=
  let urls := map fst (c_opens c) in
  let '(l, os, r) := construct (c_plugins c) (c_caching c) (c_pre c) (c_xsd c) urls in
  log_eqb (c_clog c) l && list_eqb open_eqb (c_opens c) os && cres_eqb (c_cres c) r &&
  match c_inv c with
  | None => true
  | Some (v, o) => iobs_eqb o (invoke (c_plugins c) v)
  end.

(* specification applied to the implementation's own outputs *)
Definition c16_spec_ok (c : ccase) : bool :=
  spec_ctor (c_plugins c) (c_pre c) (c_xsd c) (c_opens c) (c_clog c) (c_cres c) &&
  match c_inv c with
  | None => true
  | Some (v, o) => spec_inv (c_plugins c) v o
  end.

(* what failed first, for naming the finding (0 = nothing):
   1 document/init hooks: which hook ran for which plugin and URL   2 ... what they saw
   3 the construction's outcome
   4 message hooks: which hook ran for which plugin   5 ... what they saw
   6 what reached the transport   7 what the caller got *)
Definition c16_diag (c : ccase) : N :=
  let ps := c_plugins c in
  if negb (spec_ctor_g false false ps (c_pre c) (c_xsd c) (c_opens c) (c_clog c) (c_cres c)) then 1
  else if negb (spec_ctor_g true false ps (c_pre c) (c_xsd c) (c_opens c) (c_clog c) (c_cres c)) then 2
  else if negb (spec_ctor_g true true ps (c_pre c) (c_xsd c) (c_opens c) (c_clog c) (c_cres c)) then 3
  else match c_inv c with
       | None => 0
       | Some (v, o) =>
         if negb (spec_inv_g false false false ps v o) then 4
         else if negb (spec_inv_g true false false ps v o) then 5
         else if negb (spec_inv_g true true false ps v o) then 6
         else if negb (spec_inv_g true true true ps v o) then 7 else 0
       end%N.

(* input helpers: the harness prints every number as an N *)
Definition mN (l : list (site * N)) : list marker := map (fun x => (fst x, N.to_nat (snd x))) l.
Definition dN (d : option (list (site * N))) : datum := option_map mN d.
Definition EN (s : site) (i u : N) (v : option (list (site * N))) (seen : list N) : entry :=
  mkE s (N.to_nat i) u (dN v) (map N.to_nat seen).
Definition CHookExcN (s : site) (i : N) := CHookExc s (N.to_nat i).
Definition CWrappedN (s : site) (i : N) := CWrapped s (N.to_nat i).
Definition RHookExcN (s : site) (i : N) := RHookExc s (N.to_nat i).
Definition RHookRetN (s : site) (i : N) := RHookRet s (N.to_nat i).
