(* C16 -- lemmas: the sequential model (plugin.py dispatch loop, client.py pipeline)
   equals the declarative description used by the specification, for plugin lists of
   any length. *)
From SV Require Import Lib.Base C16.Model.
From Coq Require Import Sorted.

(* ------------------------------------------------------------------ *)
(* reflexivity of the boolean equalities                               *)
(* ------------------------------------------------------------------ *)

Lemma site_eqb_refl s : site_eqb s s = true.
Proof. destruct s; reflexivity. Qed.

Lemma site_eqb_eq a b : site_eqb a b = true -> a = b.
Proof. destruct a, b; cbn; congruence. Qed.

Lemma list_eqb_refl {A} (f : A -> A -> bool) (H : forall x, f x x = true) l : list_eqb f l l = true.
Proof. induction l; cbn; [reflexivity|]. rewrite H, IHl. reflexivity. Qed.

Lemma marker_eqb_refl m : marker_eqb m m = true.
Proof. destruct m. unfold marker_eqb. cbn. rewrite site_eqb_refl, Nat.eqb_refl. reflexivity. Qed.

Lemma markers_eqb_refl l : markers_eqb l l = true.
Proof. apply list_eqb_refl, marker_eqb_refl. Qed.

Lemma datum_eqb_refl d : datum_eqb d d = true.
Proof. destruct d; cbn; [apply markers_eqb_refl | reflexivity]. Qed.

Lemma entry_eqb_refl e : entry_eqb e e = true.
Proof.
  unfold entry_eqb. rewrite site_eqb_refl, Nat.eqb_refl, N.eqb_refl, datum_eqb_refl.
  rewrite (list_eqb_refl Nat.eqb Nat.eqb_refl). reflexivity.
Qed.

Lemma log_eqb_refl l : log_eqb l l = true.
Proof. apply list_eqb_refl, entry_eqb_refl. Qed.

Lemma entry_spec_eqb_refl e : entry_spec_eqb e e = true.
Proof.
  unfold entry_spec_eqb, entry_key_eqb.
  rewrite site_eqb_refl, Nat.eqb_refl, N.eqb_refl, datum_eqb_refl. reflexivity.
Qed.

Lemma log_spec_eqb_refl l : log_spec_eqb l l = true.
Proof. apply list_eqb_refl, entry_spec_eqb_refl. Qed.

Lemma xcls_eqb_refl x : xcls_eqb x x = true.
Proof. destruct x; reflexivity. Qed.

Lemma xcls_eqb_eq a b : xcls_eqb a b = true -> a = b.
Proof. destruct a, b; cbn; congruence. Qed.

Lemma result_eqb_refl r : result_eqb r r = true.
Proof.
  destruct r; cbn; try reflexivity; try apply markers_eqb_refl; try apply datum_eqb_refl;
    try apply N.eqb_refl;
  rewrite site_eqb_refl, Nat.eqb_refl, xcls_eqb_refl; reflexivity.
Qed.

Lemma cres_eqb_refl r : cres_eqb r r = true.
Proof.
  destruct r; cbn; try reflexivity; rewrite site_eqb_refl, Nat.eqb_refl, xcls_eqb_refl; reflexivity.
Qed.

(* ------------------------------------------------------------------ *)
(* the dispatch loop                                                   *)
(* ------------------------------------------------------------------ *)

(* the loop of Method.__call__ over the participants only *)
Fixpoint walk (s : site) (url : N) (can : bool) (d : datum) (seen : list nat) (l : list part)
  : list (entry * option xcls) :=
  match l with
  | [] => []
  | q :: t =>
    (mkE s (q_idx q) url d seen, q_raises q) ::
    walk s url can (if q_edits q then edit s can (s, q_idx q) d else d) (seen ++ [q_idx q]) t
  end.

Fixpoint walk_out (s : site) (can : bool) (d : datum) (l : list part) : datum :=
  match l with
  | [] => d
  | q :: t => walk_out s can (if q_edits q then edit s can (s, q_idx q) d else d) t
  end.

Definition out_of (x : exc) (d : datum) : datum := match x with None => d | Some _ => None end.

Lemma call_walk s url can : forall ps i d seen,
  call s url can (domain (site_kind s) (index_from i ps)) d seen =
  (fst (cut (walk s url can d seen (parts_from s i ps))),
   out_of (snd (cut (walk s url can d seen (parts_from s i ps)))) (walk_out s can d (parts_from s i ps)),
   snd (cut (walk s url can d seen (parts_from s i ps)))).
Proof.
  induction ps as [|p r IH]; intros i d seen; [reflexivity|].
  cbn [index_from parts_from]. unfold domain, takes_part. cbn [filter snd].
  fold (domain (site_kind s) (index_from (S i) r)).
  destruct (has_kind (site_kind s) p) eqn:K.
  - cbn [call]. destruct (get_slot (site_name s) p) as [| | |e x] eqn:G; try apply IH.
    cbn [walk walk_out cut q_idx q_edits q_raises e_site e_idx e_url].
    destruct x; [reflexivity|].
    rewrite IH.
    destruct (cut (walk s url can (if e then edit s can (s, i) d else d) (seen ++ [i]) (parts_from s (S i) r)))
      as [l' x']. reflexivity.
  - apply IH.
Qed.

Lemma apply_marks_cons s can d m ms :
  apply_marks s can d (m :: ms) = apply_marks s can (edit s can m d) ms.
Proof. reflexivity. Qed.

Lemma marks_cons s q l :
  marks s (q :: l) = if q_edits q then (s, q_idx q) :: marks s l else marks s l.
Proof. unfold marks. cbn. destruct (q_edits q); reflexivity. Qed.

Lemma walk_out_marks s can : forall l d, walk_out s can d l = apply_marks s can d (marks s l).
Proof.
  induction l as [|q t IH]; intro d; [reflexivity|].
  cbn [walk_out]. rewrite marks_cons, IH. destruct (q_edits q); reflexivity.
Qed.

Definition dq := mkPart 0 false None.

Lemma walk_nth s url can : forall l d seen,
  walk s url can d seen l =
  map (fun j =>
         (mkE s (q_idx (nth j l dq)) url (apply_marks s can d (marks s (firstn j l)))
              (seen ++ map q_idx (firstn j l)),
          q_raises (nth j l dq)))
      (seq 0 (length l)).
Proof.
  induction l as [|q t IH]; intros d seen; [reflexivity|].
  cbn [walk length seq map nth firstn marks].
  f_equal.
  - unfold marks; cbn. rewrite app_nil_r. reflexivity.
  - rewrite IH, <- seq_shift, map_map. apply map_ext. intro j.
    cbn [nth firstn map]. rewrite marks_cons, <- app_assoc. cbn [app].
    destruct (q_edits q); reflexivity.
Qed.

Lemma walk_stage_full s url can d ps :
  walk s url can d [] (parts s ps) = stage_full s url can d ps.
Proof. unfold stage_full. rewrite walk_nth. reflexivity. Qed.

(* the declarative form of one stage *)
Definition hook_decl (s : site) (url : N) (can : bool) (ps : list plugin) (d : datum)
  : list entry * datum * exc :=
  (fst (cut (stage_full s url can d ps)),
   out_of (snd (cut (stage_full s url can d ps))) (stage_out s can d ps),
   snd (cut (stage_full s url can d ps))).

Lemma hook_eq s url can ps d : hook s url can ps d = hook_decl s url can ps d.
Proof.
  unfold hook, hook_decl, stage_out. rewrite call_walk. fold (parts s ps).
  rewrite walk_stage_full, walk_out_marks. reflexivity.
Qed.

(* ------------------------------------------------------------------ *)
(* each participant once, in registration order, only the matching kind *)
(* ------------------------------------------------------------------ *)

Lemma stage_full_idx s url can d ps :
  map (fun x => e_idx (fst x)) (stage_full s url can d ps) = map q_idx (parts s ps).
Proof.
  unfold stage_full. rewrite map_map. cbn [fst e_idx].
  set (l := parts s ps). clearbody l.
  induction l as [|q t IH]; [reflexivity|].
  cbn [length seq map nth]. f_equal. rewrite <- seq_shift, map_map. exact IH.
Qed.

Lemma stage_full_site s url can d ps x :
  In x (stage_full s url can d ps) -> e_site (fst x) = s /\ e_url (fst x) = url.
Proof.
  unfold stage_full. intro H. apply in_map_iff in H as (j & <- & _). cbn. split; reflexivity.
Qed.

Lemma parts_from_bounds s : forall ps i q, In q (parts_from s i ps) -> i <= q_idx q < i + length ps.
Proof.
  induction ps as [|p r IH]; intros i q H; [contradiction|].
  cbn [parts_from] in H. cbn [length].
  destruct (takes_part s p) as [[e x]|].
  - destruct H as [<-|H]; [cbn; lia|]. apply IH in H. lia.
  - apply IH in H. lia.
Qed.

Lemma parts_from_sorted s : forall ps i, StronglySorted lt (map q_idx (parts_from s i ps)).
Proof.
  induction ps as [|p r IH]; intro i; [constructor|].
  cbn [parts_from]. destruct (takes_part s p) as [[e x]|]; [|apply IH].
  cbn [map q_idx]. constructor; [apply IH|].
  apply Forall_forall. intros k Hk. apply in_map_iff in Hk as (q & <- & Hq).
  apply parts_from_bounds in Hq. lia.
Qed.

Lemma parts_from_in s : forall ps i q,
  In q (parts_from s i ps) <->
  exists p, nth_error ps (q_idx q - i) = Some p /\ i <= q_idx q /\
            takes_part s p = Some (q_edits q, q_raises q).
Proof.
  induction ps as [|p r IH]; intros i q.
  - cbn. split; [contradiction|]. intros (p & H & _). destruct (q_idx q - i); discriminate.
  - cbn [parts_from]. split.
    + intro H. destruct (takes_part s p) as [[e x]|] eqn:T.
      * destruct H as [<-|H].
        -- exists p. cbn. rewrite Nat.sub_diag. cbn. auto.
        -- pose proof (parts_from_bounds _ _ _ _ H) as B.
           apply IH in H as (p' & H1 & H2 & H3). exists p'.
           replace (q_idx q - i) with (S (q_idx q - S i)) by lia. cbn. auto with arith.
      * pose proof (parts_from_bounds _ _ _ _ H) as B.
        apply IH in H as (p' & H1 & H2 & H3). exists p'.
        replace (q_idx q - i) with (S (q_idx q - S i)) by lia. cbn. auto with arith.
    + intros (p' & H1 & H2 & H3).
      destruct (Nat.eq_dec (q_idx q) i) as [E|E].
      * rewrite E, Nat.sub_diag in H1. cbn in H1. inversion H1; subst p'.
        rewrite H3. left. destruct q; cbn in *; subst; reflexivity.
      * assert (In q (parts_from s (S i) r)) as H.
        { apply IH. exists p'. replace (q_idx q - i) with (S (q_idx q - S i)) in H1 by lia.
          cbn in H1. split; [exact H1|]. split; [lia|exact H3]. }
        destruct (takes_part s p) as [[e x]|]; [right|]; exact H.
Qed.

(* ------------------------------------------------------------------ *)
(* cutting at the first raise                                          *)
(* ------------------------------------------------------------------ *)

Lemma cut_app a b :
  cut (a ++ b) =
  match snd (cut a) with
  | Some e => (fst (cut a), Some e)
  | None => (fst (cut a) ++ fst (cut b), snd (cut b))
  end.
Proof.
  induction a as [|[e r] t IH]; cbn [app cut].
  - destruct (cut b); reflexivity.
  - destruct r; [reflexivity|]. rewrite IH. destruct (cut t) as [l x]. cbn [fst snd].
    destruct x; reflexivity.
Qed.

Lemma cut_nil : cut [] = ([], None).
Proof. reflexivity. Qed.

(* the exception in flight is the one of a hook call in the list: its site, plugin, URL and
   the class that call raises *)
Lemma cut_sites l h : snd (cut l) = Some h ->
  exists y, In y l /\ e_site (fst y) = x_site h /\ e_idx (fst y) = x_idx h /\
            e_url (fst y) = x_url h /\ snd y = Some (x_cls h).
Proof.
  induction l as [|[e r] t IH]; cbn [cut]; [discriminate|].
  destruct r as [x|].
  - cbn. intro H. inversion H. exists (e, Some x). cbn. auto 6.
  - destruct (cut t) as [l' x]. cbn [snd] in *. intro H. destruct (IH H) as (y & Hy & H1).
    exists y. split; [right; exact Hy|exact H1].
Qed.

Lemma cut_stage_site s url can d ps h :
  snd (cut (stage_full s url can d ps)) = Some h -> x_site h = s /\ x_url h = url.
Proof.
  intro H. apply cut_sites in H as (y & Hy & H1 & _ & H2 & _).
  apply stage_full_site in Hy as [Hy Hu]. split; congruence.
Qed.

Lemma cut_log_in l e : In e (fst (cut l)) -> exists r, In (e, r) l.
Proof.
  induction l as [|[e' r] t IH]; cbn [cut]; [contradiction|].
  destruct r as [x0|].
  - cbn. intros [<-|[]]. exists (Some x0). left. reflexivity.
  - destruct (cut t) as [l' x]. cbn [fst] in *. intros [<-|H].
    + exists None. left. reflexivity.
    + destruct (IH H) as (r' & Hr). exists r'. right. exact Hr.
Qed.

(* Method.__call__ over the plugins of the domain, in closed form *)
Lemma hook_closed_l s url can ps d :
  let '(l, d', x) := hook s url can ps d in
  (l, x) = cut (stage_full s url can d ps) /\ (x = None -> d' = stage_out s can d ps).
Proof.
  rewrite hook_eq. unfold hook_decl.
  destruct (cut (stage_full s url can d ps)) as [l x]. cbn [fst snd].
  split; [reflexivity|]. intros ->. reflexivity.
Qed.
