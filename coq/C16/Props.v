(* C16 -- Plugins run in order, once per stage, and later stages see their edits.
   Property theorems only: each is closed by `exact` of a lemma proved in the *Proofs
   files and followed by Print Assumptions.  Every statement quantifies over plugin lists
   `ps` of ANY length (and any settings / reply class / documents / cache state).

   Reading guide (definitions in C16/Model.v):
     parts s ps            the participants of call site s: the plugins of the matching
                           kind whose hook is overridden by a function, in registration
                           order, as (index, edits?, raises?)
     marks s l             the markers the editing participants in l append
     stage_full s u c d ps the expected entries of one stage handed datum d: participant j
                           finds d edited by participants 0..j-1 (a fold), on a context
                           the earlier ones have written to
     cut                   everything stops at the first hook that raises; the exception in
                           flight is (site, plugin, URL, class) of that hook call
     xcls                  the class of the exception a hook raises (Exception, ValueError,
                           suds.WebFault, suds.transport.TransportError and a subclass,
                           SAXParseException, a BaseException subclass, ...)
     msg_stages ps b       the five message stages, each handed what the previous left
     reach v               how many of them an invocation goes through (2 without a reply,
                           4 for a fault, 5 for a normal reply, ...) *)
From SV Require Import Lib.Base C16.Model C16.Proofs C16.DocProofs C16.MsgProofs C16.FlowProofs C16.ExcProofs.
From Coq Require Import Sorted.

(* --- plugin.py: filter by kind, registration order, non-callables skipped, first
       exception leaves the loop --- *)
Theorem dispatch_closed_form : forall s url can ps d,
  let '(l, d', x) := hook s url can ps d in
  (l, x) = cut (stage_full s url can d ps) /\ (x = None -> d' = stage_out s can d ps).
Proof. exact hook_closed_l. Qed.
Print Assumptions dispatch_closed_form.

(* each participant exactly once, in registration order; the participants are exactly the
   plugins of the matching kind whose hook is an overriding function *)
Theorem stage_once_in_order : forall s url can d ps,
  map (fun x => e_idx (fst x)) (stage_full s url can d ps) = map q_idx (parts s ps) /\
  StronglySorted lt (map q_idx (parts s ps)) /\
  (forall q, In q (parts s ps) <->
     exists p, nth_error ps (q_idx q) = Some p /\ takes_part s p = Some (q_edits q, q_raises q)).
Proof. exact stage_once_in_order_l. Qed.
Print Assumptions stage_once_in_order.

Theorem participant_is_of_matching_kind : forall s p e r,
  takes_part s p = Some (e, r) ->
  has_kind (site_kind s) p = true /\ get_slot (site_name s) p = Fn e r.
Proof. exact takes_part_kind_l. Qed.
Print Assumptions participant_is_of_matching_kind.

(* --- the message hooks of one invocation --- *)

(* the hook log is the stages marshalled, sending, received, parsed, unmarshalled as far
   as the invocation gets, cut at the first hook that raises *)
Theorem hook_log : forall ps v,
  o_log (invoke ps v) = fst (cut (concat (firstn (reach v) (msg_stages ps (i_body v))))).
Proof. exact hook_log_l. Qed.
Print Assumptions hook_log.

(* what each stage is handed, for a reply that can carry markers: the previous stages'
   edits, all of them, in order *)
Theorem later_stages_see_edits : forall ps b, markable b = true ->
  msg_stages ps b =
  [ stage_full SM 0 true (Some []) ps;
    stage_full SS 0 true (Some (mM ps)) ps;
    stage_full SR 0 true (Some []) ps;
    stage_full SP 0 true (Some (mR ps)) ps;
    stage_full SU 0 true (Some (mR ps ++ mP ps)) ps ].
Proof. exact msg_stages_closed_l. Qed.
Print Assumptions later_stages_see_edits.

(* ... and within a stage the j-th participant finds the edits of participants 0..j-1 *)
Theorem stage_entry_view : forall s url l ps j,
  s <> SU -> s <> SI -> j < length (parts s ps) ->
  nth j (stage_full s url true (Some l) ps) (mkE s 0 url None [], None) =
  (mkE s (q_idx (nth j (parts s ps) dq)) url
       (Some (l ++ marks s (firstn j (parts s ps))))
       (map q_idx (firstn j (parts s ps))),
   q_raises (nth j (parts s ps) dq)).
Proof. exact stage_entry_view_l. Qed.
Print Assumptions stage_entry_view.

(* sent bytes = sending edits over the serialisation of the marshalled edits; the value the
   caller gets = unmarshalled edits over the value decoded from the parsed edits over the
   tree parsed from the received edits; a fault carries the received and parsed edits *)
Theorem dataflow : forall ps v,
  snd (cut (concat (firstn (reach v) (msg_stages ps (i_body v))))) = None ->
  (i_via v = Direct -> o_sent (invoke ps v) = [mM ps ++ mS ps]) /\
  (forall p, i_via v = NoSend p ->
     o_sent (invoke ps v) = [] /\ o_res (invoke ps v) = RRequest (mM ps ++ mS ps)) /\
  (no_reply v = false -> is_normal v = true ->
     reply_res v (invoke ps v) =
     if i_retxml v then RBytes (mR ps)
     else if i_faults v then RValue (Some (mR ps ++ mP ps ++ mU ps))
          else ROk (Some (mR ps ++ mP ps ++ mU ps))) /\
  (no_reply v = false -> is_fault v = true ->
     reply_res v (invoke ps v) =
     if i_faults v then RFault (mR ps ++ mP ps) else RFaultT (mR ps ++ mP ps)).
Proof. exact dataflow_l. Qed.
Print Assumptions dataflow.

(* nosend, a transport that fails, status 202/204: only marshalled and sending run *)
Theorem no_reply_hooks_without_reply : forall ps v e,
  no_reply v = true -> In e (o_log (invoke ps v)) -> e_site e = SM \/ e_site e = SS.
Proof. exact no_reply_hooks_without_reply_l. Qed.
Print Assumptions no_reply_hooks_without_reply.

Theorem no_unmarshalled_for_fault : forall ps v e,
  is_fault v = true -> In e (o_log (invoke ps v)) -> e_site e <> SU.
Proof. exact no_unmarshalled_for_fault_l. Qed.
Print Assumptions no_unmarshalled_for_fault.

(* the first raising hook among the stages gone through: whatever the class of its
   exception (h ranges over every hook call and every class), the caller gets that
   exception and it is the last hook that ran - no later hook runs, none runs twice
   (hook_log).  The only place where suds looks at the class of what comes out of an
   invocation is the service call's `except WebFault` with faults off, which hands the same
   object back as (500, exception). *)
Theorem hook_exception_propagates : forall ps v h,
  snd (cut (concat (firstn (reach v) (msg_stages ps (i_body v))))) = Some h ->
  let r := RHookExc (x_site h) (x_idx h) (x_cls h) in
  ((o_res (invoke ps v) = r \/ o_res2 (invoke ps v) = r) \/
   (is_webfault (x_cls h) = true /\ i_faults v = false /\
    o_res (invoke ps v) = RHookRet (x_site h) (x_idx h) (x_cls h))) /\
  (is_webfault (x_cls h) && negb (i_faults v) = false ->
   o_res (invoke ps v) = r \/ o_res2 (invoke ps v) = r) /\
  exists e, last (o_log (invoke ps v)) e = e /\ e_site e = x_site h /\ e_idx e = x_idx h.
Proof. exact hook_exception_propagates_l. Qed.
Print Assumptions hook_exception_propagates.

(* by which door: out of the service call (through its WebFault handler, `proxy`) when a
   marshalled / sending hook raised or the reply is processed by send(); out of
   RequestContext.process_reply, untouched, otherwise *)
Theorem exception_delivery : forall ps v h,
  snd (cut (concat (firstn (reach v) (msg_stages ps (i_body v))))) = Some h ->
  (is_early (Some h) = true \/ i_via v = Direct ->
     o_res (invoke ps v) = proxy v (raised h) /\ o_res2 (invoke ps v) = RNotRun) /\
  (is_early (Some h) = false -> i_via v <> Direct -> o_res2 (invoke ps v) = raised h).
Proof. exact exception_delivery_l. Qed.
Print Assumptions exception_delivery.

(* the class of the exceptions plays no role: map the classes the hooks raise through any
   f : xcls -> xcls and the same hooks run, each handed the same data, the same bytes reach
   the transport, and the exception in flight is the same hook call's *)
Theorem exception_class_irrelevant : forall f ps v,
  o_log (invoke (map (reclass f) ps) v) = o_log (invoke ps v) /\
  o_sent (invoke (map (reclass f) ps) v) = o_sent (invoke ps v) /\
  snd (cut (concat (firstn (reach v) (msg_stages (map (reclass f) ps) (i_body v))))) =
  reclass_exc f (snd (cut (concat (firstn (reach v) (msg_stages ps (i_body v)))))).
Proof. exact exception_class_irrelevant_l. Qed.
Print Assumptions exception_class_irrelevant.

Theorem raising_hook_reaches_caller : forall ps v y x,
  In y (concat (firstn (reach v) (msg_stages ps (i_body v)))) -> snd y = Some x ->
  exists h, (o_res (invoke ps v) = raised h \/ o_res2 (invoke ps v) = raised h \/
             o_res (invoke ps v) = RHookRet (x_site h) (x_idx h) (x_cls h)) /\
            exists y', In y' (concat (firstn (reach v) (msg_stages ps (i_body v)))) /\
                       e_site (fst y') = x_site h /\ e_idx (fst y') = x_idx h /\
                       snd y' = Some (x_cls h).
Proof. exact raising_hook_reaches_caller_l. Qed.
Print Assumptions raising_hook_reaches_caller.

Theorem no_spurious_hook_exception : forall ps v,
  snd (cut (concat (firstn (reach v) (msg_stages ps (i_body v))))) = None ->
  is_hook_exc (o_res (invoke ps v)) = false /\ is_hook_exc (o_res2 (invoke ps v)) = false.
Proof. exact no_spurious_hook_exception_l. Qed.
Print Assumptions no_spurious_hook_exception.

(* --- document and init hooks: loaded once per fetched document, parsed once per opened
       document, each with its URL (doc_stages), then the init hook; the first raising hook
       ends the construction with its exception --- *)
Theorem document_hooks : forall ps caching pre xsd urls,
  let '(l, os, r) := construct ps caching pre xsd urls in
  let c := cut (concat (doc_stages ps pre os) ++ init_stage ps pre os) in
  l = fst c /\
  r = match snd c with Some h => ctor_fail xsd h | None => COk end /\
  (snd c = None -> map fst os = urls).
Proof. exact construct_closed_l. Qed.
Print Assumptions document_hooks.

(* the exception of the first raising document / init hook, of whatever class, is what the
   caller of Client() gets ...

   FULL STATEMENT (no guard) is false of suds:  suds/xsd/sxbasic.py Import/Include.__download
   open the document inside `try: ... except TransportError: raise Exception(msg)`, so a
   TransportError raised by a loaded / parsed hook of an imported or included schema is
   answered with a new Exception("import schema (..) at (..), failed") chained to it
   (document_hook_exception_refuted).  Whether that is a defect is debatable - a plugin that
   raises the transport's own exception from a download asks to be treated as a failed
   download - so the specification accepts both outcomes there and nowhere else. *)
Theorem document_hook_exception_propagates_partial : forall ps caching pre xsd urls h,
  let '(l, os, r) := construct ps caching pre xsd urls in
  snd (cut (concat (doc_stages ps pre os) ++ init_stage ps pre os)) = Some h ->
  is_transport (x_cls h) && mem_N (x_url h) xsd = false ->
  r = CHookExc (x_site h) (x_idx h) (x_cls h).
Proof. exact document_hook_exception_propagates_l. Qed.
Print Assumptions document_hook_exception_propagates_partial.

Theorem construct_class_irrelevant : forall f ps caching pre xsd urls,
  fst (construct (map (reclass f) ps) caching pre xsd urls) = fst (construct ps caching pre xsd urls).
Proof. exact construct_class_irrelevant_l. Qed.
Print Assumptions construct_class_irrelevant.

(* --- the executable specification the harness applies to the implementation's outputs
       holds of the model, whatever the plugin list --- *)
Theorem model_meets_spec : forall ps v, spec_inv ps v (invoke ps v) = true.
Proof. exact model_meets_spec_l. Qed.
Print Assumptions model_meets_spec.

Theorem construct_meets_spec : forall ps caching pre xsd urls,
  let '(l, os, r) := construct ps caching pre xsd urls in spec_ctor ps pre xsd os l r = true.
Proof. exact construct_meets_spec_l. Qed.
Print Assumptions construct_meets_spec.

(* ------------------------------------------------------------------ *)
(* non-vacuity                                                         *)
(* ------------------------------------------------------------------ *)

Definition ex_msg (raises_received : option xcls) : plugin :=
  Plug false false true Inherit Inherit (Fn true None) (Fn true None) (Fn true None)
       (Fn true raises_received) (Fn true None).
Definition ex_doc (raises_loaded : option xcls) : plugin :=
  Plug false true false Inherit (Fn true raises_loaded) (Fn true None) (Fn true None) Inherit Inherit Inherit.
Definition ex_inv (st : N) (b : body) : inv := Inv Direct false true false st b.

(* a normal reply goes through all five stages; the value carries r, p, u edits of both
   message plugins in registration order; the document plugin's marshalled hook never runs *)
Example normal_nonvacuous :
  let ps := [ex_msg None; ex_doc None; ex_msg None] in
  snd (cut (concat (firstn (reach (ex_inv 200 BNormal)) (msg_stages ps BNormal)))) = None /\
  map (fun e => (e_site e, e_idx e)) (o_log (invoke ps (ex_inv 200 BNormal))) =
    [(SM,0);(SM,2);(SS,0);(SS,2);(SR,0);(SR,2);(SP,0);(SP,2);(SU,0);(SU,2)] /\
  o_sent (invoke ps (ex_inv 200 BNormal)) = [[(SM,0);(SM,2);(SS,0);(SS,2)]] /\
  o_res (invoke ps (ex_inv 200 BNormal)) = RValue (Some [(SR,0);(SR,2);(SP,0);(SP,2);(SU,0);(SU,2)]).
Proof. vm_compute. repeat split; reflexivity. Qed.

Example fault_and_no_reply_nonvacuous :
  let ps := [ex_msg None; ex_msg None] in
  is_fault (ex_inv 500 BFault) = true /\
  o_res (invoke ps (ex_inv 500 BFault)) = RFault [(SR,0);(SR,1);(SP,0);(SP,1)] /\
  no_reply (ex_inv 204 BEmpty) = true /\
  length (o_log (invoke ps (ex_inv 204 BEmpty))) = 4.
Proof. vm_compute. repeat split; reflexivity. Qed.

(* a received hook raising - for every class, the transport's own included - ends the
   invocation there: 8 hook calls, the caller gets that exception *)
Example raise_nonvacuous : forall x,
  let ps := [ex_msg None; ex_msg (Some x); ex_msg None] in
  snd (cut (concat (firstn (reach (ex_inv 200 BNormal)) (msg_stages ps BNormal)))) = Some (HX SR 1 0 x) /\
  o_res (invoke ps (ex_inv 200 BNormal)) = RHookExc SR 1 x /\
  length (o_log (invoke ps (ex_inv 200 BNormal))) = 8.
Proof. intro x. destruct x; vm_compute; repeat split; reflexivity. Qed.

(* the WebFault handler of the service call with faults off *)
Example webfault_faults_off_nonvacuous :
  let ps := [ex_msg (Some XWebFault)] in
  o_res (invoke ps (Inv Direct false false false 200 BNormal)) = RHookRet SR 0 XWebFault /\
  o_res2 (invoke ps (Inv (NoSend true) false false false 200 BNormal)) = RHookExc SR 0 XWebFault.
Proof. vm_compute. split; reflexivity. Qed.

(* a send() whose TransportError handler also covered the reply processing would run the
   reply hooks a second time and hand the caller something else: the specification
   rejects that run, and accepts the model's *)
Example wide_handler_is_rejected :
  let ps := [ex_msg None; ex_msg (Some XTransport)] in
  let v := ex_inv 200 BNormal in
  map (fun e => (e_site e, e_idx e)) (o_log (invoke_wide 500 ps v)) =
    [(SM,0);(SM,1);(SS,0);(SS,1);(SR,0);(SR,1);(SR,0);(SR,1)] /\
  spec_inv ps v (invoke_wide 500 ps v) = false /\
  spec_inv ps v (invoke_wide 200 ps v) = false /\
  spec_inv ps v (invoke ps v) = true.
Proof. vm_compute. repeat split; reflexivity. Qed.

Example documents_nonvacuous :
  construct [ex_doc None; ex_msg None] true [2%N] [2%N] [1%N; 2%N] =
  ([mkE SL 0 1 (Some []) []; mkE SD 0 1 (Some [(SL,0)]) []; mkE SD 0 2 (Some []) []],
   [(1%N, true); (2%N, false)], COk).
Proof. vm_compute. reflexivity. Qed.

(* the guard of document_hook_exception_propagates_partial is needed: the WSDL (1) is cached,
   the imported schema (2) is fetched, its loaded hook raises a TransportError *)
Example document_hook_exception_refuted :
  exists ps caching pre xsd urls h,
    let '(l, os, r) := construct ps caching pre xsd urls in
    snd (cut (concat (doc_stages ps pre os) ++ init_stage ps pre os)) = Some h /\
    r <> CHookExc (x_site h) (x_idx h) (x_cls h).
Proof.
  exists [ex_doc (Some XTransport)], true, [1%N], [2%N], [1%N; 2%N], (HX SL 0 2 XTransport).
  vm_compute. split; [reflexivity|discriminate].
Qed.

(* ... and satisfiable: the same hook raising the same class for the WSDL itself, or any other
   class for the schema *)
Example document_hook_exception_nonvacuous :
  snd (construct [ex_doc (Some XTransport)] true [] [2%N] [1%N; 2%N]) = CHookExc SL 0 XTransport /\
  snd (construct [ex_doc (Some XValue)] true [1%N] [2%N] [1%N; 2%N]) = CHookExc SL 0 XValue.
Proof. vm_compute. split; reflexivity. Qed.
