(* C19 -- the internal users of tree surgery: frames of Import.apply and
   import_schema, exactness of the Document lookups *)
From SV Require Import Lib.Base C19.Model C19.Rel C19.ForestFacts C19.ChainFacts C19.Ops C19.Main C19.Users.
From Coq Require Import Lia.


(* ---- helpers ---- *)
Lemma uf_d_set_keeps qn v ch d :
  d_name (d_set qn v ch d) = d_name d /\ d_prefix (d_set qn v ch d) = d_prefix d.
Proof. unfold d_set. destruct (set_target qn ch d); split; reflexivity. Qed.

Lemma uf_neqb (a b : N) : a <> b -> N.eqb a b = false.
Proof. intros H. now apply N.eqb_neq. Qed.

(* OSet on a cell with no parent and no kids *)
Lemma uf_set_frame m s n qn v d :
  get s n = Some (mkC None [] d) ->
  let s' := fst (step m s (OSet n qn v)) in
  (exists d', get s' n = Some (mkC None [] d') /\ d_name d' = d_name d /\ d_prefix d' = d_prefix d) /\
  (forall i, i <> n -> get s' i = get s i) /\ s_next s' = s_next s.
Proof.
  intros H. cbn [step fst]. split; [|split].
  - rewrite get_upd_data, N.eqb_refl, H. cbn. eexists. split; [reflexivity|].
    apply uf_d_set_keeps.
  - intros i Hi. rewrite get_upd_data, uf_neqb by congruence. reflexivity.
  - apply next_upd_data.
Qed.

Lemma uf_insert0_frame s p x cp cx :
  p <> x -> get s p = Some cp -> get s x = Some cx ->
  let s' := m_insert s p x 0%Z in
  get s' p = Some (w_kids cp (x :: c_kids cp)) /\
  get s' x = Some (w_parent cx (Some p)) /\
  (forall i, i <> p -> i <> x -> get s' i = get s i) /\
  s_next s' = s_next s.
Proof.
  intros Hne Hp Hx. unfold m_insert. cbn zeta. repeat split.
  - rewrite get_set_parent, uf_neqb by congruence.
    rewrite get_upd_kids, N.eqb_refl, Hp. reflexivity.
  - rewrite get_set_parent, N.eqb_refl, get_upd_kids, uf_neqb by congruence.
    rewrite Hx. reflexivity.
  - intros i H1 H2. rewrite get_set_parent, uf_neqb by congruence.
    rewrite get_upd_kids, uf_neqb by congruence. reflexivity.
  - rewrite next_set_parent, next_upd_kids. reflexivity.
Qed.

Lemma uf_append1_frame s p x cp cx :
  p <> x -> get s p = Some cp -> get s x = Some cx ->
  let s' := m_append1 s p x in
  get s' p = Some (w_kids cp (c_kids cp ++ [x])) /\
  get s' x = Some (w_parent cx (Some p)) /\
  (forall i, i <> p -> i <> x -> get s' i = get s i) /\
  s_next s' = s_next s.
Proof.
  intros Hne Hp Hx. unfold m_append1. cbn zeta. repeat split.
  - rewrite get_set_parent, uf_neqb by congruence.
    rewrite get_upd_kids, N.eqb_refl, Hp. reflexivity.
  - rewrite get_set_parent, N.eqb_refl, get_upd_kids, uf_neqb by congruence.
    rewrite Hx. reflexivity.
  - intros i H1 H2. rewrite get_set_parent, uf_neqb by congruence.
    rewrite get_upd_kids, uf_neqb by congruence. reflexivity.
  - rewrite next_set_parent, next_upd_kids. reflexivity.
Qed.

Lemma uf_new_frame m s qn ns :
  let s' := fst (step m s (ONew qn ns)) in
  get s' (s_next s) = Some (mkC None [] (new_data qn ns)) /\
  (forall i, i <> s_next s -> get s' i = get s i) /\
  s_next s' = N.succ (s_next s).
Proof.
  cbn [step fst]. repeat split.
  - rewrite get_alloc, N.eqb_refl. reflexivity.
  - intros i Hi. rewrite get_alloc, uf_neqb by congruence. reflexivity.
Qed.

Lemma uf_run_cons m s o h : run m s (o :: h) = run m (fst (step m s o)) h.
Proof. reflexivity. Qed.
Lemma uf_run_nil m s : run m s [] = s.
Proof. reflexivity. Qed.

(* a program inside the reference's domain keeps the relation, hence WF *)
Lemma internal_program_refines_l : forall m s rs c rs',
  R s rs -> ref_run rs (call_prog s c) = Some rs' ->
  R (run m s (call_prog s c)) rs' /\
  WF (run m s (call_prog s c)) (fun i => In i (ids_f (r_forest rs'))).
Proof.
  intros m s rs c rs' HR H.
  pose proof (edit_refines_reference_l m _ _ _ _ HR H) as HR'.
  split; [assumption|apply R_wf_l; assumption].
Qed.

(* doctor.Import.apply: either nothing, or exactly one new node in front of the
   schema root's children; every other cell untouched *)
Lemma import_apply_frame_l : forall m s root ns loc cr,
  get s root = Some cr -> (root < s_next s)%N ->
  let s' := run m s (import_prog s root ns loc) in
  if import_itself s root ns || import_exists s root ns then s' = s
  else
    get s' root = Some (w_kids cr (s_next s :: c_kids cr)) /\
    (exists d, get s' (s_next s) = Some (mkC (Some root) [] d) /\
               d_name d = s_import /\ d_prefix d = Some s_xs) /\
    (forall i, i <> root -> i <> s_next s -> get s' i = get s i) /\
    s_next s' = N.succ (s_next s).
Proof.
  intros m s root ns loc cr Hroot Hlt. cbn zeta. unfold import_prog.
  destruct (import_itself s root ns || import_exists s root ns) eqn:E; [reflexivity|].
  cbn zeta. set (n := s_next s).
  assert (Hne : root <> n) by (unfold n; lia).
  cbn [app]. rewrite uf_run_cons.
  destruct (uf_new_frame m s s_import (Some (NsPrefixed s_xs s_xsd_uri))) as [A1 [A2 A3]].
  fold n in A1, A2, A3.
  set (s1 := fst (step m s (ONew s_import (Some (NsPrefixed s_xs s_xsd_uri))))) in *.
  rewrite uf_run_cons.
  destruct (uf_set_frame m s1 n s_namespace ns _ A1) as [[d2 [B1 [B1n B1p]]] [B2 B3]].
  set (s2 := fst (step m s1 (OSet n s_namespace ns))) in *.
  assert (Hd0n : d_name (new_data s_import (Some (NsPrefixed s_xs s_xsd_uri))) = s_import)
    by reflexivity.
  assert (Hd0p : d_prefix (new_data s_import (Some (NsPrefixed s_xs s_xsd_uri))) = Some s_xs)
    by reflexivity.
  assert (Hfin : forall s3 d3,
     get s3 n = Some (mkC None [] d3) -> d_name d3 = s_import -> d_prefix d3 = Some s_xs ->
     (forall i, i <> n -> get s3 i = get s i) -> s_next s3 = N.succ n ->
     let s' := run m s3 [OInsert root n 0%Z] in
     get s' root = Some (w_kids cr (n :: c_kids cr)) /\
     (exists d, get s' n = Some (mkC (Some root) [] d) /\
               d_name d = s_import /\ d_prefix d = Some s_xs) /\
     (forall i, i <> root -> i <> n -> get s' i = get s i) /\
     s_next s' = N.succ n).
  { intros s3 d3 C1 C1n C1p C2 C3. rewrite uf_run_cons, uf_run_nil. cbn [step fst].
    assert (Hr3 : get s3 root = Some cr) by (rewrite C2 by assumption; assumption).
    destruct (uf_insert0_frame s3 root n cr _ Hne Hr3 C1) as [D1 [D2 [D3 D4]]].
    cbn zeta. split; [assumption|]. split.
    - exists d3. split; [rewrite D2; reflexivity|split; assumption].
    - split.
      + intros i H1 H2. rewrite D3 by assumption. apply C2; assumption.
      + rewrite D4. assumption. }
  destruct loc as [l|].
  - cbn [app]. rewrite uf_run_cons.
    destruct (uf_set_frame m s2 n s_schemaLocation l _ B1) as [[d3 [C1 [C1n C1p]]] [C2 C3]].
    apply (Hfin _ d3 C1).
    + congruence.
    + congruence.
    + intros i Hi. rewrite C2, B2, A2 by assumption. reflexivity.
    + congruence.
  - cbn [app]. apply (Hfin _ d2 B1).
    + congruence.
    + congruence.
    + intros i Hi. rewrite B2, A2 by assumption. reflexivity.
    + congruence.
Qed.

(* wsdl import_schema into the importer's own types element t: the schema root
   becomes the last child of t; nothing else is written *)
Lemma import_schema_frame_own_l : forall m s defroot t schema ct cs,
  get s t = Some ct -> get s schema = Some cs -> t <> schema ->
  let s' := run m s (import_schema_prog s defroot (Some t) schema) in
  get s' t = Some (w_kids ct (c_kids ct ++ [schema])) /\
  get s' schema = Some (w_parent cs (Some t)) /\
  (forall i, i <> t -> i <> schema -> get s' i = get s i) /\
  s_next s' = s_next s.
Proof.
  intros m s defroot t schema ct cs Ht Hs Hne. cbn zeta. unfold import_schema_prog.
  rewrite uf_run_cons, uf_run_nil. cbn [step fst fold_left].
  apply uf_append1_frame; assumption.
Qed.

(* ... or, when the importer has no types element yet, into a new one inserted
   in front of the definitions root's children *)
Lemma import_schema_frame_new_l : forall m s defroot schema cd cs,
  get s defroot = Some cd -> get s schema = Some cs -> defroot <> schema ->
  (defroot < s_next s)%N -> (schema < s_next s)%N ->
  let n := s_next s in
  let s' := run m s (import_schema_prog s defroot None schema) in
  get s' defroot = Some (w_kids cd (n :: c_kids cd)) /\
  (exists d, get s' n = Some (mkC (Some defroot) [schema] d) /\ d_name d = s_types) /\
  get s' schema = Some (w_parent cs (Some n)) /\
  (forall i, i <> defroot -> i <> schema -> i <> n -> get s' i = get s i) /\
  s_next s' = N.succ n.
Proof.
  intros m s defroot schema cd cs Hd Hs Hne Hdl Hsl. cbn zeta. unfold import_schema_prog.
  cbn zeta. set (n := s_next s).
  assert (Hdn : defroot <> n) by (unfold n; lia).
  assert (Hsn : schema <> n) by (unfold n; lia).
  rewrite uf_run_cons.
  destruct (uf_new_frame m s s_types (Some (NsDefault (Some s_wsdl_uri)))) as [A1 [A2 A3]].
  fold n in A1, A2, A3.
  set (s1 := fst (step m s (ONew s_types (Some (NsDefault (Some s_wsdl_uri)))))) in *.
  rewrite uf_run_cons. cbn [step fst].
  assert (Hd1 : get s1 defroot = Some cd) by (rewrite A2 by assumption; assumption).
  destruct (uf_insert0_frame s1 defroot n cd _ Hdn Hd1 A1) as [B1 [B2 [B3 B4]]].
  set (s2 := m_insert s1 defroot n 0%Z) in *.
  rewrite uf_run_cons, uf_run_nil. cbn [step fst fold_left].
  assert (Hs2 : get s2 schema = Some cs).
  { rewrite B3, A2 by congruence. assumption. }
  assert (Hns : n <> schema) by congruence.
  destruct (uf_append1_frame s2 n schema _ cs Hns B2 Hs2) as [C1 [C2 [C3 C4]]].
  set (s3 := m_append1 s2 n schema) in *.
  split; [|split; [|split; [|split]]].
  - rewrite C3, B1 by congruence. reflexivity.
  - eexists. split; [rewrite C1; reflexivity|reflexivity].
  - assumption.
  - intros i H1 H2 H3. rewrite C3, B3, A2 by congruence. reflexivity.
  - rewrite C4, B4. assumption.
Qed.

(* Document.getChild / childAtPath / childrenAtPath return what the reference
   returns for the root element (and never write) *)
Lemma document_lookups_exact_l : forall s rs c r,
  R s rs -> ref_doc_result rs c = Some r -> call_result s c = r.
Proof.
  intros s rs c r HR H.
  assert (Hvia : forall (x : id) (path : str) (o : str -> op) (mres : str -> result),
    (forall rest, is_lookup (o rest) = true) ->
    (forall rest, step AEq s (o rest) = (s, mres rest)) ->
    (if live (r_forest rs) x then
       match strip_slash path with
       | None => Some RErr
       | Some p =>
         let (first, more) := split_first p in
         if root_matches (rchain (r_forest rs) x) first then
           match more with
           | Some rest => option_map snd (ref_step rs (o rest))
           | None => Some (RNodes [x])
           end
         else Some (RNodes [])
       end
     else None) = Some r ->
    match strip_slash path with
    | None => RErr
    | Some p =>
      let (first, more) := split_first p in
      if root_matches (chain_of s x) first then
        match more with
        | Some rest => mres rest
        | None => RNodes [x]
        end
      else RNodes []
    end = r).
  { intros x path o mres Hl Hst Hv.
    destruct (live (r_forest rs) x) eqn:Hlive; [|discriminate].
    apply mem_In in Hlive. rewrite (chain_refines _ _ _ HR Hlive).
    destruct (strip_slash path) as [p|]; [|congruence].
    destruct (split_first p) as [first more].
    destruct (root_matches (rchain (r_forest rs) x) first); [|congruence].
    destruct more as [rest|]; [|congruence].
    destruct (ref_step rs (o rest)) as [[rs1 res1]|] eqn:Er; [|discriminate].
    cbn in Hv. inversion Hv; subst.
    destruct (lookups_refine AEq _ _ _ _ _ HR (Hl rest) Er) as [Hs _].
    rewrite Hst in Hs. congruence. }
  destruct c as [ | | |d qn|d path|d path]; cbn in H; try discriminate.
  - destruct d as [x|]; cbn [call_result doc_get_child].
    + destruct (live (r_forest rs) x) eqn:Hlive; [|discriminate].
      apply mem_In in Hlive. rewrite (chain_refines _ _ _ HR Hlive).
      inversion H; subst.
      destruct (root_matches (rchain (r_forest rs) x) qn); reflexivity.
    + congruence.
  - destruct d as [x|]; cbn [call_result doc_child_at].
    + apply (Hvia x path (OChildAtPath x)
               (fun rest => RNodes (opt_list (m_child_at s x (split_slash rest) None)))).
      * reflexivity.
      * reflexivity.
      * exact H.
    + congruence.
  - destruct d as [x|]; cbn [call_result doc_children_at].
    + apply (Hvia x path (OChildrenAtPath x) (fun rest => m_children_at s x rest)).
      * reflexivity.
      * reflexivity.
      * exact H.
    + congruence.
Qed.
