(* C19 -- each edit of the heap model refines the same edit on the reference
   forest (the simulation relation R is preserved, the returned values agree). *)
From SV Require Import Lib.Base C19.Model C19.Rel C19.ForestFacts C19.ForestFacts2 C19.ChainFacts.
From Coq Require Import Permutation Lia.

(* ------------------------------------------------------------------ *)
(* small facts                                                         *)
(* ------------------------------------------------------------------ *)
Lemma w_kids_same c : w_kids c (c_kids c) = c.
Proof. now destruct c. Qed.

Lemma omap_id {A} (o : option A) : option_map (fun c => c) o = o.
Proof. now destruct o. Qed.

Lemma find_in f x t : find_f f x = Some t -> In x (ids_f f).
Proof.
  intros H. apply (find_ids_incl _ _ _ H). rewrite <- (find_rid _ _ _ H). apply rid_in.
Qed.

Lemma R_get s rs i : R s rs -> In i (ids_f (r_forest rs)) -> get s i = cell_f None (r_forest rs) i.
Proof. intros [_ [H _]]. apply H. Qed.

Lemma R_nodup s rs : R s rs -> NoDup (ids_f (r_forest rs)).
Proof. now intros [H _]. Qed.

Lemma R_next s rs : R s rs -> s_next s = r_next rs.
Proof. now intros [_ [_ [_ [H _]]]]. Qed.

(* R for a new forest over the same counter, from a permutation-like account of the ids *)
Lemma R_intro s s' rs f' :
  R s rs ->
  NoDup (ids_f f') ->
  (forall i, In i (ids_f f') -> In i (ids_f (r_forest rs))) ->
  (length (ids_f f') <= length (ids_f (r_forest rs)))%nat ->
  s_next s' = s_next s ->
  (forall i, In i (ids_f f') -> get s' i = cell_f None f' i) ->
  R s' (mkR f' (r_next rs)).
Proof.
  intros [H1 [H2 [H3 [H4 H5]]]] Hnd Hin Hlen Hnext Hcells.
  repeat split; cbn; try assumption.
  - intros i Hi. apply H3. now apply Hin.
  - congruence.
  - lia.
Qed.

Lemma get_alloc cells nx r c j :
  get (mkS ((r, c) :: cells) nx) j = if N.eqb r j then Some c else get (mkS cells nx) j.
Proof. reflexivity. Qed.

Lemma get_cells_only cells nx nx' j : get (mkS cells nx) j = get (mkS cells nx') j.
Proof. reflexivity. Qed.

(* ------------------------------------------------------------------ *)
(* new                                                                 *)
(* ------------------------------------------------------------------ *)
Lemma new_refines s rs d :
  R s rs ->
  R (mkS ((s_next s, mkC None [] d) :: s_cells s) (N.succ (s_next s)))
    (mkR (F1 (T (r_next rs) d F0) (r_forest rs)) (N.succ (r_next rs))).
Proof.
  intros HR. destruct HR as [H1 [H2 [H3 [H4 H5]]]]. rewrite H4.
  repeat split; cbn.
  - constructor; [|assumption]. intros Hin. apply H3 in Hin. lia.
  - intros i [Hi|Hi].
    + subst. rewrite N.eqb_refl. reflexivity.
    + destruct (N.eqb (r_next rs) i) eqn:E.
      * apply N.eqb_eq in E. subst. apply H3 in Hi. lia.
      * rewrite <- (H2 i Hi). reflexivity.
  - intros i [Hi|Hi]; [subst; lia|]. apply H3 in Hi. lia.
  - lia.
Qed.

(* ------------------------------------------------------------------ *)
(* data edits                                                          *)
(* ------------------------------------------------------------------ *)
Lemma data_refines s rs x t g g' :
  R s rs -> find_f (r_forest rs) x = Some t ->
  (forall c, get s x = Some c -> g' (c_data c) = g (c_data c)) ->
  R (upd_data s x g') (mkR (sub_f (r_forest rs) x (with_data g)) (r_next rs)).
Proof.
  intros HR Hf Hg. apply (R_intro s _ rs); try assumption.
  - rewrite sub_data_ids. now apply R_nodup in HR.
  - intros i. now rewrite sub_data_ids.
  - now rewrite sub_data_ids.
  - apply next_upd_data.
  - intros i Hi. rewrite sub_data_ids in Hi. rewrite sub_data_cell, get_upd_data.
    rewrite <- (R_get _ _ _ HR Hi).
    destruct (N.eqb x i) eqn:E.
    + apply N.eqb_eq in E. subst. rewrite N.eqb_refl.
      destruct (get s i) eqn:Eg; cbn; [|reflexivity]. now rewrite (Hg c).
    + rewrite (N.eqb_sym i x), E. destruct (get s i); reflexivity.
Qed.

(* ------------------------------------------------------------------ *)
(* detach                                                              *)
(* ------------------------------------------------------------------ *)
Lemma next_m_detach s x : s_next (m_detach s x) = s_next s.
Proof.
  unfold m_detach. destruct (get s x) as [cx|]; [|reflexivity].
  destruct (c_parent cx) as [p|]; [|reflexivity].
  rewrite next_set_parent. destruct (get s p) as [cp|]; [|reflexivity].
  destruct (index_of x (c_kids cp)); reflexivity.
Qed.

Lemma subtree_ids_find f x t : find_f f x = Some t -> subtree_ids f x = ids_t t.
Proof. unfold subtree_ids. now intros ->. Qed.

(* no cell of the forest lists a root among its children *)
Lemma root_not_listed f x c i ci :
  NoDup (ids_f f) -> cell_f None f x = Some c -> c_parent c = None ->
  cell_f None f i = Some ci -> ~ In x (c_kids ci).
Proof.
  intros Hnd Hx Hp Hi Hin.
  destruct (cell_child_points_back _ _ _ _ Hnd Hi Hin) as [c' [Hc' Hp']]. congruence.
Qed.

Lemma detach_refines s rs x f' :
  R s rs -> ref_detach (r_forest rs) x = Some f' -> R (m_detach s x) (mkR f' (r_next rs)).
Proof.
  intros HR. unfold ref_detach, parent_of.
  destruct (find_f (r_forest rs) x) as [t|] eqn:Hf; [|discriminate].
  pose proof (find_in _ _ _ Hf) as Hx.
  pose proof (R_nodup _ _ HR) as Hnd.
  destruct (cell_f None (r_forest rs) x) as [cx|] eqn:Hcx; cbn; [|discriminate].
  pose proof (R_get _ _ _ HR Hx) as Hgx. rewrite Hcx in Hgx.
  destruct (c_parent cx) as [p|] eqn:Hp.
  2:{ intros H. inversion H; subst. unfold m_detach. rewrite Hgx, Hp.
      destruct rs. exact HR. }
  intros H. inversion H; subst f'. clear H.
  (* the parent *)
  destruct (cell_parent_lists_child _ _ _ _ Hnd Hcx Hp) as [cp [Hcp Hxin]].
  pose proof (cell_f_in _ _ _ _ Hcp) as Hpin.
  pose proof (R_get _ _ _ HR Hpin) as Hgp. rewrite Hcp in Hgp.
  pose proof (parent_not_in_subtree _ _ _ _ _ Hnd Hcx Hp Hf) as Hpt.
  assert (Hxt : In x (ids_t t)) by (rewrite <- (find_rid _ _ _ Hf); apply rid_in).
  assert (Hpx : p <> x) by (intros ->; contradiction).
  pose proof (remove_perm _ _ _ Hnd Hf) as Hperm.
  destruct (index_of_In _ _ Hxin) as [k Hk].
  pose proof (cell_kids_nodup _ _ _ _ Hnd Hcp) as Hkn.
  (* what the model's store looks like *)
  assert (Hget : forall i, get (m_detach s x) i =
            if N.eqb x i then Some (w_parent cx None)
            else if N.eqb p i then Some (w_kids cp (filter (neqb x) (c_kids cp)))
            else get s i).
  { intros i. unfold m_detach. rewrite Hgx, Hp, Hgp, Hk.
    rewrite get_set_parent, !get_set.
    replace (N.eqb p x) with false by (symmetry; now apply N.eqb_neq).
    rewrite Hgx. cbn. rewrite (remove_index_filter _ _ _ Hkn Hk).
    destruct (N.eqb x i); reflexivity. }
  apply (R_intro s _ rs); try assumption.
  - cbn. apply (Permutation_NoDup Hperm Hnd).
  - cbn. intros i Hi. apply (Permutation_in _ (Permutation_sym Hperm) Hi).
  - cbn. rewrite (Permutation_length Hperm). lia.
  - apply next_m_detach.
  - cbn [ids_f cell_f]. intros i Hi.
    assert (Hi0 : In i (ids_f (r_forest rs))) by apply (Permutation_in _ (Permutation_sym Hperm) Hi).
    pose proof (R_get _ _ _ HR Hi0) as Hgi.
    destruct (cell_f_some _ None _ Hi0) as [ci Hci]. rewrite Hci in Hgi.
    rewrite Hget.
    destruct (in_dec N.eq_dec i (ids_t t)) as [Hit|Hit].
    + rewrite (find_cells _ None _ _ None _ Hnd Hf Hit), Hci. cbn.
      destruct (N.eqb x i) eqn:E.
      * apply N.eqb_eq in E. subst i. rewrite N.eqb_refl. congruence.
      * rewrite (N.eqb_sym i x), E.
        destruct (N.eqb p i) eqn:E2; [apply N.eqb_eq in E2; subst; contradiction|].
        exact Hgi.
    + rewrite (cell_t_none _ _ _ Hit), remove_cell, (subtree_ids_find _ _ _ Hf) by assumption.
      apply mem_false in Hit as Hm. rewrite Hm, Hci. cbn.
      destruct (N.eqb x i) eqn:E; [apply N.eqb_eq in E; subst; contradiction|].
      destruct (N.eqb p i) eqn:E2.
      * apply N.eqb_eq in E2. subst i. rewrite Hcp in Hci. inversion Hci; subst. reflexivity.
      * rewrite Hgi. f_equal.
        unfold drop_kid. rewrite filter_neqb_notin; [symmetry; apply w_kids_same|].
        intros Hin.
        destruct (cell_child_points_back _ _ _ _ Hnd Hci Hin) as [c' [Hc' Hp']].
        rewrite Hcx in Hc'. inversion Hc'; subst c'. rewrite Hp in Hp'. inversion Hp'; subst.
        rewrite N.eqb_refl in E2. discriminate.
Qed.

(* ------------------------------------------------------------------ *)
(* place (append, insert)                                              *)
(* ------------------------------------------------------------------ *)
Lemma place_refines s rs p x k f' g :
  R s rs -> ref_place (r_forest rs) p x k = Some f' ->
  (forall cp, get s p = Some cp -> g (c_kids cp) = insert_at k x (c_kids cp)) ->
  R (set_parent (upd_kids s p g) x (Some p)) (mkR f' (r_next rs)).
Proof.
  intros HR. unfold ref_place, parent_of.
  destruct (find_f (r_forest rs) x) as [t|] eqn:Hf; [|discriminate].
  pose proof (find_in _ _ _ Hf) as Hx.
  pose proof (R_nodup _ _ HR) as Hnd.
  destruct (cell_f None (r_forest rs) x) as [cx|] eqn:Hcx; cbn; [|discriminate].
  pose proof (R_get _ _ _ HR Hx) as Hgx. rewrite Hcx in Hgx.
  destruct (c_parent cx) as [px|] eqn:Hpx; [discriminate|].
  destruct (find_f (r_forest rs) p) as [tp|] eqn:Hfp; [|discriminate].
  destruct (mem p (ids_t t)) eqn:Hmp; [discriminate|].
  destruct (k <=? flen (rkids tp))%nat; [|discriminate].
  intros H Hg. inversion H; subst f'. clear H.
  apply mem_false in Hmp.
  pose proof (find_in _ _ _ Hfp) as Hp.
  pose proof (R_get _ _ _ HR Hp) as Hgp.
  destruct (cell_f_some _ None _ Hp) as [cp Hcp]. rewrite Hcp in Hgp.
  assert (Hxt : In x (ids_t t)) by (rewrite <- (find_rid _ _ _ Hf); apply rid_in).
  assert (Hpx' : p <> x) by (intros ->; contradiction).
  pose proof (remove_perm _ _ _ Hnd Hf) as Hperm.
  pose proof (Permutation_NoDup Hperm Hnd) as Hnd2.
  apply nodup_app in Hnd2. destruct Hnd2 as [Hndt [Hnd1 Hdisj]].
  assert (Hp1 : In p (ids_f (remove_f (r_forest rs) x))).
  { pose proof (Permutation_in _ Hperm Hp) as H. apply in_app_or in H. tauto. }
  pose proof (place_perm _ p k t Hnd1 Hp1) as Hperm2.
  assert (Hperm3 : Permutation (ids_f (place_f (remove_f (r_forest rs) x) p k t)) (ids_f (r_forest rs))).
  { eapply Permutation_trans; [exact Hperm2|]. now apply Permutation_sym. }
  assert (Hget : forall i, get (set_parent (upd_kids s p g) x (Some p)) i =
            if N.eqb x i then Some (w_parent cx (Some p))
            else if N.eqb p i then Some (w_kids cp (insert_at k x (c_kids cp)))
            else get s i).
  { intros i. rewrite get_set_parent, !get_upd_kids.
    replace (N.eqb p x) with false by (symmetry; now apply N.eqb_neq).
    rewrite Hgx, Hgp. cbn. rewrite (Hg cp Hgp). destruct (N.eqb x i); reflexivity. }
  apply (R_intro s _ rs); try assumption.
  - apply (Permutation_NoDup (Permutation_sym Hperm3) Hnd).
  - intros i Hi. apply (Permutation_in _ Hperm3 Hi).
  - rewrite (Permutation_length Hperm3). lia.
  - now rewrite next_set_parent, next_upd_kids.
  - intros i Hi.
    assert (Hi0 : In i (ids_f (r_forest rs))) by apply (Permutation_in _ Hperm3 Hi).
    pose proof (R_get _ _ _ HR Hi0) as Hgi.
    destruct (cell_f_some _ None _ Hi0) as [ci Hci]. rewrite Hci in Hgi.
    rewrite Hget, place_cell by (intros j Hj Hj2; exact (Hdisj j Hj Hj2)).
    rewrite remove_cell, (subtree_ids_find _ _ _ Hf) by assumption.
    rewrite (find_rid _ _ _ Hf).
    destruct (in_dec N.eq_dec i (ids_t t)) as [Hit|Hit].
    + apply mem_In in Hit as Hm. rewrite Hm.
      apply mem_In in Hp1 as Hm1. rewrite Hm1.
      rewrite (find_cells _ None _ _ (Some p) _ Hnd Hf Hit), Hci. cbn.
      destruct (N.eqb x i) eqn:E.
      * apply N.eqb_eq in E. subst i. rewrite N.eqb_refl. congruence.
      * rewrite (N.eqb_sym i x), E.
        destruct (N.eqb p i) eqn:E2; [apply N.eqb_eq in E2; subst; contradiction|].
        exact Hgi.
    + apply mem_false in Hit as Hm. rewrite Hm, Hci. cbn.
      destruct (N.eqb x i) eqn:E; [apply N.eqb_eq in E; subst; contradiction|].
      assert (Hfl : filter (neqb x) (c_kids ci) = c_kids ci).
      { apply filter_neqb_notin. exact (root_not_listed _ _ _ _ _ Hnd Hcx Hpx Hci). }
      assert (Hd : drop_kid x ci = ci).
      { unfold drop_kid. rewrite Hfl. apply w_kids_same. }
      rewrite Hd, Hfl. rewrite (N.eqb_sym i p).
      destruct (N.eqb p i) eqn:E2; [|exact Hgi].
      apply N.eqb_eq in E2. subst i. rewrite Hcp in Hci. inversion Hci; subst. reflexivity.
Qed.

Lemma insert_at_length {A} (x : A) l : insert_at (length l) x l = l ++ [x].
Proof. induction l; cbn; [reflexivity|now f_equal]. Qed.

Lemma flen_roots f : length (roots f) = flen f.
Proof. induction f as [|t f IH]; cbn; [reflexivity|now f_equal]. Qed.

Lemma kids_ids_length f p tp : find_f f p = Some tp -> length (kids_ids f p) = flen (rkids tp).
Proof. unfold kids_ids. intros ->. apply flen_roots. Qed.

Lemma append1_refines s rs p x f' :
  R s rs -> ref_place (r_forest rs) p x (length (kids_ids (r_forest rs) p)) = Some f' ->
  R (m_append1 s p x) (mkR f' (r_next rs)).
Proof.
  intros HR H. unfold m_append1. eapply place_refines; try eassumption.
  intros cp Hcp.
  assert (Hp : In p (ids_f (r_forest rs))).
  { unfold ref_place in H. destruct (find_f (r_forest rs) x); [|discriminate].
    destruct (parent_of (r_forest rs) x) as [[?|]|]; try discriminate.
    destruct (find_f (r_forest rs) p) eqn:E; [|discriminate]. eapply find_in; eassumption. }
  rewrite <- (kids_refines _ _ _ HR Hp). unfold kids_of. rewrite Hcp.
  symmetry. apply insert_at_length.
Qed.

Lemma insert_refines s rs p x idx f' :
  R s rs ->
  ref_place (r_forest rs) p x (py_pos idx (length (kids_ids (r_forest rs) p))) = Some f' ->
  R (m_insert s p x idx) (mkR f' (r_next rs)).
Proof.
  intros HR H. unfold m_insert. eapply place_refines; try eassumption.
  intros cp Hcp.
  assert (Hp : In p (ids_f (r_forest rs))).
  { unfold ref_place in H. destruct (find_f (r_forest rs) x); [|discriminate].
    destruct (parent_of (r_forest rs) x) as [[?|]|]; try discriminate.
    destruct (find_f (r_forest rs) p) eqn:E; [|discriminate]. eapply find_in; eassumption. }
  rewrite <- (kids_refines _ _ _ HR Hp). unfold kids_of. rewrite Hcp. reflexivity.
Qed.

(* the append loop *)
Lemma append_refines s rs p xs f' :
  R s rs ->
  fold_left (fun (acc : option forest) x =>
               match acc with
               | Some f0 => ref_place f0 p x (length (kids_ids f0 p))
               | None => None
               end) xs (Some (r_forest rs)) = Some f' ->
  R (fold_left (fun s' x => m_append1 s' p x) xs s) (mkR f' (r_next rs)).
Proof.
  revert s rs. induction xs as [|x xs IH]; cbn; intros s rs HR H.
  - inversion H; subst. now destruct rs.
  - destruct (ref_place (r_forest rs) p x (length (kids_ids (r_forest rs) p))) as [f1|] eqn:E.
    + apply (IH _ (mkR f1 (r_next rs))); [|exact H]. now apply append1_refines.
    + exfalso. clear -H. induction xs; cbn in H; [discriminate|auto].
Qed.

(* ------------------------------------------------------------------ *)
(* replaceChild                                                        *)
(* ------------------------------------------------------------------ *)
Lemma py_pos_nat i len : (i <= len)%nat -> py_pos (Z.of_nat i) len = i.
Proof.
  intros H. unfold py_pos. destruct (Z.of_nat i <? 0)%Z eqn:E; [lia|].
  rewrite Nat2Z.id. lia.
Qed.

Lemma ref_place_bound f p x k f' : ref_place f p x k = Some f' -> (k <= length (kids_ids f p))%nat.
Proof.
  unfold ref_place. destruct (find_f f x); [|discriminate].
  destruct (parent_of f x) as [[?|]|]; try discriminate.
  destruct (find_f f p) as [tp|] eqn:E; [|discriminate].
  destruct (mem p (ids_t t)); [discriminate|].
  destruct (k <=? flen (rkids tp))%nat eqn:E2; [|discriminate]. intros _.
  rewrite (kids_ids_length _ _ _ E). now apply Nat.leb_le.
Qed.

Lemma replace_loop_refines p content : forall s rs i fo f',
  R s rs -> fo = Some (r_forest rs) ->
  fst (fold_left (fun (st : option forest * nat) x =>
                    match fst st with
                    | Some f0 => (match ref_detach f0 x with
                                  | Some f1 => ref_place f1 p x (snd st)
                                  | None => None
                                  end, S (snd st))
                    | None => (None, S (snd st))
                    end) content (fo, i)) = Some f' ->
  R (fst (fold_left (fun (st : store * nat) node =>
                       let (s', j) := st in
                       (m_insert (m_detach s' node) p node (Z.of_nat j), S j))
                    content (s, i))) (mkR f' (r_next rs)).
Proof.
  induction content as [|x content IH]; cbn; intros s rs i fo f' HR Hfo H.
  - subst fo. inversion H; subst. now destruct rs.
  - subst fo. cbn in H.
    destruct (ref_detach (r_forest rs) x) as [f1|] eqn:E1.
    2:{ exfalso. clear -H. revert H. generalize (S i). induction content; cbn; intros n H; [discriminate|eauto]. }
    destruct (ref_place f1 p x i) as [f2|] eqn:E2.
    2:{ exfalso. clear -H. revert H. generalize (S i). induction content; cbn; intros n H; [discriminate|eauto]. }
    pose proof (detach_refines _ _ _ _ HR E1) as HR1.
    assert (HR2 : R (m_insert (m_detach s x) p x (Z.of_nat i)) (mkR f2 (r_next rs))).
    { apply (insert_refines _ (mkR f1 (r_next rs))); [exact HR1|]. cbn.
      rewrite py_pos_nat; [exact E2|]. now apply ref_place_bound in E2. }
    apply (IH _ (mkR f2 (r_next rs)) (S i) (Some f2) f' HR2 eq_refl H).
Qed.

(* ------------------------------------------------------------------ *)
(* detachChildren                                                      *)
(* ------------------------------------------------------------------ *)
Lemma get_fold_set_parent l : forall s i,
  get (fold_left (fun s' ch => set_parent s' ch None) l s) i =
  if mem i l then option_map (fun c => w_parent c None) (get s i) else get s i.
Proof.
  induction l as [|y l IH]; intros s i; cbn; [reflexivity|].
  rewrite IH, get_set_parent. rewrite (N.eqb_sym i y).
  destruct (N.eqb y i) eqn:E; cbn.
  - apply N.eqb_eq in E. subst. destruct (mem i l); destruct (get s i); reflexivity.
  - reflexivity.
Qed.

Lemma next_fold_set_parent l : forall s,
  s_next (fold_left (fun s' ch => set_parent s' ch None) l s) = s_next s.
Proof. induction l; intros s; cbn; [reflexivity|]. now rewrite IHl, next_set_parent. Qed.

Lemma detach_children_refines s rs p tp :
  R s rs -> find_f (r_forest rs) p = Some tp ->
  R (fst (m_detach_children s p))
    (mkR (fapp (rkids tp) (sub_f (r_forest rs) p (with_kids F0))) (r_next rs)) /\
  snd (m_detach_children s p) = RNodes (roots (rkids tp)).
Proof.
  intros HR Hf.
  pose proof (find_in _ _ _ Hf) as Hp.
  pose proof (R_nodup _ _ HR) as Hnd.
  pose proof (kids_refines _ _ _ HR Hp) as Hk. unfold kids_ids in Hk. rewrite Hf in Hk.
  pose proof (sub_nokids_perm _ _ _ Hnd Hf) as Hperm.
  split; [|unfold m_detach_children; cbn; now rewrite Hk].
  unfold m_detach_children. cbn [fst]. rewrite Hk.
  pose proof (Permutation_NoDup Hperm Hnd) as Hnd2.
  apply nodup_app in Hnd2 as Hnd3. destruct Hnd3 as [HndK [HndF Hdisj]].
  (* p is not inside its own children *)
  destruct (find_cell _ None _ _ Hnd Hf) as [px Hcp].
  assert (HpK : ~ In p (ids_f (rkids tp))).
  { intros Hin. pose proof (find_nodup _ _ _ Hnd Hf) as Ht.
    destruct tp as [j d k]. cbn in *. pose proof (find_rid _ _ _ Hf) as Hr. cbn in Hr. subst j.
    inversion Ht; subst. contradiction. }
  apply (R_intro s _ rs); try assumption.
  - now rewrite ids_fapp.
  - intros i Hi. rewrite ids_fapp in Hi. apply (Permutation_in _ (Permutation_sym Hperm) Hi).
  - rewrite ids_fapp, (Permutation_length Hperm). lia.
  - now rewrite next_fold_set_parent, next_upd_kids.
  - intros i Hi. rewrite ids_fapp in Hi.
    assert (Hi0 : In i (ids_f (r_forest rs))) by apply (Permutation_in _ (Permutation_sym Hperm) Hi).
    pose proof (R_get _ _ _ HR Hi0) as Hgi.
    destruct (cell_f_some _ None _ Hi0) as [ci Hci]. rewrite Hci in Hgi.
    rewrite get_fold_set_parent, get_upd_kids, cell_fapp.
    destruct (in_dec N.eq_dec i (ids_f (rkids tp))) as [HiK|HiK].
    + rewrite (kids_cells _ None _ _ _ Hnd Hf HiK), Hci. cbn.
      destruct (N.eqb p i) eqn:E; [apply N.eqb_eq in E; subst; contradiction|].
      rewrite Hgi. cbn. destruct (mem i (roots (rkids tp))); reflexivity.
    + rewrite (cell_f_none _ _ _ HiK), (sub_nokids_cell _ _ _ _ _ Hnd Hf).
      apply mem_false in HiK as Hm. rewrite Hm, Hci. cbn.
      assert (Hr : mem i (roots (rkids tp)) = false).
      { apply mem_false. intros H. apply HiK. now apply roots_incl. }
      rewrite Hr. rewrite (N.eqb_sym i p).
      destruct (N.eqb p i) eqn:E; [|exact Hgi].
      apply N.eqb_eq in E. subst i. rewrite Hgi. reflexivity.
Qed.
