(* C19 -- facts about the reference forest only (no heap): what cell each node
   stands for after the structural primitives find / remove / place / sub. *)
From SV Require Import Lib.Base C19.Model C19.Rel.
From Coq Require Import Permutation.

Definition subtree_ids (f : forest) (x : id) : list id :=
  match find_f f x with Some t => ids_t t | None => [] end.
Definition drop_kid (x : id) (c : cell) : cell := w_kids c (filter (neqb x) (c_kids c)).

(* ---------------- small helpers ---------------- *)
Lemma option_map_id {A} (o : option A) : option_map (fun c => c) o = o.
Proof. destruct o; reflexivity. Qed.

Lemma cell_t_notin_none t par x : cell_t par t x = None -> ~ In x (ids_t t).
Proof.
  intros H Hin. destruct (cell_t_some t par x Hin) as [c Hc]. congruence.
Qed.

Lemma cell_f_notin_none f par x : cell_f par f x = None -> ~ In x (ids_f f).
Proof.
  intros H Hin. destruct (cell_f_some f par x Hin) as [c Hc]. congruence.
Qed.

(* ---------------- find ---------------- *)
Lemma find_rid_m :
  (forall t x r, find_t t x = Some r -> rid r = x) /\
  (forall f x r, find_f f x = Some r -> rid r = x).
Proof.
  apply tree_forest_ind; cbn; intros.
  - destruct (N.eqb i x) eqn:E.
    + inversion H0; subst. cbn. now apply N.eqb_eq.
    + eauto.
  - discriminate.
  - destruct (find_t t x) eqn:E.
    + inversion H1; subst. eauto.
    + eauto.
Qed.

Lemma find_rid : forall f x t, find_f f x = Some t -> rid t = x.
Proof. exact (proj2 find_rid_m). Qed.

Lemma find_ids_incl_m :
  (forall t x r, find_t t x = Some r -> incl (ids_t r) (ids_t t)) /\
  (forall f x r, find_f f x = Some r -> incl (ids_t r) (ids_f f)).
Proof.
  apply tree_forest_ind; cbn; intros.
  - destruct (N.eqb i x) eqn:E.
    + inversion H0; subst. cbn. apply incl_refl.
    + intros y Hy. right. eapply H; eassumption.
  - discriminate.
  - destruct (find_t t x) eqn:E.
    + inversion H1; subst. intros y Hy. apply in_or_app. left. eapply H; eassumption.
    + intros y Hy. apply in_or_app. right. eapply H0; eassumption.
Qed.

Lemma find_ids_incl : forall f x t, find_f f x = Some t -> incl (ids_t t) (ids_f f).
Proof. exact (proj2 find_ids_incl_m). Qed.

Lemma find_some_m :
  (forall t x, In x (ids_t t) -> exists r, find_t t x = Some r) /\
  (forall f x, In x (ids_f f) -> exists r, find_f f x = Some r).
Proof.
  apply tree_forest_ind; cbn; intros.
  - destruct (N.eqb i x) eqn:E; [eexists; reflexivity|].
    destruct H0 as [H0|H0]; [subst; rewrite N.eqb_refl in E; discriminate|]. now apply H.
  - contradiction.
  - apply in_app_or in H1. destruct H1 as [H1|H1].
    + destruct (H x H1) as [r Hr]. rewrite Hr. now exists r.
    + destruct (find_t t x); [eexists; reflexivity|]. now apply H0.
Qed.

Lemma find_some : forall f x, In x (ids_f f) -> exists t, find_f f x = Some t.
Proof. exact (proj2 find_some_m). Qed.

Lemma find_none_m :
  (forall t x, ~ In x (ids_t t) -> find_t t x = None) /\
  (forall f x, ~ In x (ids_f f) -> find_f f x = None).
Proof.
  apply tree_forest_ind; cbn; intros.
  - destruct (N.eqb i x) eqn:E.
    + apply N.eqb_eq in E. subst. exfalso. apply H0. now left.
    + apply H. intros H1. apply H0. now right.
  - reflexivity.
  - rewrite H, H0; [reflexivity| |]; intros H2; apply H1; apply in_or_app; auto.
Qed.

Lemma find_none : forall f x, ~ In x (ids_f f) -> find_f f x = None.
Proof. exact (proj2 find_none_m). Qed.

Lemma find_t_none_notin t x : find_t t x = None -> ~ In x (ids_t t).
Proof.
  intros H Hin. destruct (proj1 find_some_m t x Hin) as [r Hr]. congruence.
Qed.

Lemma find_t_in t x r : find_t t x = Some r -> In x (ids_t t).
Proof.
  intros H. destruct (in_dec N.eq_dec x (ids_t t)) as [H1|H1]; [assumption|].
  rewrite (proj1 find_none_m _ _ H1) in H. discriminate.
Qed.

Lemma find_f_in f x r : find_f f x = Some r -> In x (ids_f f).
Proof.
  intros H. destruct (in_dec N.eq_dec x (ids_f f)) as [H1|H1]; [assumption|].
  rewrite (find_none _ _ H1) in H. discriminate.
Qed.

Lemma find_nodup_m :
  (forall t x r, NoDup (ids_t t) -> find_t t x = Some r -> NoDup (ids_t r)) /\
  (forall f x r, NoDup (ids_f f) -> find_f f x = Some r -> NoDup (ids_t r)).
Proof.
  apply tree_forest_ind; cbn; intros.
  - destruct (N.eqb i x) eqn:E.
    + inversion H1; subst. exact H0.
    + inversion H0; subst. eauto.
  - discriminate.
  - apply nodup_app in H1. destruct H1 as [Ha [Hb _]].
    destruct (find_t t x) eqn:E.
    + inversion H2; subst. eauto.
    + eauto.
Qed.

Lemma find_nodup : forall f x t, NoDup (ids_f f) -> find_f f x = Some t -> NoDup (ids_t t).
Proof. exact (proj2 find_nodup_m). Qed.

(* the cell of x itself *)
Lemma find_cell_m :
  (forall t par x r, find_t t x = Some r ->
     exists px, cell_t par t x = Some (mkC px (roots (rkids r)) (rdata r))) /\
  (forall f par x r, find_f f x = Some r ->
     exists px, cell_f par f x = Some (mkC px (roots (rkids r)) (rdata r))).
Proof.
  apply tree_forest_ind; cbn; intros.
  - destruct (N.eqb i x) eqn:E.
    + inversion H0; subst. cbn. eexists; reflexivity.
    + eauto.
  - discriminate.
  - destruct (find_t t x) eqn:E.
    + inversion H1; subst. destruct (H par x r E) as [px Hpx]. rewrite Hpx. eexists; reflexivity.
    + apply find_t_none_notin in E. rewrite (cell_t_none _ par _ E). eauto.
Qed.

Lemma find_cell : forall f par x t, NoDup (ids_f f) -> find_f f x = Some t ->
  exists px, cell_f par f x = Some (mkC px (roots (rkids t)) (rdata t)).
Proof. intros. now apply (proj2 find_cell_m). Qed.

(* the cells of the subtree rooted at x, seen as a tree of its own under par' *)
Lemma find_cells_m :
  (forall t par x r par' i,
     NoDup (ids_t t) -> find_t t x = Some r -> In i (ids_t r) ->
     cell_t par' r i = option_map (fun c => if N.eqb i x then w_parent c par' else c) (cell_t par t i)) /\
  (forall f par x r par' i,
     NoDup (ids_f f) -> find_f f x = Some r -> In i (ids_t r) ->
     cell_t par' r i = option_map (fun c => if N.eqb i x then w_parent c par' else c) (cell_f par f i)).
Proof.
  apply tree_forest_ind; intros.
  - cbn in H1. destruct (N.eqb i x) eqn:E.
    + inversion H1; subst. apply N.eqb_eq in E. subst. cbn.
      destruct (N.eqb x i0) eqn:E2.
      * apply N.eqb_eq in E2. subst. rewrite N.eqb_refl. reflexivity.
      * assert (E3 : N.eqb i0 x = false).
        { apply N.eqb_neq. apply N.eqb_neq in E2. congruence. }
        rewrite E3. now rewrite option_map_id.
    + cbn in H0. inversion H0; subst.
      assert (Hin : In i0 (ids_f k)).
      { eapply (proj2 find_ids_incl_m); eassumption. }
      assert (E2 : N.eqb i i0 = false).
      { apply N.eqb_neq. intros ->. contradiction. }
      cbn [cell_t]. rewrite E2. eapply H; eassumption.
  - cbn in H0. discriminate.
  - cbn in H1. apply nodup_app in H1. destruct H1 as [Ha [Hb Hc]].
    cbn in H2. cbn [cell_f]. destruct (find_t t x) eqn:E.
    + inversion H2; subst.
      assert (Hin : In i (ids_t t)).
      { eapply (proj1 find_ids_incl_m); eassumption. }
      destruct (cell_t_some t par i Hin) as [c Hcc]. rewrite Hcc.
      rewrite (H par x r par' i Ha E H3). rewrite Hcc. reflexivity.
    + assert (Hin : In i (ids_f f)).
      { eapply (proj2 find_ids_incl_m); eassumption. }
      rewrite (cell_t_none t par i); [|intros Hx; eapply Hc; eassumption].
      eapply H0; eassumption.
Qed.

Lemma find_cells : forall f par x t par' i,
  NoDup (ids_f f) -> find_f f x = Some t -> In i (ids_t t) ->
  cell_t par' t i = option_map (fun c => if N.eqb i x then w_parent c par' else c) (cell_f par f i).
Proof. exact (proj2 find_cells_m). Qed.

(* ---------------- parent / children agree ---------------- *)
Lemma parent_lists_child_m :
  (forall t par x c, NoDup (ids_t t) -> cell_t par t x = Some c ->
     (x = rid t /\ c_parent c = par) \/
     (exists p cp, c_parent c = Some p /\ cell_t par t p = Some cp /\ In x (c_kids cp))) /\
  (forall f par x c, NoDup (ids_f f) -> cell_f par f x = Some c ->
     (In x (roots f) /\ c_parent c = par) \/
     (exists p cp, c_parent c = Some p /\ cell_f par f p = Some cp /\ In x (c_kids cp))).
Proof.
  apply tree_forest_ind; intros.
  - cbn in H0. inversion H0; subst. cbn in H1. destruct (N.eqb i x) eqn:E.
    + inversion H1; subst. apply N.eqb_eq in E. left. cbn. auto.
    + right. destruct (H (Some i) x c H5 H1) as [[Hr Hp]|[p [cp [Hp [Hcp Hx]]]]].
      * exists i, (mkC par (roots k) d). cbn. rewrite N.eqb_refl. auto.
      * exists p, cp. split; [assumption|]. split; [|assumption]. cbn.
        assert (E2 : N.eqb i p = false).
        { apply N.eqb_neq. intros ->. apply H4. eapply cell_f_in; eassumption. }
        rewrite E2. assumption.
  - cbn in H0. discriminate.
  - cbn in H1. apply nodup_app in H1. destruct H1 as [Ha [Hb Hc]].
    cbn in H2. destruct (cell_t par t x) eqn:E.
    + inversion H2; subst. destruct (H par x c Ha E) as [[Hr Hp]|[p [cp [Hp [Hcp Hx]]]]].
      * left. cbn. auto.
      * right. exists p, cp. cbn. rewrite Hcp. auto.
    + destruct (H0 par x c Hb H2) as [[Hr Hp]|[p [cp [Hp [Hcp Hx]]]]].
      * left. cbn. auto.
      * right. exists p, cp. cbn.
        rewrite (cell_t_none t par p).
        -- auto.
        -- intros Hin. eapply Hc; [eassumption|]. eapply cell_f_in; eassumption.
Qed.

Lemma cell_parent_lists_child : forall f x c p,
  NoDup (ids_f f) -> cell_f None f x = Some c -> c_parent c = Some p ->
  exists cp, cell_f None f p = Some cp /\ In x (c_kids cp).
Proof.
  intros f x c p Hnd Hc Hp.
  destruct (proj2 parent_lists_child_m f None x c Hnd Hc) as [[_ Hn]|[p' [cp [Hp' [Hcp Hx]]]]].
  - congruence.
  - assert (p' = p) by congruence. subst. eauto.
Qed.

Lemma cell_root : forall f par x, NoDup (ids_f f) -> In x (roots f) ->
  exists c, cell_f par f x = Some c /\ c_parent c = par.
Proof.
  induction f as [|t f IH]; cbn; intros par x Hnd Hin; [contradiction|].
  apply nodup_app in Hnd. destruct Hnd as [Ha [Hb Hc]]. destruct Hin as [Hin|Hin].
  - subst. destruct t as [i d k]. cbn. rewrite N.eqb_refl. eexists; split; reflexivity.
  - rewrite (cell_t_none t par x).
    + now apply IH.
    + intros Hx. eapply Hc; [eassumption|]. now apply roots_incl.
Qed.

Lemma child_points_back_m :
  (forall t par p cp x, NoDup (ids_t t) -> cell_t par t p = Some cp -> In x (c_kids cp) ->
     exists c, cell_t par t x = Some c /\ c_parent c = Some p) /\
  (forall f par p cp x, NoDup (ids_f f) -> cell_f par f p = Some cp -> In x (c_kids cp) ->
     exists c, cell_f par f x = Some c /\ c_parent c = Some p).
Proof.
  apply tree_forest_ind; intros.
  - cbn in H0. inversion H0; subst. cbn in H1. destruct (N.eqb i p) eqn:E.
    + inversion H1; subst. cbn in H2. apply N.eqb_eq in E. subst.
      assert (E2 : N.eqb p x = false).
      { apply N.eqb_neq. intros ->. apply H5. now apply roots_incl. }
      cbn. rewrite E2. now apply cell_root.
    + destruct (H (Some i) p cp x H6 H1 H2) as [c [Hc Hp]].
      exists c. split; [|assumption]. cbn.
      assert (E2 : N.eqb i x = false).
      { apply N.eqb_neq. intros ->. apply H5. eapply cell_f_in; eassumption. }
      rewrite E2. assumption.
  - cbn in H0. discriminate.
  - cbn in H1. apply nodup_app in H1. destruct H1 as [Ha [Hb Hc]].
    cbn in H2. destruct (cell_t par t p) eqn:E.
    + inversion H2; subst. destruct (H par p cp x Ha E H3) as [c [Hcc Hp]].
      exists c. cbn. rewrite Hcc. auto.
    + destruct (H0 par p cp x Hb H2 H3) as [c [Hcc Hp]].
      exists c. cbn. rewrite (cell_t_none t par x).
      * auto.
      * intros Hin. eapply Hc; [eassumption|]. eapply cell_f_in; eassumption.
Qed.

Lemma cell_child_points_back : forall f p cp x,
  NoDup (ids_f f) -> cell_f None f p = Some cp -> In x (c_kids cp) ->
  exists c, cell_f None f x = Some c /\ c_parent c = Some p.
Proof. intros. eapply (proj2 child_points_back_m); eassumption. Qed.

Lemma cell_kids_incl_m :
  (forall t par p cp, cell_t par t p = Some cp -> incl (c_kids cp) (ids_t t)) /\
  (forall f par p cp, cell_f par f p = Some cp -> incl (c_kids cp) (ids_f f)).
Proof.
  apply tree_forest_ind; intros.
  - cbn in H0. destruct (N.eqb i p) eqn:E.
    + inversion H0; subst. cbn. intros y Hy. right. now apply roots_incl.
    + intros y Hy. cbn. right. eapply H; eassumption.
  - cbn in H. discriminate.
  - cbn in H1. destruct (cell_t par t p) eqn:E.
    + inversion H1; subst. intros y Hy. cbn. apply in_or_app. left. eapply H; eassumption.
    + intros y Hy. cbn. apply in_or_app. right. eapply H0; eassumption.
Qed.

Lemma cell_kids_incl : forall f par p cp, cell_f par f p = Some cp -> incl (c_kids cp) (ids_f f).
Proof. exact (proj2 cell_kids_incl_m). Qed.

Lemma cell_kids_nodup_m :
  (forall t par p cp, NoDup (ids_t t) -> cell_t par t p = Some cp -> NoDup (c_kids cp)) /\
  (forall f par p cp, NoDup (ids_f f) -> cell_f par f p = Some cp -> NoDup (c_kids cp)).
Proof.
  apply tree_forest_ind; intros.
  - cbn in H0. inversion H0; subst. cbn in H1. destruct (N.eqb i p) eqn:E.
    + inversion H1; subst. cbn. now apply roots_NoDup.
    + eapply H; eassumption.
  - cbn in H0. discriminate.
  - cbn in H1. apply nodup_app in H1. destruct H1 as [Ha [Hb Hc]].
    cbn in H2. destruct (cell_t par t p) eqn:E.
    + inversion H2; subst. eapply H; eassumption.
    + eapply H0; eassumption.
Qed.

Lemma cell_kids_nodup : forall f par p cp,
  NoDup (ids_f f) -> cell_f par f p = Some cp -> NoDup (c_kids cp).
Proof. exact (proj2 cell_kids_nodup_m). Qed.

Lemma parent_not_in_subtree_m :
  (forall t par x c r, NoDup (ids_t t) -> cell_t par t x = Some c -> find_t t x = Some r ->
     c_parent c = par \/ (exists p, c_parent c = Some p /\ ~ In p (ids_t r))) /\
  (forall f par x c r, NoDup (ids_f f) -> cell_f par f x = Some c -> find_f f x = Some r ->
     c_parent c = par \/ (exists p, c_parent c = Some p /\ ~ In p (ids_t r))).
Proof.
  apply tree_forest_ind; intros.
  - cbn in H0. inversion H0; subst. cbn in H1, H2. destruct (N.eqb i x) eqn:E.
    + inversion H1; subst. left. reflexivity.
    + right. destruct (H (Some i) x c r H6 H1 H2) as [Hp|[p [Hp Hn]]].
      * exists i. split; [assumption|]. intros Hin. apply H5.
        eapply (proj2 find_ids_incl_m); eassumption.
      * exists p. auto.
  - cbn in H0. discriminate.
  - cbn in H1. apply nodup_app in H1. destruct H1 as [Ha [Hb Hc]].
    cbn in H2, H3. destruct (cell_t par t x) eqn:E.
    + inversion H2; subst.
      destruct (proj1 find_some_m t x (cell_t_in _ _ _ _ E)) as [r' Hr'].
      rewrite Hr' in H3. inversion H3; subst. eapply H; eassumption.
    + apply cell_t_notin_none in E. rewrite (proj1 find_none_m t x E) in H3.
      eapply H0; eassumption.
Qed.

Lemma parent_not_in_subtree : forall f x c p t,
  NoDup (ids_f f) -> cell_f None f x = Some c -> c_parent c = Some p -> find_f f x = Some t ->
  ~ In p (ids_t t).
Proof.
  intros f x c p t Hnd Hc Hp Hf.
  destruct (proj2 parent_not_in_subtree_m f None x c t Hnd Hc Hf) as [Hn|[p' [Hp' Hn]]].
  - congruence.
  - assert (p' = p) by congruence. subst. assumption.
Qed.

(* a rank that decreases towards the parent (depth) *)
Fixpoint depth_t (n : nat) (t : tree) (x : id) : option nat :=
  match t with
  | T i d k => if N.eqb i x then Some n else depth_f (S n) k x
  end
with depth_f (n : nat) (f : forest) (x : id) : option nat :=
  match f with
  | F0 => None
  | F1 t f' => match depth_t n t x with Some r => Some r | None => depth_f n f' x end
  end.

Lemma depth_none :
  (forall t n x, ~ In x (ids_t t) -> depth_t n t x = None) /\
  (forall f n x, ~ In x (ids_f f) -> depth_f n f x = None).
Proof.
  apply tree_forest_ind; cbn; intros.
  - destruct (N.eqb i x) eqn:E.
    + apply N.eqb_eq in E. subst. exfalso. apply H0. now left.
    + apply H. intros H1. apply H0. now right.
  - reflexivity.
  - rewrite H, H0; [reflexivity| |]; intros H2; apply H1; apply in_or_app; auto.
Qed.

Lemma depth_f_in f n x m : depth_f n f x = Some m -> In x (ids_f f).
Proof.
  intros H. destruct (in_dec N.eq_dec x (ids_f f)) as [H1|H1]; [assumption|].
  rewrite (proj2 depth_none _ n _ H1) in H. discriminate.
Qed.

Lemma depth_rank_m :
  (forall t par n x c, NoDup (ids_t t) -> cell_t par t x = Some c ->
     (c_parent c = par /\ depth_t n t x = Some n) \/
     (exists p mp m, c_parent c = Some p /\ depth_t n t p = Some mp /\
                     depth_t n t x = Some m /\ (mp < m)%nat)) /\
  (forall f par n x c, NoDup (ids_f f) -> cell_f par f x = Some c ->
     (c_parent c = par /\ depth_f n f x = Some n) \/
     (exists p mp m, c_parent c = Some p /\ depth_f n f p = Some mp /\
                     depth_f n f x = Some m /\ (mp < m)%nat)).
Proof.
  apply tree_forest_ind; intros.
  - cbn in H0. inversion H0; subst. cbn in H1. cbn [depth_t]. destruct (N.eqb i x) eqn:E.
    + inversion H1; subst. left. cbn. auto.
    + right. destruct (H (Some i) (S n) x c H5 H1) as [[Hp Hd]|[p [mp [m [Hp [Hdp [Hdx Hlt]]]]]]].
      * exists i, n, (S n). rewrite N.eqb_refl. repeat split; auto.
      * exists p, mp, m.
        assert (E2 : N.eqb i p = false).
        { apply N.eqb_neq. intros ->. apply H4. eapply depth_f_in; eassumption. }
        rewrite E2. auto.
  - cbn in H0. discriminate.
  - cbn in H1. apply nodup_app in H1. destruct H1 as [Ha [Hb Hc]].
    cbn in H2. cbn [depth_f]. destruct (cell_t par t x) eqn:E.
    + inversion H2; subst.
      destruct (H par n x c Ha E) as [[Hp Hd]|[p [mp [m [Hp [Hdp [Hdx Hlt]]]]]]].
      * left. rewrite Hd. auto.
      * right. exists p, mp, m. rewrite Hdp, Hdx. auto.
    + assert (Hx : depth_t n t x = None).
      { apply (proj1 depth_none). intros Hin. eapply Hc; [eassumption|].
        eapply cell_f_in; eassumption. }
      rewrite Hx.
      destruct (H0 par n x c Hb H2) as [[Hp Hd]|[p [mp [m [Hp [Hdp [Hdx Hlt]]]]]]].
      * left. auto.
      * right. exists p, mp, m.
        rewrite (proj1 depth_none t n p).
        -- auto.
        -- intros Hin. eapply Hc; [eassumption|]. eapply depth_f_in; eassumption.
Qed.

Lemma depth_rank : forall f, NoDup (ids_f f) ->
  exists rank : id -> nat, forall x c p,
    cell_f None f x = Some c -> c_parent c = Some p -> (rank p < rank x)%nat.
Proof.
  intros f Hnd.
  exists (fun x => match depth_f 0 f x with Some n => n | None => 0%nat end).
  intros x c p Hc Hp.
  destruct (proj2 depth_rank_m f None 0%nat x c Hnd Hc) as [[Hn _]|[p' [mp [m [Hp' [Hdp [Hdx Hlt]]]]]]].
  - congruence.
  - assert (p' = p) by congruence. subst. rewrite Hdp, Hdx. assumption.
Qed.

(* ---------------- data edits ---------------- *)
Lemma sub_data_rid t x g : rid (sub_t t x (with_data g)) = rid t.
Proof. destruct t as [i d k]. cbn. destruct (N.eqb i x); reflexivity. Qed.

Lemma sub_data_roots f x g : roots (sub_f f x (with_data g)) = roots f.
Proof.
  induction f as [|t f IH]; cbn; [reflexivity|]. now rewrite sub_data_rid, IH.
Qed.

Lemma sub_data_cell_m : forall x g,
  (forall t par i,
     cell_t par (sub_t t x (with_data g)) i =
     option_map (fun c => if N.eqb i x then w_data c (g (c_data c)) else c) (cell_t par t i)) /\
  (forall f par i,
     cell_f par (sub_f f x (with_data g)) i =
     option_map (fun c => if N.eqb i x then w_data c (g (c_data c)) else c) (cell_f par f i)).
Proof.
  intros x g. apply tree_forest_ind; intros.
  - cbn [sub_t]. destruct (N.eqb i x) eqn:E.
    + apply N.eqb_eq in E. subst. cbn. destruct (N.eqb x i0) eqn:E2.
      * apply N.eqb_eq in E2. subst. rewrite N.eqb_refl. reflexivity.
      * assert (E3 : N.eqb i0 x = false).
        { apply N.eqb_neq. apply N.eqb_neq in E2. congruence. }
        rewrite E3. now rewrite option_map_id.
    + cbn. destruct (N.eqb i i0) eqn:E2.
      * apply N.eqb_eq in E2. subst. rewrite E. cbn. now rewrite sub_data_roots.
      * apply H.
  - reflexivity.
  - cbn. rewrite H, H0. destruct (cell_t par t i); reflexivity.
Qed.

Lemma sub_data_cell : forall f par x g i,
  cell_f par (sub_f f x (with_data g)) i =
  option_map (fun c => if N.eqb i x then w_data c (g (c_data c)) else c) (cell_f par f i).
Proof. intros. apply (proj2 (sub_data_cell_m x g)). Qed.

Lemma sub_data_ids_m : forall x g,
  (forall t, ids_t (sub_t t x (with_data g)) = ids_t t) /\
  (forall f, ids_f (sub_f f x (with_data g)) = ids_f f).
Proof.
  intros x g. apply tree_forest_ind; intros.
  - cbn. destruct (N.eqb i x); cbn; [reflexivity|]. now rewrite H.
  - reflexivity.
  - cbn. now rewrite H, H0.
Qed.

Lemma sub_data_ids : forall f x g, ids_f (sub_f f x (with_data g)) = ids_f f.
Proof. intros. apply (proj2 (sub_data_ids_m x g)). Qed.

Lemma cell_fapp : forall a b par i,
  cell_f par (fapp a b) i = match cell_f par a i with Some c => Some c | None => cell_f par b i end.
Proof.
  induction a as [|t a IH]; cbn; intros; [reflexivity|].
  destruct (cell_t par t i); [reflexivity|]. apply IH.
Qed.

Lemma ids_fapp : forall a b, ids_f (fapp a b) = ids_f a ++ ids_f b.
Proof.
  induction a as [|t a IH]; cbn; intros; [reflexivity|].
  now rewrite IH, app_assoc.
Qed.
