(* C19 -- MultiRef.replace_references: the frame of the edit, the sharing it
   creates, and what is left of well-formedness *)
From SV Require Import Lib.Base C19.Model C19.Rel C19.Main C19.Users C19.Ops.
From Coq Require Import Lia.

Definition agree_except (r : id) (s1 s2 : store) : Prop :=
  forall i, i <> r -> get s1 i = get s2 i.

(* ------------------------------------------------------------------ *)
(* the append loop, in closed form                                     *)
(* ------------------------------------------------------------------ *)
Lemma get_m_append1 s p x j : x <> p ->
  get (m_append1 s p x) j =
  if N.eqb x j then option_map (fun c => w_parent c (Some p)) (get s x)
  else if N.eqb p j then option_map (fun c => w_kids c (c_kids c ++ [x])) (get s p)
  else get s j.
Proof.
  intros Hxp. unfold m_append1. rewrite get_set_parent, !get_upd_kids.
  assert (E : N.eqb p x = false) by (apply N.eqb_neq; congruence).
  rewrite E. reflexivity.
Qed.

Lemma get_fold_append p xs : forall s i, ~ In p xs ->
  get (fold_left (fun s' x => m_append1 s' p x) xs s) i =
  if mem i xs then option_map (fun c => w_parent c (Some p)) (get s i)
  else if N.eqb p i then option_map (fun c => w_kids c (c_kids c ++ xs)) (get s p)
  else get s i.
Proof.
  induction xs as [|x xs IH]; intros s i Hp.
  - cbn. destruct (N.eqb p i) eqn:E; [|reflexivity].
    apply N.eqb_eq in E. subst i. destruct (get s p) as [c|]; [|reflexivity].
    cbn. rewrite app_nil_r. destruct c; reflexivity.
  - assert (Hxp : x <> p) by (intros H; apply Hp; now left).
    assert (Hp' : ~ In p xs) by (intros H; apply Hp; now right).
    cbn [fold_left]. rewrite (IH _ _ Hp'). rewrite !get_m_append1 by assumption.
    rewrite N.eqb_refl.
    assert (Exp : N.eqb x p = false) by (now apply N.eqb_neq).
    rewrite Exp. unfold mem. cbn [existsb]. fold (mem i xs). rewrite (N.eqb_sym i x).
    destruct (N.eqb x i) eqn:Exi.
    + apply N.eqb_eq in Exi. subst i. cbn [orb].
      assert (Epx : N.eqb p x = false) by (apply N.eqb_neq; congruence).
      rewrite Epx. destruct (mem x xs); [|reflexivity].
      destruct (get s x); reflexivity.
    + cbn [orb]. destruct (mem i xs) eqn:Em.
      * destruct (N.eqb p i) eqn:Epi; [|reflexivity].
        apply N.eqb_eq in Epi. subst i. apply mem_In in Em. contradiction.
      * destruct (N.eqb p i); [|reflexivity].
        destruct (get s p) as [c|]; [|reflexivity]. cbn.
        rewrite <- app_assoc. reflexivity.
Qed.

Lemma next_m_append1 s p x : s_next (m_append1 s p x) = s_next s.
Proof. unfold m_append1. now rewrite next_set_parent, next_upd_kids. Qed.

Lemma next_fold_append p xs : forall s,
  s_next (fold_left (fun s' x => m_append1 s' p x) xs s) = s_next s.
Proof. induction xs; intros s; cbn; [reflexivity|]. now rewrite IHxs, next_m_append1. Qed.

(* ------------------------------------------------------------------ *)
(* the data part of the program: edits of one node's data              *)
(* ------------------------------------------------------------------ *)
Definition node_data_op (x : id) (o : op) : Prop :=
  match o with
  | OSetText y _ | OAddPrefix y _ _ | OAddAttr y _ _ | ORemoveAttr y _ => y = x
  | _ => False
  end.

Lemma node_data_step m x o : node_data_op x o ->
  exists g, forall s, fst (step m s o) = upd_data s x g.
Proof.
  intros H. destruct o; cbn in H; try contradiction; subst; cbn [step fst];
    eexists; intros s; reflexivity.
Qed.

Lemma node_data_run m x h : Forall (node_data_op x) h ->
  exists g, forall s,
    (forall i, get (run m s h) i =
       if N.eqb x i then option_map (fun c => w_data c (g (c_data c))) (get s x) else get s i) /\
    s_next (run m s h) = s_next s.
Proof.
  induction 1 as [|o h Ho _ IH].
  - exists (fun d => d). intros s. split; [|reflexivity]. intros i. cbn.
    destruct (N.eqb x i) eqn:E; [|reflexivity]. apply N.eqb_eq in E. subst i.
    destruct (get s x) as [c|]; [|reflexivity]. destruct c; reflexivity.
  - destruct IH as [gh IH]. destruct (node_data_step m x o Ho) as [go Hgo].
    exists (fun d => gh (go d)). intros s.
    unfold run in *. cbn [fold_left]. rewrite Hgo.
    destruct (IH (upd_data s x go)) as [IH1 IH2]. split.
    + intros i. rewrite IH1, !get_upd_data, N.eqb_refl.
      destruct (N.eqb x i); [|reflexivity]. destruct (get s x); reflexivity.
    + now rewrite IH2, next_upd_data.
Qed.

Lemma replace_refs_prog_shape s node r cr k :
  get s r = Some cr -> get_attr_chain s_href None (chain_of s node) = Some k ->
  exists tail, replace_refs_prog s node (Some r) = OAppend node (c_kids cr) :: tail /\
               Forall (node_data_op node) tail.
Proof.
  intros Hr Hk. unfold replace_refs_prog. rewrite Hk, Hr. cbn [app].
  eexists. split; [reflexivity|].
  constructor; [reflexivity|].
  apply Forall_forall. intros o Ho.
  apply in_app_or in Ho. destruct Ho as [Ho|Ho].
  - apply in_map_iff in Ho. destruct Ho as [pu [Ho _]]. subst o. reflexivity.
  - apply in_app_or in Ho. destruct Ho as [Ho|Ho].
    + apply in_map_iff in Ho. destruct Ho as [a [Ho _]]. subst o. reflexivity.
    + destruct Ho as [Ho|[]]. subst o. reflexivity.
Qed.

(* the store after replace_references, cell by cell *)
Lemma replace_refs_run m s node r cr k :
  get s r = Some cr -> get_attr_chain s_href None (chain_of s node) = Some k ->
  ~ In node (c_kids cr) ->
  exists g, forall s0,
    let s1 := fold_left (fun s' x => m_append1 s' node x) (c_kids cr) s0 in
    (forall i, get (run m s0 (replace_refs_prog s node (Some r))) i =
       if N.eqb node i then option_map (fun c => w_data c (g (c_data c))) (get s1 node)
       else get s1 i) /\
    s_next (run m s0 (replace_refs_prog s node (Some r))) = s_next s0.
Proof.
  intros Hr Hk Hn.
  destruct (replace_refs_prog_shape s node r cr k Hr Hk) as [tail [Hp Ht]].
  destruct (node_data_run m node tail Ht) as [g Hg].
  exists g. intros s0 s1. rewrite Hp.
  change (run m s0 (OAppend node (c_kids cr) :: tail)) with (run m s1 tail).
  destruct (Hg s1) as [H1 H2]. split; [exact H1|].
  rewrite H2. unfold s1. apply next_fold_append.
Qed.
(* what is written, what stays *)
Lemma replace_references_frame_l : forall m s node r cn cr k,
  get s node = Some cn -> get s r = Some cr -> node <> r ->
  ~ In node (c_kids cr) -> ~ In r (c_kids cr) -> NoDup (c_kids cr) ->
  (forall c, In c (c_kids cr) -> exists cc, get s c = Some cc) ->
  get_attr_chain s_href None (chain_of s node) = Some k ->
  let s' := run m s (replace_refs_prog s node (Some r)) in
  (exists d', get s' node = Some (mkC (c_parent cn) (c_kids cn ++ c_kids cr) d')) /\
  get s' r = Some cr /\
  (forall c cc, In c (c_kids cr) -> get s c = Some cc -> get s' c = Some (w_parent cc (Some node))) /\
  (forall i, i <> node -> ~ In i (c_kids cr) -> get s' i = get s i) /\
  s_next s' = s_next s.
Proof.
  intros m s node r cn cr k Hn Hr Hnr Hnk Hrk Hnd Hex Hk s'.
  destruct (replace_refs_run m s node r cr k Hr Hk Hnk) as [g Hg].
  destruct (Hg s) as [H1 H2]. fold s' in H1, H2. clear Hg.
  assert (Hnode : forall i, get s' i =
     if N.eqb node i
     then option_map (fun c => w_data c (g (c_data c)))
            (option_map (fun c => w_kids c (c_kids c ++ c_kids cr)) (get s node))
     else if mem i (c_kids cr) then option_map (fun c => w_parent c (Some node)) (get s i)
     else get s i).
  { intros i. rewrite H1, !(get_fold_append node (c_kids cr) s _ Hnk), N.eqb_refl.
    apply mem_false in Hnk. rewrite Hnk.
    destruct (N.eqb node i) eqn:E; [reflexivity|].
    destruct (mem i (c_kids cr)); reflexivity. }
  assert (Enr : N.eqb node r = false) by (now apply N.eqb_neq).
  repeat split.
  - rewrite Hnode, N.eqb_refl, Hn. cbn. eexists. reflexivity.
  - rewrite Hnode, Enr. apply mem_false in Hrk. now rewrite Hrk.
  - intros c cc Hc Hcc. rewrite Hnode.
    assert (E : N.eqb node c = false) by (apply N.eqb_neq; intros ->; contradiction).
    rewrite E. apply mem_In in Hc. now rewrite Hc, Hcc.
  - intros i Hi Hik. rewrite Hnode.
    assert (E : N.eqb node i = false) by (apply N.eqb_neq; congruence).
    rewrite E. apply mem_false in Hik. now rewrite Hik.
  - exact H2.
Qed.

(* the WF clause given up: the referenced node still lists children that point
   to the referring node (each is listed under two parents) *)
Lemma replace_references_shares_l : forall m s node r cn cr k (live : id -> Prop),
  get s node = Some cn -> get s r = Some cr -> node <> r ->
  ~ In node (c_kids cr) -> ~ In r (c_kids cr) -> NoDup (c_kids cr) ->
  (forall c, In c (c_kids cr) -> exists cc, get s c = Some cc) ->
  get_attr_chain s_href None (chain_of s node) = Some k ->
  c_kids cr <> [] -> live r ->
  let s' := run m s (replace_refs_prog s node (Some r)) in
  (forall c, In c (c_kids cr) -> In c (kids_of s' node) /\ In c (kids_of s' r)) /\
  ~ WF s' live.
Proof.
  intros m s node r cn cr k live Hn Hr Hnr Hnk Hrk Hnd Hex Hk Hne Hl s'.
  destruct (replace_references_frame_l m s node r cn cr k Hn Hr Hnr Hnk Hrk Hnd Hex Hk)
    as [[d' Fn] [Fr [Fc [Fo Fx]]]]. fold s' in Fn, Fr, Fc, Fo, Fx.
  split.
  - intros c Hc. unfold kids_of. rewrite Fn, Fr. cbn. split; [|assumption].
    apply in_or_app. now right.
  - intros HW. destruct (c_kids cr) as [|c ks] eqn:Ek; [now apply Hne|].
    assert (Hc : In c (c_kids cr)) by (rewrite Ek; now left).
    destruct (wf_child_points_back _ _ HW r cr c Hl Fr Hc) as [_ [c0 [Hc0 Hp0]]].
    rewrite <- Ek in *.
    destruct (Hex c Hc) as [cc Hcc].
    rewrite (Fc c cc Hc Hcc) in Hc0. inversion Hc0; subst c0. cbn in Hp0.
    inversion Hp0. contradiction.
Qed.

(* apart from that one stale child list, the heap is the heap of the MOVE
   (children detached from the referenced node first), which is an ordinary
   history: when it is inside the reference's domain the main theorem gives R,
   hence WF, for it *)
Lemma replace_references_is_move_but_one_list_l : forall m s node r cn cr k,
  get s node = Some cn -> get s r = Some cr -> node <> r ->
  ~ In node (c_kids cr) -> ~ In r (c_kids cr) ->
  get_attr_chain s_href None (chain_of s node) = Some k ->
  let sa := run m s (replace_refs_prog s node (Some r)) in
  let sm := run m s (replace_refs_move_prog s node (Some r)) in
  agree_except r sa sm /\ get sa r = Some cr /\ kids_of sm r = [].
Proof.
  intros m s node r cn cr k Hn Hr Hnr Hnk Hrk Hk sa sm.
  destruct (replace_refs_run m s node r cr k Hr Hk Hnk) as [g Hg].
  destruct (replace_refs_prog_shape s node r cr k Hr Hk) as [tail [Hp _]].
  set (s0 := fst (m_detach_children s r)).
  assert (Hsm : sm = run m s0 (replace_refs_prog s node (Some r))).
  { unfold sm, replace_refs_move_prog. rewrite Hp. reflexivity. }
  destruct (Hg s) as [Ha _]. destruct (Hg s0) as [Hm _]. fold sa in Ha. rewrite <- Hsm in Hm.
  clear Hg Hsm.
  assert (H0 : forall i, get s0 i =
     if mem i (c_kids cr) then option_map (fun c => w_parent c None) (get s i)
     else if N.eqb r i then Some (w_kids cr []) else get s i).
  { intros i. unfold s0, m_detach_children, kids_of. rewrite Hr. cbn [fst].
    rewrite get_fold_set_parent, get_upd_kids, Hr. cbn [option_map].
    destruct (mem i (c_kids cr)) eqn:Em; [|reflexivity].
    destruct (N.eqb r i) eqn:E; [|reflexivity].
    apply N.eqb_eq in E. subst i. apply mem_In in Em. contradiction. }
  assert (Enr : N.eqb node r = false) by (now apply N.eqb_neq).
  assert (Ern : N.eqb r node = false) by (apply N.eqb_neq; congruence).
  apply mem_false in Hnk as Mn. apply mem_false in Hrk as Mr.
  (* the two stores after the append loop *)
  assert (H1 : forall i, i <> r ->
     get (fold_left (fun s' x => m_append1 s' node x) (c_kids cr) s) i =
     get (fold_left (fun s' x => m_append1 s' node x) (c_kids cr) s0) i).
  { intros i Hi. rewrite !(get_fold_append node (c_kids cr) _ _ Hnk).
    assert (Eri : N.eqb r i = false) by (apply N.eqb_neq; congruence).
    rewrite !H0, Mn, Ern, Eri.
    destruct (mem i (c_kids cr)); [|reflexivity].
    destruct (get s i); reflexivity. }
  split; [|split].
  - intros i Hi. rewrite Ha, Hm. rewrite (H1 node Hnr).
    destruct (N.eqb node i); [reflexivity|]. now apply H1.
  - rewrite Ha, Enr, (get_fold_append node (c_kids cr) _ _ Hnk), Mr, Enr. exact Hr.
  - unfold kids_of. rewrite Hm, Enr, (get_fold_append node (c_kids cr) _ _ Hnk), Mr, Enr.
    rewrite H0, Mr, N.eqb_refl. reflexivity.
Qed.
