(* C19 -- property theorems (under construction: see C19/Proofs.v) *)
From SV Require Import Lib.Base C19.Model.

Theorem placeholder_true : True.
Proof. exact I. Qed.
Print Assumptions placeholder_true.
