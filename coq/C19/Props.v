(* C19 -- editing or cloning the XML tree affects exactly the nodes named.
   Property theorems only: each is closed by `exact` of a lemma proved in the
   proof files (Rel, ForestFacts, ForestFacts2, ChainFacts, Ops, Prune, Clone,
   CloneEq, Main) and followed by Print Assumptions.

   Model.v has the heap MODEL of suds.sax.element (ids = Element objects, parent
   pointers, children lists, own data) written as the Python is, and the
   REFERENCE: a forest of rose trees whose nodes carry their identity, on which
   every edit is applied structurally to the node with the identity given.
   R s rs (Rel.v): every node of the reference forest is the heap cell with
   that id -- same parent, same children in the same order, same data -- and no
   identity occurs twice. *)
From SV Require Import Lib.Base C19.Model C19.Rel C19.ForestFacts C19.ChainFacts C19.CloneEq C19.Main.

(* Edit histories of ANY length: whatever sequence of append, insert, remove,
   detach, replaceChild, detachChildren, prune, attribute set/unset/remove, setText,
   rename, setPrefix/addPrefix/clearPrefix, clone and lookups is run, the heap the
   code builds is the reference tree obtained by applying each edit to the very
   node given.  No hypothesis on sibling names: the theorem that needed
   `distinct_siblings` before the repair of detach/replaceChild/prune is now
   unguarded.  (ref_run = Some: every edit is in the reference's domain, which
   is described at Model.ref_step and never mentions element names.) *)
Theorem edit_refines_reference : forall quirk h s rs rs',
  R s rs -> ref_run rs h = Some rs' -> R (run quirk s h) rs'.
Proof. exact edit_refines_reference_l. Qed.
Print Assumptions edit_refines_reference.

(* in particular for everything built from nothing through the API *)
Theorem edit_refines_reference_from_empty : forall quirk h rs',
  ref_run empty_rstate h = Some rs' -> R (run quirk empty_store h) rs'.
Proof. intros quirk h rs'. exact (edit_refines_reference_l quirk h _ _ rs' R_empty). Qed.
Print Assumptions edit_refines_reference_from_empty.

(* one step: the state AND the value returned to the caller agree *)
Theorem edit_step_refines : forall quirk s rs o rs' r,
  R s rs -> ref_step rs o = Some (rs', r) ->
  R (fst (step quirk s o)) rs' /\ snd (step quirk s o) = r.
Proof. exact step_refines_l. Qed.
Print Assumptions edit_step_refines.

(* WF (parent and children links agree both ways, no node listed twice, every
   live node defined, acyclic) follows from R, hence holds after every history *)
Theorem wf_invariant : forall quirk h s rs rs',
  R s rs -> ref_run rs h = Some rs' ->
  WF (run quirk s h) (fun i => In i (ids_f (r_forest rs'))).
Proof.
  intros quirk h s rs rs' HR H. apply R_wf_l. exact (edit_refines_reference_l quirk h s rs rs' HR H).
Qed.
Print Assumptions wf_invariant.

(* edits of a node's own data write that node's cell only, and keep its links *)
Theorem data_edits_are_local : forall quirk s o x,
  data_target o = Some x ->
  (forall i, i <> x -> get (fst (step quirk s o)) i = get s i) /\
  (forall c, get s x = Some c ->
     exists d, get (fst (step quirk s o)) x = Some (mkC (c_parent c) (c_kids c) d)).
Proof. exact data_edit_local_l. Qed.
Print Assumptions data_edits_are_local.

(* detach writes the node given and its parent, never a sibling *)
Theorem detach_is_local : forall s x cx,
  get s x = Some cx ->
  forall i, i <> x -> c_parent cx <> Some i -> get (m_detach s x) i = get s i.
Proof. exact detach_local_l. Qed.
Print Assumptions detach_is_local.

(* A clone is an equal, independent tree: same prefixes, local names, resolved
   namespaces, attributes, text and children (for elements whose names are as
   the constructor splits them and whose prefix maps have one entry per prefix
   -- both always true of trees built through the API); it is made of new nodes
   only, the original and everything else is untouched, and the result is
   again related to the reference (so every later edit of either tree goes to
   the node given, by the theorems above). *)
Theorem clone_equal_independent : forall quirk s rs x tx,
  R s rs -> find_f (r_forest rs) x = Some tx ->
  exists t' n',
    ref_step rs (OClone x) = Some (mkR (F1 t' (r_forest rs)) n', RNodes [r_next rs]) /\
    snd (step quirk s (OClone x)) = RNodes [rid t'] /\
    R (fst (step quirk s (OClone x))) (mkR (F1 t' (r_forest rs)) n') /\
    (well_named_t tx = true -> nsp_ok_t tx = true ->
     sem_t [] t' = sem_t (rpchain (r_forest rs) x) tx) /\
    (forall i, In i (ids_t t') -> ~ In i (ids_f (r_forest rs))) /\
    (forall i, In i (ids_f (r_forest rs)) -> get (fst (step quirk s (OClone x))) i = get s i).
Proof. exact clone_equal_independent_l. Qed.
Print Assumptions clone_equal_independent.

(* the hypothesis on prefix maps is needed for arbitrary data (a map listing a
   prefix twice), though no history can produce such a map *)
Theorem clone_equal_needs_distinct_prefixes :
  ~ (forall t n pch t' n', well_named_t t = true ->
       clone_t n pch t = (t', n') -> sem_t [] t' = sem_t pch t).
Proof. exact clone_equal_needs_nsp_ok. Qed.
Print Assumptions clone_equal_needs_distinct_prefixes.

(* Lookups (getChild, getChildren, childAtPath, childrenAtPath, getAttribute,
   namespace) return on the heap exactly what the reference returns on the
   forest, and change nothing ... *)
Theorem lookups_exact : forall quirk s rs o rs' r,
  R s rs -> is_lookup o = true -> ref_step rs o = Some (rs', r) ->
  step quirk s o = (s, r) /\ rs' = rs.
Proof. exact lookups_refine. Qed.
Print Assumptions lookups_exact.

(* ... which for getChildren is, in document order, exactly the children that
   match the name and the namespace *)
Theorem getChildren_exact : forall quirk s rs p qn ns tp,
  R s rs -> find_f (r_forest rs) p = Some tp ->
  let key := lookup_key qn ns (rchain (r_forest rs) p) in
  snd (step quirk s (OGetChildren p (Some qn) ns)) =
  RNodes (map rid (filter (tree_matches (Some (fst key)) (snd key) (rchain (r_forest rs) p))
                          (flist (rkids tp)))).
Proof. exact getChildren_exact_l. Qed.
Print Assumptions getChildren_exact.

(* walking up the parent pointers yields the ancestors of the reference tree
   (what namespace and prefix resolution is computed from) *)
Theorem namespaces_agree : forall s rs x, R s rs -> In x (ids_f (r_forest rs)) ->
  chain_of s x = rchain (r_forest rs) x.
Proof. exact chain_refines. Qed.
Print Assumptions namespaces_agree.

(* plain() of a node of the heap is the serialisation of its reference tree *)
Theorem plain_agrees : forall s rs x, R s rs -> In x (ids_f (r_forest rs)) ->
  plain_of s x = ref_plain (r_forest rs) x.
Proof. exact plain_refines. Qed.
Print Assumptions plain_agrees.

(* Why identity matters: the removal by Element.__eq__ (the code before commit
   340f28c) detaches the FIRST of two same-named siblings when the second is
   given; the current model and the reference detach the second. *)
Theorem detach_by_equality_refuted :
  let s := run AQuirk empty_store two_a in
  kids_of (m_detach_by_equality s 2%N) 0%N = [2]%N /\
  kids_of (m_detach s 2%N) 0%N = [1]%N /\
  option_map (fun rs => kids_ids (r_forest rs) 0%N)
             (ref_run empty_rstate (two_a ++ [ODetach 2%N])) = Some [1]%N.
Proof. exact detach_by_equality_refuted_l. Qed.
Print Assumptions detach_by_equality_refuted.

(* Attributes are still removed through list.remove, i.e. by Attribute.__eq__,
   which compares self.prefix with rhs.name: on <r n:n="1" q:n="2"/>,
   unset("q:n") removes n:n (model in mode AQuirk, as the code is); with
   __eq__ comparing prefix with prefix (AEq) or removal of the very object (AId)
   q:n goes.  The reference makes no claim
   here (an earlier attribute has the same local name), which is the only
   attribute-related restriction of edit_refines_reference (it concerns
   prefixed names and remove(attribute) only: an unprefixed unset deletes by
   position). *)
Theorem unset_by_equality_refuted :
  attr_names (run AQuirk empty_store (two_attrs ++ [OUnset 0%N sqn])) 0%N = [sqn] /\
  attr_names (run AEq empty_store (two_attrs ++ [OUnset 0%N sqn])) 0%N = [snn] /\
  attr_names (run AId empty_store (two_attrs ++ [OUnset 0%N sqn])) 0%N = [snn] /\
  ref_run empty_rstate (two_attrs ++ [OUnset 0%N sqn]) = None.
Proof. exact unset_by_equality_refuted_l. Qed.
Print Assumptions unset_by_equality_refuted.

(* ------------------------------------------------------------------ *)
(* The three departures recorded as KNOWN findings: the model keeps them, the  *)
(* reference makes no claim there (ref_run = None), and the harness reports    *)
(* directed instances under their keys.                                        *)
(* ------------------------------------------------------------------ *)

(* C19:replaceChild-content-is-earlier-sibling -- <r><x/><a/><b/></r>,
   r.replaceChild(a, x): the code (and the model) give [b; x]; replacing a by x
   is [x; b], which is what the SAME edit gives once x is detached first *)
Theorem replaceChild_earlier_sibling_refuted :
  kids_of (run AEq empty_store (xab ++ [OReplace 0%N 2%N [1]%N])) 0%N = [3; 1]%N /\
  ref_run empty_rstate (xab ++ [OReplace 0%N 2%N [1]%N]) = None /\
  kids_of (run AEq empty_store (xab ++ [ODetach 1%N; OReplace 0%N 2%N [1]%N])) 0%N = [1; 3]%N /\
  option_map (fun rs => kids_ids (r_forest rs) 0%N)
             (ref_run empty_rstate (xab ++ [ODetach 1%N; OReplace 0%N 2%N [1]%N])) = Some [1; 3]%N.
Proof. exact replaceChild_earlier_sibling_refuted_l. Qed.
Print Assumptions replaceChild_earlier_sibling_refuted.

(* C19:append-does-not-detach -- <r><p/><q><c/></q></r>, p.append(c): c ends up listed
   under p AND under q, pointing to p (MultiRef.replace_references relies on it:
   see replace_references_shares below) *)
Theorem append_does_not_detach_refuted :
  let s := run AEq empty_store (pqc ++ [OAppend 1%N [3]%N]) in
  kids_of s 1%N = [3]%N /\ kids_of s 2%N = [3]%N /\
  option_map c_parent (get s 3%N) = Some (Some 1%N) /\
  ref_run empty_rstate (pqc ++ [OAppend 1%N [3]%N]) = None /\
  kids_of (run AEq empty_store (pqc ++ [ODetach 3%N; OAppend 1%N [3]%N])) 2%N = [].
Proof. exact append_does_not_detach_refuted_l. Qed.
Print Assumptions append_does_not_detach_refuted.

(* C19:clone-loses-inherited-attribute-prefix -- <r xmlns:q="u"><a q:x="1"/></r>,
   a.clone(): the original's attribute q:x is in namespace u, the clone's (a
   parentless tree) in none.  clone_equal_independent therefore speaks of the
   attributes as written (prefix, name, value), not of their namespaces. *)
Theorem clone_loses_inherited_attribute_prefix_refuted :
  let s := run AEq empty_store (rqa ++ [OClone 1%N]) in
  first_attr_ns s 1%N = Some (Some [117]%N) /\ first_attr_ns s 2%N = Some None /\
  option_map c_parent (get s 2%N) = Some None.
Proof. exact clone_loses_inherited_attribute_prefix_refuted_l. Qed.
Print Assumptions clone_loses_inherited_attribute_prefix_refuted.

(* non-vacuity: a history with repeated sibling names using every kind of edit
   is inside the reference's domain, so the hypotheses above are satisfiable *)
Definition demo_history : list op :=
  two_a ++
  [ONew sa None; ONew [98]%N None;                          (* 3 = a, 4 = b, parentless *)
   OSetText 2%N (Some [116]%N); OSet 2%N [107]%N [118]%N;
   ODetach 2%N; OInsert 0%N 2%N 0%Z; OAppend 1%N [3]%N;
   OReplace 0%N 1%N [4]%N; ORemove 0%N 4%N; OAppend 0%N [1]%N;
   OClone 0%N; OPrune 0%N; ODetachChildren 0%N;
   OGetChildren 0%N (Some sa) None; OUnset 2%N [107]%N; ORename 2%N [112; 58; 97]%N].

Example history_nonvacuous :
  exists rs', ref_run empty_rstate demo_history = Some rs' /\
              length (ids_f (r_forest rs')) = 9%nat.
Proof. vm_compute. eexists. split; reflexivity. Qed.

Example clone_nonvacuous :
  exists rs', ref_run empty_rstate (two_a ++ [OSetText 2%N (Some [116]%N)]) = Some rs' /\
  match find_f (r_forest rs') 0%N with
  | Some tx => well_named_t tx && nsp_ok_t tx
  | None => false
  end = true.
Proof. vm_compute. eexists. split; reflexivity. Qed.

(* ------------------------------------------------------------------ *)
(* the internal users of tree surgery (Users.v: each a short program    *)
(* over the operations above)                                           *)
(* ------------------------------------------------------------------ *)
From SV Require Import C19.Users C19.UsersFrames C19.UsersMultiref.

(* Any of these programs that stays inside the reference's domain -- Import.apply
   and import_schema always do on a live schema / definitions root and a
   parentless schema document -- refines the reference and keeps WF. *)
Theorem internal_programs_refine : forall m s rs c rs',
  R s rs -> ref_run rs (call_prog s c) = Some rs' ->
  R (run m s (call_prog s c)) rs' /\
  WF (run m s (call_prog s c)) (fun i => In i (ids_f (r_forest rs'))).
Proof. exact internal_program_refines_l. Qed.
Print Assumptions internal_programs_refine.

(* xsd.doctor.Import.apply: nothing at all when the schema is the namespace
   itself or already imports it; otherwise exactly one new xs:import node is
   written, in FRONT of the root's children, whose order and every other cell
   are untouched *)
Theorem import_apply_frame : forall m s root ns loc cr,
  get s root = Some cr -> (root < s_next s)%N ->
  let s' := run m s (import_prog s root ns loc) in
  if import_itself s root ns || import_exists s root ns then s' = s
  else
    get s' root = Some (w_kids cr (s_next s :: c_kids cr)) /\
    (exists d, get s' (s_next s) = Some (mkC (Some root) [] d) /\
               d_name d = s_import /\ d_prefix d = Some s_xs) /\
    (forall i, i <> root -> i <> s_next s -> get s' i = get s i) /\
    s_next s' = N.succ (s_next s).
Proof. exact import_apply_frame_l. Qed.
Print Assumptions import_apply_frame.

(* wsdl.Import.import_schema into the importer's own types element: the schema
   root becomes its LAST child and points to it; nothing else is written *)
Theorem import_schema_frame_own : forall m s defroot t schema ct cs,
  get s t = Some ct -> get s schema = Some cs -> t <> schema ->
  let s' := run m s (import_schema_prog s defroot (Some t) schema) in
  get s' t = Some (w_kids ct (c_kids ct ++ [schema])) /\
  get s' schema = Some (w_parent cs (Some t)) /\
  (forall i, i <> t -> i <> schema -> get s' i = get s i) /\
  s_next s' = s_next s.
Proof. exact import_schema_frame_own_l. Qed.
Print Assumptions import_schema_frame_own.

(* ... or into a new types element put in front of the definitions' children *)
Theorem import_schema_frame_new : forall m s defroot schema cd cs,
  get s defroot = Some cd -> get s schema = Some cs -> defroot <> schema ->
  (defroot < s_next s)%N -> (schema < s_next s)%N ->
  let n := s_next s in
  let s' := run m s (import_schema_prog s defroot None schema) in
  get s' defroot = Some (w_kids cd (n :: c_kids cd)) /\
  (exists d, get s' n = Some (mkC (Some defroot) [schema] d) /\ d_name d = s_types) /\
  get s' schema = Some (w_parent cs (Some n)) /\
  (forall i, i <> defroot -> i <> schema -> i <> n -> get s' i = get s i) /\
  s_next s' = N.succ n.
Proof. exact import_schema_frame_new_l. Qed.
Print Assumptions import_schema_frame_new.

(* MultiRef.replace_references(node) with the referenced node r: the referring
   node keeps its parent and gets r's children after its own (and new data); r's
   own cell is NOT written -- it still lists those children; each of them now
   points to the referring node; every other cell is untouched *)
Theorem replace_references_frame : forall m s node r cn cr k,
  get s node = Some cn -> get s r = Some cr -> node <> r ->
  ~ In node (c_kids cr) -> ~ In r (c_kids cr) -> NoDup (c_kids cr) ->
  (forall c, In c (c_kids cr) -> exists cc, get s c = Some cc) ->
  get_attr_chain s_href None (chain_of s node) = Some k ->
  let s' := run m s (replace_refs_prog s node (Some r)) in
  (exists d', get s' node = Some (mkC (c_parent cn) (c_kids cn ++ c_kids cr) d')) /\
  get s' r = Some cr /\
  (forall c cc, In c (c_kids cr) -> get s c = Some cc -> get s' c = Some (w_parent cc (Some node))) /\
  (forall i, i <> node -> ~ In i (c_kids cr) -> get s' i = get s i) /\
  s_next s' = s_next s.
Proof. exact replace_references_frame_l. Qed.
Print Assumptions replace_references_frame.

(* The well-formedness clause given up, precisely: every child of r is then listed
   under two parents (node and r) and points to node, so `wf_child_points_back`
   fails at r -- WF does not hold on any live set containing r ... *)
Theorem replace_references_shares : forall m s node r cn cr k (live : id -> Prop),
  get s node = Some cn -> get s r = Some cr -> node <> r ->
  ~ In node (c_kids cr) -> ~ In r (c_kids cr) -> NoDup (c_kids cr) ->
  (forall c, In c (c_kids cr) -> exists cc, get s c = Some cc) ->
  get_attr_chain s_href None (chain_of s node) = Some k ->
  c_kids cr <> [] -> live r ->
  let s' := run m s (replace_refs_prog s node (Some r)) in
  (forall c, In c (c_kids cr) -> In c (kids_of s' node) /\ In c (kids_of s' r)) /\
  ~ WF s' live.
Proof. exact replace_references_shares_l. Qed.
Print Assumptions replace_references_shares.

(* ... and that is ALL that is given up: except for the one stale child list of r,
   the heap is cell for cell the heap of the MOVE (r's children detached first,
   then the same program), an ordinary history to which edit_refines_reference
   and wf_invariant apply whenever it is inside the reference's domain. *)
Theorem replace_references_is_move_but_one_list : forall m s node r cn cr k,
  get s node = Some cn -> get s r = Some cr -> node <> r ->
  ~ In node (c_kids cr) -> ~ In r (c_kids cr) ->
  get_attr_chain s_href None (chain_of s node) = Some k ->
  let sa := run m s (replace_refs_prog s node (Some r)) in
  let sm := run m s (replace_refs_move_prog s node (Some r)) in
  agree_except r sa sm /\ get sa r = Some cr /\ kids_of sm r = [].
Proof. exact replace_references_is_move_but_one_list_l. Qed.
Print Assumptions replace_references_is_move_but_one_list.

(* Document.getChild / childAtPath / childrenAtPath: the root element is matched
   against the first step (its own prefixes resolving the step's prefix), the
   rest is the root's own lookup; they return what the reference returns *)
Theorem document_lookups_exact : forall s rs c r,
  R s rs -> ref_doc_result rs c = Some r -> call_result s c = r.
Proof. exact document_lookups_exact_l. Qed.
Print Assumptions document_lookups_exact.

(* non-vacuity: <Body><a href="#1"/><m id="1">t<v/><v/></m></Body> -- the
   hypotheses of the three replace_references theorems hold and the MOVE is
   inside the reference's domain *)
Definition demo_body : list op :=
  [ONew [66]%N None; ONew sa None; ONew [109]%N None; ONew [118]%N None; ONew [118]%N None;
   OAddAttr 1%N s_href [35; 49]%N; OAddAttr 2%N s_id [49]%N; OSetText 2%N (Some [116]%N);
   OAppend 2%N [3; 4]%N; OAppend 0%N [1; 2]%N].

Example replace_references_nonvacuous :
  let s := run AEq empty_store demo_body in
  get_attr_chain s_href None (chain_of s 1%N) = Some 0%nat /\
  kids_of s 2%N = [3; 4]%N /\
  kids_of (run AEq s (replace_refs_prog s 1%N (Some 2%N))) 1%N = [3; 4]%N /\
  kids_of (run AEq s (replace_refs_prog s 1%N (Some 2%N))) 2%N = [3; 4]%N /\
  (exists rs rs', ref_run empty_rstate demo_body = Some rs /\
                  ref_run rs (replace_refs_move_prog s 1%N (Some 2%N)) = Some rs').
Proof. vm_compute. repeat split. eexists. eexists. split; reflexivity. Qed.
