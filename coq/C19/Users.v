(* C19 -- the INTERNAL users of tree surgery, each as a short program over the
   heap operations of Model.v (definitions only; proofs in UsersProofs.v):

     suds.xsd.doctor.Import.apply          insert of an <xs:import/> in front
     suds.wsdl.Import.import_schema        a schema root appended under a types element
     suds.bindings.multiref.MultiRef.replace_references
                                           children ALIASED under the referring node,
                                           text / prefix declarations / attributes copied,
                                           href removed
     suds.sax.document.Document            root / append / getChild / childAtPath /
                                           childrenAtPath delegating to the root element

   A program is a list of Model.op computed from the heap the way the Python
   reads it; its meaning is Model.run.  *)
From SV Require Import Lib.Base C19.Model.

Definition s_href : str := [104;114;101;102]%N.
Definition s_id : str := [105;100]%N.
Definition s_import : str := [105;109;112;111;114;116]%N.
Definition s_namespace : str := [110;97;109;101;115;112;97;99;101]%N.
Definition s_schemaLocation : str := [115;99;104;101;109;97;76;111;99;97;116;105;111;110]%N.
Definition s_targetNamespace : str :=
  [116;97;114;103;101;116;78;97;109;101;115;112;97;99;101]%N.
Definition s_types : str := [116;121;112;101;115]%N.
Definition s_xs : str := [120;115]%N.
Definition s_xsd_uri : str :=
  [104;116;116;112;58;47;47;119;119;119;46;119;51;46;111;114;103;47;50;48;48;49;47;88;77;76;83;
   99;104;101;109;97]%N.
Definition s_wsdl_uri : str :=
  [104;116;116;112;58;47;47;115;99;104;101;109;97;115;46;120;109;108;115;111;97;112;46;111;114;
   103;47;119;115;100;108;47]%N.

(* Element.get(name): the value of the attribute getAttribute(name) finds *)
Definition attr_value (s : store) (x : id) (qn : str) : option str :=
  match chain_of s x with
  | [] => None
  | d :: _ => match get_attr_chain qn None (chain_of s x) with
              | Some k => option_map a_value (nth_error (d_attrs d) k)
              | None => None
              end
  end.

Definition name_of (s : store) (x : id) : str :=
  match get s x with Some c => d_name (c_data c) | None => [] end.

(* ------------------------------------------------------------------ *)
(* xsd.doctor.Import(ns, location).apply(root), default TnsFilter       *)
(* ------------------------------------------------------------------ *)
(* TnsFilter.match: not when the schema's own targetNamespace is ns *)
Definition import_itself (s : store) (root : id) (ns : str) : bool :=
  ostr_eqb (attr_value s root s_targetNamespace) (Some ns).
(* Import.exists: a child named import whose namespace attribute is ns *)
Definition import_exists (s : store) (root : id) (ns : str) : bool :=
  existsb (fun c => str_eqb (name_of s c) s_import &&
                    ostr_eqb (attr_value s c s_namespace) (Some ns)) (kids_of s root).

Definition import_prog (s : store) (root : id) (ns : str) (loc : option str) : list op :=
  if import_itself s root ns || import_exists s root ns then []
  else
    let n := s_next s in
    [ONew s_import (Some (NsPrefixed s_xs s_xsd_uri)); OSet n s_namespace ns] ++
    (match loc with Some l => [OSet n s_schemaLocation l] | None => [] end) ++
    [OInsert root n 0%Z].

(* ------------------------------------------------------------------ *)
(* wsdl.Import.import_schema(definitions, d): own = root of the last    *)
(* Types object of the importing document itself, if it has one         *)
(* ------------------------------------------------------------------ *)
Definition import_schema_prog (s : store) (defroot : id) (own : option id) (schema : id) : list op :=
  match own with
  | Some t => [OAppend t [schema]]
  | None => let n := s_next s in
            [ONew s_types (Some (NsDefault (Some s_wsdl_uri))); OInsert defroot n 0%Z;
             OAppend n [schema]]
  end.

(* ------------------------------------------------------------------ *)
(* MultiRef.replace_references(node), ref = self.catalog.get(href value)*)
(* ------------------------------------------------------------------ *)
Definition has_text (t : option str) : option str :=      (* ref.getText() *)
  match t with Some x => if nonempty x then Some x else None | None => None end.

Definition moved_attrs (l : list attr) : list attr :=      (* `if a.name != 'id'` *)
  filter (fun a => negb (str_eqb (a_name a) s_id)) l.

Definition replace_refs_prog (s : store) (node : id) (ref : option id) : list op :=
  match get_attr_chain s_href None (chain_of s node) with
  | None => []                                   (* no href attribute *)
  | Some k =>
    match ref with
    | None => []                                 (* not resolved: logged, nothing done *)
    | Some r =>
      match get s r with
      | None => []
      | Some cr =>
        let dr := c_data cr in
        [OAppend node (c_kids cr);               (* node.append(ref.children): NOT detached *)
         OSetText node (has_text (d_text dr))] ++
        map (fun pu : str * str => OAddPrefix node (fst pu) (snd pu)) (d_nsp dr) ++
        map (fun a => OAddAttr node (qname_of (a_prefix a) (a_name a)) (a_value a))
            (moved_attrs (d_attrs dr)) ++
        [ORemoveAttr node k]                     (* node.remove(href) *)
      end
    end
  end.

(* the same edit done as a MOVE (children detached from the referenced node
   first): inside the reference's domain, used to say what the aliasing costs *)
Definition replace_refs_move_prog (s : store) (node : id) (ref : option id) : list op :=
  match replace_refs_prog s node ref, ref with
  | [], _ => []
  | p, Some r => ODetachChildren r :: p
  | p, None => p
  end.

(* ------------------------------------------------------------------ *)
(* Document: __root is an optional element                              *)
(* ------------------------------------------------------------------ *)
Definition ch_sl : N := 47.
Fixpoint split_first (s : str) : str * option str :=      (* path.split('/', 1) *)
  match s with
  | [] => ([], None)
  | c :: s' => if N.eqb c ch_sl then ([], Some s')
               else let (a, b) := split_first s' in (c :: a, b)
  end.

(* Document.getChild(name) *)
Definition root_matches (ch : list ndata) (qn : str) : bool :=
  let '(n, ns) := lookup_key qn None ch in match_chain (Some n) ns ch.

Definition doc_get_child (s : store) (d : option id) (qn : str) : result :=
  match d with
  | None => RNodes []
  | Some r => if root_matches (chain_of s r) qn then RNodes [r] else RNodes []
  end.

Definition strip_slash (path : str) : option str :=       (* `if path[0] == '/'`: '' raises *)
  match path with
  | [] => None
  | c :: rest => Some (if N.eqb c ch_sl then rest else path)
  end.

Definition doc_child_at (s : store) (d : option id) (path : str) : result :=
  match d with
  | None => RNodes []
  | Some r =>
    match strip_slash path with
    | None => RErr
    | Some p =>
      let (first, more) := split_first p in
      if root_matches (chain_of s r) first then
        match more with
        | Some rest => RNodes (opt_list (m_child_at s r (split_slash rest) None))
        | None => RNodes [r]
        end
      else RNodes []
    end
  end.

Definition doc_children_at (s : store) (d : option id) (path : str) : result :=
  match d with
  | None => RNodes []
  | Some r =>
    match strip_slash path with
    | None => RErr
    | Some p =>
      let (first, more) := split_first p in
      if root_matches (chain_of s r) first then
        match more with
        | Some rest => m_children_at s r rest
        | None => RNodes [r]
        end
      else RNodes []
    end
  end.

(* ------------------------------------------------------------------ *)
(* calls, their programs and results                                   *)
(* ------------------------------------------------------------------ *)
Inductive ucall :=
| UImportApply (root : id) (ns : str) (loc : option str)
| UImportSchema (defroot : id) (own : option id) (schema : id)
| UReplaceRefs (node : id) (ref : option id)
| UDocGetChild (d : option id) (qn : str)
| UDocChildAt (d : option id) (path : str)
| UDocChildrenAt (d : option id) (path : str).

Definition call_prog (s : store) (c : ucall) : list op :=
  match c with
  | UImportApply root ns loc => import_prog s root ns loc
  | UImportSchema defroot own schema => import_schema_prog s defroot own schema
  | UReplaceRefs node ref => replace_refs_prog s node ref
  | _ => []
  end.

Definition call_result (s : store) (c : ucall) : result :=
  match c with
  | UDocGetChild d qn => doc_get_child s d qn
  | UDocChildAt d path => doc_child_at s d path
  | UDocChildrenAt d path => doc_children_at s d path
  | _ => RNone
  end.

(* the reference's answer to a Document lookup (None: no claim) *)
Definition ref_doc_result (rs : rstate) (c : ucall) : option result :=
  let f := r_forest rs in
  let via (r : id) (path : str) (o : str -> op) : option result :=
      if live f r then
        match strip_slash path with
        | None => Some RErr
        | Some p =>
          let (first, more) := split_first p in
          if root_matches (rchain f r) first then
            match more with
            | Some rest => option_map snd (ref_step rs (o rest))
            | None => Some (RNodes [r])
            end
          else Some (RNodes [])
        end
      else None in
  match c with
  | UDocGetChild None _ | UDocChildAt None _ | UDocChildrenAt None _ => Some (RNodes [])
  | UDocGetChild (Some r) qn =>
    if live f r then Some (if root_matches (rchain f r) qn then RNodes [r] else RNodes []) else None
  | UDocChildAt (Some r) path => via r path (OChildAtPath r)
  | UDocChildrenAt (Some r) path => via r path (OChildrenAtPath r)
  | _ => None
  end.

(* ------------------------------------------------------------------ *)
(* what replace_references must leave behind, stated on two pictures of *)
(* the heap (before / after): the frame of the edit                     *)
(* ------------------------------------------------------------------ *)
Definition merged_nsp (from to : list (str * str)) : list (str * str) :=
  fold_left (fun m pu => dict_set (fst pu) (snd pu) m) from to.

Definition replace_refs_frame_ok (before after : list (id * cell)) (count : N)
           (node ref : id) (k : nat) : bool :=
  match lookup before node, lookup before ref, lookup after node with
  | Some cn, Some cr, Some cn' =>
    let dn := c_data cn in
    let dr := c_data cr in
    let dn' := c_data cn' in
    (* the referring node: same parent, its children followed by the referenced
       node's children, the referenced node's text, its prefix declarations
       merged in, its attributes except id added, href gone, the rest kept *)
    opt_eqb N.eqb (c_parent cn') (c_parent cn) &&
    list_eqb N.eqb (c_kids cn') (c_kids cn ++ c_kids cr) &&
    ostr_eqb (d_prefix dn') (d_prefix dn) && str_eqb (d_name dn') (d_name dn) &&
    ostr_eqb (d_expns dn') (d_expns dn) &&
    ostr_eqb (d_text dn') (has_text (d_text dr)) &&
    list_eqb pair_eqb (d_nsp dn') (merged_nsp (d_nsp dr) (d_nsp dn)) &&
    list_eqb attr_eqb (d_attrs dn') (remove_nth k (d_attrs dn ++ moved_attrs (d_attrs dr))) &&
    (* the referenced node itself is untouched: it still lists its children *)
    match lookup after ref with Some cr' => cell_eqb cr' cr | None => false end &&
    (* its children now point to the referring node, nothing else of them changed *)
    forallb (fun c => match lookup before c, lookup after c with
                      | Some cc, Some cc' => cell_eqb cc' (w_parent cc (Some node))
                      | _, _ => false
                      end) (c_kids cr) &&
    (* every other node is untouched *)
    forallb (fun i => N.eqb i node || mem i (c_kids cr) ||
                      match lookup before i, lookup after i with
                      | Some c, Some c' => cell_eqb c' c
                      | _, _ => false
                      end) (nseq 0 (N.to_nat count))
  | _, _, _ => false
  end.

(* ------------------------------------------------------------------ *)
(* the predicates the harness evaluates                                *)
(* ------------------------------------------------------------------ *)
Record ucase := mkU {
  u_mode : amode;
  u_setup : list op;
  u_base : view;             (* the harness' picture after the setup *)
  u_call : ucall;
  u_obs : obs                (* result and picture after the call *)
}.

(* model = implementation after the call *)
Definition users_agrees (c : ucase) : bool :=
  let s := run (u_mode c) empty_store (u_setup c) in
  let s' := run (u_mode c) s (call_prog s (u_call c)) in
  result_eqb (call_result s (u_call c)) (o_res (u_obs c)) &&
  view_matches_store s' (view_add (u_base c) (u_obs c)) (u_obs c).

(* the implementation's own outputs meet the specification of the call:
   - Document lookups: the reference's answer;
   - Import.apply / import_schema: the reference tree after the program, when the
     program is inside the reference's domain;
   - replace_references: the frame above (needs: node and ref distinct, ref not
     its own child, href not shadowed by an earlier attribute of that local name) *)
Definition users_spec_ok (c : ucase) : bool :=
  match ref_run empty_rstate (u_setup c) with
  | None => true
  | Some rs =>
    let s := run (u_mode c) empty_store (u_setup c) in
    let v' := view_add (u_base c) (u_obs c) in
    match u_call c with
    | UDocGetChild _ _ | UDocChildAt _ _ | UDocChildrenAt _ _ =>
      match ref_doc_result rs (u_call c) with
      | Some r => result_eqb r (o_res (u_obs c)) && view_meets_reference rs v' (u_obs c)
      | None => true
      end
    | UReplaceRefs node (Some ref) =>
      match get_attr_chain s_href None (rchain (r_forest rs) node),
            find_f (r_forest rs) node, find_f (r_forest rs) ref with
      | Some k, Some tn, Some tr =>
        if negb (N.eqb node ref) && negb (mem ref (roots (rkids tr))) &&
           negb (mem node (roots (rkids tr))) && unshadowed k (d_attrs (rdata tn))
        then replace_refs_frame_ok (v_cells (u_base c)) (v_cells v') (o_count (u_obs c)) node ref k
        else true
      | None, Some _, _ =>                       (* no href: nothing may change *)
        view_meets_reference rs v' (u_obs c)
      | _, _, _ => true
      end
    | UReplaceRefs node None => view_meets_reference rs v' (u_obs c)
    | call =>
      match ref_run rs (call_prog s call) with
      | Some rs' => view_meets_reference rs' v' (u_obs c)
      | None => true
      end
    end
  end.

(* the call's program is inside the reference's domain (statistics) *)
Definition users_inside (c : ucase) : bool :=
  match ref_run empty_rstate (u_setup c) with
  | None => false
  | Some rs =>
    let s := run (u_mode c) empty_store (u_setup c) in
    match u_call c with
    | UReplaceRefs node ref =>
      match ref_run rs (replace_refs_move_prog s node ref) with Some _ => true | None => false end
    | UDocGetChild _ _ | UDocChildAt _ _ | UDocChildrenAt _ _ =>
      match ref_doc_result rs (u_call c) with Some _ => true | None => false end
    | call => match ref_run rs (call_prog s call) with Some _ => true | None => false end
    end
  end.
