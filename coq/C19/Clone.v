(* C19 -- Element.clone on the heap refines clone_t on the reference *)
From SV Require Import Lib.Base C19.Model C19.Rel C19.ForestFacts C19.ChainFacts.
From Coq Require Import Lia ZifyBool ZifyNat ZifyN.

(* ------------------------------------------------------------------ *)
(* the identities of a clone: an interval, counted                     *)
(* ------------------------------------------------------------------ *)
Lemma clone_count :
  (forall t n acc t' n', clone_t n acc t = (t', n') ->
     (forall i, In i (ids_t t') -> (n <= i < n')%N) /\ rid t' = n /\ NoDup (ids_t t') /\
     (N.of_nat (length (ids_t t')) + n = n')%N) /\
  (forall f n acc f' n', clone_f n acc f = (f', n') ->
     (forall i, In i (ids_f f') -> (n <= i < n')%N) /\ NoDup (ids_f f') /\
     (N.of_nat (length (ids_f f')) + n = n')%N).
Proof.
  apply tree_forest_ind.
  - intros i d k IH n acc t' n' H. cbn in H.
    destruct (clone_f (N.succ n) (d :: acc) k) as [k' n1] eqn:E.
    inversion H; subst; clear H.
    destruct (IH _ _ _ _ E) as [H1 [H2 H3]].
    cbn [ids_t rid length]. split; [|split; [reflexivity|split]].
    + intros j [Hj|Hj]; [lia|apply H1 in Hj; lia].
    + constructor; [|assumption]. intros Hn. apply H1 in Hn. lia.
    + lia.
  - intros n acc f' n' H. cbn in H. inversion H; subst. cbn.
    split; [intros i []|split; [constructor|lia]].
  - intros t IHt f IHf n acc f' n' H. cbn in H.
    destruct (clone_t n acc t) as [t1 n1] eqn:E1.
    destruct (clone_f n1 acc f) as [f2 n2] eqn:E2.
    inversion H; subst; clear H.
    destruct (IHt _ _ _ _ E1) as [A1 [A2 [A3 A4]]].
    destruct (IHf _ _ _ _ E2) as [B1 [B2 B3]].
    cbn [ids_f]. split; [|split].
    + intros j Hj. apply in_app_or in Hj. destruct Hj as [Hj|Hj]; [apply A1 in Hj|apply B1 in Hj]; lia.
    + apply nodup_app. split; [assumption|split; [assumption|]].
      intros x Hx1 Hx2. apply A1 in Hx1. apply B1 in Hx2. lia.
    + rewrite app_length. lia.
Qed.
Definition clone_t_count := proj1 clone_count.
Definition clone_f_count := proj2 clone_count.

(* the clone is made of the fresh identities n .. n'-1 *)
Lemma clone_fresh : forall t n pch t' n', clone_t n pch t = (t', n') ->
  (forall i, In i (ids_t t') -> (n <= i < n')%N) /\ rid t' = n /\ NoDup (ids_t t').
Proof.
  intros t n pch t' n' H. destruct (clone_t_count _ _ _ _ _ H) as [H1 [H2 [H3 _]]]. auto.
Qed.

(* ------------------------------------------------------------------ *)
(* subtrees of the forest: children are found, chains extend           *)
(* ------------------------------------------------------------------ *)
Lemma cl_chain_none :
  (forall t acc x, ~ In x (ids_t t) -> chain_t acc t x = None) /\
  (forall f acc x, ~ In x (ids_f f) -> chain_f acc f x = None).
Proof.
  apply tree_forest_ind; cbn; intros.
  - destruct (N.eqb i x) eqn:E.
    + apply N.eqb_eq in E. subst. exfalso. apply H0. now left.
    + apply H. intros H1. apply H0. now right.
  - reflexivity.
  - rewrite H, H0; [reflexivity| |]; intros H2; apply H1; apply in_or_app; auto.
Qed.
Definition cl_chain_t_none := proj1 cl_chain_none.

Lemma cl_chain_t_some : forall t acc x, In x (ids_t t) -> chain_t acc t x <> None.
Proof.
  apply (tree_mut (fun t => forall acc x, In x (ids_t t) -> chain_t acc t x <> None)
                  (fun f => forall acc x, In x (ids_f f) -> chain_f acc f x <> None)); cbn; intros.
  - destruct (N.eqb i x) eqn:E; [discriminate|].
    destruct H0 as [H0|H0]; [subst; rewrite N.eqb_refl in E; discriminate|]. now apply H.
  - contradiction.
  - apply in_app_or in H1. destruct H1 as [H1|H1].
    + specialize (H acc x H1). destruct (chain_t acc t x); [discriminate|congruence].
    + destruct (chain_t acc t x); [discriminate|now apply H0].
Qed.

Lemma cl_find_trans :
  (forall t x r y u, NoDup (ids_t t) -> find_t t x = Some r -> find_t r y = Some u ->
     find_t t y = Some u) /\
  (forall f x r y u, NoDup (ids_f f) -> find_f f x = Some r -> find_t r y = Some u ->
     find_f f y = Some u).
Proof.
  apply tree_forest_ind.
  - intros i d k IH x r y u Hnd Hx Hy. cbn in Hx. destruct (N.eqb i x) eqn:E.
    + inversion Hx; subst. assumption.
    + cbn in Hnd. inversion Hnd; subst.
      pose proof (IH _ _ _ _ H2 Hx Hy) as Hk. cbn.
      destruct (N.eqb i y) eqn:E2; [|assumption].
      apply N.eqb_eq in E2. subst. apply ForestFacts.find_f_in in Hk. contradiction.
  - intros; discriminate.
  - intros t IHt f IHf x r y u Hnd Hx Hy. cbn in Hnd. apply nodup_app in Hnd.
    destruct Hnd as [N1 [N2 N3]]. cbn in Hx. cbn. destruct (find_t t x) eqn:E.
    + inversion Hx; subst. rewrite (IHt _ _ _ _ N1 E Hy). reflexivity.
    + pose proof (IHf _ _ _ _ N2 Hx Hy) as Hf.
      rewrite (proj1 ForestFacts.find_none_m t y); [assumption|].
      intros Hin. apply ForestFacts.find_f_in in Hf. eapply N3; eassumption.
Qed.

Lemma cl_find_root_kid : forall k tc, NoDup (ids_f k) -> In tc (flist k) ->
  find_f k (rid tc) = Some tc.
Proof.
  induction k as [|t k IH]; cbn; intros tc Hnd Hin; [contradiction|].
  apply nodup_app in Hnd. destruct Hnd as [N1 [N2 N3]]. destruct Hin as [Hin|Hin].
  - subst. destruct tc; cbn. rewrite N.eqb_refl. reflexivity.
  - rewrite (proj1 ForestFacts.find_none_m t (rid tc)); [now apply IH|].
    intros H. pose proof (IH _ N2 Hin) as Hf. apply ForestFacts.find_f_in in Hf. eapply N3; eassumption.
Qed.

Lemma cl_find_kid : forall f x d k tc, NoDup (ids_f f) -> find_f f x = Some (T x d k) ->
  In tc (flist k) -> find_f f (rid tc) = Some tc.
Proof.
  intros f x d k tc Hnd Hf Hin. eapply (proj2 cl_find_trans); [eassumption|eassumption|].
  pose proof (ForestFacts.find_nodup _ _ _ Hnd Hf) as Hn. cbn in Hn. inversion Hn; subst.
  pose proof (cl_find_root_kid _ _ H2 Hin) as Hk. cbn.
  destruct (N.eqb x (rid tc)) eqn:E; [|assumption].
  apply N.eqb_eq in E. subst. apply ForestFacts.find_f_in in Hk. contradiction.
Qed.

Lemma cl_chain_find :
  (forall t acc x r, NoDup (ids_t t) -> find_t t x = Some r ->
     exists pa, forall y, In y (ids_t r) -> chain_t acc t y = chain_t pa r y) /\
  (forall f acc x r, NoDup (ids_f f) -> find_f f x = Some r ->
     exists pa, forall y, In y (ids_t r) -> chain_f acc f y = chain_t pa r y).
Proof.
  apply tree_forest_ind.
  - intros i d k IH acc x r Hnd Hx. cbn in Hx. destruct (N.eqb i x) eqn:E.
    + inversion Hx; subst. exists acc. reflexivity.
    + cbn in Hnd. inversion Hnd; subst.
      destruct (IH (d :: acc) _ _ H2 Hx) as [pa Hpa]. exists pa. intros y Hy.
      rewrite <- (Hpa y Hy). cbn. destruct (N.eqb i y) eqn:E2; [|reflexivity].
      apply N.eqb_eq in E2. subst. exfalso. apply H1.
      eapply (proj2 ForestFacts.find_ids_incl_m); eassumption.
  - intros; discriminate.
  - intros t IHt f IHf acc x r Hnd Hx. cbn in Hnd. apply nodup_app in Hnd.
    destruct Hnd as [N1 [N2 N3]]. cbn in Hx. destruct (find_t t x) eqn:E.
    + inversion Hx; subst. destruct (IHt acc _ _ N1 E) as [pa Hpa]. exists pa. intros y Hy.
      rewrite <- (Hpa y Hy). cbn.
      assert (Hin : In y (ids_t t)) by (eapply (proj1 ForestFacts.find_ids_incl_m); eassumption).
      pose proof (cl_chain_t_some _ acc _ Hin) as Hc. destruct (chain_t acc t y); [reflexivity|congruence].
    + destruct (IHf acc _ _ N2 Hx) as [pa Hpa]. exists pa. intros y Hy.
      rewrite <- (Hpa y Hy). cbn. rewrite cl_chain_t_none; [reflexivity|].
      intros Hin. eapply N3; [eassumption|]. eapply (proj2 ForestFacts.find_ids_incl_m); eassumption.
Qed.

Lemma cl_chain_root_kid : forall k acc tc, NoDup (ids_f k) -> In tc (flist k) ->
  chain_f acc k (rid tc) = Some (rdata tc :: acc).
Proof.
  induction k as [|t k IH]; cbn; intros acc tc Hnd Hin; [contradiction|].
  apply nodup_app in Hnd. destruct Hnd as [N1 [N2 N3]]. destruct Hin as [Hin|Hin].
  - subst. destruct tc; cbn. rewrite N.eqb_refl. reflexivity.
  - rewrite cl_chain_t_none; [now apply IH|].
    intros H. eapply N3; [eassumption|]. apply roots_incl.
    clear - Hin. induction k as [|t' k IHk]; cbn in *; [contradiction|].
    destruct Hin as [Hin|Hin]; [subst; now left|right; now apply IHk].
Qed.

Lemma cl_sub_chain : forall f x d k, NoDup (ids_f f) -> find_f f x = Some (T x d k) ->
  rchain f x = d :: rpchain f x /\
  forall tc, In tc (flist k) -> rpchain f (rid tc) = rchain f x.
Proof.
  intros f x d k Hnd Hf.
  destruct (proj2 cl_chain_find f [] _ _ Hnd Hf) as [pa Hpa].
  pose proof (ForestFacts.find_nodup _ _ _ Hnd Hf) as Hn. cbn in Hn. inversion Hn; subst.
  assert (Hx : rchain f x = d :: pa).
  { unfold rchain. rewrite (Hpa x); [|cbn; now left]. cbn. rewrite N.eqb_refl. reflexivity. }
  split.
  - unfold rpchain. rewrite Hx. reflexivity.
  - intros tc Hin. rewrite Hx. unfold rpchain, rchain.
    pose proof (cl_chain_root_kid _ (d :: pa) _ H2 Hin) as Hc.
    assert (Hi : In (rid tc) (ids_f k)).
    { eapply ForestFacts.find_f_in. apply (cl_find_root_kid _ _ H2 Hin). }
    rewrite (Hpa (rid tc)); [|cbn; now right]. cbn.
    destruct (N.eqb x (rid tc)) eqn:E.
    + apply N.eqb_eq in E. subst. contradiction.
    + rewrite Hc. reflexivity.
Qed.

(* ------------------------------------------------------------------ *)
(* stores                                                              *)
(* ------------------------------------------------------------------ *)
Definition cl_alloc (s : store) (c : cell) : store :=
  mkS ((s_next s, c) :: s_cells s) (N.succ (s_next s)).

Lemma cl_get_alloc s c j : get (cl_alloc s c) j = if N.eqb (s_next s) j then Some c else get s j.
Proof. reflexivity. Qed.

Lemma cl_get_append1 s p x j : p <> x ->
  get (m_append1 s p x) j =
  if N.eqb x j then option_map (fun c => w_parent c (Some p)) (get s x)
  else if N.eqb p j then option_map (fun c => w_kids c (c_kids c ++ [x])) (get s p)
  else get s j.
Proof.
  intros Hpx. unfold m_append1. rewrite get_set_parent. rewrite !get_upd_kids.
  destruct (N.eqb p x) eqn:E; [apply N.eqb_eq in E; contradiction|].
  reflexivity.
Qed.

Lemma cl_next_append1 s p x : s_next (m_append1 s p x) = s_next s.
Proof. unfold m_append1. rewrite next_set_parent, next_upd_kids. reflexivity. Qed.

(* the step of the loop over the children of the node being cloned *)
Definition cl_cstep (f : nat) (r : id) : store -> id -> store :=
  fun s' c => match m_clone f s' c with
              | (s'', Some c') => m_append1 s'' r c'
              | (s'', None) => s''
              end.

Lemma cl_m_clone_S f s x cx : get s x = Some cx ->
  m_clone (S f) s x =
  (fold_left (cl_cstep f (s_next s)) (c_kids cx)
     (cl_alloc s (mkC None [] (clone_data (chain_of s x) (c_data cx)))), Some (s_next s)).
Proof. intros H. cbn [m_clone]. rewrite H. reflexivity. Qed.

Lemma cl_cell_t_reparent t par par' i :
  cell_t par' t i = if N.eqb (rid t) i then option_map (fun c => w_parent c par') (cell_t par t i)
                    else cell_t par t i.
Proof. destruct t as [j d k]. cbn. destruct (N.eqb j i); reflexivity. Qed.

(* the original forest stays represented while new cells are written *)
Definition cl_Inv (f0 : forest) (s : store) : Prop := R s (mkR f0 (s_next s)).

Lemma cl_Inv_nodup f0 s : cl_Inv f0 s -> NoDup (ids_f f0).
Proof. intros [H _]. exact H. Qed.
Lemma cl_Inv_get f0 s i : cl_Inv f0 s -> In i (ids_f f0) -> get s i = cell_f None f0 i.
Proof. intros [_ [H _]]. apply H. Qed.
Lemma cl_Inv_lt f0 s i : cl_Inv f0 s -> In i (ids_f f0) -> (i < s_next s)%N.
Proof. intros [_ [_ [H _]]]. apply H. Qed.

Lemma cl_Inv_mono f0 s s' : cl_Inv f0 s -> (forall i, In i (ids_f f0) -> get s' i = get s i) ->
  (s_next s <= s_next s')%N -> cl_Inv f0 s'.
Proof.
  intros [H1 [H2 [H3 [_ H5]]]] Hg Hn. cbn in *. unfold cl_Inv, R; cbn.
  split; [assumption|split; [|split; [|split; [reflexivity|lia]]]].
  - intros i Hi. rewrite Hg; auto.
  - intros i Hi. specialize (H3 i Hi). lia.
Qed.

(* ------------------------------------------------------------------ *)
(* the simulation, for a subtree of the original forest f0             *)
(* ------------------------------------------------------------------ *)
Section Sim.
Variable f0 : forest.

Definition cl_P (t : tree) : Prop :=
  forall fuel s2 t' n',
    cl_Inv f0 s2 -> find_f f0 (rid t) = Some t -> (length (ids_t t) <= fuel)%nat ->
    clone_t (s_next s2) (rpchain f0 (rid t)) t = (t', n') ->
    exists s3, m_clone fuel s2 (rid t) = (s3, Some (s_next s2)) /\ s_next s3 = n' /\
      (forall i, In i (ids_t t') -> get s3 i = cell_t None t' i) /\
      (forall i, (i < s_next s2)%N -> get s3 i = get s2 i).

Definition cl_Q (k : forest) : Prop :=
  forall fuel s2 r cr acc k' n',
    cl_Inv f0 s2 ->
    (forall tc, In tc (flist k) -> find_f f0 (rid tc) = Some tc) ->
    (forall tc, In tc (flist k) -> rpchain f0 (rid tc) = acc) ->
    (length (ids_f k) <= fuel)%nat ->
    get s2 r = Some cr -> (r < s_next s2)%N -> ~ In r (ids_f f0) ->
    clone_f (s_next s2) acc k = (k', n') ->
    exists s3, fold_left (cl_cstep fuel r) (roots k) s2 = s3 /\ s_next s3 = n' /\
      get s3 r = Some (w_kids cr (c_kids cr ++ roots k')) /\
      (forall i, In i (ids_f k') -> get s3 i = cell_f (Some r) k' i) /\
      (forall i, (i < s_next s2)%N -> i <> r -> get s3 i = get s2 i).

Lemma cl_Q_nil : cl_Q F0.
Proof.
  intros fuel s2 r cr acc k' n' HI Hfind Hacc Hlen Hr Hlt Hnr Hc. cbn in Hc. inversion Hc; subst.
  exists s2. cbn. split; [reflexivity|split; [reflexivity|split; [|split]]].
  - rewrite Hr. destruct cr; unfold w_kids; cbn. rewrite app_nil_r. reflexivity.
  - intros i [].
  - intros; reflexivity.
Qed.

Lemma cl_Q_cons t k : cl_P t -> cl_Q k -> cl_Q (F1 t k).
Proof.
  intros HP HQ fuel s2 r cr acc k' n' HI Hfind Hacc Hlen Hr Hlt Hnr Hc.
  cbn in Hc.
  destruct (clone_t (s_next s2) acc t) as [t1 n1] eqn:E1.
  destruct (clone_f n1 acc k) as [k2 n2] eqn:E2.
  inversion Hc; subst k' n'; clear Hc.
  cbn [ids_f] in Hlen. rewrite app_length in Hlen.
  assert (Ht : In t (flist (F1 t k))) by (cbn; now left).
  pose proof (Hacc _ Ht) as Hacc1.
  destruct (clone_t_count _ _ _ _ _ E1) as [A1 [A2 [A3 A4]]].
  destruct (clone_f_count _ _ _ _ _ E2) as [B1 [B2 B3]].
  rewrite <- Hacc1 in E1.
  destruct (HP fuel s2 t1 n1 HI (Hfind _ Ht) ltac:(lia) E1) as [sa [Hm [Hna [Hca Hfa]]]].
  set (sb := m_append1 sa r (s_next s2)).
  assert (Hrc : r <> s_next s2) by lia.
  assert (Hgb : forall j, get sb j =
            if N.eqb (s_next s2) j
            then option_map (fun c => w_parent c (Some r)) (get sa (s_next s2))
            else if N.eqb r j then Some (w_kids cr (c_kids cr ++ [s_next s2])) else get sa j).
  { intros j. unfold sb. rewrite (cl_get_append1 _ _ _ _ Hrc). rewrite (Hfa r Hlt), Hr. reflexivity. }
  assert (Hnb : s_next sb = n1). { unfold sb. rewrite cl_next_append1. exact Hna. }
  assert (HIb : cl_Inv f0 sb).
  { apply (cl_Inv_mono f0 s2); [assumption| |rewrite Hnb; lia].
    intros i Hi. rewrite Hgb. pose proof (cl_Inv_lt _ _ _ HI Hi) as Hil.
    destruct (N.eqb (s_next s2) i) eqn:Ea; [apply N.eqb_eq in Ea; lia|].
    destruct (N.eqb r i) eqn:Eb; [apply N.eqb_eq in Eb; subst; contradiction|].
    apply Hfa. assumption. }
  assert (Hgr : get sb r = Some (w_kids cr (c_kids cr ++ [s_next s2]))).
  { rewrite Hgb. destruct (N.eqb (s_next s2) r) eqn:Ea; [apply N.eqb_eq in Ea; lia|].
    rewrite N.eqb_refl. reflexivity. }
  rewrite <- Hnb in E2.
  destruct (HQ fuel sb r _ acc k2 n2 HIb (fun tc H => Hfind tc (or_intror H))
              (fun tc H => Hacc tc (or_intror H)) ltac:(lia) Hgr ltac:(lia) Hnr E2)
    as [s3 [Hs3 [Hn3 [Hr3 [Hc3 Hf3]]]]].
  assert (Hstep : cl_cstep fuel r s2 (rid t) = sb) by (unfold cl_cstep; rewrite Hm; reflexivity).
  exists s3. split; [|split; [assumption|split; [|split]]].
  - cbn [roots fold_left]. rewrite Hstep. exact Hs3.
  - rewrite Hr3. cbn [roots]. rewrite A2. unfold w_kids; cbn. rewrite <- app_assoc. reflexivity.
  - intros i Hi. cbn [ids_f] in Hi. cbn [cell_f]. apply in_app_or in Hi. destruct Hi as [Hi|Hi].
    + transitivity (cell_t (Some r) t1 i).
      2:{ destruct (cell_t_some t1 (Some r) i Hi) as [c Hc]. rewrite Hc. reflexivity. }
      pose proof (A1 i Hi) as Hrange.
      rewrite Hf3; [|lia|lia].
      rewrite Hgb. rewrite (cl_cell_t_reparent t1 None (Some r) i). rewrite A2.
      destruct (N.eqb (s_next s2) i) eqn:Ea.
      * apply N.eqb_eq in Ea. subst i. rewrite (Hca _ Hi). reflexivity.
      * destruct (N.eqb r i) eqn:Eb; [apply N.eqb_eq in Eb; lia|]. apply Hca; assumption.
    + rewrite cell_t_none; [|intros Hx; apply A1 in Hx; apply B1 in Hi; lia].
      apply Hc3. assumption.
  - intros i Hi Hir. rewrite Hf3; [|lia|assumption]. rewrite Hgb.
    destruct (N.eqb (s_next s2) i) eqn:Ea; [apply N.eqb_eq in Ea; lia|].
    destruct (N.eqb r i) eqn:Eb; [apply N.eqb_eq in Eb; congruence|].
    apply Hfa. assumption.
Qed.

Lemma cl_P_node j d k : cl_Q k -> cl_P (T j d k).
Proof.
  intros HQ fuel s2 t' n' HI Hfind Hlen Hc. cbn [rid] in *.
  destruct fuel as [|fuel]; [cbn in Hlen; lia|].
  pose proof (cl_Inv_nodup _ _ HI) as Hnd.
  pose proof (ForestFacts.find_f_in _ _ _ Hfind) as Hj.
  destruct (ForestFacts.find_cell _ None _ _ Hnd Hfind) as [px Hpx]. cbn [rkids rdata] in Hpx.
  assert (Hg : get s2 j = Some (mkC px (roots k) d)) by (rewrite (cl_Inv_get _ _ _ HI Hj); exact Hpx).
  destruct (cl_sub_chain _ _ _ _ Hnd Hfind) as [Hch Hkids].
  assert (Hco : chain_of s2 j = rchain f0 j)
    by (apply (chain_refines s2 (mkR f0 (s_next s2)) j HI Hj)).
  rewrite (cl_m_clone_S _ _ _ _ Hg). cbn [c_kids c_data]. rewrite Hco.
  cbn [clone_t] in Hc. rewrite <- Hch in Hc.
  destruct (clone_f (N.succ (s_next s2)) (rchain f0 j) k) as [k' n1] eqn:E.
  inversion Hc; subst t' n'; clear Hc.
  destruct (clone_f_count _ _ _ _ _ E) as [B1 [B2 B3]].
  set (d' := clone_data (rchain f0 j) d).
  set (s1 := cl_alloc s2 (mkC None [] d')).
  assert (Hg1 : forall i, get s1 i = if N.eqb (s_next s2) i then Some (mkC None [] d') else get s2 i)
    by (intros; apply cl_get_alloc).
  assert (Hn1 : s_next s1 = N.succ (s_next s2)) by reflexivity.
  assert (HI1 : cl_Inv f0 s1).
  { apply (cl_Inv_mono f0 s2); [assumption| |rewrite Hn1; lia]. intros i Hi. rewrite Hg1.
    pose proof (cl_Inv_lt _ _ _ HI Hi).
    destruct (N.eqb (s_next s2) i) eqn:Ea; [apply N.eqb_eq in Ea; lia|reflexivity]. }
  assert (Hr1 : get s1 (s_next s2) = Some (mkC None [] d'))
    by (rewrite Hg1, N.eqb_refl; reflexivity).
  assert (Hnr : ~ In (s_next s2) (ids_f f0))
    by (intros Hi; pose proof (cl_Inv_lt _ _ _ HI Hi); lia).
  rewrite <- Hn1 in E.
  cbn [ids_t length] in Hlen.
  destruct (HQ fuel s1 (s_next s2) _ (rchain f0 j) k' n1 HI1
              (fun tc H => cl_find_kid _ _ _ _ _ Hnd Hfind H) Hkids ltac:(lia) Hr1 ltac:(lia) Hnr E)
    as [s3 [Hs3 [Hn3 [Hr3 [Hc3 Hf3]]]]].
  exists s3. split; [|split; [assumption|split]].
  - rewrite Hs3. reflexivity.
  - intros i Hi. cbn [ids_t] in Hi. cbn [cell_t]. destruct Hi as [Hi|Hi].
    + subst i. rewrite N.eqb_refl. rewrite Hr3. reflexivity.
    + pose proof (B1 i Hi) as Hrange.
      destruct (N.eqb (s_next s2) i) eqn:Ea; [apply N.eqb_eq in Ea; lia|]. apply Hc3; assumption.
  - intros i Hi. rewrite Hf3; [|lia|lia]. rewrite Hg1.
    destruct (N.eqb (s_next s2) i) eqn:Ea; [apply N.eqb_eq in Ea; lia|reflexivity].
Qed.

Lemma cl_sim_all : (forall t, cl_P t) /\ (forall k, cl_Q k).
Proof.
  apply tree_forest_ind.
  - intros i d k HQ. now apply cl_P_node.
  - apply cl_Q_nil.
  - intros t HP k HQ. now apply cl_Q_cons.
Qed.
End Sim.

Lemma clone_refines : forall s rs x tx t' n', R s rs -> find_f (r_forest rs) x = Some tx ->
  clone_t (r_next rs) (rpchain (r_forest rs) x) tx = (t', n') ->
  exists s', m_clone (fuel_of s) s x = (s', Some (r_next rs)) /\
             R s' (mkR (F1 t' (r_forest rs)) n').
Proof.
  intros s rs x tx t' n' HR Hf Hc. destruct rs as [f0 b]. cbn [r_forest r_next] in *.
  assert (Hb : s_next s = b) by (destruct HR as [_ [_ [_ [H _]]]]; exact H).
  subst b.
  pose proof (ForestFacts.find_rid _ _ _ Hf) as Hrid. subst x.
  assert (Hnd : NoDup (ids_f f0)) by (destruct HR as [H _]; exact H).
  assert (Hlen : (length (ids_t tx) <= fuel_of s)%nat).
  { pose proof (NoDup_incl_length (ForestFacts.find_nodup _ _ _ Hnd Hf)
                                  (ForestFacts.find_ids_incl _ _ _ Hf)) as Hl.
    destruct HR as [_ [_ [_ [_ H5]]]]. cbn in H5. unfold fuel_of. lia. }
  destruct (proj1 (cl_sim_all f0) tx (fuel_of s) s t' n' HR Hf Hlen Hc)
    as [s' [Hm [Hn [Hcells Hframe]]]].
  exists s'. split; [exact Hm|].
  destruct (clone_t_count _ _ _ _ _ Hc) as [A1 [A2 [A3 A4]]].
  destruct HR as [H1 [H2 [H3 [_ H5]]]]. cbn [r_forest r_next] in *.
  unfold R. cbn [r_forest r_next ids_f].
  split; [|split; [|split; [|split]]].
  - apply nodup_app. split; [assumption|split; [assumption|]].
    intros i Ha Hb. apply A1 in Ha. apply H3 in Hb. lia.
  - intros i Hi. cbn [cell_f]. apply in_app_or in Hi. destruct Hi as [Hi|Hi].
    + rewrite (Hcells i Hi). destruct (cell_t_some t' None i Hi) as [c Hc']. rewrite Hc'. reflexivity.
    + rewrite cell_t_none; [|intros Ha; apply A1 in Ha; apply H3 in Hi; lia].
      rewrite Hframe; [apply H2; assumption|apply H3; assumption].
  - intros i Hi. apply in_app_or in Hi.
    destruct Hi as [Hi|Hi]; [apply A1 in Hi; lia|apply H3 in Hi; lia].
  - assumption.
  - rewrite app_length. lia.
Qed.
