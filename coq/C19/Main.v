(* C19 -- the refinement theorem for whole histories, the well-formedness
   invariant, clones, and the refutation witnesses. *)
From SV Require Import Lib.Base C19.Model C19.Rel C19.ForestFacts C19.ForestFacts2 C19.ChainFacts
  C19.Ops C19.Prune C19.Clone C19.CloneEq.
From Coq Require Import Permutation Lia.

(* ------------------------------------------------------------------ *)
(* helpers                                                             *)
(* ------------------------------------------------------------------ *)
Lemma R_transfer s s' rs :
  (forall i, get s' i = get s i) -> s_next s' = s_next s -> R s rs -> R s' rs.
Proof.
  intros Hg Hn [H1 [H2 [H3 [H4 H5]]]]. repeat split; try assumption.
  - intros i Hi. rewrite Hg. now apply H2.
  - congruence.
Qed.

Lemma upd_data_same s x g :
  (forall c, get s x = Some c -> g (c_data c) = c_data c) ->
  forall i, get (upd_data s x g) i = get s i.
Proof.
  intros H i. rewrite get_upd_data. destruct (N.eqb x i) eqn:E; [|reflexivity].
  apply N.eqb_eq in E. subst. destruct (get s i) as [c|] eqn:Ec; [|reflexivity].
  cbn. rewrite (H c eq_refl). now destruct c.
Qed.

Lemma fold_place_none p xs :
  fold_left (fun (acc : option forest) x =>
               match acc with
               | Some f0 => ref_place f0 p x (length (kids_ids f0 p))
               | None => None
               end) xs None = None.
Proof. induction xs; cbn; auto. Qed.

Lemma fold_replace_none p content : forall i,
  fst (fold_left (fun (st : option forest * nat) x =>
                    match fst st with
                    | Some f0 => (match ref_detach f0 x with
                                  | Some f1 => ref_place f1 p x (snd st)
                                  | None => None
                                  end, S (snd st))
                    | None => (None, S (snd st))
                    end) content (None, i)) = None.
Proof. induction content; cbn; auto. Qed.

(* list.remove by Attribute.__eq__ removes the attribute itself when no earlier
   attribute has its local name -- whichever way __eq__ compares prefixes *)
Lemma remove_first_at_unshadowed q x : forall l k pos,
  nth_error l k = Some x ->
  (forall e, In e (firstn k l) -> str_eqb (a_name e) (a_name x) = false) ->
  remove_first_at (fun p e => Nat.eqb p (pos + k) || attr_eq q e x) pos l = remove_nth k l.
Proof.
  induction l as [|a l IH]; intros k pos Hn Hsh; [destruct k; discriminate|].
  destruct k as [|k]; cbn in *.
  - rewrite Nat.add_0_r, Nat.eqb_refl. reflexivity.
  - assert (Ha : attr_eq q a x = false).
    { unfold attr_eq. rewrite (Hsh a (or_introl eq_refl)). destruct q; [apply andb_false_r|apply andb_false_r|reflexivity]. }
    rewrite Ha, orb_false_r.
    replace (Nat.eqb pos (pos + S k)) with false by (symmetry; apply Nat.eqb_neq; lia).
    f_equal. replace (pos + S k)%nat with (S pos + k)%nat by lia.
    apply IH; [assumption|]. intros e He. apply Hsh. now right.
Qed.

Lemma attrs_remove_unshadowed q k l :
  unshadowed k l = true -> attrs_remove q k l = remove_attr_at k l.
Proof.
  unfold unshadowed, attrs_remove, remove_attr_at.
  destruct (nth_error l k) as [x|] eqn:E; [|discriminate]. intros H.
  apply negb_true_iff in H.
  change (fun pos e => Nat.eqb pos k || attr_eq q e x)
    with (fun pos e => Nat.eqb pos (0 + k) || attr_eq q e x).
  apply remove_first_at_unshadowed; [assumption|].
  intros e He. destruct (str_eqb (a_name e) (a_name x)) eqn:E2; [|reflexivity].
  exfalso. assert (existsb (fun e0 => str_eqb (a_name e0) (a_name x)) (firstn k l) = true).
  { apply existsb_exists. now exists e. }
  congruence.
Qed.

Lemma ret_some (n : N) (fo : option forest) (r : result) (rs' : rstate) (r' : result) :
  match fo with Some f'' => Some (mkR f'' n, r) | None => None end = Some (rs', r') ->
  exists f', fo = Some f' /\ rs' = mkR f' n /\ r' = r.
Proof. destruct fo; [|discriminate]. intros H. inversion H; subst. eauto. Qed.

(* the data of a live node, as the heap has it *)
Lemma R_data s rs x t c :
  R s rs -> find_f (r_forest rs) x = Some t -> get s x = Some c -> c_data c = rdata t.
Proof.
  intros HR Hf Hg.
  destruct (find_cell _ None _ _ (R_nodup _ _ HR) Hf) as [px Hc].
  rewrite (R_get _ _ _ HR (find_in _ _ _ Hf)), Hc in Hg. inversion Hg; subst. reflexivity.
Qed.

(* remove(child) on the child's own parent is detach *)
Lemma remove_child_is_detach s rs p c k :
  R s rs -> In p (ids_f (r_forest rs)) -> index_of c (kids_ids (r_forest rs) p) = Some k ->
  m_remove s p c = (m_detach s c, RNodes [c]).
Proof.
  intros HR Hp Hk. pose proof (R_nodup _ _ HR) as Hnd.
  destruct (find_some _ _ Hp) as [tp Hf].
  destruct (find_cell _ None _ _ Hnd Hf) as [px Hcp].
  unfold kids_ids in Hk. rewrite Hf in Hk. apply index_of_Some_In in Hk.
  assert (Hin : In c (c_kids (mkC px (roots (rkids tp)) (rdata tp)))) by exact Hk.
  destruct (cell_child_points_back _ _ _ _ Hnd Hcp Hin) as [cc [Hcc Hpar]].
  unfold m_remove. rewrite (R_get _ _ _ HR (cell_f_in _ _ _ _ Hcc)), Hcc, Hpar.
  cbn. now rewrite N.eqb_refl.
Qed.

(* ------------------------------------------------------------------ *)
(* one step                                                            *)
(* ------------------------------------------------------------------ *)
Lemma step_refines_l q s rs o rs' r :
  R s rs -> ref_step rs o = Some (rs', r) ->
  R (fst (step q s o)) rs' /\ snd (step q s o) = r.
Proof.
  intros HR H.
  pose proof (R_next _ _ HR) as Hn.
  destruct o;
    try (match goal with
         | |- R (fst (step _ _ ?o)) _ /\ _ =>
           destruct (lookups_refine q s rs o rs' r HR eq_refl H) as [H1 H2]
         end; rewrite H1; subst; cbn; split; [assumption|reflexivity]);
    cbn [step fst snd]; cbn [ref_step] in H.
  - (* new *)
    inversion H; subst rs' r. split; [now apply new_refines|now rewrite Hn].
  - (* append *)
    apply ret_some in H. destruct H as [f' [H [-> ->]]]. split; [|reflexivity].
    destruct (live (r_forest rs) p); [|rewrite fold_place_none in H; discriminate].
    now apply append_refines.
  - (* insert *)
    apply ret_some in H. destruct H as [f' [H [-> ->]]]. split; [|reflexivity].
    now apply insert_refines.
  - (* remove *)
    destruct (live (r_forest rs) p); [|discriminate]. unfold parent_of in H. unfold m_remove.
    destruct (cell_f None (r_forest rs) x) as [cx|] eqn:Hcx; cbn in H; [|discriminate].
    rewrite (R_get _ _ _ HR (cell_f_in _ _ _ _ Hcx)), Hcx.
    destruct (c_parent cx) as [q0|]; cbn.
    + destruct (N.eqb q0 p).
      * apply ret_some in H. destruct H as [f' [H [-> ->]]]. split; [|reflexivity].
        now apply detach_refines.
      * inversion H; subst. split; [assumption|reflexivity].
    + inversion H; subst. split; [assumption|reflexivity].
  - (* detach *)
    apply ret_some in H. destruct H as [f' [H [-> ->]]]. split; [|reflexivity].
    now apply detach_refines.
  - (* replaceChild *)
    destruct (index_of c (kids_ids (r_forest rs) p)) as [k|] eqn:Hk.
    2:{ destruct (live (r_forest rs) p) eqn:Hl; [|discriminate].
        destruct (live (r_forest rs) c); [|discriminate]. inversion H; subst.
        apply mem_In in Hl. unfold m_replace. rewrite (kids_refines _ _ _ HR Hl), Hk.
        cbn. split; [assumption|reflexivity]. }
    destruct (all_distinct (c :: content) &&
              forallb (fun x => negb (mem x (kids_ids (r_forest rs) p))) content); [|discriminate].
    apply ret_some in H. destruct H as [f' [H [-> ->]]].
    assert (Hp : In p (ids_f (r_forest rs))).
    { unfold kids_ids in Hk. destruct (find_f (r_forest rs) p) eqn:E; [|discriminate].
      eapply find_in; eassumption. }
    unfold m_replace. rewrite (kids_refines _ _ _ HR Hp), Hk.
    rewrite (remove_child_is_detach _ _ _ _ _ HR Hp Hk). cbn [fst snd]. split; [|reflexivity].
    destruct (ref_detach (r_forest rs) c) as [f1|] eqn:E1;
      [|rewrite fold_replace_none in H; discriminate].
    pose proof (detach_refines _ _ _ _ HR E1) as HR1.
    exact (replace_loop_refines p content _ (mkR f1 (r_next rs)) k (Some f1) f' HR1 eq_refl H).
  - (* detachChildren *)
    destruct (find_f (r_forest rs) p) as [tp|] eqn:Hf; [|discriminate].
    inversion H; subst. now apply detach_children_refines.
  - (* prune *)
    destruct (find_f (r_forest rs) x) as [tx|] eqn:Hf; [|discriminate]. inversion H; subst.
    split; [|reflexivity]. now apply prune_refines.
  - (* append(Attribute) *)
    apply ret_some in H. destruct H as [f' [H [-> ->]]]. split; [|reflexivity].
    unfold ref_data in H. destruct (find_f (r_forest rs) x) eqn:Hf; [|discriminate].
    inversion H; subst. eapply data_refines; eauto.
  - (* set *)
    apply ret_some in H. destruct H as [f' [H [-> ->]]]. split; [|reflexivity].
    unfold ref_data in H. destruct (find_f (r_forest rs) x) eqn:Hf; [|discriminate].
    inversion H; subst. eapply data_refines; eauto.
    intros c _. now rewrite (chain_refines _ _ _ HR (find_in _ _ _ Hf)).
  - (* unset *)
    destruct (find_f (r_forest rs) x) as [tx|] eqn:Hf; [|discriminate].
    pose proof (find_in _ _ _ Hf) as Hx.
    destruct (set_target qn (rchain (r_forest rs) x) (rdata tx)) as [k|] eqn:Hk.
    + destruct (negb (is_prefixed qn) || unshadowed k (d_attrs (rdata tx))) eqn:Hu; [|discriminate].
      apply ret_some in H. destruct H as [f' [H [-> ->]]]. split; [|reflexivity].
      unfold ref_data in H. rewrite Hf in H. inversion H; subst.
      eapply data_refines; eauto.
      intros c Hc. unfold d_unset.
      rewrite (chain_refines _ _ _ HR Hx), (R_data _ _ _ _ _ HR Hf Hc), Hk.
      destruct (is_prefixed qn); cbn in Hu; [now rewrite attrs_remove_unshadowed|reflexivity].
    + inversion H; subst. split; [|reflexivity].
      apply (R_transfer s); [|apply next_upd_data|assumption].
      apply upd_data_same. intros c Hc. unfold d_unset.
      now rewrite (chain_refines _ _ _ HR Hx), (R_data _ _ _ _ _ HR Hf Hc), Hk.
  - (* remove(Attribute) *)
    destruct (find_f (r_forest rs) x) as [tx|] eqn:Hf; [|discriminate].
    destruct (unshadowed k (d_attrs (rdata tx))) eqn:Hu; [|discriminate].
    apply ret_some in H. destruct H as [f' [H [-> ->]]]. split; [|reflexivity].
    unfold ref_data in H. rewrite Hf in H. inversion H; subst.
    eapply data_refines; eauto.
    intros c Hc. rewrite (R_data _ _ _ _ _ HR Hf Hc). now rewrite attrs_remove_unshadowed.
  - (* setText *)
    apply ret_some in H. destruct H as [f' [H [-> ->]]]. split; [|reflexivity].
    unfold ref_data in H. destruct (find_f (r_forest rs) x) eqn:Hf; [|discriminate].
    inversion H; subst. eapply data_refines; eauto.
  - (* rename *)
    apply ret_some in H. destruct H as [f' [H [-> ->]]]. split; [|reflexivity].
    unfold ref_data in H. destruct (find_f (r_forest rs) x) eqn:Hf; [|discriminate].
    inversion H; subst. eapply data_refines; eauto.
  - (* setPrefix *)
    apply ret_some in H. destruct H as [f' [H [-> ->]]]. split; [|reflexivity].
    unfold ref_data in H. destruct (find_f (r_forest rs) x) eqn:Hf; [|discriminate].
    inversion H; subst. eapply data_refines; eauto.
  - (* addPrefix *)
    apply ret_some in H. destruct H as [f' [H [-> ->]]]. split; [|reflexivity].
    unfold ref_data in H. destruct (find_f (r_forest rs) x) eqn:Hf; [|discriminate].
    inversion H; subst. eapply data_refines; eauto.
  - (* clearPrefix *)
    apply ret_some in H. destruct H as [f' [H [-> ->]]]. split; [|reflexivity].
    unfold ref_data in H. destruct (find_f (r_forest rs) x) eqn:Hf; [|discriminate].
    inversion H; subst. eapply data_refines; eauto.
  - (* clone *)
    destruct (find_f (r_forest rs) x) as [tx|] eqn:Hf; [|discriminate].
    destruct (clone_t (r_next rs) (rpchain (r_forest rs) x) tx) as [t' n'] eqn:Hc.
    inversion H; subst.
    destruct (clone_refines _ _ _ _ _ _ HR Hf Hc) as [s' [Hm HR']].
    rewrite Hm. cbn. split; [assumption|reflexivity].
  - (* p[idx] = x *)
    destruct (live (r_forest rs) p) eqn:Hl; [|discriminate]. apply mem_In in Hl.
    rewrite (kids_refines _ _ _ HR Hl).
    destruct (idx <? Z.of_nat (length (kids_ids (r_forest rs) p)))%Z.
    + apply ret_some in H. destruct H as [f' [H [-> ->]]]. cbn. split; [|reflexivity].
      now apply insert_refines.
    + inversion H; subst. cbn. split; [assumption|reflexivity].
Qed.

(* ------------------------------------------------------------------ *)
(* histories of any length                                             *)
(* ------------------------------------------------------------------ *)
Lemma R_empty : R empty_store empty_rstate.
Proof. repeat split; cbn; try constructor; intros i []. Qed.

Lemma edit_refines_reference_l : forall q h s rs rs',
  R s rs -> ref_run rs h = Some rs' -> R (run q s h) rs'.
Proof.
  intros q h. unfold run. induction h as [|o h IH]; cbn; intros s rs rs' HR H.
  - inversion H; subst. assumption.
  - destruct (ref_step rs o) as [[rs1 r]|] eqn:E; [|discriminate].
    destruct (step_refines_l q _ _ _ _ _ HR E) as [HR1 _].
    exact (IH _ _ _ HR1 H).
Qed.

(* ------------------------------------------------------------------ *)
(* well-formedness is implied by the relation, hence invariant         *)
(* ------------------------------------------------------------------ *)
Lemma R_wf_l s rs : R s rs -> WF s (fun i => In i (ids_f (r_forest rs))).
Proof.
  intros HR. pose proof (R_nodup _ _ HR) as Hnd.
  constructor.
  - intros x c p Hx Hg Hp. rewrite (R_get _ _ _ HR Hx) in Hg.
    destruct (cell_parent_lists_child _ _ _ _ Hnd Hg Hp) as [cp [Hcp Hin]].
    pose proof (cell_f_in _ _ _ _ Hcp) as Hpl. split; [assumption|].
    exists cp. now rewrite (R_get _ _ _ HR Hpl).
  - intros p cp x Hp Hg Hin. rewrite (R_get _ _ _ HR Hp) in Hg.
    destruct (cell_child_points_back _ _ _ _ Hnd Hg Hin) as [c [Hc Hpar]].
    pose proof (cell_f_in _ _ _ _ Hc) as Hxl. split; [assumption|].
    exists c. now rewrite (R_get _ _ _ HR Hxl).
  - intros p cp Hp Hg. rewrite (R_get _ _ _ HR Hp) in Hg.
    exact (cell_kids_nodup _ _ _ _ Hnd Hg).
  - intros x Hx. rewrite (R_get _ _ _ HR Hx). now apply cell_f_some.
  - destruct (depth_rank _ Hnd) as [rank Hr]. exists rank.
    intros x c p Hx Hg Hp. rewrite (R_get _ _ _ HR Hx) in Hg. exact (Hr _ _ _ Hg Hp).
Qed.

(* ------------------------------------------------------------------ *)
(* clone                                                               *)
(* ------------------------------------------------------------------ *)
Lemma clone_equal_independent_l q s rs x tx :
  R s rs -> find_f (r_forest rs) x = Some tx ->
  exists t' n',
    ref_step rs (OClone x) = Some (mkR (F1 t' (r_forest rs)) n', RNodes [r_next rs]) /\
    snd (step q s (OClone x)) = RNodes [rid t'] /\
    R (fst (step q s (OClone x))) (mkR (F1 t' (r_forest rs)) n') /\
    (* equal *)
    (well_named_t tx = true -> nsp_ok_t tx = true ->
     sem_t [] t' = sem_t (rpchain (r_forest rs) x) tx) /\
    (* made of new nodes only *)
    (forall i, In i (ids_t t') -> ~ In i (ids_f (r_forest rs))) /\
    (* and the original is untouched *)
    (forall i, In i (ids_f (r_forest rs)) -> get (fst (step q s (OClone x))) i = get s i).
Proof.
  intros HR Hf.
  destruct (clone_t (r_next rs) (rpchain (r_forest rs) x) tx) as [t' n'] eqn:Hc.
  exists t', n'.
  assert (Hstep : ref_step rs (OClone x) = Some (mkR (F1 t' (r_forest rs)) n', RNodes [r_next rs])).
  { cbn. now rewrite Hf, Hc. }
  destruct (step_refines_l q _ _ _ _ _ HR Hstep) as [HR' Hres].
  destruct (clone_fresh _ _ _ _ _ Hc) as [Hfr [Hrid _]].
  assert (Hnew : forall i, In i (ids_t t') -> ~ In i (ids_f (r_forest rs))).
  { intros i Hi Hin. apply Hfr in Hi. destruct HR as [_ [_ [H3 _]]]. apply H3 in Hin. lia. }
  split; [exact Hstep|]. split; [now rewrite Hres, Hrid|]. split; [exact HR'|].
  split; [intros Hw Hk; eapply clone_equal'; eassumption|]. split; [exact Hnew|].
  - intros i Hi.
    assert (Hi' : In i (ids_f (F1 t' (r_forest rs)))) by (cbn; apply in_or_app; now right).
    rewrite (R_get _ _ _ HR' Hi'), (R_get _ _ _ HR Hi). cbn.
    rewrite cell_t_none; [reflexivity|]. intros H. exact (Hnew _ H Hi).
Qed.

(* ------------------------------------------------------------------ *)
(* witnesses                                                           *)
(* ------------------------------------------------------------------ *)
Definition sa : str := [97]%N.
Definition sr : str := [114]%N.

(* <r><a/><a/></r>: ids r=0, first a=1, second a=2 *)
Definition two_a : list op :=
  [ONew sr None; ONew sa None; ONew sa None; OAppend 0%N [1; 2]%N].

(* the removal by equality (the code before the repair) takes the FIRST a when the
   second is detached; the identity-based model and the reference take the second *)
Lemma detach_by_equality_refuted_l :
  let s := run AQuirk empty_store two_a in
  kids_of (m_detach_by_equality s 2%N) 0%N = [2]%N /\
  kids_of (m_detach s 2%N) 0%N = [1]%N /\
  option_map (fun rs => kids_ids (r_forest rs) 0%N)
             (ref_run empty_rstate (two_a ++ [ODetach 2%N])) = Some [1]%N.
Proof. vm_compute. repeat split. Qed.

(* <r n:n="1" q:n="2"/>: unset("q:n") with Attribute.__eq__ comparing prefix with
   name removes n:n; the reference (and the model if __eq__ compared prefix
   with prefix) removes q:n *)
Definition sn : str := [110]%N.
Definition snn : str := [110; 58; 110]%N.
Definition sqn : str := [113; 58; 110]%N.
Definition two_attrs : list op :=
  [ONew sr None; OAddPrefix 0%N sn [117; 49]%N; OAddPrefix 0%N [113]%N [117; 50]%N;
   OAddAttr 0%N snn [49]%N; OAddAttr 0%N sqn [50]%N].

Definition attr_names (s : store) (x : id) : list str :=
  match get s x with
  | Some c => map (fun a => qname_of (a_prefix a) (a_name a)) (d_attrs (c_data c))
  | None => []
  end.

Lemma unset_by_equality_refuted_l :
  attr_names (run AQuirk empty_store (two_attrs ++ [OUnset 0%N sqn])) 0%N = [sqn] /\
  attr_names (run AEq empty_store (two_attrs ++ [OUnset 0%N sqn])) 0%N = [snn] /\
  attr_names (run AId empty_store (two_attrs ++ [OUnset 0%N sqn])) 0%N = [snn] /\
  ref_run empty_rstate (two_attrs ++ [OUnset 0%N sqn]) = None.
Proof. vm_compute. repeat split. Qed.

(* ------------------------------------------------------------------ *)
(* lookups: the document-order filter                                  *)
(* ------------------------------------------------------------------ *)
Lemma getChildren_exact_l q s rs p qn ns tp :
  R s rs -> find_f (r_forest rs) p = Some tp ->
  let key := lookup_key qn ns (rchain (r_forest rs) p) in
  snd (step q s (OGetChildren p (Some qn) ns)) =
  RNodes (map rid (filter (tree_matches (Some (fst key)) (snd key) (rchain (r_forest rs) p))
                          (flist (rkids tp)))).
Proof.
  intros HR Hf key.
  assert (Hl : live (r_forest rs) p = true) by (apply mem_In; eapply find_in; eassumption).
  assert (Hs : ref_step rs (OGetChildren p (Some qn) ns) =
               Some (rs, RNodes (ref_children (r_forest rs) p (Some (fst key)) (snd key)))).
  { cbn. rewrite Hl. unfold ref_key. subst key.
    destruct (lookup_key qn ns (rchain (r_forest rs) p)). reflexivity. }
  destruct (lookups_refine q s rs (OGetChildren p (Some qn) ns) _ _ HR eq_refl Hs) as [H1 _].
  rewrite H1. cbn. unfold ref_children. now rewrite Hf.
Qed.

(* ------------------------------------------------------------------ *)
(* locality on the heap itself                                         *)
(* ------------------------------------------------------------------ *)
Definition data_target (o : op) : option id :=
  match o with
  | OAddAttr x _ _ | OSet x _ _ | OUnset x _ | ORemoveAttr x _ | OSetText x _ | ORename x _
  | OSetPrefix x _ _ | OAddPrefix x _ _ | OClearPrefix x _ => Some x
  | _ => None
  end.

(* set/unset attribute, set text, rename, re-prefix write the cell of the node
   given and no other cell; its links are kept *)
Lemma data_edit_local_l q s o x :
  data_target o = Some x ->
  (forall i, i <> x -> get (fst (step q s o)) i = get s i) /\
  (forall c, get s x = Some c ->
     exists d, get (fst (step q s o)) x = Some (mkC (c_parent c) (c_kids c) d)).
Proof.
  intros H.
  destruct o; cbn in H; try discriminate; inversion H; subst; cbn [step fst]; split;
    try (intros i Hi; rewrite get_upd_data;
         destruct (N.eqb x i) eqn:E; [apply N.eqb_eq in E; congruence|reflexivity]);
    intros c Hc; rewrite get_upd_data, N.eqb_refl, Hc; cbn; eexists; reflexivity.
Qed.

(* detach writes the node given and its parent, nothing else *)
Lemma detach_local_l s x cx :
  get s x = Some cx ->
  forall i, i <> x -> c_parent cx <> Some i -> get (m_detach s x) i = get s i.
Proof.
  intros Hx i Hi Hp. unfold m_detach. rewrite Hx.
  destruct (c_parent cx) as [p|]; [|reflexivity].
  rewrite get_set_parent.
  destruct (N.eqb x i) eqn:E; [apply N.eqb_eq in E; congruence|].
  destruct (get s p) as [cp|]; [|reflexivity].
  destruct (index_of x (c_kids cp)); [|reflexivity].
  rewrite get_set. destruct (N.eqb p i) eqn:E2; [|reflexivity].
  apply N.eqb_eq in E2. subst. congruence.
Qed.

(* ------------------------------------------------------------------ *)
(* witnesses for the three known findings kept in the model            *)
(* ------------------------------------------------------------------ *)
Definition sx : str := [120]%N.
Definition sb : str := [98]%N.

(* A. <r><x/><a/><b/></r> (r=0 x=1 a=2 b=3), r.replaceChild(a, x): the position of a
   is computed BEFORE the content node x, an earlier sibling, is detached, so x
   lands one place late: [b; x].  Replacing a by x is [x; b] -- what the same
   edit gives when x is detached first; the reference makes no claim. *)
Definition xab : list op :=
  [ONew sr None; ONew sx None; ONew sa None; ONew sb None; OAppend 0%N [1; 2; 3]%N].
Lemma replaceChild_earlier_sibling_refuted_l :
  kids_of (run AEq empty_store (xab ++ [OReplace 0%N 2%N [1]%N])) 0%N = [3; 1]%N /\
  ref_run empty_rstate (xab ++ [OReplace 0%N 2%N [1]%N]) = None /\
  kids_of (run AEq empty_store (xab ++ [ODetach 1%N; OReplace 0%N 2%N [1]%N])) 0%N = [1; 3]%N /\
  option_map (fun rs => kids_ids (r_forest rs) 0%N)
             (ref_run empty_rstate (xab ++ [ODetach 1%N; OReplace 0%N 2%N [1]%N])) = Some [1; 3]%N.
Proof. vm_compute. repeat split. Qed.

(* F. <r><p/><q><c/></q></r> (r=0 p=1 q=2 c=3), p.append(c): c is NOT detached from q:
   it is listed under p and under q and points to p; the reference makes no
   claim; a move (detach first) leaves q without it *)
Definition pqc : list op :=
  [ONew sr None; ONew [112]%N None; ONew [113]%N None; ONew [99]%N None;
   OAppend 2%N [3]%N; OAppend 0%N [1; 2]%N].
Lemma append_does_not_detach_refuted_l :
  let s := run AEq empty_store (pqc ++ [OAppend 1%N [3]%N]) in
  kids_of s 1%N = [3]%N /\ kids_of s 2%N = [3]%N /\
  option_map c_parent (get s 3%N) = Some (Some 1%N) /\
  ref_run empty_rstate (pqc ++ [OAppend 1%N [3]%N]) = None /\
  kids_of (run AEq empty_store (pqc ++ [ODetach 3%N; OAppend 1%N [3]%N])) 2%N = [].
Proof. vm_compute. repeat split. Qed.

(* H. <r xmlns:q="u"><a q:x="1"/></r> (r=0 a=1), a.clone() = 2: the attribute q:x of the
   original is in namespace u; in the clone, a tree of its own, the prefix q is
   bound nowhere *)
Definition rqa : list op :=
  [ONew sr None; OAddPrefix 0%N [113]%N [117]%N; ONew sa None; OAppend 0%N [1]%N;
   OSet 1%N [113; 58; 120]%N [49]%N].
Definition first_attr_ns (s : store) (x : id) : option (option str) :=
  match chain_of s x with
  | d :: _ => match d_attrs d with a :: _ => Some (attr_ns_chain a (chain_of s x)) | [] => None end
  | [] => None
  end.
Lemma clone_loses_inherited_attribute_prefix_refuted_l :
  let s := run AEq empty_store (rqa ++ [OClone 1%N]) in
  first_attr_ns s 1%N = Some (Some [117]%N) /\ first_attr_ns s 2%N = Some None /\
  option_map c_parent (get s 2%N) = Some None.
Proof. vm_compute. repeat split. Qed.
