(* C19 -- a clone is an equal tree *)
From SV Require Import Lib.Base C19.Model C19.Rel.

(* ------------------------------------------------------------------ *)
(* reflection, names                                                   *)
(* ------------------------------------------------------------------ *)
Lemma ostr_eqb_eq a b : ostr_eqb a b = true <-> a = b.
Proof.
  unfold ostr_eqb, opt_eqb. destruct a as [a|], b as [b|]; split; intro H;
    try discriminate; try reflexivity.
  - apply str_eqb_eq in H. now subst.
  - inversion H; subst. apply str_eqb_refl.
Qed.

Lemma named_ok_split d : named_ok d = true ->
  split_prefix (qname_of (d_prefix d) (d_name d)) = (d_prefix d, d_name d).
Proof.
  unfold named_ok. destruct (split_prefix (qname_of (d_prefix d) (d_name d))) as [p n].
  intro H. apply andb_true_iff in H. destruct H as [H1 H2].
  apply ostr_eqb_eq in H1. apply str_eqb_eq in H2. now subst.
Qed.

(* ------------------------------------------------------------------ *)
(* insertion-ordered dicts                                             *)
(* ------------------------------------------------------------------ *)
Definition mrg (l0 l : list (str * str)) : list (str * str) :=
  fold_left (fun m pu => dict_set (fst pu) (snd pu) m) l0 l.

(* every key occurs once (a Python dict) *)
Fixpoint keys_distinct (l : list (str * str)) : bool :=
  match l with
  | [] => true
  | (q, _) :: l' => match assoc q l' with None => keys_distinct l' | Some _ => false end
  end.

Lemma assoc_dict_set_same p u l : assoc p (dict_set p u l) = Some u.
Proof.
  induction l as [|[q v] l IH]; cbn.
  - now rewrite str_eqb_refl.
  - destruct (str_eqb q p) eqn:E; cbn; rewrite E; auto.
Qed.

Lemma assoc_dict_set_other p q u l : str_eqb q p = false ->
  assoc p (dict_set q u l) = assoc p l.
Proof.
  intro H. induction l as [|[r v] l IH]; cbn.
  - now rewrite H.
  - destruct (str_eqb r q) eqn:E; cbn.
    + destruct (str_eqb r p) eqn:E2; [|reflexivity].
      apply str_eqb_eq in E. apply str_eqb_eq in E2. subst.
      rewrite str_eqb_refl in H. discriminate.
    + destruct (str_eqb r p); auto.
Qed.

Lemma assoc_mrg_none p l0 : forall l, assoc p l0 = None -> assoc p (mrg l0 l) = assoc p l.
Proof.
  induction l0 as [|[q w] l0 IH]; intros l H; cbn; [reflexivity|].
  cbn in H. destruct (str_eqb q p) eqn:E; [discriminate|].
  unfold mrg in IH. rewrite IH by assumption. now apply assoc_dict_set_other.
Qed.

Lemma assoc_mrg_distinct p v l0 : forall l, keys_distinct l0 = true ->
  assoc p l0 = Some v -> assoc p (mrg l0 l) = Some v.
Proof.
  induction l0 as [|[q w] l0 IH]; intros l Hk H; cbn in *; [discriminate|].
  destruct (assoc q l0) eqn:Eq; [discriminate|].
  destruct (str_eqb q p) eqn:E.
  - inversion H; subst. apply str_eqb_eq in E. subst.
    change (assoc p (mrg l0 (dict_set p v l)) = Some v).
    rewrite assoc_mrg_none by assumption. apply assoc_dict_set_same.
  - now apply IH.
Qed.

(* ------------------------------------------------------------------ *)
(* the fields of clone_data                                            *)
(* ------------------------------------------------------------------ *)
Lemma cd_expns ch d : d_expns (clone_data ch d) =
  match ns_pair_chain ch with (None, u) => u | _ => None end.
Proof.
  unfold clone_data, new_data. destruct (split_prefix _) as [p n].
  destruct (ns_pair_chain ch) as [[q|] [u|]]; reflexivity.
Qed.

Lemma cd_nsp ch d : d_nsp (clone_data ch d) =
  mrg (d_nsp d) match ns_pair_chain ch with (Some p, Some u) => [(p, u)] | _ => [] end.
Proof.
  unfold clone_data, new_data. destruct (split_prefix _) as [p n].
  destruct (ns_pair_chain ch) as [[q|] [u|]]; reflexivity.
Qed.

Lemma cd_attrs ch d : d_attrs (clone_data ch d) = d_attrs d.
Proof.
  unfold clone_data, new_data. destruct (split_prefix _) as [p n].
  destruct (ns_pair_chain ch) as [[q|] [u|]]; reflexivity.
Qed.

Lemma cd_text ch d : d_text (clone_data ch d) = d_text d.
Proof.
  unfold clone_data, new_data. destruct (split_prefix _) as [p n].
  destruct (ns_pair_chain ch) as [[q|] [u|]]; reflexivity.
Qed.

Lemma cd_name ch d : named_ok d = true -> d_name (clone_data ch d) = d_name d.
Proof.
  intro H. apply named_ok_split in H. unfold clone_data, new_data. rewrite H.
  destruct (ns_pair_chain ch) as [[q|] [u|]]; reflexivity.
Qed.

Lemma ns_pair_own d acc p u : ns_pair_chain (d :: acc) = (Some p, u) -> d_prefix d = Some p.
Proof.
  unfold ns_pair_chain. destruct (d_prefix d) as [q|]; [|discriminate].
  destruct (resolve_chain q (d :: acc)); intro H; inversion H; reflexivity.
Qed.

Lemma cd_prefix d acc : named_ok d = true ->
  d_prefix (clone_data (d :: acc) d) = d_prefix d.
Proof.
  intro H. apply named_ok_split in H. unfold clone_data, new_data. rewrite H.
  destruct (ns_pair_chain (d :: acc)) as [[q|] [u|]] eqn:E; try reflexivity.
  apply ns_pair_own in E. cbn. now rewrite E.
Qed.

(* ------------------------------------------------------------------ *)
(* the chain inside the clone                                          *)
(* ------------------------------------------------------------------ *)
Fixpoint cchain (ch : list ndata) : list ndata :=
  match ch with
  | [] => []
  | d :: acc => clone_data (d :: acc) d :: cchain acc
  end.

Lemma dc_none : forall acc m, default_chain acc = None ->
  default_chain (firstn m (cchain acc)) = None.
Proof.
  induction acc as [|d acc IH]; intros [|m] H; try reflexivity.
  cbn [cchain firstn default_chain]. rewrite cd_expns.
  assert (Ha : default_chain acc = None).
  { cbn in H. destruct (d_expns d); [discriminate|assumption]. }
  rewrite (IH m Ha).
  unfold ns_pair_chain. destruct (d_prefix d) as [q|].
  - destruct (resolve_chain q (d :: acc)); reflexivity.
  - now rewrite H.
Qed.

Lemma rc_none p : str_eqb p xml_prefix = false -> forall acc m,
  resolve_chain p acc = None -> resolve_chain p (firstn m (cchain acc)) = None.
Proof.
  intros Hx. induction acc as [|d acc IH]; intros [|m] H; try reflexivity.
  cbn [cchain firstn resolve_chain]. rewrite Hx.
  assert (Hd : assoc p (d_nsp d) = None /\ resolve_chain p acc = None).
  { cbn in H. rewrite Hx in H. destruct (assoc p (d_nsp d)); [discriminate|auto]. }
  destruct Hd as [Hd Ha]. rewrite (IH m Ha).
  rewrite cd_nsp, (assoc_mrg_none _ _ _ Hd).
  unfold ns_pair_chain. destruct (d_prefix d) as [q|]; [|reflexivity].
  destruct (resolve_chain q (d :: acc)) as [u|] eqn:R; [|reflexivity].
  cbn. destruct (str_eqb q p) eqn:E; [|reflexivity].
  apply str_eqb_eq in E. subst. rewrite H in R. discriminate.
Qed.

(* the resolved namespace of a cloned node, whatever the depth at which the
   clone's chain is cut *)
Lemma ns_uri_clone d acc m : named_ok d = true -> keys_distinct (d_nsp d) = true ->
  ns_uri_chain (clone_data (d :: acc) d :: firstn m (cchain acc)) = ns_uri_chain (d :: acc).
Proof.
  intros Hn Hk. unfold ns_uri_chain, ns_pair_chain. rewrite (cd_prefix _ _ Hn).
  destruct (d_prefix d) as [p|] eqn:Hp.
  - assert (R : resolve_chain p (clone_data (d :: acc) d :: firstn m (cchain acc))
                = resolve_chain p (d :: acc)).
    { cbn [resolve_chain]. rewrite cd_nsp. unfold ns_pair_chain. rewrite Hp.
      cbn [resolve_chain].
      destruct (assoc p (d_nsp d)) as [v|] eqn:Ea.
      - now rewrite (assoc_mrg_distinct _ _ _ _ Hk Ea).
      - rewrite (assoc_mrg_none _ _ _ Ea).
        destruct (str_eqb p xml_prefix) eqn:Ex.
        + cbn. now rewrite str_eqb_refl.
        + destruct (resolve_chain p acc) as [u|] eqn:Er.
          * cbn. now rewrite str_eqb_refl.
          * cbn. now apply rc_none. }
    rewrite R. reflexivity.
  - cbn [snd default_chain]. rewrite cd_expns. unfold ns_pair_chain. rewrite Hp.
    cbn [default_chain]. destruct (d_expns d) as [u|]; [reflexivity|].
    destruct (default_chain acc) as [u|] eqn:Ed; [reflexivity|]. now apply dc_none.
Qed.

(* ------------------------------------------------------------------ *)
(* the clone of a tree                                                 *)
(* ------------------------------------------------------------------ *)
Definition nsp_ok (d : ndata) : bool := keys_distinct (d_nsp d).
Fixpoint nsp_ok_t (t : tree) : bool :=
  match t with T _ d k => nsp_ok d && nsp_ok_f k end
with nsp_ok_f (f : forest) : bool :=
  match f with F0 => true | F1 t f' => nsp_ok_t t && nsp_ok_f f' end.

Lemma clone_sem_gen :
  (forall t n acc m t' n', well_named_t t = true -> nsp_ok_t t = true ->
     clone_t n acc t = (t', n') ->
     sem_t (firstn m (cchain acc)) t' = sem_t acc t) /\
  (forall f n acc m f' n', well_named_f f = true -> nsp_ok_f f = true ->
     clone_f n acc f = (f', n') ->
     sem_f (firstn m (cchain acc)) f' = sem_f acc f).
Proof.
  apply tree_forest_ind.
  - intros i d k IH n acc m t' n' Hw Hk Hc.
    cbn in Hw, Hk. apply andb_true_iff in Hw. destruct Hw as [Hn Hwk].
    apply andb_true_iff in Hk. destruct Hk as [Hd Hkk].
    cbn [clone_t] in Hc. destruct (clone_f (N.succ n) (d :: acc) k) as [k' n1] eqn:Ek.
    inversion Hc; subst t' n'. cbn [sem_t].
    rewrite (cd_prefix _ _ Hn), (cd_name _ _ Hn), cd_attrs, cd_text.
    rewrite (ns_uri_clone _ _ _ Hn Hd).
    f_equal. exact (IH _ _ (S m) _ _ Hwk Hkk Ek).
  - intros n acc m f' n' _ _ Hc. cbn in Hc. inversion Hc. reflexivity.
  - intros t IHt f IHf n acc m f' n' Hw Hk Hc.
    cbn in Hw, Hk. apply andb_true_iff in Hw. destruct Hw as [Hw1 Hw2].
    apply andb_true_iff in Hk. destruct Hk as [Hk1 Hk2].
    cbn [clone_f] in Hc. destruct (clone_t n acc t) as [t1 n1] eqn:Et.
    destruct (clone_f n1 acc f) as [f1 n2] eqn:Ef.
    inversion Hc; subst f' n'. cbn [sem_f]. f_equal.
    + exact (IHt _ _ m _ _ Hw1 Hk1 Et).
    + exact (IHf _ _ m _ _ Hw2 Hk2 Ef).
Qed.

(* same prefixes, local names, resolved namespaces, attributes, text and shape --
   for elements named as the constructor splits names, whose prefix maps are
   dicts (one entry per key) *)
Lemma clone_equal' : forall t n pch t' n', well_named_t t = true -> nsp_ok_t t = true ->
  clone_t n pch t = (t', n') -> sem_t [] t' = sem_t pch t.
Proof.
  intros t n pch t' n' Hw Hk Hc.
  exact (proj1 clone_sem_gen t n pch 0%nat t' n' Hw Hk Hc).
Qed.

(* Without nsp_ok the statement does not hold: an element a:b whose own prefix
   map lists the key a twice resolves to the FIRST value (assoc), while its clone
   merges the entries with dict_set and keeps the LAST one. *)
Definition cx_data : ndata :=
  mkD (Some [97]%N) [98]%N None [([97]%N, [49]%N); ([97]%N, [50]%N)] [] None.
Lemma clone_equal_needs_nsp_ok :
  ~ (forall t n pch t' n', well_named_t t = true ->
       clone_t n pch t = (t', n') -> sem_t [] t' = sem_t pch t).
Proof.
  intro H.
  specialize (H (T 0%N cx_data F0) 5%N [] _ _ eq_refl eq_refl).
  cbv in H. discriminate.
Qed.

(* the edits of the prefix map keep one entry per key *)
Lemma keys_distinct_dict_set p u l : keys_distinct l = true ->
  keys_distinct (dict_set p u l) = true.
Proof.
  induction l as [|[q v] l IH]; cbn; intro H; [reflexivity|].
  destruct (assoc q l) eqn:Ea; [discriminate|].
  destruct (str_eqb q p) eqn:E; cbn.
  - now rewrite Ea.
  - rewrite assoc_dict_set_other, Ea; [now apply IH|].
    destruct (str_eqb p q) eqn:E'; [|reflexivity].
    apply str_eqb_eq in E'. subst. rewrite str_eqb_refl in E. discriminate.
Qed.

Lemma assoc_dict_del_none q p l : assoc q l = None -> assoc q (dict_del p l) = None.
Proof.
  induction l as [|[r v] l IH]; cbn; intro H; [reflexivity|].
  destruct (str_eqb r q) eqn:E; [discriminate|].
  destruct (str_eqb r p); [assumption|]. cbn. rewrite E. now apply IH.
Qed.

Lemma keys_distinct_dict_del p l : keys_distinct l = true ->
  keys_distinct (dict_del p l) = true.
Proof.
  induction l as [|[q v] l IH]; cbn; intro H; [reflexivity|].
  destruct (assoc q l) eqn:Ea; [discriminate|].
  destruct (str_eqb q p); [assumption|]. cbn.
  rewrite (assoc_dict_del_none _ _ _ Ea). now apply IH.
Qed.
