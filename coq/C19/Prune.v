(* C19 -- Element.prune on the heap refines prune_t on the reference *)
From SV Require Import Lib.Base C19.Model C19.Rel C19.ForestFacts.
From Coq Require Import Permutation.

(* ------------------------------------------------------------------ *)
(* lists: deleting by index, one element after the other               *)
(* ------------------------------------------------------------------ *)
Lemma filter_filter_and {A} (p q : A -> bool) l :
  filter q (filter p l) = filter (fun y => p y && q y) l.
Proof.
  induction l as [|a l IH]; cbn; [reflexivity|].
  destruct (p a); cbn; [destruct (q a); now rewrite IH|exact IH].
Qed.

Lemma filter_all {A} (p : A -> bool) l : (forall y, p y = true) -> filter p l = l.
Proof.
  intros H. induction l as [|a l IH]; cbn; [reflexivity|]. rewrite H. now f_equal.
Qed.

Definition del1 (l : list id) (p : id) : list id :=
  match index_of p l with Some k => remove_nth k l | None => l end.

Lemma del1_filter l p : NoDup l -> del1 l p = filter (neqb p) l.
Proof.
  intros H. unfold del1. destruct (index_of p l) eqn:E.
  - now apply remove_index_filter.
  - symmetry. apply filter_neqb_notin. now apply index_of_None.
Qed.

Lemma del_all_filter dl : forall l, NoDup l ->
  fold_left del1 dl l = filter (fun y => negb (mem y dl)) l.
Proof.
  induction dl as [|p dl IH]; cbn [fold_left]; intros l H.
  - symmetry. apply filter_all. intros y. reflexivity.
  - rewrite del1_filter by assumption.
    rewrite IH by (apply NoDup_filter; assumption).
    rewrite filter_filter_and. apply filter_ext. intros y.
    unfold neqb, mem. cbn. now rewrite negb_orb.
Qed.

(* ------------------------------------------------------------------ *)
(* prune on the reference: what it keeps                               *)
(* ------------------------------------------------------------------ *)
Fixpoint dropped (f : forest) : list id :=
  match f with
  | F0 => []
  | F1 t f' => if tree_empty_all (prune_t t) then rid t :: dropped f' else dropped f'
  end.

Lemma prune_rid t : rid (prune_t t) = rid t.
Proof. destruct t; reflexivity. Qed.

Lemma prune_f_F1 t f :
  prune_f (F1 t f) = if tree_empty_all (prune_t t) then prune_f f else F1 (prune_t t) (prune_f f).
Proof. reflexivity. Qed.

Lemma prune_t_T i d k : prune_t (T i d k) = T i d (prune_f k).
Proof. reflexivity. Qed.

Lemma prune_incl_m :
  (forall t, incl (ids_t (prune_t t)) (ids_t t)) /\
  (forall f, incl (ids_f (prune_f f)) (ids_f f)).
Proof.
  apply tree_forest_ind; intros.
  - rewrite prune_t_T. cbn [ids_t]. intros y [Hy|Hy]; [now left|right; now apply H].
  - apply incl_refl.
  - rewrite prune_f_F1. cbn [ids_f]. destruct (tree_empty_all (prune_t t)).
    + intros y Hy. apply in_or_app. right. now apply H0.
    + cbn [ids_f]. intros y Hy. apply in_app_or in Hy. apply in_or_app.
      destruct Hy as [Hy|Hy]; [left; now apply H|right; now apply H0].
Qed.
Definition prune_incl_t := proj1 prune_incl_m.
Definition prune_incl_f := proj2 prune_incl_m.

Lemma prune_nodup_m :
  (forall t, NoDup (ids_t t) -> NoDup (ids_t (prune_t t))) /\
  (forall f, NoDup (ids_f f) -> NoDup (ids_f (prune_f f))).
Proof.
  apply tree_forest_ind; intros.
  - rewrite prune_t_T. cbn [ids_t] in *. inversion H0; subst. constructor.
    + intros Hi. apply H3. now apply prune_incl_f.
    + now apply H.
  - exact H.
  - rewrite prune_f_F1. cbn [ids_f] in H1. apply nodup_app in H1. destruct H1 as [Ha [Hb Hc]].
    destruct (tree_empty_all (prune_t t)); [now apply H0|].
    cbn [ids_f]. apply nodup_app. split; [now apply H|]. split; [now apply H0|].
    intros y Hy1 Hy2. eapply Hc; [apply prune_incl_t; eassumption|apply prune_incl_f; eassumption].
Qed.
Definition prune_nodup_t := proj1 prune_nodup_m.

Lemma dropped_incl f : incl (dropped f) (roots f).
Proof.
  induction f as [|t f IH]; cbn [dropped roots]; [apply incl_refl|].
  destruct (tree_empty_all (prune_t t)).
  - intros y [Hy|Hy]; [now left|right; now apply IH].
  - intros y Hy. right. now apply IH.
Qed.

Lemma roots_prune k : NoDup (roots k) ->
  roots (prune_f k) = filter (fun y => negb (mem y (dropped k))) (roots k).
Proof.
  induction k as [|t k IH]; intros H; [reflexivity|].
  cbn [roots] in H. inversion H; subst.
  rewrite prune_f_F1. cbn [dropped roots filter].
  destruct (tree_empty_all (prune_t t)).
  - assert (E : mem (rid t) (rid t :: dropped k) = true) by (apply mem_In; now left).
    rewrite E. cbn [negb]. rewrite (IH H3). apply filter_ext_in. intros y Hy.
    unfold mem. cbn [existsb].
    assert (E2 : N.eqb y (rid t) = false) by (apply N.eqb_neq; intros ->; contradiction).
    now rewrite E2.
  - assert (E : mem (rid t) (dropped k) = false).
    { apply mem_false. intros Hi. apply H2. now apply dropped_incl. }
    rewrite E. cbn [negb roots]. rewrite prune_rid. f_equal. now apply IH.
Qed.

Lemma flen_roots f : length (roots f) = flen f.
Proof. induction f as [|t f IH]; cbn; [reflexivity|now rewrite IH]. Qed.

Lemma pruned_f_F1 t f :
  pruned_f (F1 t f) =
  fapp (pruned_t t) (if tree_empty_all (prune_t t) then F1 (prune_t t) (pruned_f f) else pruned_f f).
Proof. reflexivity. Qed.

Lemma dropped_nodup f : NoDup (roots f) -> NoDup (dropped f).
Proof.
  induction f as [|t f IH]; cbn [dropped roots]; intros H; [constructor|].
  inversion H; subst. destruct (tree_empty_all (prune_t t)); [|now apply IH].
  constructor; [|now apply IH]. intros Hi. apply H2. now apply dropped_incl.
Qed.

Lemma dropped_not_kept f : NoDup (ids_f f) -> forall y, In y (dropped f) -> ~ In y (ids_f (prune_f f)).
Proof.
  induction f as [|t f IH]; intros Hnd y Hy; [contradiction|].
  cbn [ids_f] in Hnd. apply nodup_app in Hnd. destruct Hnd as [Ha [Hb Hc]].
  rewrite prune_f_F1. cbn [dropped] in Hy. destruct (tree_empty_all (prune_t t)).
  - destruct Hy as [<-|Hy]; [|now apply IH].
    intros Hi. eapply Hc; [apply rid_in|apply prune_incl_f; eassumption].
  - cbn [ids_f]. intros Hi. apply in_app_or in Hi. destruct Hi as [Hi|Hi].
    + eapply Hc; [apply prune_incl_t; eassumption|]. apply roots_incl. now apply dropped_incl.
    + revert Hi. now apply IH.
Qed.

Lemma ids_f_F1 t f : ids_f (F1 t f) = ids_t t ++ ids_f f.
Proof. reflexivity. Qed.

(* nothing is lost: kept ids and pruned-away ids together are the old ids *)
Lemma prune_perm_m :
  (forall t, Permutation (ids_t (prune_t t) ++ ids_f (pruned_t t)) (ids_t t)) /\
  (forall f, Permutation (ids_f (prune_f f) ++ ids_f (pruned_f f)) (ids_f f)).
Proof.
  apply tree_forest_ind; intros.
  - rewrite prune_t_T. cbn [ids_t pruned_t app]. now apply perm_skip.
  - apply Permutation_refl.
  - rewrite prune_f_F1, pruned_f_F1, ids_fapp, (ids_f_F1 t f).
    apply (Permutation_count_occ N.eq_dec). intros y.
    pose proof (proj1 (Permutation_count_occ N.eq_dec _ _) H y) as E1.
    pose proof (proj1 (Permutation_count_occ N.eq_dec _ _) H0 y) as E2.
    rewrite count_occ_app in E1, E2.
    destruct (tree_empty_all (prune_t t)); rewrite ?ids_f_F1, !count_occ_app; unfold id in *; lia.
Qed.
Definition prune_perm_t := proj1 prune_perm_m.
Definition prune_perm_f := proj2 prune_perm_m.

Lemma pruned_incl_t t : incl (ids_f (pruned_t t)) (ids_t t).
Proof.
  intros y Hy. eapply Permutation_in; [apply prune_perm_t|]. apply in_or_app. now right.
Qed.

Lemma pruned_incl_f f : incl (ids_f (pruned_f f)) (ids_f f).
Proof.
  intros y Hy. eapply Permutation_in; [apply prune_perm_f|]. apply in_or_app. now right.
Qed.

Lemma prune_split_nodup t : NoDup (ids_t t) -> NoDup (ids_t (prune_t t) ++ ids_f (pruned_t t)).
Proof.
  intros H. eapply Permutation_NoDup; [apply Permutation_sym; apply prune_perm_t|exact H].
Qed.

Lemma cell_t_par t par par' i : i <> rid t -> cell_t par t i = cell_t par' t i.
Proof.
  destruct t as [j d k]. cbn. intros H.
  destruct (N.eqb j i) eqn:E; [apply N.eqb_eq in E; congruence|reflexivity].
Qed.

(* ------------------------------------------------------------------ *)
(* the two loops of Element.prune                                      *)
(* ------------------------------------------------------------------ *)
Definition step1 (f : nat) (st : store * list id) (c : id) : store * list id :=
  let s' := m_prune f (fst st) c in
  (s', if cell_empty_all s' c then snd st ++ [c] else snd st).
Definition step2 (x : id) (s' : store) (p : id) : store :=
  match index_of p (kids_of s' x) with
  | Some k => set_parent (upd_kids s' x (remove_nth k)) p None
  | None => s'
  end.

Lemma m_prune_S f s x :
  m_prune (S f) s x =
  fold_left (step2 x) (snd (fold_left (step1 f) (kids_of s x) (s, [])))
            (fst (fold_left (step1 f) (kids_of s x) (s, []))).
Proof. reflexivity. Qed.

Definition clr (c : cell) : cell := w_parent c None.

Lemma step2_spec x s cx p : get s x = Some cx -> In p (c_kids cx) -> p <> x ->
  get (step2 x s p) x = Some (w_kids cx (del1 (c_kids cx) p)) /\
  (forall j, j <> x ->
     get (step2 x s p) j = if N.eqb p j then option_map clr (get s j) else get s j) /\
  s_next (step2 x s p) = s_next s.
Proof.
  intros H Hin Hpx. assert (Hk : kids_of s x = c_kids cx) by (unfold kids_of; now rewrite H).
  unfold step2, del1. rewrite Hk. destruct (index_of_In _ _ Hin) as [k Ek]. rewrite Ek.
  assert (Epx : N.eqb p x = false) by (now apply N.eqb_neq).
  split; [|split].
  - rewrite get_set_parent, Epx, get_upd_kids, N.eqb_refl, H. reflexivity.
  - intros j Hj. rewrite get_set_parent.
    assert (E : N.eqb x j = false) by (apply N.eqb_neq; congruence).
    destruct (N.eqb p j) eqn:Epj.
    + apply N.eqb_eq in Epj. subst j. rewrite get_upd_kids, E. reflexivity.
    + rewrite get_upd_kids, E. reflexivity.
  - rewrite next_set_parent. apply next_upd_kids.
Qed.

Lemma fold2_store x dl : forall s cx, get s x = Some cx ->
  NoDup (c_kids cx) -> NoDup dl -> incl dl (c_kids cx) -> ~ In x dl ->
  get (fold_left (step2 x) dl s) x = Some (w_kids cx (fold_left del1 dl (c_kids cx))) /\
  (forall j, j <> x ->
     get (fold_left (step2 x) dl s) j = if mem j dl then option_map clr (get s j) else get s j) /\
  s_next (fold_left (step2 x) dl s) = s_next s.
Proof.
  induction dl as [|p dl IH]; intros s cx H Hndk Hnd Hincl Hx; cbn [fold_left].
  - split; [|split; reflexivity]. rewrite H. destruct cx; reflexivity.
  - inversion Hnd as [|? ? Hp Hnd']; subst.
    assert (Hpin : In p (c_kids cx)) by (apply Hincl; now left).
    assert (Hpx : p <> x) by (intros ->; apply Hx; now left).
    destruct (step2_spec x s cx p H Hpin Hpx) as [A [B C]].
    assert (Hndk' : NoDup (c_kids (w_kids cx (del1 (c_kids cx) p)))).
    { cbn [w_kids c_kids]. rewrite del1_filter by assumption. now apply NoDup_filter. }
    assert (Hincl' : incl dl (c_kids (w_kids cx (del1 (c_kids cx) p)))).
    { cbn [w_kids c_kids]. rewrite del1_filter by assumption. intros y Hy.
      apply filter_In. split; [apply Hincl; now right|].
      unfold neqb. apply negb_true_iff. apply N.eqb_neq. intros ->. contradiction. }
    assert (Hx' : ~ In x dl) by (intros Hi; apply Hx; now right).
    destruct (IH _ _ A Hndk' Hnd' Hincl' Hx') as [A' [B' C']]. split; [|split].
    + rewrite A'. reflexivity.
    + intros j Hj. rewrite B' by assumption. rewrite (B j Hj).
      unfold mem. cbn [existsb]. fold (mem j dl). rewrite (N.eqb_sym j p).
      destruct (N.eqb p j) eqn:Epj; cbn [orb]; [|reflexivity].
      apply N.eqb_eq in Epj. subst j.
      assert (Em : mem p dl = false) by (now apply mem_false). now rewrite Em.
    + now rewrite C'.
Qed.

(* ------------------------------------------------------------------ *)
(* local part: the heap below x follows prune_t, and what goes         *)
(* becomes a root                                                      *)
(* ------------------------------------------------------------------ *)
Definition rep (s : store) (par : option id) (t : tree) : Prop :=
  forall i, In i (ids_t t) -> get s i = cell_t par t i.
Definition repf (s : store) (par : option id) (f : forest) : Prop :=
  forall i, In i (ids_f f) -> get s i = cell_f par f i.
(* between the two loops: the children that go still have their parent link *)
Definition midf (s : store) (k : forest) : Prop :=
  forall y, In y (ids_f (pruned_f k)) ->
    cell_f None (pruned_f k) y =
    if mem y (dropped k) then option_map clr (get s y) else get s y.

Lemma rep_empty s par t c : rep s par t -> c = rid t ->
  cell_empty_all s c = tree_empty_all t.
Proof.
  intros H ->. unfold cell_empty_all. rewrite (H _ (rid_in t)).
  destruct t as [i d k]. cbn. rewrite N.eqb_refl. cbn. now rewrite flen_roots.
Qed.

Lemma mem_cons_neq y a l : y <> a -> mem y (a :: l) = mem y l.
Proof.
  intros H. unfold mem. cbn [existsb].
  assert (E : N.eqb y a = false) by (now apply N.eqb_neq). now rewrite E.
Qed.

Lemma prune_local :
  (forall t par s fuel, NoDup (ids_t t) -> rep s par t -> (length (ids_t t) <= fuel)%nat ->
     rep (m_prune fuel s (rid t)) par (prune_t t) /\
     repf (m_prune fuel s (rid t)) None (pruned_t t) /\
     (forall i, ~ In i (ids_t t) -> get (m_prune fuel s (rid t)) i = get s i) /\
     s_next (m_prune fuel s (rid t)) = s_next s) /\
  (forall k j s f acc, NoDup (ids_f k) -> repf s (Some j) k -> (length (ids_f k) <= f)%nat ->
     repf (fst (fold_left (step1 f) (roots k) (s, acc))) (Some j) (prune_f k) /\
     midf (fst (fold_left (step1 f) (roots k) (s, acc))) k /\
     (forall i, ~ In i (ids_f k) -> get (fst (fold_left (step1 f) (roots k) (s, acc))) i = get s i) /\
     s_next (fst (fold_left (step1 f) (roots k) (s, acc))) = s_next s /\
     snd (fold_left (step1 f) (roots k) (s, acc)) = acc ++ dropped k).
Proof.
  apply tree_forest_ind.
  - intros i d k IH par s fuel Hnd Hrep Hlen. cbn [rid]. cbn [ids_t length] in Hlen.
    destruct fuel as [|f]; [lia|]. rewrite m_prune_S.
    assert (Hj : get s i = Some (mkC par (roots k) d)).
    { rewrite (Hrep i) by (left; reflexivity). cbn. now rewrite N.eqb_refl. }
    assert (Hk : kids_of s i = roots k) by (unfold kids_of; now rewrite Hj).
    cbn [ids_t] in Hnd. inversion Hnd as [|? ? Hni Hndk]; subst.
    assert (Hrepf : repf s (Some i) k).
    { intros y Hy. rewrite (Hrep y) by (right; exact Hy). cbn.
      destruct (N.eqb i y) eqn:E; [apply N.eqb_eq in E; subst; contradiction|reflexivity]. }
    assert (Hlen' : (length (ids_f k) <= f)%nat) by lia.
    destruct (IH i s f [] Hndk Hrepf Hlen') as [A [Q [B [C D]]]].
    rewrite Hk. rewrite D. cbn [app].
    assert (Hj1 : get (fst (fold_left (step1 f) (roots k) (s, []))) i = Some (mkC par (roots k) d)).
    { rewrite B; assumption. }
    assert (Hndr : NoDup (roots k)) by (now apply roots_NoDup).
    assert (Hdin : forall y, In y (dropped k) -> In y (ids_f k)).
    { intros y Hy. apply roots_incl. now apply dropped_incl. }
    assert (Hid : ~ In i (dropped k)) by (intros Hi; apply Hni; now apply Hdin).
    destruct (fold2_store i (dropped k) _ _ Hj1 Hndr (dropped_nodup k Hndr) (dropped_incl k) Hid)
      as [E1 [E2 E3]].
    cbn [c_kids] in E1.
    rewrite (del_all_filter _ _ Hndr) in E1. rewrite <- (roots_prune _ Hndr) in E1.
    split; [|split; [|split]].
    + intros y Hy. rewrite prune_t_T in *. cbn [ids_t] in Hy. destruct Hy as [<-|Hy].
      * rewrite E1. cbn. now rewrite N.eqb_refl.
      * assert (Hyi : y <> i) by (intros ->; apply Hni; now apply prune_incl_f).
        rewrite E2 by assumption.
        assert (Em : mem y (dropped k) = false).
        { apply mem_false. intros Hd. exact (dropped_not_kept k Hndk y Hd Hy). }
        rewrite Em. rewrite (A y Hy). cbn.
        destruct (N.eqb i y) eqn:E; [apply N.eqb_eq in E; congruence|reflexivity].
    + intros y Hy. cbn [pruned_t] in *.
      assert (Hyi : y <> i) by (intros ->; apply Hni; now apply pruned_incl_f).
      rewrite E2 by assumption. symmetry. now apply Q.
    + intros y Hy. cbn [ids_t] in Hy.
      assert (Hyi : y <> i) by (intros ->; apply Hy; now left).
      rewrite E2 by assumption.
      assert (Em : mem y (dropped k) = false).
      { apply mem_false. intros Hd. apply Hy. right. now apply Hdin. }
      rewrite Em. apply B. intros Hy'. apply Hy. now right.
    + rewrite E3. exact C.
  - intros j s f acc _ _ _. cbn. split; [intros y []|]. split; [intros y []|].
    split; [reflexivity|]. split; [reflexivity|]. now rewrite app_nil_r.
  - intros t IHt k' IHk j s f acc Hnd Hrep Hlen. cbn [roots fold_left].
    cbn [ids_f] in Hnd, Hlen. apply nodup_app in Hnd. destruct Hnd as [Ha [Hb Hc]].
    rewrite app_length in Hlen.
    change (step1 f (s, acc) (rid t)) with
      (m_prune f s (rid t),
       if cell_empty_all (m_prune f s (rid t)) (rid t) then acc ++ [rid t] else acc).
    assert (Hrt : rep s (Some j) t).
    { intros y Hy. rewrite Hrep by (cbn [ids_f]; apply in_or_app; now left). cbn [cell_f].
      destruct (cell_t_some t (Some j) y Hy) as [c Hcc]. now rewrite Hcc. }
    assert (Hl1 : (length (ids_t t) <= f)%nat) by lia.
    destruct (IHt (Some j) s f Ha Hrt Hl1) as [A [P [B C]]].
    rewrite (rep_empty _ (Some j) (prune_t t) (rid t) A (eq_sym (prune_rid t))).
    assert (Hrk : repf (m_prune f s (rid t)) (Some j) k').
    { intros y Hy. rewrite B by (intros Hy'; eapply Hc; eassumption).
      rewrite Hrep by (cbn [ids_f]; apply in_or_app; now right). cbn [cell_f].
      rewrite (cell_t_none t (Some j) y); [reflexivity|intros Hy'; eapply Hc; eassumption]. }
    assert (Hl2 : (length (ids_f k') <= f)%nat) by lia.
    destruct (IHk j (m_prune f s (rid t)) f
                (if tree_empty_all (prune_t t) then acc ++ [rid t] else acc) Hb Hrk Hl2)
      as [A' [Q' [B' [C' D']]]].
    split; [|split; [|split; [|split]]].
    + rewrite prune_f_F1. destruct (tree_empty_all (prune_t t)) eqn:Et; [exact A'|].
      intros y Hy. cbn [ids_f] in Hy. cbn [cell_f].
      destruct (in_dec N.eq_dec y (ids_t (prune_t t))) as [Hin|Hnin].
      * rewrite B' by (intros Hy'; eapply Hc; [apply prune_incl_t; eassumption|assumption]).
        rewrite (A y Hin). destruct (cell_t_some _ (Some j) y Hin) as [c Hcc]. now rewrite Hcc.
      * apply in_app_or in Hy. destruct Hy as [Hy|Hy]; [contradiction|].
        rewrite (cell_t_none _ (Some j) y Hnin). now apply A'.
    + pose proof (prune_split_nodup t Ha) as Hsp. apply nodup_app in Hsp.
      destruct Hsp as [_ [_ Hdisj]].
      assert (Hdk : forall y, In y (dropped k') -> In y (ids_f k')).
      { intros y Hy. apply roots_incl. now apply dropped_incl. }
      intros y Hy. rewrite pruned_f_F1 in *. rewrite ids_fapp in Hy. rewrite cell_fapp.
      cbn [dropped].
      destruct (in_dec N.eq_dec y (ids_f (pruned_t t))) as [HyD|HyD].
      * assert (Hyt : In y (ids_t t)) by (now apply pruned_incl_t).
        destruct (cell_f_some _ None y HyD) as [c Hcc]. rewrite Hcc. rewrite <- Hcc.
        rewrite <- (P y HyD). rewrite <- B' by (intros Hy'; eapply Hc; eassumption).
        assert (Em : mem y (dropped k') = false).
        { apply mem_false. intros Hd. eapply Hc; [exact Hyt|now apply Hdk]. }
        destruct (tree_empty_all (prune_t t)); [|now rewrite Em].
        rewrite mem_cons_neq, Em; [reflexivity|].
        intros ->. eapply Hdisj; [|exact HyD]. rewrite <- prune_rid. apply rid_in.
      * rewrite (cell_f_none _ None y HyD). apply in_app_or in Hy.
        destruct Hy as [Hy|Hy]; [contradiction|].
        destruct (tree_empty_all (prune_t t)) eqn:Et.
        -- rewrite ids_f_F1 in Hy. cbn [cell_f].
           destruct (in_dec N.eq_dec y (ids_t (prune_t t))) as [HyK|HyK].
           ++ assert (Hyt : In y (ids_t t)) by (now apply prune_incl_t).
              destruct (cell_t_some _ None y HyK) as [c Hcc]. rewrite Hcc. rewrite <- Hcc.
              rewrite B' by (intros Hy'; eapply Hc; eassumption).
              rewrite (A y HyK).
              destruct (N.eq_dec y (rid t)) as [->|Hne].
              ** assert (Em : mem (rid t) (rid t :: dropped k') = true) by (apply mem_In; now left).
                 rewrite Em. destruct t as [i d k]. cbn. rewrite N.eqb_refl. reflexivity.
              ** assert (Em : mem y (dropped k') = false).
                 { apply mem_false. intros Hd. eapply Hc; [exact Hyt|now apply Hdk]. }
                 rewrite mem_cons_neq, Em by assumption.
                 apply cell_t_par. now rewrite prune_rid.
           ++ rewrite (cell_t_none _ None y HyK).
              apply in_app_or in Hy. destruct Hy as [Hy|Hy]; [contradiction|].
              assert (Hyk : In y (ids_f k')) by (now apply pruned_incl_f).
              rewrite mem_cons_neq; [now apply Q'|].
              intros ->. eapply Hc; [apply rid_in|exact Hyk].
        -- now apply Q'.
    + intros y Hy. cbn [ids_f] in Hy. rewrite B', B; [reflexivity| |];
        intros Hy'; apply Hy; apply in_or_app; auto.
    + rewrite C'. exact C.
    + rewrite D'. cbn [dropped].
      destruct (tree_empty_all (prune_t t)); [now rewrite <- app_assoc|reflexivity].
Qed.

(* ------------------------------------------------------------------ *)
(* global part: sub_f with an edit that keeps the root and loses ids   *)
(* ------------------------------------------------------------------ *)
Section Sub.
Variable g : tree -> tree.
Hypothesis g_rid : forall t, rid (g t) = rid t.
Hypothesis g_incl : forall t, incl (ids_t (g t)) (ids_t t).
Hypothesis g_nodup : forall t, NoDup (ids_t t) -> NoDup (ids_t (g t)).

Lemma sub_rid t x : rid (sub_t t x g) = rid t.
Proof.
  destruct t as [i d k]. cbn [sub_t]. destruct (N.eqb i x); [apply g_rid|reflexivity].
Qed.

Lemma sub_roots f x : roots (sub_f f x g) = roots f.
Proof.
  induction f as [|t f IH]; cbn [sub_f roots]; [reflexivity|]. now rewrite sub_rid, IH.
Qed.

Lemma sub_notin_m x :
  (forall t, ~ In x (ids_t t) -> sub_t t x g = t) /\
  (forall f, ~ In x (ids_f f) -> sub_f f x g = f).
Proof.
  apply tree_forest_ind; intros.
  - cbn [sub_t]. cbn [ids_t] in H0. destruct (N.eqb i x) eqn:E.
    + apply N.eqb_eq in E. subst. exfalso. apply H0. now left.
    + rewrite H; [reflexivity|]. intros Hx. apply H0. now right.
  - reflexivity.
  - cbn [sub_f]. cbn [ids_f] in H1. rewrite H, H0; [reflexivity| |];
      intros Hx; apply H1; apply in_or_app; auto.
Qed.

Lemma sub_incl_m x :
  (forall t, incl (ids_t (sub_t t x g)) (ids_t t)) /\
  (forall f, incl (ids_f (sub_f f x g)) (ids_f f)).
Proof.
  apply tree_forest_ind; intros.
  - cbn [sub_t]. destruct (N.eqb i x); [apply g_incl|].
    cbn [ids_t]. intros y [Hy|Hy]; [now left|right; now apply H].
  - apply incl_refl.
  - cbn [sub_f ids_f]. intros y Hy. apply in_app_or in Hy. apply in_or_app.
    destruct Hy as [Hy|Hy]; [left; now apply H|right; now apply H0].
Qed.

Lemma sub_nodup_m x :
  (forall t, NoDup (ids_t t) -> NoDup (ids_t (sub_t t x g))) /\
  (forall f, NoDup (ids_f f) -> NoDup (ids_f (sub_f f x g))).
Proof.
  apply tree_forest_ind; intros.
  - cbn [sub_t]. destruct (N.eqb i x); [now apply g_nodup|].
    cbn [ids_t] in *. inversion H0; subst. constructor.
    + intros Hi. apply H3. now apply (proj2 (sub_incl_m x)).
    + now apply H.
  - exact H.
  - cbn [sub_f ids_f] in *. apply nodup_app in H1. destruct H1 as [Ha [Hb Hc]].
    apply nodup_app. split; [now apply H|]. split; [now apply H0|].
    intros y Hy1 Hy2. eapply Hc;
      [apply (proj1 (sub_incl_m x)); eassumption|apply (proj2 (sub_incl_m x)); eassumption].
Qed.

Lemma sub_cell_m x tx :
  (forall u par i px kx dx, NoDup (ids_t u) -> find_t u x = Some tx ->
     cell_t par u x = Some (mkC px kx dx) ->
     cell_t par (sub_t u x g) i =
     if mem i (ids_t tx) then cell_t px (g tx) i else cell_t par u i) /\
  (forall f par i px kx dx, NoDup (ids_f f) -> find_f f x = Some tx ->
     cell_f par f x = Some (mkC px kx dx) ->
     cell_f par (sub_f f x g) i =
     if mem i (ids_t tx) then cell_t px (g tx) i else cell_f par f i).
Proof.
  apply tree_forest_ind.
  - intros j d k IH par i px kx dx Hnd Hf Hc.
    cbn [find_t] in Hf. cbn [cell_t] in Hc. cbn [sub_t].
    destruct (N.eqb j x) eqn:E.
    + inversion Hf; subst tx. inversion Hc; subst px kx dx.
      destruct (mem i (ids_t (T j d k))) eqn:Em; [reflexivity|].
      apply mem_false in Em. rewrite (cell_t_none _ par i Em).
      apply cell_t_none. intros Hi. apply Em. now apply g_incl.
    + cbn [ids_t] in Hnd. inversion Hnd as [|? ? Hni Hndk]; subst.
      cbn [cell_t]. rewrite sub_roots. destruct (N.eqb j i) eqn:E2.
      * apply N.eqb_eq in E2. subst i.
        assert (Em : mem j (ids_t tx) = false).
        { apply mem_false. intros Hi. apply Hni.
          eapply (proj2 find_ids_incl_m); eassumption. }
        now rewrite Em.
      * eapply IH; eassumption.
  - intros par i px kx dx _ Hf. discriminate.
  - intros t IHt f IHf par i px kx dx Hnd Hf Hc.
    cbn [ids_f] in Hnd. apply nodup_app in Hnd. destruct Hnd as [Ha [Hb Hd]].
    cbn [find_f] in Hf. cbn [cell_f] in Hc. cbn [sub_f cell_f].
    destruct (find_t t x) eqn:E.
    + inversion Hf; subst t0.
      assert (Hx : In x (ids_t t)) by (eapply find_t_in; eassumption).
      destruct (cell_t_some t par x Hx) as [c Hcc]. rewrite Hcc in Hc. inversion Hc; subst c.
      rewrite (proj2 (sub_notin_m x) f) by (intros Hx'; eapply Hd; eassumption).
      rewrite (IHt par i px kx dx Ha eq_refl Hcc).
      destruct (mem i (ids_t tx)) eqn:Em; [|reflexivity].
      apply mem_In in Em.
      destruct (cell_t px (g tx) i); [reflexivity|].
      apply cell_f_none. intros Hi. eapply Hd; [|exact Hi].
      eapply (proj1 find_ids_incl_m); eassumption.
    + assert (Hx : ~ In x (ids_t t)) by (now apply find_t_none_notin).
      rewrite (cell_t_none t par x Hx) in Hc.
      rewrite (proj1 (sub_notin_m x) t Hx).
      rewrite (IHf par i px kx dx Hb Hf Hc).
      destruct (mem i (ids_t tx)) eqn:Em; [|reflexivity].
      apply mem_In in Em.
      rewrite (cell_t_none t par i); [reflexivity|].
      intros Hi. eapply Hd; [exact Hi|]. eapply (proj2 find_ids_incl_m); eassumption.
Qed.

Lemma sub_cell f par x tx i px kx dx :
  NoDup (ids_f f) -> find_f f x = Some tx -> cell_f par f x = Some (mkC px kx dx) ->
  cell_f par (sub_f f x g) i =
  if mem i (ids_t tx) then cell_t px (g tx) i else cell_f par f i.
Proof. apply (proj2 (sub_cell_m x tx)). Qed.

End Sub.

(* ------------------------------------------------------------------ *)
(* Element.prune refines the reference                                 *)
(* ------------------------------------------------------------------ *)
Lemma prune_refines : forall s rs x tx, R s rs -> find_f (r_forest rs) x = Some tx ->
  R (m_prune (fuel_of s) s x)
    (mkR (fapp (pruned_t tx) (sub_f (r_forest rs) x prune_t)) (r_next rs)).
Proof.
  intros s rs x tx [Hnd [Hcells [Hlt [Hnext Hlen]]]] Hf.
  set (f := r_forest rs) in *.
  assert (Hrid : rid tx = x) by (eapply find_rid; eassumption).
  destruct (find_cell f None x tx Hnd Hf) as [px Hpx].
  assert (Hsub : incl (ids_t tx) (ids_f f)) by (eapply find_ids_incl; eassumption).
  assert (Hndx : NoDup (ids_t tx)) by (eapply find_nodup; eassumption).
  assert (Hrep : rep s px tx).
  { intros i Hi. rewrite (Hcells i (Hsub i Hi)).
    rewrite (find_cells f None x tx px i Hnd Hf Hi).
    destruct (N.eqb i x) eqn:E.
    - apply N.eqb_eq in E. subst i. rewrite Hpx. reflexivity.
    - destruct (cell_f None f i); reflexivity. }
  assert (Hfuel : (length (ids_t tx) <= fuel_of s)%nat).
  { pose proof (NoDup_incl_length Hndx Hsub). unfold fuel_of. rewrite Hnext. lia. }
  destruct (proj1 prune_local tx px s (fuel_of s) Hndx Hrep Hfuel) as [A [P [B C]]].
  rewrite Hrid in A, P, B, C.
  assert (Hincl : incl (ids_f (sub_f f x prune_t)) (ids_f f)).
  { apply (proj2 (sub_incl_m prune_t prune_incl_t x)). }
  assert (Hnd' : NoDup (ids_f (sub_f f x prune_t))).
  { apply (proj2 (sub_nodup_m prune_t prune_incl_t prune_nodup_t x)). exact Hnd. }
  pose proof (prune_split_nodup tx Hndx) as Hsp. apply nodup_app in Hsp.
  destruct Hsp as [_ [HndD Hdisj]].
  assert (Hcell : forall i, cell_f None (sub_f f x prune_t) i =
            if mem i (ids_t tx) then cell_t px (prune_t tx) i else cell_f None f i).
  { intros i. exact (sub_cell prune_t prune_rid prune_incl_t f None x tx i px _ _ Hnd Hf Hpx). }
  assert (HinclD : incl (ids_f (pruned_t tx)) (ids_f f)).
  { intros y Hy. apply Hsub. now apply pruned_incl_t. }
  assert (Hincl2 : incl (ids_f (fapp (pruned_t tx) (sub_f f x prune_t))) (ids_f f)).
  { rewrite ids_fapp. intros y Hy. apply in_app_or in Hy. destruct Hy; auto. }
  assert (Hnd2 : NoDup (ids_f (fapp (pruned_t tx) (sub_f f x prune_t)))).
  { rewrite ids_fapp. apply nodup_app. split; [exact HndD|]. split; [exact Hnd'|].
    intros y HyD HyS. apply (Hdisj y); [|exact HyD].
    destruct (cell_f_some _ None y HyS) as [c Hcc]. rewrite Hcell in Hcc.
    assert (Em : mem y (ids_t tx) = true) by (apply mem_In; now apply pruned_incl_t).
    rewrite Em in Hcc. eapply cell_t_in; eassumption. }
  unfold R. cbn [r_forest r_next]. split; [exact Hnd2|]. split; [|split; [|split]].
  - intros i Hi. rewrite cell_fapp.
    destruct (in_dec N.eq_dec i (ids_f (pruned_t tx))) as [HiD|HiD].
    + rewrite (P i HiD). destruct (cell_f_some _ None i HiD) as [c Hcc]. now rewrite Hcc.
    + rewrite (cell_f_none _ None i HiD). rewrite ids_fapp in Hi. apply in_app_or in Hi.
      destruct Hi as [Hi|Hi]; [contradiction|].
      rewrite Hcell. destruct (mem i (ids_t tx)) eqn:Em.
      * apply A. destruct (cell_f_some _ None i Hi) as [c Hcc]. rewrite Hcell, Em in Hcc.
        eapply cell_t_in; eassumption.
      * apply mem_false in Em. rewrite (B i Em). apply Hcells. now apply Hincl.
  - intros i Hi. apply Hlt. now apply Hincl2.
  - rewrite C. exact Hnext.
  - pose proof (NoDup_incl_length Hnd2 Hincl2). lia.
Qed.
