(* C19 -- editing or cloning the XML tree affects exactly the nodes named.

   Definitions only.

   MODEL     suds.sax.element.Element / attribute.Attribute as a heap: every
             Element object is an id (allocation number) with a cell holding its
             parent pointer, its children list (ids), and its own data (prefix,
             name, expns, nsprefixes dict, attributes, text).  Every operation is
             written as the Python does it, statement by statement, including
             what it does when misused (append of an attached node, ...).
   REFERENCE a forest of rose trees whose nodes carry their identity; each edit
             is applied to the node with the given identity, structurally.  The
             reference is PARTIAL: it says nothing (None) when an edit is
             outside the domain listed at [ref_step].
   The predicates evaluated on the implementation's own outputs are at the end
   (c19_agrees: model = implementation; c19_spec_ok: implementation meets the
   reference). *)
From SV Require Import Lib.Base.

Definition id := N.

(* ------------------------------------------------------------------ *)
(* data                                                                *)
(* ------------------------------------------------------------------ *)

Record attr := mkA { a_prefix : option str; a_name : str; a_value : str }.

Record ndata := mkD {
  d_prefix : option str;          (* Element.prefix *)
  d_name : str;                   (* Element.name *)
  d_expns : option str;           (* Element.expns *)
  d_nsp : list (str * str);       (* Element.nsprefixes, insertion ordered dict *)
  d_attrs : list attr;            (* Element.attributes *)
  d_text : option str             (* Element.text *)
}.

Record cell := mkC { c_parent : option id; c_kids : list id; c_data : ndata }.

Record store := mkS { s_cells : list (id * cell); s_next : N }.

Definition empty_store : store := mkS [] 0.

Fixpoint lookup (l : list (id * cell)) (i : id) : option cell :=
  match l with
  | [] => None
  | (j, c) :: l' => if N.eqb j i then Some c else lookup l' i
  end.

Definition get (s : store) (i : id) : option cell := lookup (s_cells s) i.
Definition set (s : store) (i : id) (c : cell) : store := mkS ((i, c) :: s_cells s) (s_next s).

Definition w_parent (c : cell) (p : option id) := mkC p (c_kids c) (c_data c).
Definition w_kids (c : cell) (k : list id) := mkC (c_parent c) k (c_data c).
Definition w_data (c : cell) (d : ndata) := mkC (c_parent c) (c_kids c) d.

Definition dw_prefix d v := mkD v (d_name d) (d_expns d) (d_nsp d) (d_attrs d) (d_text d).
Definition dw_name d v := mkD (d_prefix d) v (d_expns d) (d_nsp d) (d_attrs d) (d_text d).
Definition dw_expns d v := mkD (d_prefix d) (d_name d) v (d_nsp d) (d_attrs d) (d_text d).
Definition dw_nsp d v := mkD (d_prefix d) (d_name d) (d_expns d) v (d_attrs d) (d_text d).
Definition dw_attrs d v := mkD (d_prefix d) (d_name d) (d_expns d) (d_nsp d) v (d_text d).
Definition dw_text d v := mkD (d_prefix d) (d_name d) (d_expns d) (d_nsp d) (d_attrs d) v.

(* ------------------------------------------------------------------ *)
(* Python list / dict / str primitives                                 *)
(* ------------------------------------------------------------------ *)

Fixpoint index_of (x : id) (l : list id) : option nat :=   (* identity search *)
  match l with
  | [] => None
  | y :: l' => if N.eqb y x then Some 0%nat
               else match index_of x l' with Some k => Some (S k) | None => None end
  end.

Fixpoint remove_nth {A} (k : nat) (l : list A) : list A :=  (* del l[k] *)
  match l, k with
  | [], _ => []
  | _ :: l', O => l'
  | y :: l', S k' => y :: remove_nth k' l'
  end.

Fixpoint insert_at {A} (k : nat) (x : A) (l : list A) : list A :=  (* l.insert(k, x), 0 <= k *)
  match k, l with
  | O, _ => x :: l
  | S k', y :: l' => y :: insert_at k' x l'
  | S _, [] => [x]
  end.

(* list.insert with any int index: negative counts from the end, clamped *)
Definition py_pos (idx : Z) (len : nat) : nat :=
  if (idx <? 0)%Z then Z.to_nat (Z.max 0 (idx + Z.of_nat len)) else Nat.min (Z.to_nat idx) len.

(* first element satisfying a predicate on (position, element) is removed: list.remove *)
Fixpoint remove_first_at {A} (f : nat -> A -> bool) (pos : nat) (l : list A) : list A :=
  match l with
  | [] => []
  | y :: l' => if f pos y then l' else y :: remove_first_at f (S pos) l'
  end.

Fixpoint assoc (p : str) (l : list (str * str)) : option str :=
  match l with
  | [] => None
  | (q, u) :: l' => if str_eqb q p then Some u else assoc p l'
  end.

(* d[p] = u : existing key keeps its place *)
Fixpoint dict_set (p u : str) (l : list (str * str)) : list (str * str) :=
  match l with
  | [] => [(p, u)]
  | (q, v) :: l' => if str_eqb q p then (q, u) :: l' else (q, v) :: dict_set p u l'
  end.

Fixpoint dict_del (p : str) (l : list (str * str)) : list (str * str) :=
  match l with
  | [] => []
  | (q, v) :: l' => if str_eqb q p then l' else (q, v) :: dict_del p l'
  end.

Definition ch_slash : N := 47.
Definition ostr_eqb := opt_eqb str_eqb.

(* suds.sax.splitPrefix: split at the first colon *)
Fixpoint split_colon (s : str) : option (str * str) :=
  match s with
  | [] => None
  | c :: s' => if N.eqb c ch_colon then Some ([], s')
               else match split_colon s' with Some (a, b) => Some (c :: a, b) | None => None end
  end.
Definition split_prefix (s : str) : option str * str :=
  match split_colon s with Some (a, b) => (Some a, b) | None => (None, s) end.

(* str.split("/") *)
Fixpoint split_slash (s : str) : list str :=
  match s with
  | [] => [[]]
  | c :: s' => match split_slash s' with
               | [] => [[]]                       (* unreachable *)
               | w :: ws => if N.eqb c ch_slash then [] :: w :: ws else (c :: w) :: ws
               end
  end.
Definition nonempty (s : str) : bool := match s with [] => false | _ => true end.

Definition qname_of (p : option str) (n : str) : str :=
  match p with None => n | Some p => p ++ [ch_colon] ++ n end.

Definition xml_prefix : str := [120; 109; 108]%N.
Definition xml_uri : str :=
  [104;116;116;112;58;47;47;119;119;119;46;119;51;46;111;114;103;47;88;77;76;47;49;57;57;56;47;
   110;97;109;101;115;112;97;99;101]%N.

(* ------------------------------------------------------------------ *)
(* namespace resolution on the chain [self; parent; grandparent; ...]  *)
(* ------------------------------------------------------------------ *)

(* Element.resolvePrefix(prefix)[1]: nsprefixes of each node walking up; the
   special prefix xml is tested inside the loop, after the node's own map *)
Fixpoint resolve_chain (p : str) (ch : list ndata) : option str :=
  match ch with
  | [] => None
  | d :: ch' => match assoc p (d_nsp d) with
                | Some u => Some u
                | None => if str_eqb p xml_prefix then Some xml_uri else resolve_chain p ch'
                end
  end.

(* Element.defaultNamespace()[1] *)
Fixpoint default_chain (ch : list ndata) : option str :=
  match ch with
  | [] => None
  | d :: ch' => match d_expns d with Some u => Some u | None => default_chain ch' end
  end.

(* Element.namespace() as the pair (prefix, uri) *)
Definition ns_pair_chain (ch : list ndata) : option str * option str :=
  match ch with
  | [] => (None, None)
  | d :: _ => match d_prefix d with
              | None => (None, default_chain ch)
              | Some p => match resolve_chain p ch with
                          | Some u => (Some p, Some u)
                          | None => (None, None)       (* Namespace.default *)
                          end
              end
  end.
Definition ns_uri_chain (ch : list ndata) : option str := snd (ns_pair_chain ch).

(* Element.match(name, ns): ns = None (no constraint) or Some uri-part *)
Definition match_chain (name : option str) (ns : option (option str)) (ch : list ndata) : bool :=
  match ch with
  | [] => false
  | d :: _ =>
    (match name with None => true | Some n => str_eqb (d_name d) n end) &&
    (match ns with None => true | Some u => ostr_eqb (ns_uri_chain ch) u end)
  end.

(* Attribute.match(name, ns) for an attribute of the element at the head of ch *)
Definition attr_ns_chain (a : attr) (ch : list ndata) : option str :=
  match a_prefix a with None => None | Some p => resolve_chain p ch end.
Definition attr_match (name : str) (ns : option (option str)) (ch : list ndata) (a : attr) : bool :=
  str_eqb (a_name a) name &&
  match ns with None => true | Some u => ostr_eqb (attr_ns_chain a ch) u end.

Fixpoint find_index {A} (f : A -> bool) (l : list A) : option nat :=
  match l with
  | [] => None
  | x :: l' => if f x then Some 0%nat else option_map S (find_index f l')
  end.

(* the (name, ns) a lookup really uses: `if ns is None: prefix, name = splitPrefix(name);
   if prefix is not None: ns = self.resolvePrefix(prefix)` *)
Definition lookup_key (qn : str) (ns : option (option str)) (ch : list ndata)
  : str * option (option str) :=
  match ns with
  | Some _ => (qn, ns)
  | None => match split_prefix qn with
            | (Some p, n) => (n, Some (resolve_chain p ch))
            | (None, n) => (n, None)
            end
  end.

(* Element.getAttribute(name, ns) as the position of the attribute found *)
Definition get_attr_chain (qn : str) (ns : option (option str)) (ch : list ndata) : option nat :=
  match ch with
  | [] => None
  | d :: _ => let '(n, ns') := lookup_key qn ns ch in find_index (attr_match n ns' ch) (d_attrs d)
  end.

(* How Element.unset / Element.remove(attribute) find the attribute to drop.  The
   unchanged code calls list.remove, i.e. goes by Attribute.__eq__, which compares
   self.prefix with rhs.NAME (AQuirk).  The harness reads the mode from the
   implementation, so that the model follows the code if this is repaired either
   by correcting __eq__ (AEq: prefix with prefix) or by removing the very
   object (AId). *)
Inductive amode := AQuirk | AEq | AId.

Definition attr_eq (m : amode) (e x : attr) : bool :=
  match m with
  | AQuirk => ostr_eqb (a_prefix e) (Some (a_name x)) && str_eqb (a_name e) (a_name x)
  | AEq => ostr_eqb (a_prefix e) (a_prefix x) && str_eqb (a_name e) (a_name x)
  | AId => false
  end.

(* self.attributes.remove(attrs[k]): first element that IS it or == it *)
Definition attrs_remove (m : amode) (k : nat) (l : list attr) : list attr :=
  match nth_error l k with
  | None => l
  | Some x => remove_first_at (fun pos e => Nat.eqb pos k || attr_eq m e x) 0 l
  end.

Fixpoint set_value_at (k : nat) (v : str) (l : list attr) : list attr :=
  match l, k with
  | [], _ => []
  | a :: l', O => mkA (a_prefix a) (a_name a) v :: l'
  | a :: l', S k' => a :: set_value_at k' v l'
  end.

Definition mk_attr (qn v : str) : attr := let '(p, n) := split_prefix qn in mkA p n v.

(* the data-only edits, as functions of the chain of the edited element *)
(* Element.set(name, value): an UNPREFIXED name designates the attribute in no
   namespace -- the first attribute without prefix and with that local name,
   never a prefixed one with the same local name (xsi:type vs type; repaired in
   6bfb6fa); a prefixed name goes through getAttribute, i.e. by local name and
   resolved namespace.  No such attribute: a new one is appended. *)
Definition set_target (qn : str) (ch : list ndata) (d : ndata) : option nat :=
  match split_prefix qn with
  | (None, n) => find_index (fun a => match a_prefix a with
                                      | None => str_eqb (a_name a) n
                                      | Some _ => false
                                      end) (d_attrs d)
  | (Some _, _) => get_attr_chain qn None ch
  end.
Definition d_set (qn v : str) (ch : list ndata) (d : ndata) : ndata :=
  match set_target qn ch d with
  | None => dw_attrs d (d_attrs d ++ [mk_attr qn v])
  | Some k => dw_attrs d (set_value_at k v (d_attrs d))
  end.
(* Element.unset(name): an UNPREFIXED name designates the attribute in no
   namespace (first without prefix and with that local name), deleted by position
   (repaired in 4117181); a prefixed name goes through getAttribute and
   list.remove, i.e. Attribute.__eq__ *)
Definition is_prefixed (qn : str) : bool :=
  match split_prefix qn with (Some _, _) => true | (None, _) => false end.
Definition d_unset (quirk : amode) (qn : str) (ch : list ndata) (d : ndata) : ndata :=
  match set_target qn ch d with
  | None => d                        (* nothing / attributes.remove(None) raises, swallowed *)
  | Some k => dw_attrs d (if is_prefixed qn then attrs_remove quirk k (d_attrs d)
                          else remove_nth k (d_attrs d))
  end.
Definition d_rename (qn : str) (d : ndata) : ndata :=
  let '(p, n) := split_prefix qn in dw_name (dw_prefix d p) n.
Definition d_set_prefix (p u : option str) (d : ndata) : ndata :=
  let d1 := dw_prefix d p in
  match p, u with
  | Some p', Some u' => dw_nsp (dw_expns d1 None) (dict_set p' u' (d_nsp d1))
  | _, _ => d1
  end.

Inductive nsarg := NsDefault (u : option str) | NsPrefixed (p u : str).

(* Element.applyns *)
Definition apply_ns (ns : option nsarg) (d : ndata) : ndata :=
  match ns with
  | None => d
  | Some (NsDefault u) => dw_expns d u
  | Some (NsPrefixed p u) => dw_nsp (dw_prefix d (Some p)) (dict_set p u (d_nsp d))
  end.

(* Element.__init__(name, None, ns) *)
Definition new_data (qn : str) (ns : option nsarg) : ndata :=
  let '(p, n) := split_prefix qn in apply_ns ns (mkD p n None [] [] None).

(* data of Element.clone()'s new root, from the chain of the original:
   Element(self.qname(), parent, self.namespace()); setText; attributes; own prefixes *)
Definition clone_data (ch : list ndata) (d : ndata) : ndata :=
  let ns := match ns_pair_chain ch with
            | (None, u) => NsDefault u
            | (Some p, Some u) => NsPrefixed p u
            | (Some p, None) => NsDefault None     (* not produced by ns_pair_chain *)
            end in
  let d0 := new_data (qname_of (d_prefix d) (d_name d)) (Some ns) in
  let d1 := dw_text d0 (d_text d) in
  let d2 := dw_attrs d1 (d_attrs d) in
  dw_nsp d2 (fold_left (fun m pu => dict_set (fst pu) (snd pu) m) (d_nsp d) (d_nsp d2)).

(* ------------------------------------------------------------------ *)
(* serialisation (Element.plain) on chains; text and attribute values are
   taken from an alphabet on which the encoder is the identity            *)
(* ------------------------------------------------------------------ *)
Definition s_lt : str := [60]%N.
Definition s_gt : str := [62]%N.
Definition s_sp : str := [32]%N.
Definition s_eq_q : str := [61; 34]%N.
Definition s_q : str := [34]%N.
Definition s_empty_end : str := [47; 62]%N.
Definition s_lt_slash : str := [60; 47]%N.
Definition s_xmlns : str := [32; 120; 109; 108; 110; 115]%N.     (* " xmlns" *)

(* Element.nsdeclarations; pch = chain of the parent ([] when there is none) *)
Definition nsdecls (d : ndata) (pch : list ndata) : str :=
  let pexp := match pch with [] => None | pd :: _ => d_expns pd end in
  (match d_expns d with
   | Some u => if ostr_eqb (Some u) pexp then [] else s_xmlns ++ s_eq_q ++ u ++ s_q
   | None => []
   end) ++
  concat (map (fun pu : str * str =>
                 let (p, u) := pu in
                 match pch with
                 | [] => s_xmlns ++ [ch_colon] ++ p ++ s_eq_q ++ u ++ s_q
                 | _ => if ostr_eqb (resolve_chain p pch) (Some u) then []
                        else s_xmlns ++ [ch_colon] ++ p ++ s_eq_q ++ u ++ s_q
                 end) (d_nsp d)).

Definition attr_str (a : attr) : str :=
  s_sp ++ qname_of (a_prefix a) (a_name a) ++ s_eq_q ++ a_value a ++ s_q.

Definition open_tag (d : ndata) (pch : list ndata) : str :=
  s_lt ++ qname_of (d_prefix d) (d_name d) ++ nsdecls d pch ++ concat (map attr_str (d_attrs d)).
Definition close_tag (d : ndata) : str := s_lt_slash ++ qname_of (d_prefix d) (d_name d) ++ s_gt.
Definition text_str (d : ndata) : str := match d_text d with Some t => t | None => [] end.
Definition is_empty_content (d : ndata) (nkids : nat) : bool :=      (* isempty() *)
  match nkids, d_text d with O, None => true | _, _ => false end.
Definition is_empty_all (d : ndata) (nkids : nat) : bool :=          (* isempty(False) *)
  is_empty_content d nkids && match d_attrs d with [] => true | _ => false end.

(* ------------------------------------------------------------------ *)
(* the MODEL: operations on the heap                                   *)
(* ------------------------------------------------------------------ *)

(* recursion over the heap runs on fuel; every id is below s_next *)
Definition fuel_of (s : store) : nat := S (N.to_nat (s_next s)).

(* the chain [x; x.parent; ...]: the `while n is not None: ... n = n.parent` walks *)
Fixpoint mchain (fuel : nat) (s : store) (n : option id) : list ndata :=
  match fuel, n with
  | S f, Some i => match get s i with
                   | Some c => c_data c :: mchain f s (c_parent c)
                   | None => []
                   end
  | _, _ => []
  end.
Definition chain_of (s : store) (x : id) : list ndata := mchain (fuel_of s) s (Some x).
Definition pchain_of (s : store) (x : id) : list ndata :=
  match get s x with Some c => mchain (fuel_of s) s (c_parent c) | None => [] end.

Inductive result :=
| RNone                          (* nothing of interest returned (self / None) *)
| RNodes (l : list id)           (* element(s) returned; a missing one is [] *)
| RAttr (k : option nat)         (* attribute found, by position *)
| RNs (u : option str)           (* namespace URI *)
| RErr.                          (* an exception *)

Inductive op :=
| ONew (qn : str) (ns : option nsarg)
| OAppend (p : id) (xs : list id)
| OInsert (p x : id) (idx : Z)
| ORemove (p x : id)
| ODetach (x : id)
| OReplace (p c : id) (content : list id)
| ODetachChildren (p : id)
| OPrune (x : id)
| OAddAttr (x : id) (qn v : str)
| OSet (x : id) (qn v : str)
| OUnset (x : id) (qn : str)
| ORemoveAttr (x : id) (k : nat)
| OSetText (x : id) (t : option str)
| ORename (x : id) (qn : str)
| OSetPrefix (x : id) (p u : option str)
| OAddPrefix (x : id) (p u : str)
| OClearPrefix (x : id) (p : str)
| OClone (x : id)
| OGetChild (p : id) (qn : str) (ns : option (option str))
| OGetChildren (p : id) (qn : option str) (ns : option (option str))
| OChildAtPath (p : id) (path : str)
| OChildrenAtPath (p : id) (path : str)
| OGetAttr (x : id) (qn : str) (ns : option (option str))
| ONamespace (x : id)
| OSetItem (p : id) (idx : Z) (x : id).        (* p[idx] = x *)

Definition upd_data (s : store) (x : id) (g : ndata -> ndata) : store :=
  match get s x with Some c => set s x (w_data c (g (c_data c))) | None => s end.
Definition set_parent (s : store) (x : id) (p : option id) : store :=
  match get s x with Some c => set s x (w_parent c p) | None => s end.
Definition upd_kids (s : store) (p : id) (g : list id -> list id) : store :=
  match get s p with Some c => set s p (w_kids c (g (c_kids c))) | None => s end.

(* Element.detach *)
Definition m_detach (s : store) (x : id) : store :=
  match get s x with
  | None => s
  | Some cx =>
    match c_parent cx with
    | None => s
    | Some p =>
      let s1 := match get s p with
                | Some cp => match index_of x (c_kids cp) with
                             | Some k => set s p (w_kids cp (remove_nth k (c_kids cp)))
                             | None => s
                             end
                | None => s
                end in
      set_parent s1 x None
    end
  end.

(* the code before commit 340f28c: `if self in parent.children: parent.children.remove(self)`
   where `in`/`remove` take the first element that IS self or == self, and
   Element.__eq__ is match(rhs.name, rhs.namespace()) *)
Definition elem_eq (s : store) (c x : id) : bool :=
  match chain_of s x with
  | [] => false
  | dx :: _ => match_chain (Some (d_name dx)) (Some (ns_uri_chain (chain_of s x))) (chain_of s c)
  end.
Definition m_detach_by_equality (s : store) (x : id) : store :=
  match get s x with
  | None => s
  | Some cx =>
    match c_parent cx with
    | None => s
    | Some p =>
      let s1 := upd_kids s p (remove_first_at (fun _ c => N.eqb c x || elem_eq s c x) 0) in
      set_parent s1 x None
    end
  end.

(* Element.remove(child): only a child of this very node is detached (2162efb) *)
Definition m_remove (s : store) (p x : id) : store * result :=
  match get s x with
  | Some cx => if opt_eqb N.eqb (c_parent cx) (Some p) then (m_detach s x, RNodes [x])
               else (s, RNodes [])
  | None => (s, RNodes [])
  end.

(* children.append(child); child.parent = self *)
Definition m_append1 (s : store) (p x : id) : store :=
  set_parent (upd_kids s p (fun k => k ++ [x])) x (Some p).
(* children.insert(index, child); child.parent = self *)
Definition m_insert (s : store) (p x : id) (idx : Z) : store :=
  set_parent (upd_kids s p (fun k => insert_at (py_pos idx (length k)) x k)) x (Some p).

Definition kids_of (s : store) (p : id) : list id :=
  match get s p with Some c => c_kids c | None => [] end.

(* Element.replaceChild *)
Definition m_replace (s : store) (p c : id) (content : list id) : store * result :=
  match index_of c (kids_of s p) with
  | None => (s, RErr)
  | Some index =>
    let s1 := fst (m_remove s p c) in
    (fst (fold_left (fun (st : store * nat) node =>
                       let (s', i) := st in
                       (m_insert (m_detach s' node) p node (Z.of_nat i), S i))
                    content (s1, index)), RNone)
  end.

(* Element.detachChildren *)
Definition m_detach_children (s : store) (p : id) : store * result :=
  let detached := kids_of s p in
  let s1 := upd_kids s p (fun _ => []) in
  (fold_left (fun s' ch => set_parent s' ch None) detached s1, RNodes detached).

Definition cell_empty_all (s : store) (x : id) : bool :=
  match get s x with Some c => is_empty_all (c_data c) (length (c_kids c)) | None => false end.

(* Element.prune *)
Fixpoint m_prune (fuel : nat) (s : store) (x : id) : store :=
  match fuel with
  | O => s
  | S f =>
    let st := fold_left (fun (st : store * list id) c =>
                           let s' := m_prune f (fst st) c in
                           (s', if cell_empty_all s' c then snd st ++ [c] else snd st))
                        (kids_of s x) (s, []) in
    fold_left (fun s' p => match index_of p (kids_of s' x) with
                           | Some k => set_parent (upd_kids s' x (remove_nth k)) p None
                           | None => s'        (* del l[None] raises *)
                           end) (snd st) (fst st)
  end.

(* Element.clone: the new root is allocated first, then the children in order *)
Fixpoint m_clone (fuel : nat) (s : store) (x : id) : store * option id :=
  match fuel with
  | O => (s, None)
  | S f =>
    match get s x with
    | None => (s, None)
    | Some cx =>
      let r := s_next s in
      let d := clone_data (chain_of s x) (c_data cx) in
      let s1 := mkS ((r, mkC None [] d) :: s_cells s) (N.succ r) in
      (fold_left (fun s' c => match m_clone f s' c with
                              | (s'', Some c') => m_append1 s'' r c'
                              | (s'', None) => s''
                              end) (c_kids cx) s1, Some r)
    end
  end.

(* Element.plain *)
Fixpoint m_plain (fuel : nat) (s : store) (x : id) : str :=
  match fuel with
  | O => []
  | S f =>
    match get s x with
    | None => []
    | Some c =>
      let d := c_data c in
      open_tag d (pchain_of s x) ++
      if is_empty_content d (length (c_kids c)) then s_empty_end
      else s_gt ++ text_str d ++ concat (map (m_plain f s) (c_kids c)) ++ close_tag d
    end
  end.
Definition plain_of (s : store) (x : id) : str := m_plain (fuel_of s) s x.

(* lookups *)
Definition m_get_children (s : store) (p : id) (qn : option str) (ns : option (option str)) : list id :=
  match qn, ns with
  | None, None => kids_of s p
  | _, _ =>
    let '(n, ns') := match qn with
                     | Some q => let '(n, ns') := lookup_key q ns (chain_of s p) in (Some n, ns')
                     | None => (None, ns)
                     end in
    filter (fun c => match_chain n ns' (chain_of s c)) (kids_of s p)
  end.
Definition m_get_child (s : store) (p : id) (qn : str) (ns : option (option str)) : option id :=
  let '(n, ns') := lookup_key qn ns (chain_of s p) in
  find (fun c => match_chain (Some n) ns' (chain_of s c)) (kids_of s p).

(* Element.childAtPath: empty steps skipped *)
Fixpoint m_child_at (s : store) (node : id) (parts : list str) (result : option id) : option id :=
  match parts with
  | [] => result
  | nm :: rest =>
    if nonempty nm then
      match m_get_child s node nm None with
      | None => None
      | Some c => m_child_at s c rest (Some c)
      end
    else m_child_at s node rest result
  end.

(* Element.childrenAtPath / __childrenAtPath *)
Fixpoint m_walk (s : store) (node : id) (ancestors : list str) : option id :=
  match ancestors with
  | [] => Some node
  | nm :: rest => match m_get_child s node nm None with
                  | None => None
                  | Some c => m_walk s c rest
                  end
  end.
Definition m_children_at (s : store) (x : id) (path : str) : result :=
  let parts := filter nonempty (split_slash path) in
  match parts with
  | [] => RErr                                   (* parts[-1] of an empty list *)
  | [one] => RNodes (m_get_children s x (Some one) None)    (* parts[0] (repaired in a8dfd54) *)
  | _ =>
    match m_walk s x (removelast parts) with
    | None => RNodes []
    | Some node => RNodes (m_get_children s node (Some (last parts [])) None)
    end
  end.

Definition opt_list {A} (o : option A) : list A := match o with Some x => [x] | None => [] end.

Definition step (quirk : amode) (s : store) (o : op) : store * result :=
  match o with
  | ONew qn ns =>
    let r := s_next s in
    (mkS ((r, mkC None [] (new_data qn ns)) :: s_cells s) (N.succ r), RNodes [r])
  | OAppend p xs => (fold_left (fun s' x => m_append1 s' p x) xs s, RNone)
  | OInsert p x idx => (m_insert s p x idx, RNone)
  | ORemove p x => m_remove s p x
  | ODetach x => (m_detach s x, RNodes [x])
  | OReplace p c content => m_replace s p c content
  | ODetachChildren p => m_detach_children s p
  | OPrune x => (m_prune (fuel_of s) s x, RNone)
  | OAddAttr x qn v => (upd_data s x (fun d => dw_attrs d (d_attrs d ++ [mk_attr qn v])), RNone)
  | OSet x qn v => (upd_data s x (d_set qn v (chain_of s x)), RNone)
  | OUnset x qn => (upd_data s x (d_unset quirk qn (chain_of s x)), RNone)
  | ORemoveAttr x k => (upd_data s x (fun d => dw_attrs d (attrs_remove quirk k (d_attrs d))), RNone)
  | OSetText x t => (upd_data s x (fun d => dw_text d t), RNone)
  | ORename x qn => (upd_data s x (d_rename qn), RNone)
  | OSetPrefix x p u => (upd_data s x (d_set_prefix p u), RNone)
  | OAddPrefix x p u => (upd_data s x (fun d => dw_nsp d (dict_set p u (d_nsp d))), RNone)
  | OClearPrefix x p => (upd_data s x (fun d => dw_nsp d (dict_del p (d_nsp d))), RNone)
  | OClone x => let (s', r) := m_clone (fuel_of s) s x in (s', RNodes (opt_list r))
  | OGetChild p qn ns => (s, RNodes (opt_list (m_get_child s p qn ns)))
  | OGetChildren p qn ns => (s, RNodes (m_get_children s p qn ns))
  | OChildAtPath p path => (s, RNodes (opt_list (m_child_at s p (split_slash path) None)))
  | OChildrenAtPath p path => (s, m_children_at s p path)
  | OGetAttr x qn ns => (s, RAttr (get_attr_chain qn ns (chain_of s x)))
  | ONamespace x => (s, RNs (ns_uri_chain (chain_of s x)))
  | OSetItem p idx x =>                         (* `if index < len(self.children)`: insert + parent link *)
    if (idx <? Z.of_nat (length (kids_of s p)))%Z then (m_insert s p x idx, RNone) else (s, RNone)
  end.

Definition run (quirk : amode) (s : store) (h : list op) : store :=
  fold_left (fun s' o => fst (step quirk s' o)) h s.

(* ------------------------------------------------------------------ *)
(* the REFERENCE: a forest of trees whose nodes carry their identity   *)
(* ------------------------------------------------------------------ *)

Inductive tree := T (i : id) (d : ndata) (k : forest)
with forest := F0 | F1 (t : tree) (f : forest).

Scheme tree_mut := Induction for tree Sort Prop
with forest_mut := Induction for forest Sort Prop.
Combined Scheme tree_forest_ind from tree_mut, forest_mut.

Definition rid (t : tree) : id := match t with T i _ _ => i end.
Definition rdata (t : tree) : ndata := match t with T _ d _ => d end.
Definition rkids (t : tree) : forest := match t with T _ _ k => k end.

Fixpoint fapp (a b : forest) : forest :=
  match a with F0 => b | F1 t a' => F1 t (fapp a' b) end.
Fixpoint flist (f : forest) : list tree :=
  match f with F0 => [] | F1 t f' => t :: flist f' end.
Fixpoint roots (f : forest) : list id :=
  match f with F0 => [] | F1 t f' => rid t :: roots f' end.

Fixpoint ids_t (t : tree) : list id :=
  match t with T i _ k => i :: ids_f k end
with ids_f (f : forest) : list id :=
  match f with F0 => [] | F1 t f' => ids_t t ++ ids_f f' end.

Definition mem (x : id) (l : list id) : bool := existsb (N.eqb x) l.

(* the heap cell a node of the forest stands for; par = parent of the trees of f *)
Fixpoint cell_t (par : option id) (t : tree) (x : id) : option cell :=
  match t with
  | T i d k => if N.eqb i x then Some (mkC par (roots k) d) else cell_f (Some i) k x
  end
with cell_f (par : option id) (f : forest) (x : id) : option cell :=
  match f with
  | F0 => None
  | F1 t f' => match cell_t par t x with Some c => Some c | None => cell_f par f' x end
  end.

Fixpoint find_t (t : tree) (x : id) : option tree :=
  match t with
  | T i d k => if N.eqb i x then Some t else find_f k x
  end
with find_f (f : forest) (x : id) : option tree :=
  match f with
  | F0 => None
  | F1 t f' => match find_t t x with Some r => Some r | None => find_f f' x end
  end.

(* data of x and of its ancestors, nearest first (acc = chain of the parent of the trees) *)
Fixpoint chain_t (acc : list ndata) (t : tree) (x : id) : option (list ndata) :=
  match t with
  | T i d k => if N.eqb i x then Some (d :: acc) else chain_f (d :: acc) k x
  end
with chain_f (acc : list ndata) (f : forest) (x : id) : option (list ndata) :=
  match f with
  | F0 => None
  | F1 t f' => match chain_t acc t x with Some r => Some r | None => chain_f acc f' x end
  end.

(* the forest without the tree rooted at x *)
Fixpoint remove_t (t : tree) (x : id) : tree :=
  match t with T i d k => T i d (remove_f k x) end
with remove_f (f : forest) (x : id) : forest :=
  match f with
  | F0 => F0
  | F1 t f' => if N.eqb (rid t) x then f' else F1 (remove_t t x) (remove_f f' x)
  end.

Fixpoint finsert (k : nat) (t : tree) (f : forest) : forest :=
  match k, f with
  | O, _ => F1 t f
  | S k', F1 y f' => F1 y (finsert k' t f')
  | S _, F0 => F1 t F0
  end.
Fixpoint flen (f : forest) : nat := match f with F0 => O | F1 _ f' => S (flen f') end.

(* tree t placed at position k among the children of p *)
Fixpoint place_t (u : tree) (p : id) (k : nat) (t : tree) : tree :=
  match u with
  | T i d kd => if N.eqb i p then T i d (finsert k t kd) else T i d (place_f kd p k t)
  end
with place_f (f : forest) (p : id) (k : nat) (t : tree) : forest :=
  match f with
  | F0 => F0
  | F1 u f' => F1 (place_t u p k t) (place_f f' p k t)
  end.

(* g applied to the subtree rooted at x *)
Fixpoint sub_t (t : tree) (x : id) (g : tree -> tree) : tree :=
  match t with
  | T i d k => if N.eqb i x then g t else T i d (sub_f k x g)
  end
with sub_f (f : forest) (x : id) (g : tree -> tree) : forest :=
  match f with
  | F0 => F0
  | F1 t f' => F1 (sub_t t x g) (sub_f f' x g)
  end.

Definition with_data (g : ndata -> ndata) (t : tree) : tree :=
  match t with T i d k => T i (g d) k end.
Definition with_kids (k' : forest) (t : tree) : tree :=
  match t with T i d _ => T i d k' end.

(* prune: children that end up with no children, no text and no attributes go *)
Definition tree_empty_all (t : tree) : bool :=
  match t with T _ d k => is_empty_all d (flen k) end.
Fixpoint prune_t (t : tree) : tree :=
  match t with T i d k => T i d (prune_f k) end
with prune_f (f : forest) : forest :=
  match f with
  | F0 => F0
  | F1 t f' => let t' := prune_t t in
               if tree_empty_all t' then prune_f f' else F1 t' (prune_f f')
  end.

(* ... and become parentless nodes of their own (their parent link is cleared:
   3923f6f); a node that goes has no children left *)
Fixpoint pruned_t (t : tree) : forest :=
  match t with T i d k => pruned_f k end
with pruned_f (f : forest) : forest :=
  match f with
  | F0 => F0
  | F1 t f' => let t' := prune_t t in
               fapp (pruned_t t) (if tree_empty_all t' then F1 t' (pruned_f f') else pruned_f f')
  end.

(* clone: same shape, fresh identities n, n+1, ... in document order *)
Fixpoint clone_t (n : N) (acc : list ndata) (t : tree) : tree * N :=
  match t with
  | T i d k => let (k', n') := clone_f (N.succ n) (d :: acc) k in
               (T n (clone_data (d :: acc) d) k', n')
  end
with clone_f (n : N) (acc : list ndata) (f : forest) : forest * N :=
  match f with
  | F0 => (F0, n)
  | F1 t f' => let (t', n1) := clone_t n acc t in
               let (f'', n2) := clone_f n1 acc f' in
               (F1 t' f'', n2)
  end.

Record rstate := mkR { r_forest : forest; r_next : N }.
Definition empty_rstate : rstate := mkR F0 0.

Definition parent_of (f : forest) (x : id) : option (option id) :=
  option_map c_parent (cell_f None f x).
Definition kids_ids (f : forest) (x : id) : list id :=
  match find_f f x with Some t => roots (rkids t) | None => [] end.
Definition rchain (f : forest) (x : id) : list ndata :=
  match chain_f [] f x with Some ch => ch | None => [] end.
Definition rpchain (f : forest) (x : id) : list ndata := tl (rchain f x).

(* x, with its subtree, becomes a root *)
Definition ref_detach (f : forest) (x : id) : option forest :=
  match find_f f x, parent_of f x with
  | Some t, Some (Some _) => Some (F1 t (remove_f f x))
  | Some t, Some None => Some f
  | _, _ => None
  end.

(* the detached root x is placed at position k (0..len) under p; p must not be
   inside x's own tree *)
Definition ref_place (f : forest) (p x : id) (k : nat) : option forest :=
  match find_f f x, parent_of f x, find_f f p with
  | Some t, Some None, Some tp =>
    if mem p (ids_t t) then None
    else if (k <=? flen (rkids tp))%nat then Some (place_f (remove_f f x) p k t)
    else None
  | _, _, _ => None
  end.

Definition ref_data (f : forest) (x : id) (g : ndata -> ndata) : option forest :=
  match find_f f x with
  | Some _ => Some (sub_f f x (with_data g))
  | None => None
  end.

Fixpoint all_distinct (l : list id) : bool :=
  match l with [] => true | x :: l' => negb (mem x l') && all_distinct l' end.

(* no attribute before position k has the local name of the one at k *)
Definition unshadowed (k : nat) (l : list attr) : bool :=
  match nth_error l k with
  | None => false
  | Some x => negb (existsb (fun e => str_eqb (a_name e) (a_name x)) (firstn k l))
  end.
Definition remove_attr_at (k : nat) (l : list attr) : list attr := remove_nth k l.

(* Lookups on the reference: document-order filter by (name, namespace). *)
Definition tree_matches (name : option str) (ns : option (option str)) (pch : list ndata) (t : tree) : bool :=
  match_chain name ns (rdata t :: pch).
Definition ref_children (f : forest) (p : id) (name : option str) (ns : option (option str)) : list id :=
  match find_f f p with
  | Some tp => map rid (filter (tree_matches name ns (rchain f p)) (flist (rkids tp)))
  | None => []
  end.
Definition ref_key (f : forest) (p : id) (qn : str) (ns : option (option str)) :=
  lookup_key qn ns (rchain f p).

Fixpoint ref_path (f : forest) (node : id) (steps : list str) : option id :=
  match steps with
  | [] => Some node
  | nm :: rest =>
    let '(n, ns) := ref_key f node nm None in
    match ref_children f node (Some n) ns with
    | [] => None
    | c :: _ => ref_path f c rest
    end
  end.

Definition live (f : forest) (x : id) : bool := mem x (ids_f f).

(* The reference step.  None = the reference says nothing about this edit:
   - a node that is not part of the forest;
   - append/insert of a node that still has a parent, or into its own subtree;
     (insert positions follow list.insert: negative from the end, clamped);
   - replaceChild whose content is not made of distinct nodes other than the
     child, or contains a child of the same parent (the position is then
     ambiguous), or an ancestor;
   - unset with a PREFIXED name / remove of an attribute object when an EARLIER
     attribute of the element has the same local name (list.remove goes by
     Attribute.__eq__);
   - childrenAtPath with an empty path. *)
Definition ref_step (rs : rstate) (o : op) : option (rstate * result) :=
  let f := r_forest rs in
  let n := r_next rs in
  let ret (f' : option forest) (r : result) :=
      match f' with Some f'' => Some (mkR f'' n, r) | None => None end in
  match o with
  | ONew qn ns => Some (mkR (F1 (T n (new_data qn ns) F0) f) (N.succ n), RNodes [n])
  | OAppend p xs =>
    ret (fold_left (fun (acc : option forest) x =>
                      match acc with
                      | Some f' => ref_place f' p x (length (kids_ids f' p))
                      | None => None
                      end) xs (if live f p then Some f else None)) RNone
  | OInsert p x idx => ret (ref_place f p x (py_pos idx (length (kids_ids f p)))) RNone
  | ORemove p x =>                       (* only a child of p is removed; otherwise nothing *)
    if live f p then
      match parent_of f x with
      | Some (Some q) => if N.eqb q p then ret (ref_detach f x) (RNodes [x]) else Some (rs, RNodes [])
      | Some None => Some (rs, RNodes [])
      | None => None
      end
    else None
  | ODetach x => ret (ref_detach f x) (RNodes [x])
  | OReplace p c content =>
    match index_of c (kids_ids f p) with
    | None => if live f p && live f c then Some (rs, RErr) else None   (* "child not-found" *)
    | Some k =>
      if all_distinct (c :: content)
         && forallb (fun x => negb (mem x (kids_ids f p))) content
      then ret (fst (fold_left (fun (st : option forest * nat) x =>
                                  match fst st with
                                  | Some f' => (match ref_detach f' x with
                                                | Some f'' => ref_place f'' p x (snd st)
                                                | None => None
                                                end, S (snd st))
                                  | None => (None, S (snd st))
                                  end) content (ref_detach f c, k))) RNone
      else None
    end
  | ODetachChildren p =>
    match find_f f p with
    | Some tp => Some (mkR (fapp (rkids tp) (sub_f f p (with_kids F0))) n, RNodes (roots (rkids tp)))
    | None => None
    end
  | OPrune x =>
    match find_f f x with
    | Some tx => Some (mkR (fapp (pruned_t tx) (sub_f f x prune_t)) n, RNone)
    | None => None
    end
  | OAddAttr x qn v => ret (ref_data f x (fun d => dw_attrs d (d_attrs d ++ [mk_attr qn v]))) RNone
  (* set: the attribute designated by the name (set_target: unprefixed = no
     namespace) gets the value, or a new attribute is appended; nothing else moves *)
  | OSet x qn v => ret (ref_data f x (d_set qn v (rchain f x))) RNone
  | OUnset x qn =>                       (* the attribute set_target designates goes, by position *)
    match find_f f x with
    | Some tx =>
      match set_target qn (rchain f x) (rdata tx) with
      | None => Some (rs, RNone)
      | Some k => if negb (is_prefixed qn) || unshadowed k (d_attrs (rdata tx))
                  then ret (ref_data f x (fun d => dw_attrs d (remove_attr_at k (d_attrs d)))) RNone
                  else None
      end
    | None => None
    end
  | ORemoveAttr x k =>
    match find_f f x with
    | Some tx => if unshadowed k (d_attrs (rdata tx))
                 then ret (ref_data f x (fun d => dw_attrs d (remove_attr_at k (d_attrs d)))) RNone
                 else None
    | None => None
    end
  | OSetText x t => ret (ref_data f x (fun d => dw_text d t)) RNone
  | ORename x qn => ret (ref_data f x (d_rename qn)) RNone
  | OSetPrefix x p u => ret (ref_data f x (d_set_prefix p u)) RNone
  | OAddPrefix x p u => ret (ref_data f x (fun d => dw_nsp d (dict_set p u (d_nsp d)))) RNone
  | OClearPrefix x p => ret (ref_data f x (fun d => dw_nsp d (dict_del p (d_nsp d)))) RNone
  | OClone x =>
    match find_f f x with
    | Some tx => let (t', n') := clone_t n (rpchain f x) tx in
                 Some (mkR (F1 t' f) n', RNodes [n])
    | None => None
    end
  | OGetChild p qn ns =>
    if live f p then
      let '(nm, ns') := ref_key f p qn ns in
      Some (rs, RNodes (firstn 1 (ref_children f p (Some nm) ns')))
    else None
  | OGetChildren p qn ns =>
    if live f p then
      match qn with
      | Some q => let '(nm, ns') := ref_key f p q ns in
                  Some (rs, RNodes (ref_children f p (Some nm) ns'))
      | None => Some (rs, RNodes (ref_children f p None ns))
      end
    else None
  | OChildAtPath p path =>
    if live f p then
      match filter nonempty (split_slash path) with
      | [] => Some (rs, RNodes [])
      | steps => Some (rs, RNodes (opt_list (ref_path f p steps)))
      end
    else None
  | OChildrenAtPath p path =>
    if live f p then
      let steps := filter nonempty (split_slash path) in
      match steps with
      | [] => None
      | [one] => let '(nm, ns') := ref_key f p one None in
                 Some (rs, RNodes (ref_children f p (Some nm) ns'))
      | _ => match ref_path f p (removelast steps) with
             | None => Some (rs, RNodes [])
             | Some node => let '(nm, ns') := ref_key f node (last steps []) None in
                            Some (rs, RNodes (ref_children f node (Some nm) ns'))
             end
      end
    else None
  | OGetAttr x qn ns =>
    if live f x then
      match rchain f x with
      | [] => None
      | d :: _ => let '(nm, ns') := ref_key f x qn ns in
                  Some (rs, RAttr (find_index (attr_match nm ns' (rchain f x)) (d_attrs d)))
      end
    else None
  | ONamespace x => if live f x then Some (rs, RNs (ns_uri_chain (rchain f x))) else None
  | OSetItem p idx x =>                  (* an insert when idx is below the number of children *)
    if live f p then
      if (idx <? Z.of_nat (length (kids_ids f p)))%Z
      then ret (ref_place f p x (py_pos idx (length (kids_ids f p)))) RNone
      else Some (rs, RNone)
    else None
  end.

Fixpoint ref_run (rs : rstate) (h : list op) : option rstate :=
  match h with
  | [] => Some rs
  | o :: h' => match ref_step rs o with
               | Some (rs', _) => ref_run rs' h'
               | None => None
               end
  end.

(* Element.plain on the reference; pch = chain of the parent *)
Fixpoint plain_t (pch : list ndata) (t : tree) : str :=
  match t with
  | T i d k =>
    open_tag d pch ++
    if is_empty_content d (flen k) then s_empty_end
    else s_gt ++ text_str d ++ plain_f (d :: pch) k ++ close_tag d
  end
with plain_f (pch : list ndata) (f : forest) : str :=
  match f with
  | F0 => []
  | F1 t f' => plain_t pch t ++ plain_f pch f'
  end.
Definition ref_plain (f : forest) (x : id) : str :=
  match find_f f x with Some t => plain_t (rpchain f x) t | None => [] end.

(* what a clone must have in common with its original: local names, element
   prefixes, resolved element namespaces, attributes, text, shape *)
Inductive sem := Sem (pfx : option str) (name : str) (ns : option str) (attrs : list attr)
                     (text : option str) (kids : list sem).
Fixpoint sem_t (pch : list ndata) (t : tree) : sem :=
  match t with
  | T i d k => Sem (d_prefix d) (d_name d) (ns_uri_chain (d :: pch)) (d_attrs d) (d_text d)
                   (sem_f (d :: pch) k)
  end
with sem_f (pch : list ndata) (f : forest) : list sem :=
  match f with
  | F0 => []
  | F1 t f' => sem_t pch t :: sem_f pch f'
  end.

(* ------------------------------------------------------------------ *)
(* boolean equalities                                                  *)
(* ------------------------------------------------------------------ *)
Definition attr_eqb (a b : attr) : bool :=
  ostr_eqb (a_prefix a) (a_prefix b) && str_eqb (a_name a) (a_name b) && str_eqb (a_value a) (a_value b).
Definition pair_eqb (a b : str * str) : bool := str_eqb (fst a) (fst b) && str_eqb (snd a) (snd b).
Definition ndata_eqb (a b : ndata) : bool :=
  ostr_eqb (d_prefix a) (d_prefix b) && str_eqb (d_name a) (d_name b) &&
  ostr_eqb (d_expns a) (d_expns b) && list_eqb pair_eqb (d_nsp a) (d_nsp b) &&
  list_eqb attr_eqb (d_attrs a) (d_attrs b) && ostr_eqb (d_text a) (d_text b).
Definition cell_eqb (a b : cell) : bool :=
  opt_eqb N.eqb (c_parent a) (c_parent b) && list_eqb N.eqb (c_kids a) (c_kids b) &&
  ndata_eqb (c_data a) (c_data b).
Definition result_eqb (a b : result) : bool :=
  match a, b with
  | RNone, RNone => true
  | RNodes x, RNodes y => list_eqb N.eqb x y
  | RAttr x, RAttr y => opt_eqb Nat.eqb x y
  | RNs x, RNs y => ostr_eqb x y
  | RErr, RErr => true
  | _, _ => false
  end.
Fixpoint sem_eqb (a b : sem) : bool :=
  match a, b with
  | Sem p1 n1 u1 a1 t1 k1, Sem p2 n2 u2 a2 t2 k2 =>
    ostr_eqb p1 p2 && str_eqb n1 n2 && ostr_eqb u1 u2 && list_eqb attr_eqb a1 a2 && ostr_eqb t1 t2 &&
    (fix go (x y : list sem) : bool :=
       match x, y with
       | [], [] => true
       | s1 :: x', s2 :: y' => sem_eqb s1 s2 && go x' y'
       | _, _ => false
       end) k1 k2
  end.

(* ------------------------------------------------------------------ *)
(* the predicates the harness evaluates                                *)
(* ------------------------------------------------------------------ *)

(* What the harness saw after one step: the value returned; how many Element
   objects it holds; for every object whose picture changed (all of them after
   the first step) its parent and children -- walked through the object links and
   mapped back to ids by identity -- and its own fields; the ids of the parentless
   objects; plain() of those whose text changed.  The pictures accumulate in a
   view (newest first). *)
Record obs := mkO { o_res : result; o_count : N; o_delta : list (id * cell);
                    o_roots : list id; o_plain : list (id * str) }.
Record view := mkV { v_cells : list (id * cell); v_plains : list (id * str) }.
Definition view_add (v : view) (o : obs) : view :=
  mkV (o_delta o ++ v_cells v) (o_plain o ++ v_plains v).
Fixpoint plookup (l : list (id * str)) (i : id) : option str :=
  match l with
  | [] => None
  | (j, p) :: l' => if N.eqb j i then Some p else plookup l' i
  end.

Record ccase := mkCase {
  k_quirk : amode;                     (* how attributes are removed, as probed *)
  k_setup : list op;                   (* run first *)
  k_base : view;                       (* the harness' picture after the setup *)
  k_steps : list (op * obs)
}.

Fixpoint nseq (start : N) (len : nat) : list N :=
  match len with O => [] | S l => start :: nseq (N.succ start) l end.

Definition view_matches_store (s : store) (v : view) (o : obs) : bool :=
  N.eqb (s_next s) (o_count o) &&
  forallb (fun i => match get s i, lookup (v_cells v) i with
                    | Some c, Some c' => cell_eqb c c'
                    | _, _ => false
                    end) (nseq 0 (N.to_nat (s_next s))) &&
  forallb (fun r => match plookup (v_plains v) r with
                    | Some p => str_eqb (plain_of s r) p
                    | None => false
                    end) (o_roots o).

Fixpoint agrees_from (q : amode) (s : store) (v : view) (steps : list (op * obs)) : bool :=
  match steps with
  | [] => true
  | (o, ob) :: rest =>
    let (s', r) := step q s o in
    let v' := view_add v ob in
    result_eqb r (o_res ob) && view_matches_store s' v' ob && agrees_from q s' v' rest
  end.

(* model = implementation, after every step *)
Definition c19_agrees (c : ccase) : bool :=
  agrees_from (k_quirk c) (run (k_quirk c) empty_store (k_setup c)) (k_base c) (k_steps c).

Definition view_meets_reference (rs : rstate) (v : view) (o : obs) : bool :=
  let f := r_forest rs in
  forallb (fun i => match cell_f None f i, lookup (v_cells v) i with
                    | Some c, Some c' => cell_eqb c c'
                    | _, _ => false
                    end) (ids_f f) &&
  forallb (fun r => mem r (o_roots o) &&
                    match plookup (v_plains v) r with
                    | Some p => str_eqb (ref_plain f r) p
                    | None => false
                    end) (roots f).

(* names as the constructor splits them: no colon in a prefix, and none in the
   local name of an element without prefix (Element(qname) would split it again) *)
Definition named_ok (d : ndata) : bool :=
  let '(p, n) := split_prefix (qname_of (d_prefix d) (d_name d)) in
  ostr_eqb p (d_prefix d) && str_eqb n (d_name d).
Fixpoint well_named_t (t : tree) : bool :=
  match t with T _ d k => named_ok d && well_named_f k end
with well_named_f (f : forest) : bool :=
  match f with F0 => true | F1 t f' => well_named_t t && well_named_f f' end.

(* a clone is an equal tree made of new nodes, and nothing else moved *)
Definition clone_ok (rs rs' : rstate) (o : op) : bool :=
  match o with
  | OClone x =>
    match find_f (r_forest rs) x, r_forest rs' with
    | Some tx, F1 t' _ =>
      (negb (well_named_t tx) || sem_eqb (sem_t [] t') (sem_t (rpchain (r_forest rs) x) tx)) &&
      forallb (fun i => (r_next rs <=? i)%N) (ids_t t')
    | _, _ => false
    end
  | _ => true
  end.

(* After an edit outside the reference's domain the comparison starts again from
   the implementation's own state, when that state is a forest: the trees hanging
   off the parentless objects, rebuilt from the pictures in the view and checked
   against them (no id twice, every node is the cell pictured). *)
Fixpoint build_t (fuel : nat) (cells : list (id * cell)) (i : id) : option tree :=
  match fuel with
  | O => None
  | S f =>
    match lookup cells i with
    | None => None
    | Some c =>
      match (fix go (l : list id) : option forest :=
               match l with
               | [] => Some F0
               | x :: l' => match build_t f cells x, go l' with
                            | Some t, Some r => Some (F1 t r)
                            | _, _ => None
                            end
               end) (c_kids c) with
      | Some k => Some (T i (c_data c) k)
      | None => None
      end
    end
  end.
Fixpoint build_roots (fuel : nat) (cells : list (id * cell)) (l : list id) : option forest :=
  match l with
  | [] => Some F0
  | x :: l' => match build_t fuel cells x, build_roots fuel cells l' with
               | Some t, Some r => Some (F1 t r)
               | _, _ => None
               end
  end.
Definition resync (v : view) (o : obs) : option rstate :=
  match build_roots (S (N.to_nat (o_count o))) (v_cells v) (o_roots o) with
  | None => None
  | Some f =>
    if all_distinct (ids_f f) &&
       forallb (fun i => match cell_f None f i, lookup (v_cells v) i with
                         | Some c, Some c' => cell_eqb c c'
                         | _, _ => false
                         end) (ids_f f) &&
       forallb (fun i => (i <? o_count o)%N) (ids_f f)
    then Some (mkR f (o_count o)) else None
  end.

Definition is_lookup (o : op) : bool :=
  match o with
  | OGetChild _ _ _ | OGetChildren _ _ _ | OChildAtPath _ _ | OChildrenAtPath _ _
  | OGetAttr _ _ _ | ONamespace _ => true
  | _ => false
  end.

Fixpoint spec_from (rs : rstate) (v : view) (steps : list (op * obs)) : bool :=
  match steps with
  | [] => true
  | (o, ob) :: rest =>
    let v' := view_add v ob in
    match ref_step rs o with
    | None => if is_lookup o then spec_from rs v' rest   (* no claim about this lookup *)
              else match resync v' ob with               (* no claim about this edit; *)
                   | Some rs2 => spec_from rs2 v' rest    (* go on from the state it left *)
                   | None => true                         (* ... unless that is not a forest *)
                   end
    | Some (rs', r) =>
      result_eqb r (o_res ob) && view_meets_reference rs' v' ob && clone_ok rs rs' o &&
      spec_from rs' v' rest
    end
  end.

(* the implementation's own outputs meet the reference, after every step *)
Definition c19_spec_ok (c : ccase) : bool :=
  match ref_run empty_rstate (k_setup c) with
  | None => true
  | Some rs => spec_from rs (k_base c) (k_steps c)
  end.

(* how many steps of the case the reference covers (for the harness' statistics) *)
Fixpoint covered_from (rs : rstate) (steps : list (op * obs)) : nat :=
  match steps with
  | [] => O
  | (o, _) :: rest => match ref_step rs o with
                      | None => if is_lookup o then covered_from rs rest else O
                      | Some (rs', _) => S (covered_from rs' rest)
                      end
  end.
Definition c19_covered (c : ccase) : nat :=
  match ref_run empty_rstate (k_setup c) with
  | None => O
  | Some rs => covered_from rs (k_steps c)
  end.
Fixpoint inside_from (rs : rstate) (steps : list (op * obs)) : bool :=
  match steps with
  | [] => true
  | (o, _) :: rest => match ref_step rs o with
                      | None => if is_lookup o then inside_from rs rest else false
                      | Some (rs', _) => inside_from rs' rest
                      end
  end.
(* every edit of the case is inside the reference's domain *)
Definition c19_inside (c : ccase) : bool :=
  match ref_run empty_rstate (k_setup c) with
  | None => false
  | Some rs => inside_from rs (k_steps c)
  end.
