(* C19 -- facts about the reference forest only, part 2: remove, place, detachChildren *)
From SV Require Import Lib.Base C19.Model C19.Rel C19.ForestFacts.
From Coq Require Import Permutation.

(* ---------------- small facts ---------------- *)
Local Arguments mem : simpl never.
Lemma mem_cons x y l : mem x (y :: l) = N.eqb x y || mem x l.
Proof. reflexivity. Qed.
Lemma mem_nil x : mem x [] = false.
Proof. reflexivity. Qed.
Lemma mem_app x a b : mem x (a ++ b) = mem x a || mem x b.
Proof. unfold mem. apply existsb_app. Qed.

Lemma drop_kid_notin x c : ~ In x (c_kids c) -> drop_kid x c = c.
Proof.
  intros H. unfold drop_kid, w_kids. rewrite (filter_neqb_notin _ _ H). destruct c; reflexivity.
Qed.

Lemma nodup_app_l {A} (a b : list A) : NoDup (a ++ b) -> NoDup a.
Proof. intros H. apply nodup_app in H. tauto. Qed.
Lemma nodup_app_r {A} (a b : list A) : NoDup (a ++ b) -> NoDup b.
Proof. intros H. apply nodup_app in H. tauto. Qed.
Lemma nodup_app_lr {A} (a b : list A) x : NoDup (a ++ b) -> In x a -> ~ In x b.
Proof. intros H H1 H2. apply nodup_app in H. destruct H as [_ [_ H]]. eauto. Qed.
Lemma nodup_app_rl {A} (a b : list A) x : NoDup (a ++ b) -> In x b -> ~ In x a.
Proof. intros H H1 H2. apply nodup_app in H. destruct H as [_ [_ H]]. eauto. Qed.

(* ---------------- find, tree and forest together ---------------- *)
Lemma ff_sub :
  (forall u x t, find_t u x = Some t -> rid t = x /\ incl (ids_t t) (ids_t u)) /\
  (forall f x t, find_f f x = Some t -> rid t = x /\ incl (ids_t t) (ids_f f)).
Proof.
  apply tree_forest_ind; cbn; intros.
  - destruct (N.eqb i x) eqn:E.
    + inversion H0; subst. cbn. apply N.eqb_eq in E. split; [assumption|apply incl_refl].
    + destruct (H _ _ H0) as [H1 H2]. split; [assumption|]. intros y Hy. right. now apply H2.
  - discriminate.
  - destruct (find_t t x) eqn:E.
    + inversion H1; subst. destruct (H _ _ E) as [H2 H3]. split; [assumption|].
      intros y Hy. apply in_or_app. left. now apply H3.
    + destruct (H0 _ _ H1) as [H2 H3]. split; [assumption|].
      intros y Hy. apply in_or_app. right. now apply H3.
Qed.
Definition ff_sub_t := proj1 ff_sub.
Definition ff_sub_f := proj2 ff_sub.

Lemma ff_in_t u x t : find_t u x = Some t -> In x (ids_t u).
Proof. intros H. destruct (ff_sub_t _ _ _ H) as [H1 H2]. apply H2. rewrite <- H1. apply rid_in. Qed.
Lemma ff_in_f f x t : find_f f x = Some t -> In x (ids_f f).
Proof. intros H. destruct (ff_sub_f _ _ _ H) as [H1 H2]. apply H2. rewrite <- H1. apply rid_in. Qed.

Lemma ff_none :
  (forall u x, ~ In x (ids_t u) -> find_t u x = None) /\
  (forall f x, ~ In x (ids_f f) -> find_f f x = None).
Proof.
  apply tree_forest_ind; cbn; intros.
  - destruct (N.eqb i x) eqn:E.
    + apply N.eqb_eq in E. subst. exfalso. apply H0. now left.
    + apply H. intros H1. apply H0. now right.
  - reflexivity.
  - rewrite H, H0; [reflexivity| |]; intros H2; apply H1; apply in_or_app; auto.
Qed.
Definition ff_none_t := proj1 ff_none.
Definition ff_none_f := proj2 ff_none.

Lemma ff_some :
  (forall u x, In x (ids_t u) -> exists t, find_t u x = Some t) /\
  (forall f x, In x (ids_f f) -> exists t, find_f f x = Some t).
Proof.
  apply tree_forest_ind; cbn; intros.
  - destruct (N.eqb i x) eqn:E; [eexists; reflexivity|].
    destruct H0 as [H0|H0]; [subst; rewrite N.eqb_refl in E; discriminate|]. now apply H.
  - contradiction.
  - apply in_app_or in H1. destruct H1 as [H1|H1].
    + destruct (H x H1) as [c Hc]. rewrite Hc. now exists c.
    + destruct (find_t t x); [eexists; reflexivity|]. now apply H0.
Qed.

Lemma ff_notin_t u x : find_t u x = None -> ~ In x (ids_t u).
Proof. intros H H1. destruct (proj1 ff_some _ _ H1) as [t Ht]. congruence. Qed.
Lemma ff_notin_f f x : find_f f x = None -> ~ In x (ids_f f).
Proof. intros H H1. destruct (proj2 ff_some _ _ H1) as [t Ht]. congruence. Qed.

Lemma ff_nodup :
  (forall u x t, NoDup (ids_t u) -> find_t u x = Some t -> NoDup (ids_t t)) /\
  (forall f x t, NoDup (ids_f f) -> find_f f x = Some t -> NoDup (ids_t t)).
Proof.
  apply tree_forest_ind; cbn; intros.
  - destruct (N.eqb i x) eqn:E.
    + inversion H1; subst. exact H0.
    + inversion H0; subst. eapply H; eassumption.
  - discriminate.
  - destruct (find_t t x) eqn:E.
    + inversion H2; subst. eapply H; [eapply nodup_app_l; eassumption|eassumption].
    + eapply H0; [eapply nodup_app_r; eassumption|eassumption].
Qed.

Lemma find_t_rid_self t : find_t t (rid t) = Some t.
Proof. destruct t. cbn. now rewrite N.eqb_refl. Qed.

(* ---------------- remove ---------------- *)
Lemma remove_notin_both :
  (forall t x, ~ In x (ids_t t) -> remove_t t x = t) /\
  (forall f x, ~ In x (ids_f f) -> remove_f f x = f).
Proof.
  apply tree_forest_ind; cbn; intros.
  - f_equal. apply H. intros H1. apply H0. now right.
  - reflexivity.
  - destruct (N.eqb (rid t) x) eqn:E.
    + apply N.eqb_eq in E. subst. exfalso. apply H1. apply in_or_app. left. apply rid_in.
    + rewrite H, H0; [reflexivity| |]; intros H2; apply H1; apply in_or_app; auto.
Qed.

Lemma remove_notin : forall f x, ~ In x (ids_f f) -> remove_f f x = f.
Proof. exact (proj2 remove_notin_both). Qed.

Lemma rid_remove t x : rid (remove_t t x) = rid t.
Proof. destruct t; reflexivity. Qed.

Lemma roots_remove f x : NoDup (ids_f f) -> roots (remove_f f x) = filter (neqb x) (roots f).
Proof.
  induction f as [|t f IH]; cbn; intros H; [reflexivity|].
  unfold neqb at 1. destruct (N.eqb (rid t) x) eqn:E; cbn.
  - apply N.eqb_eq in E. subst. symmetry. apply filter_neqb_notin.
    intros H1. apply roots_incl in H1. eapply nodup_app_lr; [eassumption|apply rid_in|assumption].
  - rewrite rid_remove. f_equal. apply IH. eapply nodup_app_r; eassumption.
Qed.

Lemma remove_cell_both :
  (forall t par x i, NoDup (ids_t t) -> rid t <> x ->
     cell_t par (remove_t t x) i =
     if mem i (match find_t t x with Some r => ids_t r | None => [] end) then None
     else option_map (drop_kid x) (cell_t par t i)) /\
  (forall f par x i, NoDup (ids_f f) ->
     cell_f par (remove_f f x) i =
     if mem i (subtree_ids f x) then None else option_map (drop_kid x) (cell_f par f i)).
Proof.
  apply tree_forest_ind.
  - intros j d k IH par x i Hnd Hne. cbn in Hne. cbn.
    destruct (N.eqb j x) eqn:Ejx; [apply N.eqb_eq in Ejx; contradiction|].
    inversion Hnd; subst.
    destruct (N.eqb j i) eqn:Eji.
    + apply N.eqb_eq in Eji. subst i.
      assert (Hm : mem j (match find_f k x with Some r => ids_t r | None => [] end) = false).
      { apply mem_false. destruct (find_f k x) eqn:Ef; [|intros []].
        intros H. apply H1. eapply ff_sub_f; eassumption. }
      rewrite Hm. cbn. unfold drop_kid, w_kids. cbn. rewrite roots_remove by assumption. reflexivity.
    + apply IH. assumption.
  - intros. reflexivity.
  - intros t IHt f IHf par x i Hnd. cbn in Hnd. unfold subtree_ids. cbn.
    destruct (N.eqb (rid t) x) eqn:E.
    + apply N.eqb_eq in E. subst x. rewrite find_t_rid_self.
      destruct (mem i (ids_t t)) eqn:Em.
      * apply mem_In in Em. apply cell_f_none. eapply nodup_app_lr; eassumption.
      * apply mem_false in Em. rewrite (cell_t_none _ par _ Em).
        destruct (cell_f par f i) eqn:Ec; [|reflexivity]. cbn. f_equal. symmetry.
        apply drop_kid_notin. intros H. apply (cell_kids_incl _ _ _ _ Ec) in H.
        eapply nodup_app_lr; [eassumption|apply rid_in|assumption].
    + cbn. apply N.eqb_neq in E.
      rewrite IHt by (try assumption; eapply nodup_app_l; eassumption).
      rewrite IHf by (eapply nodup_app_r; eassumption). unfold subtree_ids.
      destruct (find_t t x) eqn:Ef.
      * assert (Hx : ~ In x (ids_f f)).
        { eapply nodup_app_lr; [eassumption|eapply ff_in_t; eassumption]. }
        rewrite (ff_none_f _ _ Hx). cbn.
        destruct (mem i (ids_t t0)) eqn:Em.
        -- apply mem_In in Em. rewrite cell_f_none; [reflexivity|].
           eapply nodup_app_lr; [eassumption|]. eapply ff_sub_t; eassumption.
        -- destruct (cell_t par t i); reflexivity.
      * cbn. destruct (mem i (match find_f f x with Some t0 => ids_t t0 | None => [] end)) eqn:Em.
        -- rewrite cell_t_none; [reflexivity|]. apply mem_In in Em.
           destruct (find_f f x) eqn:Ef2; [|destruct Em].
           eapply nodup_app_rl; [eassumption|]. eapply ff_sub_f; eassumption.
        -- destruct (cell_t par t i); reflexivity.
Qed.

Lemma remove_cell : forall f par x i, NoDup (ids_f f) ->
  cell_f par (remove_f f x) i =
  if mem i (subtree_ids f x) then None else option_map (drop_kid x) (cell_f par f i).
Proof. exact (proj2 remove_cell_both). Qed.

Lemma perm_swap3 {A} (a b c : list A) : Permutation (a ++ b ++ c) (b ++ a ++ c).
Proof.
  rewrite !app_assoc. apply Permutation_app_tail. apply Permutation_app_comm.
Qed.

Lemma remove_perm_both :
  (forall u x t, NoDup (ids_t u) -> rid u <> x -> find_t u x = Some t ->
     Permutation (ids_t u) (ids_t t ++ ids_t (remove_t u x))) /\
  (forall f x t, NoDup (ids_f f) -> find_f f x = Some t ->
     Permutation (ids_f f) (ids_t t ++ ids_f (remove_f f x))).
Proof.
  apply tree_forest_ind.
  - intros j d k IH x t Hnd Hne Hf. cbn in *.
    destruct (N.eqb j x) eqn:Ejx; [apply N.eqb_eq in Ejx; contradiction|].
    inversion Hnd; subst. apply Permutation_cons_app. now apply IH.
  - intros x t _ H. discriminate.
  - intros u IHu f IHf x t Hnd Hf. cbn in *.
    destruct (N.eqb (rid u) x) eqn:E.
    + apply N.eqb_eq in E. subst x. rewrite find_t_rid_self in Hf. inversion Hf; subst. apply Permutation_refl.
    + apply N.eqb_neq in E. cbn. destruct (find_t u x) eqn:Ef.
      * inversion Hf; subst t0.
        assert (Hx : ~ In x (ids_f f)).
        { eapply nodup_app_lr; [eassumption|eapply ff_in_t; eassumption]. }
        rewrite (remove_notin _ _ Hx). rewrite app_assoc. apply Permutation_app_tail.
        apply IHu; [eapply nodup_app_l; eassumption|assumption|assumption].
      * rewrite (proj1 remove_notin_both _ _ (ff_notin_t _ _ Ef)).
        eapply Permutation_trans; [|apply perm_swap3]. apply Permutation_app_head.
        apply IHf; [eapply nodup_app_r; eassumption|assumption].
Qed.

Lemma remove_perm : forall f x t, NoDup (ids_f f) -> find_f f x = Some t ->
  Permutation (ids_f f) (ids_t t ++ ids_f (remove_f f x)).
Proof. exact (proj2 remove_perm_both). Qed.

(* ---------------- place ---------------- *)
Lemma roots_finsert k t f : roots (finsert k t f) = insert_at k (rid t) (roots f).
Proof.
  revert f. induction k as [|k IH]; intros f; [reflexivity|].
  destruct f as [|y f]; cbn; [reflexivity|]. f_equal. apply IH.
Qed.

Lemma cell_finsert k t f par i :
  cell_t par t i = None \/ cell_f par f i = None ->
  cell_f par (finsert k t f) i =
  match cell_f par f i with Some c => Some c | None => cell_t par t i end.
Proof.
  revert f. induction k as [|k IH]; intros f H.
  - cbn. destruct H as [H|H]; rewrite H.
    + destruct (cell_f par f i); reflexivity.
    + destruct (cell_t par t i); reflexivity.
  - destruct f as [|y f]; cbn.
    + destruct (cell_t par t i); reflexivity.
    + cbn in H. destruct (cell_t par y i) eqn:Ey; [reflexivity|]. now apply IH.
Qed.

Lemma perm_finsert k t f : Permutation (ids_f (finsert k t f)) (ids_t t ++ ids_f f).
Proof.
  revert f. induction k as [|k IH]; intros f; [apply Permutation_refl|].
  destruct f as [|y f]; cbn; [apply Permutation_refl|].
  eapply Permutation_trans; [|apply perm_swap3]. apply Permutation_app_head. apply IH.
Qed.

Lemma rid_place u p k t : rid (place_t u p k t) = rid u.
Proof. destruct u. cbn. destruct (N.eqb i p); reflexivity. Qed.

Lemma roots_place f p k t : roots (place_f f p k t) = roots f.
Proof.
  induction f as [|u f IH]; cbn; [reflexivity|]. rewrite rid_place. now f_equal.
Qed.

Lemma place_notin_both :
  (forall u p k t, ~ In p (ids_t u) -> place_t u p k t = u) /\
  (forall f p k t, ~ In p (ids_f f) -> place_f f p k t = f).
Proof.
  apply tree_forest_ind; cbn; intros.
  - destruct (N.eqb i p) eqn:E.
    + apply N.eqb_eq in E. subst. exfalso. apply H0. now left.
    + f_equal. apply H. intros H1. apply H0. now right.
  - reflexivity.
  - rewrite H, H0; [reflexivity| |]; intros H2; apply H1; apply in_or_app; auto.
Qed.

Lemma place_cell_both :
  (forall u par p k t i,
     (forall j, In j (ids_t t) -> ~ In j (ids_t u)) ->
     cell_t par (place_t u p k t) i =
     match cell_t par u i with
     | Some c => Some (if N.eqb i p then w_kids c (insert_at k (rid t) (c_kids c)) else c)
     | None => if mem p (ids_t u) then cell_t (Some p) t i else None
     end) /\
  (forall f par p k t i,
     (forall j, In j (ids_t t) -> ~ In j (ids_f f)) ->
     cell_f par (place_f f p k t) i =
     match cell_f par f i with
     | Some c => Some (if N.eqb i p then w_kids c (insert_at k (rid t) (c_kids c)) else c)
     | None => if mem p (ids_f f) then cell_t (Some p) t i else None
     end).
Proof.
  apply tree_forest_ind.
  - intros j d kd IH par p k t i Hd. cbn. rewrite mem_cons.
    assert (Hd' : forall j0, In j0 (ids_t t) -> ~ In j0 (ids_f kd)).
    { intros j0 H0 H1. apply (Hd j0 H0). cbn. now right. }
    destruct (N.eqb j p) eqn:Ejp.
    + apply N.eqb_eq in Ejp. subst j. rewrite N.eqb_refl. cbn.
      destruct (N.eqb p i) eqn:Epi.
      * apply N.eqb_eq in Epi. subst i. rewrite N.eqb_refl. unfold w_kids. cbn.
        now rewrite roots_finsert.
      * rewrite cell_finsert.
        -- destruct (cell_f (Some p) kd i); [|reflexivity].
           rewrite N.eqb_sym, Epi. reflexivity.
        -- destruct (cell_f (Some p) kd i) eqn:Ec; [|now right]. left.
           apply cell_t_none. intros H. apply (Hd' i H). eapply cell_f_in; eassumption.
    + cbn. rewrite (N.eqb_sym p j), Ejp. cbn.
      destruct (N.eqb j i) eqn:Eji.
      * apply N.eqb_eq in Eji. subst i. rewrite Ejp. unfold w_kids. cbn. now rewrite roots_place.
      * apply IH. assumption.
  - intros. reflexivity.
  - intros u IHu f IHf par p k t i Hd. cbn. rewrite mem_app.
    rewrite IHu by (intros j H0 H1; apply (Hd j H0); cbn; apply in_or_app; auto).
    rewrite IHf by (intros j H0 H1; apply (Hd j H0); cbn; apply in_or_app; auto).
    destruct (cell_t par u i) eqn:Eu; [reflexivity|].
    destruct (mem p (ids_t u)) eqn:Em; cbn; [|reflexivity].
    destruct (cell_t (Some p) t i) eqn:Et.
    + rewrite cell_f_none; [reflexivity|]. intros H.
      apply (Hd i); [eapply cell_t_in; eassumption|cbn; apply in_or_app; auto].
    + destruct (cell_f par f i); [reflexivity|]. destruct (mem p (ids_f f)); reflexivity.
Qed.

Lemma place_cell : forall f par p k t i,
  (forall j, In j (ids_t t) -> ~ In j (ids_f f)) ->
  cell_f par (place_f f p k t) i =
  match cell_f par f i with
  | Some c => Some (if N.eqb i p then w_kids c (insert_at k (rid t) (c_kids c)) else c)
  | None => if mem p (ids_f f) then cell_t (Some p) t i else None
  end.
Proof. exact (proj2 place_cell_both). Qed.

Lemma place_perm_both :
  (forall u p k t, NoDup (ids_t u) -> In p (ids_t u) ->
     Permutation (ids_t (place_t u p k t)) (ids_t t ++ ids_t u)) /\
  (forall f p k t, NoDup (ids_f f) -> In p (ids_f f) ->
     Permutation (ids_f (place_f f p k t)) (ids_t t ++ ids_f f)).
Proof.
  apply tree_forest_ind.
  - intros j d kd IH p k t Hnd Hin. cbn in *. inversion Hnd; subst.
    destruct (N.eqb j p) eqn:Ejp; cbn; apply Permutation_cons_app.
    + apply perm_finsert.
    + apply IH; [assumption|]. destruct Hin as [Hin|Hin]; [|assumption].
      subst. rewrite N.eqb_refl in Ejp. discriminate.
  - intros p k t _ [].
  - intros u IHu f IHf p k t Hnd Hin. cbn in *. apply in_app_or in Hin. destruct Hin as [Hin|Hin].
    + rewrite (proj2 place_notin_both f p k t) by (eapply nodup_app_lr; eassumption).
      rewrite app_assoc. apply Permutation_app_tail. apply IHu; [eapply nodup_app_l; eassumption|assumption].
    + rewrite (proj1 place_notin_both u p k t) by (eapply nodup_app_rl; eassumption).
      eapply Permutation_trans; [|apply perm_swap3]. apply Permutation_app_head.
      apply IHf; [eapply nodup_app_r; eassumption|assumption].
Qed.

Lemma place_perm : forall f p k t, NoDup (ids_f f) -> In p (ids_f f) ->
  Permutation (ids_f (place_f f p k t)) (ids_t t ++ ids_f f).
Proof. exact (proj2 place_perm_both). Qed.

(* ---------------- detachChildren ---------------- *)
Lemma sub_notin_both :
  (forall u x g, ~ In x (ids_t u) -> sub_t u x g = u) /\
  (forall f x g, ~ In x (ids_f f) -> sub_f f x g = f).
Proof.
  apply tree_forest_ind; cbn; intros.
  - destruct (N.eqb i x) eqn:E.
    + apply N.eqb_eq in E. subst. exfalso. apply H0. now left.
    + f_equal. apply H. intros H1. apply H0. now right.
  - reflexivity.
  - rewrite H, H0; [reflexivity| |]; intros H2; apply H1; apply in_or_app; auto.
Qed.

Lemma rid_sub_nokids u x k' : rid (sub_t u x (with_kids k')) = rid u.
Proof. destruct u. cbn. destruct (N.eqb i x); reflexivity. Qed.

Lemma roots_sub_nokids f x k' : roots (sub_f f x (with_kids k')) = roots f.
Proof.
  induction f as [|u f IH]; cbn; [reflexivity|]. rewrite rid_sub_nokids. now f_equal.
Qed.

Lemma rkids_incl t : incl (ids_f (rkids t)) (ids_t t).
Proof. destruct t. cbn. intros y Hy. now right. Qed.

Lemma sub_nokids_cell_both :
  (forall u par x t i, NoDup (ids_t u) -> find_t u x = Some t ->
     cell_t par (sub_t u x (with_kids F0)) i =
     if mem i (ids_f (rkids t)) then None
     else option_map (fun c => if N.eqb i x then w_kids c [] else c) (cell_t par u i)) /\
  (forall f par x t i, NoDup (ids_f f) -> find_f f x = Some t ->
     cell_f par (sub_f f x (with_kids F0)) i =
     if mem i (ids_f (rkids t)) then None
     else option_map (fun c => if N.eqb i x then w_kids c [] else c) (cell_f par f i)).
Proof.
  apply tree_forest_ind.
  - intros j d k IH par x t i Hnd Hf. cbn in Hf. cbn. inversion Hnd; subst.
    destruct (N.eqb j x) eqn:Ejx.
    + apply N.eqb_eq in Ejx. subst x. inversion Hf; subst t. cbn.
      destruct (N.eqb j i) eqn:Eji.
      * apply N.eqb_eq in Eji. subst i. rewrite (proj2 (mem_false j _) H1). cbn.
        rewrite N.eqb_refl. reflexivity.
      * destruct (mem i (ids_f k)) eqn:Em; [reflexivity|]. apply mem_false in Em.
        rewrite (cell_f_none _ (Some j) _ Em). reflexivity.
    + cbn. destruct (N.eqb j i) eqn:Eji.
      * apply N.eqb_eq in Eji. subst i.
        assert (Hm : mem j (ids_f (rkids t)) = false).
        { apply mem_false. intros H. apply H1. eapply ff_sub_f; [eassumption|]. now apply rkids_incl. }
        rewrite Hm. cbn. rewrite Ejx. now rewrite roots_sub_nokids.
      * now apply IH.
  - intros. discriminate.
  - intros u IHu f IHf par x t i Hnd Hf. cbn in Hnd, Hf. cbn.
    destruct (find_t u x) eqn:Ef.
    + inversion Hf; subst t0.
      assert (Hx : ~ In x (ids_f f)).
      { eapply nodup_app_lr; [eassumption|eapply ff_in_t; eassumption]. }
      rewrite (proj2 sub_notin_both _ _ _ Hx).
      rewrite (IHu par x t i) by (try assumption; eapply nodup_app_l; eassumption).
      destruct (mem i (ids_f (rkids t))) eqn:Em.
      * apply mem_In in Em. apply cell_f_none. eapply nodup_app_lr; [eassumption|].
        eapply ff_sub_t; [eassumption|]. now apply rkids_incl.
      * destruct (cell_t par u i); [reflexivity|]. cbn.
        destruct (cell_f par f i) eqn:Ec; [|reflexivity]. cbn.
        destruct (N.eqb i x) eqn:Eix; [|reflexivity].
        apply N.eqb_eq in Eix. subst i. exfalso. apply Hx. eapply cell_f_in; eassumption.
    + pose proof (ff_notin_t _ _ Ef) as Hx.
      rewrite (proj1 sub_notin_both _ _ _ Hx).
      rewrite (IHf par x t i) by (try assumption; eapply nodup_app_r; eassumption).
      destruct (mem i (ids_f (rkids t))) eqn:Em.
      * apply mem_In in Em. rewrite cell_t_none; [reflexivity|].
        eapply nodup_app_rl; [eassumption|].
        eapply ff_sub_f; [eassumption|]. now apply rkids_incl.
      * destruct (cell_t par u i) eqn:Ec; [|reflexivity]. cbn.
        destruct (N.eqb i x) eqn:Eix; [|reflexivity].
        apply N.eqb_eq in Eix. subst i. exfalso. apply Hx. eapply cell_t_in; eassumption.
Qed.

Lemma sub_nokids_cell : forall f par x t i, NoDup (ids_f f) -> find_f f x = Some t ->
  cell_f par (sub_f f x (with_kids F0)) i =
  if mem i (ids_f (rkids t)) then None
  else option_map (fun c => if N.eqb i x then w_kids c [] else c) (cell_f par f i).
Proof. exact (proj2 sub_nokids_cell_both). Qed.

Lemma sub_nokids_perm_both :
  (forall u x t, NoDup (ids_t u) -> find_t u x = Some t ->
     Permutation (ids_t u) (ids_f (rkids t) ++ ids_t (sub_t u x (with_kids F0)))) /\
  (forall f x t, NoDup (ids_f f) -> find_f f x = Some t ->
     Permutation (ids_f f) (ids_f (rkids t) ++ ids_f (sub_f f x (with_kids F0)))).
Proof.
  apply tree_forest_ind.
  - intros j d k IH x t Hnd Hf. cbn in Hf. cbn. inversion Hnd; subst.
    destruct (N.eqb j x) eqn:Ejx.
    + inversion Hf; subst t. cbn. apply Permutation_cons_append.
    + cbn. apply Permutation_cons_app. now apply IH.
  - intros. discriminate.
  - intros u IHu f IHf x t Hnd Hf. cbn in Hnd, Hf. cbn.
    destruct (find_t u x) eqn:Ef.
    + inversion Hf; subst t0.
      assert (Hx : ~ In x (ids_f f)).
      { eapply nodup_app_lr; [eassumption|eapply ff_in_t; eassumption]. }
      rewrite (proj2 sub_notin_both _ _ _ Hx). rewrite app_assoc. apply Permutation_app_tail.
      apply IHu; [eapply nodup_app_l; eassumption|assumption].
    + rewrite (proj1 sub_notin_both _ _ _ (ff_notin_t _ _ Ef)).
      eapply Permutation_trans; [|apply perm_swap3]. apply Permutation_app_head.
      apply IHf; [eapply nodup_app_r; eassumption|assumption].
Qed.

Lemma sub_nokids_perm : forall f x t, NoDup (ids_f f) -> find_f f x = Some t ->
  Permutation (ids_f f) (ids_f (rkids t) ++ ids_f (sub_f f x (with_kids F0))).
Proof. exact (proj2 sub_nokids_perm_both). Qed.

(* the parent given to the roots is the only thing [par] decides *)
Lemma reparent_t t par par' i :
  cell_t par' t i =
  option_map (fun c => if N.eqb i (rid t) then w_parent c par' else c) (cell_t par t i).
Proof.
  destruct t as [j d k]. cbn. rewrite (N.eqb_sym i j). destruct (N.eqb j i); [reflexivity|].
  destruct (cell_f (Some j) k i); reflexivity.
Qed.

Lemma reparent_f f par par' i : NoDup (ids_f f) ->
  cell_f par' f i =
  option_map (fun c => if mem i (roots f) then w_parent c par' else c) (cell_f par f i).
Proof.
  induction f as [|t f IH]; intros Hnd; [reflexivity|]. cbn in Hnd. cbn.
  rewrite mem_cons. rewrite (reparent_t t par par' i).
  destruct (cell_t par t i) eqn:Et; cbn.
  - destruct (N.eqb i (rid t)); [reflexivity|]. cbn.
    assert (Hm : mem i (roots f) = false).
    { apply mem_false. intros H. apply roots_incl in H.
      eapply nodup_app_lr; [eassumption|eapply cell_t_in; eassumption|assumption]. }
    now rewrite Hm.
  - rewrite IH by (eapply nodup_app_r; eassumption).
    destruct (cell_f par f i) eqn:Ef; [|reflexivity]. cbn.
    destruct (N.eqb i (rid t)) eqn:E; [|reflexivity].
    apply N.eqb_eq in E. subst i. exfalso.
    eapply nodup_app_lr; [eassumption|apply rid_in|eapply cell_f_in; eassumption].
Qed.

(* the cells below x are those of its children forest under parent x *)
Lemma below_cells_both :
  (forall u par x t i, NoDup (ids_t u) -> find_t u x = Some t -> In i (ids_f (rkids t)) ->
     cell_t par u i = cell_f (Some x) (rkids t) i) /\
  (forall f par x t i, NoDup (ids_f f) -> find_f f x = Some t -> In i (ids_f (rkids t)) ->
     cell_f par f i = cell_f (Some x) (rkids t) i).
Proof.
  apply tree_forest_ind.
  - intros j d k IH par x t i Hnd Hf Hi. cbn in Hf. cbn. inversion Hnd; subst.
    destruct (N.eqb j x) eqn:Ejx.
    + apply N.eqb_eq in Ejx. subst x. inversion Hf; subst t. cbn in *.
      destruct (N.eqb j i) eqn:Eji; [|reflexivity]. apply N.eqb_eq in Eji. subst. contradiction.
    + destruct (N.eqb j i) eqn:Eji.
      * apply N.eqb_eq in Eji. subst i. exfalso. apply H1.
        eapply ff_sub_f; [eassumption|]. now apply rkids_incl.
      * now apply IH.
  - intros. discriminate.
  - intros u IHu f IHf par x t i Hnd Hf Hi. cbn in Hnd, Hf. cbn.
    destruct (find_t u x) eqn:Ef.
    + inversion Hf; subst t0.
      rewrite (IHu par x t i) by (try assumption; eapply nodup_app_l; eassumption).
      destruct (cell_f (Some x) (rkids t) i); [reflexivity|].
      apply cell_f_none. eapply nodup_app_lr; [eassumption|].
      eapply ff_sub_t; [eassumption|]. now apply rkids_incl.
    + rewrite cell_t_none.
      * apply IHf; [eapply nodup_app_r; eassumption|assumption|assumption].
      * eapply nodup_app_rl; [eassumption|].
        eapply ff_sub_f; [eassumption|]. now apply rkids_incl.
Qed.

(* the children of x as trees of their own *)
Lemma kids_cells : forall f par x t i, NoDup (ids_f f) -> find_f f x = Some t ->
  In i (ids_f (rkids t)) ->
  cell_f None (rkids t) i =
  option_map (fun c => if mem i (roots (rkids t)) then w_parent c None else c) (cell_f par f i).
Proof.
  intros f par x t i Hnd Hf Hi.
  rewrite (proj2 below_cells_both f par x t i Hnd Hf Hi).
  apply reparent_f.
  pose proof (proj2 ff_nodup _ _ _ Hnd Hf) as Ht. destruct t as [j d k]. cbn in *.
  now inversion Ht.
Qed.
