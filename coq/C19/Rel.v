(* C19 -- the relation between the heap model and the reference forest, the
   well-formedness predicate, and the elementary facts every proof file uses.
   (lemma names end in _l only for the ones restated in Props.v) *)
From SV Require Import Lib.Base C19.Model.
From Coq Require Import Permutation.

(* ------------------------------------------------------------------ *)
(* the simulation relation                                             *)
(* ------------------------------------------------------------------ *)

(* every node of the forest is the heap cell with that id: same parent, same
   children in the same order, same data; identities are not shared; the
   allocation counters agree and bound the number of nodes *)
Definition R (s : store) (rs : rstate) : Prop :=
  NoDup (ids_f (r_forest rs)) /\
  (forall i, In i (ids_f (r_forest rs)) -> get s i = cell_f None (r_forest rs) i) /\
  (forall i, In i (ids_f (r_forest rs)) -> (i < r_next rs)%N) /\
  s_next s = r_next rs /\
  (length (ids_f (r_forest rs)) <= N.to_nat (r_next rs))%nat.

(* well-formedness of the heap on a set of live ids *)
Definition ancestor_step (s : store) (p x : id) : Prop :=
  exists c, get s x = Some c /\ c_parent c = Some p.

Record WF (s : store) (live : id -> Prop) : Prop := mkWF {
  (* a live node's parent is live and lists it among its children *)
  wf_parent_lists_child : forall x c p, live x -> get s x = Some c -> c_parent c = Some p ->
      live p /\ exists cp, get s p = Some cp /\ In x (c_kids cp);
  (* a live node's children are live and point back *)
  wf_child_points_back : forall p cp x, live p -> get s p = Some cp -> In x (c_kids cp) ->
      live x /\ exists c, get s x = Some c /\ c_parent c = Some p;
  (* no node is listed twice *)
  wf_no_sharing : forall p cp, live p -> get s p = Some cp -> NoDup (c_kids cp);
  (* every live node has a cell *)
  wf_defined : forall x, live x -> exists c, get s x = Some c;
  (* acyclic: there is a rank that strictly decreases towards the parent *)
  wf_acyclic : exists rank : id -> nat, forall x c p, live x -> get s x = Some c ->
      c_parent c = Some p -> (rank p < rank x)%nat
}.

(* ------------------------------------------------------------------ *)
(* store                                                               *)
(* ------------------------------------------------------------------ *)
Lemma get_set s i c j : get (set s i c) j = if N.eqb i j then Some c else get s j.
Proof. unfold get, set. cbn. reflexivity. Qed.

Lemma next_set s i c : s_next (set s i c) = s_next s.
Proof. reflexivity. Qed.

Lemma get_upd_data s x g j :
  get (upd_data s x g) j =
  if N.eqb x j then option_map (fun c => w_data c (g (c_data c))) (get s x) else get s j.
Proof.
  unfold upd_data. destruct (get s x) eqn:E.
  - rewrite get_set. destruct (N.eqb x j) eqn:Exj; reflexivity.
  - destruct (N.eqb x j) eqn:Exj; [apply N.eqb_eq in Exj; subst; now rewrite E|reflexivity].
Qed.

Lemma get_set_parent s x p j :
  get (set_parent s x p) j =
  if N.eqb x j then option_map (fun c => w_parent c p) (get s x) else get s j.
Proof.
  unfold set_parent. destruct (get s x) eqn:E.
  - rewrite get_set. destruct (N.eqb x j); reflexivity.
  - destruct (N.eqb x j) eqn:Exj; [apply N.eqb_eq in Exj; subst; now rewrite E|reflexivity].
Qed.

Lemma get_upd_kids s x g j :
  get (upd_kids s x g) j =
  if N.eqb x j then option_map (fun c => w_kids c (g (c_kids c))) (get s x) else get s j.
Proof.
  unfold upd_kids. destruct (get s x) eqn:E.
  - rewrite get_set. destruct (N.eqb x j); reflexivity.
  - destruct (N.eqb x j) eqn:Exj; [apply N.eqb_eq in Exj; subst; now rewrite E|reflexivity].
Qed.

Lemma next_upd_data s x g : s_next (upd_data s x g) = s_next s.
Proof. unfold upd_data. destruct (get s x); reflexivity. Qed.
Lemma next_set_parent s x p : s_next (set_parent s x p) = s_next s.
Proof. unfold set_parent. destruct (get s x); reflexivity. Qed.
Lemma next_upd_kids s x g : s_next (upd_kids s x g) = s_next s.
Proof. unfold upd_kids. destruct (get s x); reflexivity. Qed.

(* ------------------------------------------------------------------ *)
(* lists                                                               *)
(* ------------------------------------------------------------------ *)
Lemma mem_In x l : mem x l = true <-> In x l.
Proof.
  unfold mem. rewrite existsb_exists. split.
  - intros [y [H1 H2]]. apply N.eqb_eq in H2. now subst.
  - intros H. exists x. split; [assumption|apply N.eqb_refl].
Qed.

Lemma mem_false x l : mem x l = false <-> ~ In x l.
Proof.
  rewrite <- mem_In. destruct (mem x l); split; intros; try congruence.
Qed.

Lemma nodup_app {A} (l1 l2 : list A) :
  NoDup (l1 ++ l2) <-> NoDup l1 /\ NoDup l2 /\ (forall x, In x l1 -> In x l2 -> False).
Proof.
  induction l1 as [|a l1 IH]; cbn.
  - split; [intros H; repeat split; [constructor|assumption|intros x []]|intros [_ [H _]]; assumption].
  - split.
    + intros H. inversion H; subst. apply IH in H3. destruct H3 as [H3 [H4 H5]].
      repeat split; [constructor; [intros H6; apply H2; apply in_or_app; now left|assumption]|assumption|].
      intros x [Hx|Hx] Hx2; [subst; apply H2; apply in_or_app; now right|eauto].
    + intros [H1 [H2 H3]]. inversion H1; subst. constructor.
      * intros H6. apply in_app_or in H6. destruct H6 as [H6|H6]; [contradiction|]. eapply H3; [now left|eassumption].
      * apply IH. repeat split; [assumption|assumption|]. intros x Hx Hx2. eapply H3; [right; eassumption|assumption].
Qed.

Definition neqb (x : id) := fun j => negb (N.eqb j x).

Lemma filter_neqb_notin x l : ~ In x l -> filter (neqb x) l = l.
Proof.
  induction l as [|y l IH]; cbn; intros H; [reflexivity|].
  unfold neqb at 1. destruct (N.eqb y x) eqn:E.
  - apply N.eqb_eq in E. subst. exfalso. apply H. now left.
  - cbn. f_equal. apply IH. intros H1. apply H. now right.
Qed.

(* `del l[index_of x]` on a duplicate-free list is "the list without x" *)
Lemma remove_index_filter x l k :
  NoDup l -> index_of x l = Some k -> remove_nth k l = filter (neqb x) l.
Proof.
  revert k. induction l as [|y l IH]; cbn; intros k Hnd H; [discriminate|].
  inversion Hnd; subst. unfold neqb at 1. destruct (N.eqb y x) eqn:E.
  - inversion H; subst. cbn. apply N.eqb_eq in E. subst.
    symmetry. now apply filter_neqb_notin.
  - destruct (index_of x l) eqn:E2; [|discriminate]. inversion H; subst. cbn.
    f_equal. now apply IH.
Qed.

Lemma index_of_In x l : In x l -> exists k, index_of x l = Some k.
Proof.
  induction l as [|y l IH]; cbn; intros H; [contradiction|].
  destruct (N.eqb y x) eqn:E; [now exists 0%nat|].
  destruct H as [H|H]; [subst; rewrite N.eqb_refl in E; discriminate|].
  destruct (IH H) as [k Hk]. rewrite Hk. now exists (S k).
Qed.

Lemma index_of_None x l : index_of x l = None -> ~ In x l.
Proof.
  intros H Hin. destruct (index_of_In _ _ Hin) as [k Hk]. congruence.
Qed.

Lemma index_of_Some_In x l k : index_of x l = Some k -> In x l.
Proof.
  revert k. induction l as [|y l IH]; cbn; intros k H; [discriminate|].
  destruct (N.eqb y x) eqn:E; [apply N.eqb_eq in E; now left|].
  destruct (index_of x l) eqn:E2; [|discriminate]. right. eapply IH. reflexivity.
Qed.

(* ------------------------------------------------------------------ *)
(* forest: elementary facts                                            *)
(* ------------------------------------------------------------------ *)
Lemma cell_none :
  (forall t par x, ~ In x (ids_t t) -> cell_t par t x = None) /\
  (forall f par x, ~ In x (ids_f f) -> cell_f par f x = None).
Proof.
  apply tree_forest_ind; cbn; intros.
  - destruct (N.eqb i x) eqn:E.
    + apply N.eqb_eq in E. subst. exfalso. apply H0. now left.
    + apply H. intros H1. apply H0. now right.
  - reflexivity.
  - rewrite H, H0; [reflexivity| |]; intros H2; apply H1; apply in_or_app; auto.
Qed.
Definition cell_t_none := proj1 cell_none.
Definition cell_f_none := proj2 cell_none.

Lemma cell_some :
  (forall t par x, In x (ids_t t) -> exists c, cell_t par t x = Some c) /\
  (forall f par x, In x (ids_f f) -> exists c, cell_f par f x = Some c).
Proof.
  apply tree_forest_ind; cbn; intros.
  - destruct (N.eqb i x) eqn:E; [eexists; reflexivity|].
    destruct H0 as [H0|H0]; [subst; rewrite N.eqb_refl in E; discriminate|]. now apply H.
  - contradiction.
  - apply in_app_or in H1. destruct H1 as [H1|H1].
    + destruct (H par x H1) as [c Hc]. rewrite Hc. now exists c.
    + destruct (cell_t par t x); [eexists; reflexivity|]. now apply H0.
Qed.
Definition cell_t_some := proj1 cell_some.
Definition cell_f_some := proj2 cell_some.

Lemma cell_in :
  (forall t par x c, cell_t par t x = Some c -> In x (ids_t t)) /\
  (forall f par x c, cell_f par f x = Some c -> In x (ids_f f)).
Proof.
  split; intros.
  - destruct (in_dec N.eq_dec x (ids_t t)) as [H1|H1]; [assumption|].
    rewrite (cell_t_none _ par _ H1) in H. discriminate.
  - destruct (in_dec N.eq_dec x (ids_f f)) as [H1|H1]; [assumption|].
    rewrite (cell_f_none _ par _ H1) in H. discriminate.
Qed.
Definition cell_t_in := proj1 cell_in.
Definition cell_f_in := proj2 cell_in.

Lemma roots_incl f : incl (roots f) (ids_f f).
Proof.
  induction f as [|t f IH].
  - intros x H. contradiction.
  - intros x H. cbn in *. destruct H as [H|H].
    + apply in_or_app. left. destruct t. cbn in *. now left.
    + apply in_or_app. right. now apply IH.
Qed.

Lemma rid_in t : In (rid t) (ids_t t).
Proof. destruct t. cbn. now left. Qed.

Lemma roots_NoDup f : NoDup (ids_f f) -> NoDup (roots f).
Proof.
  induction f as [|t f IH]; cbn; intros H.
  - constructor.
  - constructor.
    + intros H1. apply roots_incl in H1. apply nodup_app in H. destruct H as [_ [_ H]].
      eapply H; [apply rid_in|exact H1].
    + apply IH. apply nodup_app in H. tauto.
Qed.
