(* C19 -- walking up the parent links of the heap yields the ancestor chain of
   the reference; hence namespaces, lookups and plain() agree. *)
From SV Require Import Lib.Base C19.Model C19.Rel C19.ForestFacts.

(* ------------------------------------------------------------------ *)
(* chains of the reference                                             *)
(* ------------------------------------------------------------------ *)
Lemma chain_none :
  (forall t acc x, ~ In x (ids_t t) -> chain_t acc t x = None) /\
  (forall f acc x, ~ In x (ids_f f) -> chain_f acc f x = None).
Proof.
  apply tree_forest_ind; cbn; intros.
  - destruct (N.eqb i x) eqn:E.
    + apply N.eqb_eq in E. subst. exfalso. apply H0. now left.
    + apply H. intros H1. apply H0. now right.
  - reflexivity.
  - rewrite H, H0; [reflexivity| |]; intros H2; apply H1; apply in_or_app; auto.
Qed.
Definition chain_t_none := proj1 chain_none.
Definition chain_f_none := proj2 chain_none.

Lemma chain_some :
  (forall t acc x, In x (ids_t t) -> exists d ch, chain_t acc t x = Some (d :: ch)) /\
  (forall f acc x, In x (ids_f f) -> exists d ch, chain_f acc f x = Some (d :: ch)).
Proof.
  apply tree_forest_ind; cbn; intros.
  - destruct (N.eqb i x) eqn:E; [do 2 eexists; reflexivity|].
    destruct H0 as [H0|H0]; [subst; rewrite N.eqb_refl in E; discriminate|]. now apply H.
  - contradiction.
  - apply in_app_or in H1. destruct H1 as [H1|H1].
    + destruct (H acc x H1) as [d [ch Hc]]. rewrite Hc. now exists d, ch.
    + destruct (chain_t acc t x) eqn:E; [|now apply H0].
      destruct (in_dec N.eq_dec x (ids_t t)) as [H2|H2].
      * destruct (H acc x H2) as [d [ch Hc]]. rewrite Hc in E. inversion E; subst. now exists d, ch.
      * rewrite (chain_t_none _ acc _ H2) in E. discriminate.
Qed.
Definition chain_t_some := proj1 chain_some.
Definition chain_f_some := proj2 chain_some.

Lemma chain_len :
  (forall t acc x ch, chain_t acc t x = Some ch -> (length ch <= length acc + length (ids_t t))%nat) /\
  (forall f acc x ch, chain_f acc f x = Some ch -> (length ch <= length acc + length (ids_f f))%nat).
Proof.
  apply tree_forest_ind; cbn; intros.
  - destruct (N.eqb i x) eqn:E.
    + inversion H0; subst. cbn. lia.
    + apply H in H0. cbn in H0. lia.
  - discriminate.
  - rewrite app_length. destruct (chain_t acc t x) eqn:E.
    + inversion H1; subst. apply H in E. lia.
    + apply H0 in H1. lia.
Qed.
Definition chain_t_len := proj1 chain_len.
Definition chain_f_len := proj2 chain_len.

Lemma mchain_none fu s : mchain fu s None = [].
Proof. destruct fu; reflexivity. Qed.

(* the walk up the heap from a node of a tree hanging under par *)
Lemma chain_gen s :
  (forall t par acc,
     (forall fu, (length acc <= fu)%nat -> mchain fu s par = acc) ->
     (forall i, In i (ids_t t) -> get s i = cell_t par t i) ->
     NoDup (ids_t t) ->
     forall x ch, chain_t acc t x = Some ch ->
     forall fu, (length ch <= fu)%nat -> mchain fu s (Some x) = ch) /\
  (forall f par acc,
     (forall fu, (length acc <= fu)%nat -> mchain fu s par = acc) ->
     (forall i, In i (ids_f f) -> get s i = cell_f par f i) ->
     NoDup (ids_f f) ->
     forall x ch, chain_f acc f x = Some ch ->
     forall fu, (length ch <= fu)%nat -> mchain fu s (Some x) = ch).
Proof.
  apply tree_forest_ind.
  - intros i d k IH par acc Ha Hc Hnd x ch Hch fu Hfu.
    assert (Hi : forall fu, (length (d :: acc) <= fu)%nat -> mchain fu s (Some i) = d :: acc).
    { intros fu' Hfu'. destruct fu' as [|fu']; [cbn in Hfu'; lia|].
      cbn [mchain]. rewrite (Hc i (or_introl eq_refl)). cbn. rewrite N.eqb_refl. cbn.
      f_equal. apply Ha. cbn in Hfu'. lia. }
    cbn in Hch. destruct (N.eqb i x) eqn:E.
    + apply N.eqb_eq in E. subst x. inversion Hch; subst ch. now apply Hi.
    + cbn in Hnd. inversion Hnd; subst.
      eapply (IH (Some i) (d :: acc)); try eassumption.
      intros j Hj. rewrite (Hc j (or_intror Hj)). cbn.
      destruct (N.eqb i j) eqn:E2; [apply N.eqb_eq in E2; subst; contradiction|reflexivity].
  - intros; discriminate.
  - intros t IHt f IHf par acc Ha Hc Hnd x ch Hch fu Hfu.
    cbn in Hnd. apply nodup_app in Hnd. destruct Hnd as [Hn1 [Hn2 Hn3]].
    cbn in Hch. destruct (chain_t acc t x) eqn:E.
    + inversion Hch; subst. eapply (IHt par acc); try eassumption.
      intros j Hj. rewrite Hc; [|cbn; apply in_or_app; now left]. cbn.
      destruct (cell_t_some t par j Hj) as [c Hc']. now rewrite Hc'.
    + eapply (IHf par acc); try eassumption.
      intros j Hj. rewrite Hc; [|cbn; apply in_or_app; now right]. cbn.
      rewrite cell_t_none; [reflexivity|]. intros Hj'. eapply Hn3; eassumption.
Qed.

Lemma chain_strong s rs x ch : R s rs -> chain_f [] (r_forest rs) x = Some ch ->
  forall fu, (length ch <= fu)%nat -> mchain fu s (Some x) = ch.
Proof.
  intros [Hnd [Hc _]] Hch. eapply (proj2 (chain_gen s) (r_forest rs) None []); try eassumption.
  intros. apply mchain_none.
Qed.

Lemma chain_fuel s rs x ch : R s rs -> chain_f [] (r_forest rs) x = Some ch ->
  (length ch < fuel_of s)%nat.
Proof.
  intros [_ [_ [_ [Hn Hl]]]] Hch. apply chain_f_len in Hch. cbn in Hch.
  unfold fuel_of. rewrite Hn. lia.
Qed.

Lemma chain_refines : forall s rs x, R s rs -> In x (ids_f (r_forest rs)) ->
  chain_of s x = rchain (r_forest rs) x.
Proof.
  intros s rs x HR Hx. destruct (chain_f_some _ [] _ Hx) as [d [ch Hch]].
  unfold chain_of, rchain. rewrite Hch. eapply chain_strong; try eassumption.
  pose proof (chain_fuel _ _ _ _ HR Hch). lia.
Qed.

Lemma rchain_nonempty : forall f x, In x (ids_f f) -> rchain f x <> [].
Proof.
  intros f x Hx. destruct (chain_f_some _ [] _ Hx) as [d [ch Hch]].
  unfold rchain. rewrite Hch. discriminate.
Qed.

Lemma get_live s rs x : R s rs -> In x (ids_f (r_forest rs)) -> exists c, get s x = Some c.
Proof.
  intros [_ [Hc _]] Hx. rewrite (Hc _ Hx). now apply cell_f_some.
Qed.

Lemma pchain_refines : forall s rs x, R s rs -> In x (ids_f (r_forest rs)) ->
  pchain_of s x = rpchain (r_forest rs) x.
Proof.
  intros s rs x HR Hx. destruct (chain_f_some _ [] _ Hx) as [d [ch Hch]].
  destruct (get_live _ _ _ HR Hx) as [c Hc].
  unfold pchain_of, rpchain, rchain. rewrite Hc, Hch. cbn [tl].
  pose proof (chain_fuel _ _ _ _ HR Hch) as Hf.
  pose proof (chain_strong _ _ _ _ HR Hch (S (fuel_of s))) as H1.
  cbn [mchain] in H1. rewrite Hc in H1. 
  assert (H2 : c_data c :: mchain (fuel_of s) s (c_parent c) = d :: ch) by (apply H1; lia).
  now inversion H2.
Qed.

Lemma kids_refines : forall s rs p, R s rs -> In p (ids_f (r_forest rs)) ->
  kids_of s p = kids_ids (r_forest rs) p.
Proof.
  intros s rs p HR Hp. destruct HR as [Hnd [Hc _]].
  destruct (find_some _ _ Hp) as [t Ht].
  destruct (find_cell _ None _ _ Hnd Ht) as [px Hpx].
  unfold kids_of, kids_ids. rewrite (Hc _ Hp), Hpx, Ht. reflexivity.
Qed.

(* ------------------------------------------------------------------ *)
(* find, and the chains of the children of a node                      *)
(* ------------------------------------------------------------------ *)
Lemma find_rid_incl :
  (forall t x tp, find_t t x = Some tp -> rid tp = x /\ incl (ids_t tp) (ids_t t)) /\
  (forall f x tp, find_f f x = Some tp -> rid tp = x /\ incl (ids_t tp) (ids_f f)).
Proof.
  apply tree_forest_ind; cbn; intros.
  - destruct (N.eqb i x) eqn:E.
    + inversion H0; subst. apply N.eqb_eq in E. cbn. split; [assumption|apply incl_refl].
    + apply H in H0. destruct H0 as [H0 H1]. split; [assumption|].
      intros y Hy. right. now apply H1.
  - discriminate.
  - destruct (find_t t x) eqn:E.
    + inversion H1; subst. destruct (H _ _ E) as [H2 H3]. split; [assumption|].
      intros y Hy. apply in_or_app. left. now apply H3.
    + destruct (H0 _ _ H1) as [H2 H3]. split; [assumption|].
      intros y Hy. apply in_or_app. right. now apply H3.
Qed.
Definition find_t_rid_incl := proj1 find_rid_incl.
Definition find_f_rid_incl := proj2 find_rid_incl.

Lemma find_t_mem t x tp : find_t t x = Some tp -> In x (ids_t t).
Proof.
  intros H. destruct (find_t_rid_incl _ _ _ H) as [H1 H2]. apply H2. rewrite <- H1. apply rid_in.
Qed.
Lemma find_f_mem f x tp : find_f f x = Some tp -> In x (ids_f f).
Proof.
  intros H. destruct (find_f_rid_incl _ _ _ H) as [H1 H2]. apply H2. rewrite <- H1. apply rid_in.
Qed.
Lemma find_t_none t x : ~ In x (ids_t t) -> find_t t x = None.
Proof.
  intros H. destruct (find_t t x) eqn:E; [|reflexivity]. exfalso. apply H. eapply find_t_mem; eassumption.
Qed.

Lemma kids_in_t tp y : In y (ids_f (rkids tp)) -> In y (ids_t tp).
Proof. destruct tp. cbn. now right. Qed.

Lemma find_t_self t : find_t t (rid t) = Some t.
Proof. destruct t. cbn. now rewrite N.eqb_refl. Qed.

Lemma roots_flist k : roots k = map rid (flist k).
Proof. induction k as [|t k IH]; cbn; [reflexivity|now rewrite IH]. Qed.

Lemma flist_ids k tc : In tc (flist k) -> In (rid tc) (ids_f k).
Proof.
  intros H. apply roots_incl. rewrite roots_flist. now apply in_map.
Qed.

Lemma find_root k tc : NoDup (ids_f k) -> In tc (flist k) -> find_f k (rid tc) = Some tc.
Proof.
  induction k as [|t k IH]; cbn; intros Hnd H; [contradiction|].
  apply nodup_app in Hnd. destruct Hnd as [Hn1 [Hn2 Hn3]].
  destruct H as [H|H].
  - subst. now rewrite find_t_self.
  - rewrite find_t_none; [now apply IH|].
    intros H1. eapply Hn3; [exact H1|]. now apply flist_ids.
Qed.

Lemma chain_t_self acc t : chain_t acc t (rid t) = Some (rdata t :: acc).
Proof. destruct t. cbn. now rewrite N.eqb_refl. Qed.

Lemma chain_root k acc tc : NoDup (ids_f k) -> In tc (flist k) ->
  chain_f acc k (rid tc) = Some (rdata tc :: acc).
Proof.
  induction k as [|t k IH]; cbn; intros Hnd H; [contradiction|].
  apply nodup_app in Hnd. destruct Hnd as [Hn1 [Hn2 Hn3]].
  destruct H as [H|H].
  - subst. now rewrite chain_t_self.
  - rewrite chain_t_none; [now apply IH|].
    intros H1. eapply Hn3; [exact H1|]. now apply flist_ids.
Qed.

(* below a node found in the forest, chains and finds are those of its own children *)
Lemma chain_find :
  (forall t acc p tp, NoDup (ids_t t) -> find_t t p = Some tp ->
     exists chp, chain_t acc t p = Some (rdata tp :: chp) /\
       forall y, In y (ids_f (rkids tp)) -> chain_t acc t y = chain_f (rdata tp :: chp) (rkids tp) y) /\
  (forall f acc p tp, NoDup (ids_f f) -> find_f f p = Some tp ->
     exists chp, chain_f acc f p = Some (rdata tp :: chp) /\
       forall y, In y (ids_f (rkids tp)) -> chain_f acc f y = chain_f (rdata tp :: chp) (rkids tp) y).
Proof.
  apply tree_forest_ind.
  - intros i d k IH acc p tp Hnd Hf. cbn in Hnd. inversion Hnd; subst. cbn in Hf. cbn.
    destruct (N.eqb i p) eqn:E.
    + inversion Hf; subst. cbn. exists acc. split; [reflexivity|].
      intros y Hy. destruct (N.eqb i y) eqn:E2; [apply N.eqb_eq in E2; subst; contradiction|reflexivity].
    + destruct (IH (d :: acc) p tp H2 Hf) as [chp [H4 H5]]. exists chp. split; [assumption|].
      intros y Hy. destruct (N.eqb i y) eqn:E2; [|now apply H5].
      apply N.eqb_eq in E2. subst. exfalso. apply H1.
      apply (proj2 (find_f_rid_incl _ _ _ Hf)). now apply kids_in_t.
  - intros; discriminate.
  - intros t IHt f IHf acc p tp Hnd Hf. cbn in Hnd. apply nodup_app in Hnd.
    destruct Hnd as [Hn1 [Hn2 Hn3]]. cbn in Hf. cbn. destruct (find_t t p) eqn:E.
    + inversion Hf; subst. destruct (IHt acc p tp Hn1 E) as [chp [H4 H5]]. exists chp.
      rewrite H4. split; [reflexivity|]. intros y Hy. rewrite (H5 y Hy).
      destruct (chain_f_some _ (rdata tp :: chp) _ Hy) as [d' [ch' Hc]]. now rewrite Hc.
    + destruct (IHf acc p tp Hn2 Hf) as [chp [H4 H5]]. exists chp. split.
      * rewrite chain_t_none; [assumption|]. intros H. eapply Hn3; [exact H|]. eapply find_f_mem; eassumption.
      * intros y Hy. rewrite chain_t_none; [now apply H5|]. intros H. eapply Hn3; [exact H|].
        apply (proj2 (find_f_rid_incl _ _ _ Hf)). now apply kids_in_t.
Qed.

Lemma find_find :
  (forall t p tp, NoDup (ids_t t) -> find_t t p = Some tp ->
       forall y, In y (ids_f (rkids tp)) -> find_t t y = find_f (rkids tp) y) /\
  (forall f p tp, NoDup (ids_f f) -> find_f f p = Some tp ->
       forall y, In y (ids_f (rkids tp)) -> find_f f y = find_f (rkids tp) y).
Proof.
  apply tree_forest_ind.
  - intros i d k IH p tp Hnd Hf. cbn in Hnd. inversion Hnd; subst. cbn in Hf. cbn.
    destruct (N.eqb i p) eqn:E.
    + inversion Hf; subst. cbn.
      intros y Hy. destruct (N.eqb i y) eqn:E2; [apply N.eqb_eq in E2; subst; contradiction|reflexivity].
    + intros y Hy. destruct (N.eqb i y) eqn:E2; [|now apply (IH p tp)].
      apply N.eqb_eq in E2. subst. exfalso. apply H1.
      apply (proj2 (find_f_rid_incl _ _ _ Hf)). now apply kids_in_t.
  - intros; discriminate.
  - intros t IHt f IHf p tp Hnd Hf. cbn in Hnd. apply nodup_app in Hnd.
    destruct Hnd as [Hn1 [Hn2 Hn3]]. cbn in Hf. cbn. destruct (find_t t p) eqn:E.
    + inversion Hf; subst. intros y Hy. rewrite (IHt p tp Hn1 E y Hy).
      destruct (ForestFacts.find_some _ _ Hy) as [t' Ht']. now rewrite Ht'.
    + intros y Hy. rewrite find_t_none; [now apply (IHf p tp)|]. intros H. eapply Hn3; [exact H|].
      apply (proj2 (find_f_rid_incl _ _ _ Hf)). now apply kids_in_t.
Qed.

Lemma find_child f p tp tc : NoDup (ids_f f) -> find_f f p = Some tp -> In tc (flist (rkids tp)) ->
  find_f f (rid tc) = Some tc.
Proof.
  intros Hnd Hf Hin. rewrite (proj2 find_find f p tp Hnd Hf); [|now apply flist_ids].
  apply find_root; [|assumption].
  pose proof (find_nodup _ _ _ Hnd Hf) as H. destruct tp. cbn in *. now inversion H.
Qed.

Lemma rchain_find f p tp : NoDup (ids_f f) -> find_f f p = Some tp ->
  rchain f p = rdata tp :: rpchain f p.
Proof.
  intros Hnd Hf. destruct (proj2 chain_find f [] p tp Hnd Hf) as [chp [H1 _]].
  unfold rpchain, rchain. now rewrite H1.
Qed.

Lemma rchain_child f p tp tc : NoDup (ids_f f) -> find_f f p = Some tp -> In tc (flist (rkids tp)) ->
  rchain f (rid tc) = rdata tc :: rchain f p.
Proof.
  intros Hnd Hf Hin. destruct (proj2 chain_find f [] p tp Hnd Hf) as [chp [H1 H2]].
  unfold rchain. rewrite H1, H2; [|now apply flist_ids].
  rewrite chain_root; [reflexivity| |assumption].
  pose proof (find_nodup _ _ _ Hnd Hf) as H. destruct tp. cbn in *. now inversion H.
Qed.

(* ------------------------------------------------------------------ *)
(* lookups                                                             *)
(* ------------------------------------------------------------------ *)
Definition hd_opt {A} (l : list A) : option A := match l with [] => None | x :: _ => Some x end.

Lemma find_filter {A} (g : A -> bool) l : find g l = hd_opt (filter g l).
Proof.
  induction l as [|a l IH]; cbn; [reflexivity|]. destruct (g a); [reflexivity|assumption].
Qed.

Lemma opt_list_hd {A} (l : list A) : opt_list (hd_opt l) = firstn 1 l.
Proof. destruct l; reflexivity. Qed.

Lemma filter_roots (g : id -> bool) (h : tree -> bool) k :
  (forall tc, In tc (flist k) -> g (rid tc) = h tc) ->
  filter g (roots k) = map rid (filter h (flist k)).
Proof.
  induction k as [|t k IH]; cbn; intros H; [reflexivity|].
  rewrite (H t (or_introl eq_refl)). rewrite IH; [|intros; apply H; now right].
  destruct (h t); reflexivity.
Qed.

Lemma filter_all {A} (g : A -> bool) l : (forall x, g x = true) -> filter g l = l.
Proof.
  intros H. induction l as [|a l IH]; cbn; [reflexivity|]. rewrite H. now f_equal.
Qed.

Lemma children_refine s rs p n ns : R s rs -> In p (ids_f (r_forest rs)) ->
  filter (fun c => match_chain n ns (chain_of s c)) (kids_of s p) = ref_children (r_forest rs) p n ns.
Proof.
  intros HR Hp. rewrite (kids_refines _ _ _ HR Hp). unfold kids_ids, ref_children.
  destruct (ForestFacts.find_some _ _ Hp) as [tp Ht]. rewrite Ht.
  assert (Hnd : NoDup (ids_f (r_forest rs))) by apply HR.
  apply filter_roots. intros tc Htc.
  rewrite (chain_refines s rs); [|assumption|].
  - rewrite (rchain_child _ _ _ _ Hnd Ht Htc). reflexivity.
  - eapply find_f_mem. eapply find_child; eassumption.
Qed.

Lemma ref_children_in f p n ns c : In c (ref_children f p n ns) -> In c (ids_f f).
Proof.
  unfold ref_children. destruct (find_f f p) eqn:E; [|intros []].
  intros H. apply in_map_iff in H. destruct H as [tc [H1 H2]]. apply filter_In in H2.
  destruct H2 as [H2 _]. subst c. apply (proj2 (find_f_rid_incl _ _ _ E)). apply kids_in_t.
  now apply flist_ids.
Qed.

Lemma get_child_refine s rs p qn ns : R s rs -> In p (ids_f (r_forest rs)) ->
  m_get_child s p qn ns =
  let '(n, ns') := ref_key (r_forest rs) p qn ns in hd_opt (ref_children (r_forest rs) p (Some n) ns').
Proof.
  intros HR Hp. unfold m_get_child, ref_key. rewrite (chain_refines _ _ _ HR Hp).
  destruct (lookup_key qn ns (rchain (r_forest rs) p)) as [n ns'].
  rewrite find_filter. now rewrite (children_refine _ _ _ _ _ HR Hp).
Qed.

Lemma get_children_some s rs p q ns : R s rs -> In p (ids_f (r_forest rs)) ->
  m_get_children s p (Some q) ns =
  let '(n, ns') := ref_key (r_forest rs) p q ns in ref_children (r_forest rs) p (Some n) ns'.
Proof.
  intros HR Hp. unfold m_get_children, ref_key. rewrite (chain_refines _ _ _ HR Hp).
  destruct (lookup_key q ns (rchain (r_forest rs) p)) as [n ns'].
  now rewrite (children_refine _ _ _ _ _ HR Hp).
Qed.

Lemma get_children_none s rs p ns : R s rs -> In p (ids_f (r_forest rs)) ->
  m_get_children s p None ns = ref_children (r_forest rs) p None ns.
Proof.
  intros HR Hp. unfold m_get_children. destruct ns as [u|].
  - now rewrite (children_refine _ _ _ _ _ HR Hp).
  - rewrite (kids_refines _ _ _ HR Hp). unfold kids_ids, ref_children.
    destruct (find_f (r_forest rs) p); [|reflexivity].
    rewrite filter_all; [now rewrite roots_flist|]. intros x. reflexivity.
Qed.

Lemma walk_refine s rs : R s rs -> forall steps node, In node (ids_f (r_forest rs)) ->
  m_walk s node steps = ref_path (r_forest rs) node steps.
Proof.
  intros HR. induction steps as [|nm rest IH]; intros node Hn; cbn [m_walk ref_path]; [reflexivity|].
  rewrite (get_child_refine _ _ _ _ _ HR Hn).
  destruct (ref_key (r_forest rs) node nm None) as [n ns].
  destruct (ref_children (r_forest rs) node (Some n) ns) as [|c l] eqn:E; cbn; [reflexivity|].
  apply IH. apply (ref_children_in _ node (Some n) ns). rewrite E. now left.
Qed.

Lemma ref_path_live f steps : forall p node, ref_path f p steps = Some node ->
  In p (ids_f f) -> In node (ids_f f).
Proof.
  induction steps as [|nm rest IH]; cbn [ref_path]; intros p node H Hp.
  - inversion H; now subst.
  - destruct (ref_key f p nm None) as [n ns].
    destruct (ref_children f p (Some n) ns) as [|c l] eqn:E; [discriminate|].
    eapply IH; [eassumption|]. apply (ref_children_in _ p (Some n) ns). rewrite E. now left.
Qed.

Lemma child_at_filter s parts : forall node r,
  m_child_at s node parts r = m_child_at s node (filter nonempty parts) r.
Proof.
  induction parts as [|a parts IH]; intros node r; cbn; [reflexivity|].
  destruct (nonempty a) eqn:E; cbn.
  - rewrite E. destruct (m_get_child s node a None); [apply IH|reflexivity].
  - apply IH.
Qed.

Lemma child_at_refine s rs : R s rs -> forall steps node r,
  Forall (fun x => nonempty x = true) steps -> In node (ids_f (r_forest rs)) ->
  m_child_at s node steps r =
  match steps with [] => r | _ => ref_path (r_forest rs) node steps end.
Proof.
  intros HR. induction steps as [|nm rest IH]; intros node r Hf Hn; [reflexivity|].
  inversion Hf; subst. cbn [m_child_at ref_path]. rewrite H1.
  rewrite (get_child_refine _ _ _ _ _ HR Hn).
  destruct (ref_key (r_forest rs) node nm None) as [n ns].
  destruct (ref_children (r_forest rs) node (Some n) ns) as [|c l] eqn:E; cbn; [reflexivity|].
  rewrite IH; [destruct rest; reflexivity|assumption|].
  apply (ref_children_in _ node (Some n) ns). rewrite E. now left.
Qed.

Lemma filter_Forall {A} (g : A -> bool) l : Forall (fun x => g x = true) (filter g l).
Proof.
  apply Forall_forall. intros x H. apply filter_In in H. tauto.
Qed.

Lemma list_eqb_N a : forall b, list_eqb N.eqb a b = true -> a = b.
Proof.
  induction a as [|x a IH]; intros [|y b]; cbn; intros H; try discriminate; [reflexivity|].
  apply andb_true_iff in H. destruct H as [H1 H2]. apply N.eqb_eq in H1. apply IH in H2. congruence.
Qed.

(* every lookup returns on the heap what the reference returns on the forest *)
Lemma lookups_refine : forall q s rs o rs' r, R s rs -> is_lookup o = true ->
  ref_step rs o = Some (rs', r) -> step q s o = (s, r) /\ rs' = rs.
Proof.
  intros q s rs o rs' r HR Hl Hs.
  destruct o; try discriminate Hl; cbn [ref_step step] in Hs |- *.
  - (* getChild *)
    destruct (live (r_forest rs) p) eqn:Hp; [|discriminate]. apply mem_In in Hp.
    rewrite (get_child_refine _ _ _ _ _ HR Hp).
    destruct (ref_key (r_forest rs) p qn ns) as [nm ns'].
    inversion Hs; subst. now rewrite opt_list_hd.
  - (* getChildren *)
    destruct (live (r_forest rs) p) eqn:Hp; [|discriminate]. apply mem_In in Hp.
    destruct qn as [qn|].
    + rewrite (get_children_some _ _ _ _ _ HR Hp).
      destruct (ref_key (r_forest rs) p qn ns) as [nm ns']. inversion Hs; now subst.
    + rewrite (get_children_none _ _ _ _ HR Hp). inversion Hs; now subst.
  - (* childAtPath *)
    destruct (live (r_forest rs) p) eqn:Hp; [|discriminate]. apply mem_In in Hp.
    rewrite child_at_filter.
    rewrite (child_at_refine _ _ HR _ _ _ (filter_Forall _ _) Hp).
    destruct (filter nonempty (split_slash path)) as [|a l]; inversion Hs; now subst.
  - (* childrenAtPath *)
    destruct (live (r_forest rs) p) eqn:Hp; [|discriminate]. apply mem_In in Hp.
    unfold m_children_at.
    destruct (filter nonempty (split_slash path)) as [|a [|b l]]; [discriminate| |].
    + rewrite (get_children_some _ _ _ _ _ HR Hp).
      destruct (ref_key (r_forest rs) p a None) as [nm ns']. inversion Hs; now subst.
    + rewrite (walk_refine _ _ HR _ _ Hp).
      destruct (ref_path (r_forest rs) p (removelast (a :: b :: l))) as [node|] eqn:E.
      * pose proof (ref_path_live _ _ _ _ E Hp) as Hn.
        rewrite (get_children_some _ _ _ _ _ HR Hn).
        destruct (ref_key (r_forest rs) node (last (a :: b :: l) []) None) as [nm ns'].
        inversion Hs; now subst.
      * inversion Hs; now subst.
  - (* getAttribute *)
    destruct (live (r_forest rs) x) eqn:Hp; [|discriminate]. apply mem_In in Hp.
    rewrite (chain_refines _ _ _ HR Hp). unfold get_attr_chain, ref_key in *.
    destruct (rchain (r_forest rs) x) as [|d ch]; [discriminate|].
    destruct (lookup_key qn ns (d :: ch)) as [nm ns']. inversion Hs; now subst.
  - (* namespace *)
    destruct (live (r_forest rs) x) eqn:Hp; [|discriminate]. apply mem_In in Hp.
    rewrite (chain_refines _ _ _ HR Hp). inversion Hs; now subst.
Qed.

Lemma roots_len k : length (roots k) = flen k.
Proof. induction k as [|t k IH]; cbn; [reflexivity|now rewrite IH]. Qed.

Lemma plain_gen s rs : R s rs ->
  (forall t fu, find_f (r_forest rs) (rid t) = Some t -> (length (ids_t t) <= fu)%nat ->
     m_plain fu s (rid t) = plain_t (rpchain (r_forest rs) (rid t)) t) /\
  (forall k fu pch,
     (forall tc, In tc (flist k) ->
        find_f (r_forest rs) (rid tc) = Some tc /\ rpchain (r_forest rs) (rid tc) = pch) ->
     (length (ids_f k) <= fu)%nat ->
     concat (map (m_plain fu s) (roots k)) = plain_f pch k).
Proof.
  intros HR. assert (Hnd : NoDup (ids_f (r_forest rs))) by apply HR.
  apply tree_forest_ind.
  - intros i d k IH fu Hf Hfu. cbn [rid] in *.
    destruct fu as [|fu]; [cbn in Hfu; lia|].
    pose proof (find_f_mem _ _ _ Hf) as Hi.
    destruct (find_cell _ None _ _ Hnd Hf) as [px Hpx]. cbn [rkids rdata] in Hpx.
    assert (Hg : get s i = Some (mkC px (roots k) d)).
    { destruct HR as [_ [Hc _]]. now rewrite (Hc _ Hi). }
    cbn [m_plain plain_t]. rewrite Hg. cbn [c_data c_kids].
    rewrite (pchain_refines _ _ _ HR Hi). rewrite roots_len.
    f_equal. destruct (is_empty_content d (flen k)); [reflexivity|].
    f_equal. f_equal. f_equal.
    apply IH; [|cbn in Hfu; lia].
    intros tc Htc. split; [eapply find_child; eassumption|].
    unfold rpchain at 1. rewrite (rchain_child _ _ _ _ Hnd Hf Htc). cbn [tl].
    now rewrite (rchain_find _ _ _ Hnd Hf).
  - intros; reflexivity.
  - intros t IHt k IHk fu pch H Hfu. cbn in Hfu. rewrite app_length in Hfu.
    cbn [roots map concat plain_f]. f_equal.
    + destruct (H t (or_introl eq_refl)) as [H1 H2]. rewrite <- H2. apply IHt; [assumption|lia].
    + apply IHk; [|lia]. intros tc Htc. apply H. now right.
Qed.

Lemma plain_refines : forall s rs x, R s rs -> In x (ids_f (r_forest rs)) ->
  plain_of s x = ref_plain (r_forest rs) x.
Proof.
  intros s rs x HR Hx. destruct (ForestFacts.find_some _ _ Hx) as [t Ht].
  unfold plain_of, ref_plain. rewrite Ht.
  destruct (find_f_rid_incl _ _ _ Ht) as [Hr Hi]. subst x.
  apply (proj1 (plain_gen s rs HR)); [assumption|].
  assert (Hnd : NoDup (ids_f (r_forest rs))) by apply HR.
  pose proof (NoDup_incl_length (find_nodup _ _ _ Hnd Ht) Hi) as Hl.
  destruct HR as [_ [_ [_ [Hn Hb]]]]. unfold fuel_of. rewrite Hn. lia.
Qed.
