(* C08 - Call arguments bind to parameters like Python arguments, or fail loudly.

   Part 1: a model of suds/argparser.py (parse_args / _ArgParser / Frame /
   ChoiceFrame), statement by statement.
   Part 2: the specification, written from the property text: Python-style
   binding over a parameter tree, required/allowed counts (sum over
   sequences, minimum over choice branches), and the four rejection reasons.
   Part 3: the boolean predicates the harness evaluates on the outputs of the
   implementation.

   Conventions: parameter names, ancestry objects and argument values are
   interned as nat by the harness.  A value is `option nat`: None is Python's
   None, Some v any other object.  An ancestry item is (id, is_choice): the
   Python code compares items with `is`, the model compares the ids. *)
From SV Require Import Lib.Base.

(* ------------------------------------------------------------------ *)
(* Part 1a: the frame machine (Frame, ChoiceFrame, the stack)          *)
(* ------------------------------------------------------------------ *)

Record frame := mkF { fid : nat; fchoice : bool; fallowed : nat; frequired : nat;
                      fhasval : bool; fhasitem : bool }.

(* __frame_factory: a new frame for an ancestry item *)
Definition fresh (ic : nat * bool) : frame := mkF (fst ic) (snd ic) 0 0 false false.

(* Frame._process_item / ChoiceFrame._process_item; None = TypeError
   "got multiple values for a single choice parameter" *)
Definition item (extra : bool) (f : frame) (hv : bool) (a r : nat) : option frame :=
  if fchoice f then
    let req := if fhasitem f then Nat.min (frequired f) r else r in
    if hv && fhasval f && extra then None
    else Some (mkF (fid f) true (fallowed f + a) req (fhasval f || hv) true)
  else Some (mkF (fid f) false (fallowed f + a) (frequired f + r) (fhasval f || hv) (fhasitem f)).

(* Frame.process_subframe *)
Definition sub (extra : bool) (f g : frame) : option frame :=
  item extra f (fhasval g) (fallowed g) (frequired g).

(* The stack is (bottom frame, frames above it bottom-first).
   __pop_frames_above(f): pop every frame above f, each into the one below *)
Fixpoint collapse (extra : bool) (f : frame) (above : list frame) : option frame :=
  match above with
  | [] => Some f
  | g :: above' =>
      match collapse extra g above' with
      | Some g' => sub extra f g'
      | None => None
      end
  end.

(* __update_context for a non-empty ancestry: __match_ancestry walks the stack
   and the ancestry together from the bottom, __pop_frames_above the last
   matching frame, __push_frames for the unmatched ancestry *)
Fixpoint descend (extra : bool) (f : frame) (above : list frame) (a : list (nat * bool))
  : option (frame * list frame) :=
  match above, a with
  | [], _ => Some (f, map fresh a)
  | g :: above', [] =>
      match collapse extra f above with Some f' => Some (f', []) | None => None end
  | g :: above', x :: a' =>
      if Nat.eqb (fid g) (fst x) then
        match descend extra g above' a' with
        | Some (g', r) => Some (f, g' :: r)
        | None => None
        end
      else
        match collapse extra f above with
        | Some f' => Some (f', map fresh a)
        | None => None
        end
  end.

(* self.__stack[-1].process_parameter(...) *)
Fixpoint on_top (extra : bool) (f : frame) (above : list frame) (hv : bool) (a r : nat)
  : option (frame * list frame) :=
  match above with
  | [] => match item extra f hv a r with Some f' => Some (f', []) | None => None end
  | g :: above' =>
      match on_top extra g above' hv a r with
      | Some (g', r') => Some (f, g' :: r')
      | None => None
      end
  end.

Definition update_context (extra : bool) (st : frame * list frame) (anc : list (nat * bool))
  : option (frame * list frame) :=
  match anc with
  | [] => Some st                                   (* "if not ancestry: return" *)
  | _ => descend extra (fst st) (snd st) anc
  end.

(* the counting part of __process_parameter, for a parameter whose value is
   (not) None *)
Record leaf := mkL { lopt : bool; lhv : bool; lanc : list (nat * bool) }.

Definition step (extra : bool) (st : frame * list frame) (l : leaf) : option (frame * list frame) :=
  match update_context extra st (lanc l) with
  | Some (f1, above1) => on_top extra f1 above1 (lhv l) 1 (if lopt l then 0 else 1)
  | None => None
  end.

Fixpoint run (extra : bool) (st : frame * list frame) (ls : list leaf) : option (frame * list frame) :=
  match ls with
  | [] => Some st
  | l :: ls' => match step extra st l with Some st' => run extra st' ls' | None => None end
  end.

Definition sentinel := mkF 0 false 0 0 false false.

(* counts only: Some (required, allowed) or None = TypeError from a choice *)
Definition counts (extra : bool) (ls : list leaf) : option (nat * nat) :=
  match run extra (sentinel, []) ls with
  | Some (f, above) =>
      match collapse extra f above with
      | Some f' => Some (frequired f', fallowed f')
      | None => None
      end
  | None => None
  end.

(* ------------------------------------------------------------------ *)
(* Part 1b: the whole parser: argument lookup, callback log, errors    *)
(* ------------------------------------------------------------------ *)

Definition value := option nat.
Record param := mkP { pname : nat; popt : bool; panc : list (nat * bool) }.

Fixpoint kw_mem (n : nat) (kw : list (nat * value)) : bool :=
  match kw with [] => false | (k, _) :: kw' => Nat.eqb k n || kw_mem n kw' end.

Fixpoint kw_get (n : nat) (kw : list (nat * value)) : option value :=
  match kw with [] => None | (k, v) :: kw' => if Nat.eqb k n then Some v else kw_get n kw' end.

(* dict.pop(name) on a dict with distinct keys *)
Fixpoint kw_del (n : nat) (kw : list (nat * value)) : list (nat * value) :=
  match kw with
  | [] => []
  | (k, v) :: kw' => if Nat.eqb k n then kw' else (k, v) :: kw_del n kw'
  end.

Fixpoint mem (n : nat) (l : list nat) : bool :=
  match l with [] => false | k :: l' => Nat.eqb k n || mem n l' end.

(* __get_param_value: (has_argument, value, remaining args, remaining kwargs) *)
Definition get_param_value (n : nat) (args : list value) (kw : list (nat * value))
  : bool * value * list value * list (nat * value) :=
  match args with
  | v :: args' => (true, v, args', kw)
  | [] => match kw_get n kw with
          | Some v => (true, v, [], kw_del n kw)
          | None => (false, None, [], kw)
          end
  end.

Definition is_some {A} (o : option A) : bool := match o with Some _ => true | None => false end.

(* one call of the external parameter processor: (name, in_choice_context, value) *)
Definition call := (nat * bool * value)%type.

Record pstate := mkS { s_args : list value; s_kw : list (nat * value); s_pwa : list nat;
                       s_st : frame * list frame; s_log : list call }.

(* __in_choice_context *)
Definition in_choice (st : frame * list frame) : bool :=
  existsb fchoice (fst st :: snd st).

(* __process_parameter; inr = the TypeError raised from a choice frame, with
   the callback log so far *)
Definition process_parameter (extra : bool) (s : pstate) (p : param) : pstate + list call :=
  let '(has, v, args', kw') := get_param_value (pname p) (s_args s) (s_kw s) in
  let pwa' := if has then pname p :: s_pwa s else s_pwa s in
  match step extra (s_st s) (mkL (popt p) (is_some v) (panc p)) with
  | None => inr (s_log s)
  | Some st' => inl (mkS args' kw' pwa' st' (s_log s ++ [(pname p, in_choice st', v)]))
  end.

Fixpoint process_parameters (extra : bool) (s : pstate) (ps : list param) : pstate + list call :=
  match ps with
  | [] => inl s
  | p :: ps' =>
      match process_parameter extra s p with
      | inl s' => process_parameters extra s' ps'
      | inr lg => inr lg
      end
  end.

(* what the caller of parse_args observes *)
Inductive res :=
  | ROk (required allowed : nat)
  | RChoice                                   (* multiple values for a single choice parameter *)
  | RMultiple (n : nat)                       (* got multiple values for parameter 'n' *)
  | RUnexpected (n : nat)                     (* got an unexpected keyword argument 'n' *)
  | RPositional (required allowed given : nat)  (* takes R [to A] positional argument[s] but G was/were given *)
  | ROther.                                   (* anything else (never produced by the model) *)

(* __check_for_extra_arguments *)
Definition check_extra (extra : bool) (s : pstate) (given r a : nat) : res :=
  if extra then
    match s_kw s with
    | (n, _) :: _ => if mem n (s_pwa s) then RMultiple n else RUnexpected n
    | [] => match s_args s with
            | _ :: _ => RPositional r a given
            | [] => ROk r a
            end
    end
  else ROk r a.

(* parse_args *)
Definition parse_args (extra : bool) (ps : list param) (args : list value) (kw : list (nat * value))
  : res * list call :=
  let given := length args + length kw in
  match process_parameters extra (mkS args kw [] (sentinel, []) []) ps with
  | inr lg => (RChoice, lg)
  | inl s =>
      match collapse extra (fst (s_st s)) (snd (s_st s)) with
      | None => (RChoice, s_log s)
      | Some f' => (check_extra extra s given (frequired f') (fallowed f'), s_log s)
      end
  end.

(* Document.bodycontent.add_param + Binding.mkparam for simple values: what one
   callback appends to the request.  Undefined members of a choice are skipped
   by add_param; the literal marshaller skips an optional parameter without a
   value and writes an empty element for a required one. *)
Definition opt_of (ps : list param) (n : nat) : bool :=
  match find (fun p => Nat.eqb (pname p) n) ps with Some p => popt p | None => false end.

Definition body_item (ps : list param) (c : call) : list (nat * value) :=
  match snd c with
  | Some _ => [(fst (fst c), snd c)]
  | None => if snd (fst c) || opt_of ps (fst (fst c)) then [] else [(fst (fst c), None)]
  end.

Definition body_of (ps : list param) (log : list call) : list (nat * value) :=
  flat_map (body_item ps) log.

Definition valued_item (x : nat * value) : bool :=
  match snd x with Some _ => true | None => false end.

(* rendering details of the positional message, as functions of the counts *)
Definition pos_has_range (r a : nat) : bool := negb (Nat.eqb r a).
Definition pos_plural (r a : nat) : bool := negb (Nat.eqb r a) || negb (Nat.eqb r 1).
Definition pos_was (given : nat) : bool := Nat.eqb given 1.

(* RPC.bodycontent (suds/bindings/rpc.py): no parser, nothing is ever rejected;
   parameter i takes args[i] when i < len(args), else kwargs.get(name) *)
Fixpoint rpc_values (names : list nat) (args : list value) (kw : list (nat * value)) (n : nat)
  : list (nat * value) :=
  match names with
  | [] => []
  | x :: names' =>
      (x, match nth_error args n with
          | Some v => v
          | None => match kw_get x kw with Some v => v | None => None end
          end) :: rpc_values names' args kw (S n)
  end.

(* what the transport sees of an rpc call: always sent; parameters whose value
   is None are left out of the request (Binding.mkparam returns None) *)
Inductive cres := CSent | CErr (r : res).

Definition rpc_outcome (names : list nat) (args : list value) (kw : list (nat * value))
  : cres * list (nat * value) :=
  (CSent, filter (fun x => match snd x with Some _ => true | None => false end)
                 (rpc_values names args kw 0)).

(* ------------------------------------------------------------------ *)
(* Part 2: the specification                                           *)
(* ------------------------------------------------------------------ *)

(* parameter structure: a parameter, or a sequence/all (ch=false) or choice
   (ch=true) container *)
Inductive pt := Leaf (name : nat) (opt : bool) | Node (id : nat) (ch : bool) (kids : list pt).

(* the parameter definitions of a structure, in document order *)
Fixpoint flatten (p : list (nat * bool)) (t : pt) : list param :=
  match t with
  | Leaf n o => [mkP n o p]
  | Node i c ks => flat_map (flatten (p ++ [(i, c)])) ks
  end.

Fixpoint names (t : pt) : list nat :=
  match t with Leaf n _ => [n] | Node _ _ ks => flat_map names ks end.

Fixpoint nleaves (t : pt) : nat :=
  match t with Leaf _ _ => 1 | Node _ _ ks => fold_right (fun k a => nleaves k + a) 0 ks end.

(* required = sum over sequences, minimum over choice branches *)
Fixpoint req (t : pt) : nat :=
  match t with
  | Leaf _ o => if o then 0 else 1
  | Node _ false ks => fold_right (fun k a => req k + a) 0 ks
  | Node _ true ks =>
      match ks with
      | [] => 0
      | k :: ks' => fold_right (fun k a => Nat.min (req k) a) (req k) ks'
      end
  end.

(* Python binding: positional values first, in order, then by keyword *)
Fixpoint bind (ns : list nat) (args : list value) (kw : list (nat * value)) : list (nat * value) :=
  match ns with
  | [] => []
  | n :: ns' =>
      match args with
      | v :: args' => (n, v) :: bind ns' args' kw
      | [] => (n, match kw_get n kw with Some v => v | None => None end) :: bind ns' [] kw
      end
  end.

(* the parameter named n was given a value other than None *)
Definition has_value (b : list (nat * value)) (n : nat) : bool :=
  match kw_get n b with Some (Some _) => true | _ => false end.

Fixpoint valued (hv : nat -> bool) (t : pt) : bool :=
  match t with Leaf n _ => hv n | Node _ _ ks => existsb (valued hv) ks end.

(* values for more than one branch of some choice *)
Fixpoint conflict (hv : nat -> bool) (t : pt) : bool :=
  match t with
  | Leaf _ _ => false
  | Node _ c ks =>
      existsb (conflict hv) ks || (c && Nat.ltb 1 (length (filter (valued hv) ks)))
  end.

Definition unknown_kw (ns : list nat) (kw : list (nat * value)) : bool :=
  existsb (fun k => negb (mem (fst k) ns)) kw.
Definition duplicate_kw (ns : list nat) (args : list value) (kw : list (nat * value)) : bool :=
  existsb (fun k => mem (fst k) (firstn (length args) ns)) kw.
Definition surplus (ns : list nat) (args : list value) : bool :=
  Nat.ltb (length ns) (length args).

Definition must_reject (t : pt) (args : list value) (kw : list (nat * value)) : bool :=
  unknown_kw (names t) kw || duplicate_kw (names t) args kw || surplus (names t) args
  || conflict (has_value (bind (names t) args kw)) t.

(* some ancestor is a choice *)
Fixpoint spec_calls (inch : bool) (t : pt) (b : list (nat * value)) : list call :=
  match t with
  | Leaf n _ => [(n, inch, match kw_get n b with Some v => v | None => None end)]
  | Node _ c ks => flat_map (fun k => spec_calls (inch || c) k b) ks
  end.

(* well-formed structure: containers are not empty, sibling containers are
   distinct objects, parameter names are distinct *)
Fixpoint node_ids (ks : list pt) : list nat :=
  match ks with
  | [] => []
  | Leaf _ _ :: ks' => node_ids ks'
  | Node i _ _ :: ks' => i :: node_ids ks'
  end.

Fixpoint nodup (l : list nat) : bool :=
  match l with [] => true | x :: l' => negb (mem x l') && nodup l' end.

Fixpoint wf_shape (t : pt) : bool :=
  match t with
  | Leaf _ _ => true
  | Node _ _ ks =>
      negb (Nat.eqb (length ks) 0) && nodup (node_ids ks) && forallb wf_shape ks
  end.

Definition wf (t : pt) : bool := wf_shape t && nodup (names t).

Definition kw_distinct (kw : list (nat * value)) : bool := nodup (map fst kw).

(* ------------------------------------------------------------------ *)
(* Part 3: predicates evaluated by the harness                         *)
(* ------------------------------------------------------------------ *)

Definition value_eqb : value -> value -> bool := opt_eqb Nat.eqb.
Definition call_eqb (x y : call) : bool :=
  Nat.eqb (fst (fst x)) (fst (fst y)) && Bool.eqb (snd (fst x)) (snd (fst y))
  && value_eqb (snd x) (snd y).

Definition res_eqb (x y : res) : bool :=
  match x, y with
  | ROk r a, ROk r' a' => Nat.eqb r r' && Nat.eqb a a'
  | RChoice, RChoice => true
  | RMultiple n, RMultiple n' => Nat.eqb n n'
  | RUnexpected n, RUnexpected n' => Nat.eqb n n'
  | RPositional r a g, RPositional r' a' g' => Nat.eqb r r' && Nat.eqb a a' && Nat.eqb g g'
  | _, _ => false
  end.

Definition anc_eqb (x y : list (nat * bool)) : bool :=
  list_eqb (fun a b => Nat.eqb (fst a) (fst b) && Bool.eqb (snd a) (snd b)) x y.
Definition param_eqb (x y : param) : bool :=
  Nat.eqb (pname x) (pname y) && Bool.eqb (popt x) (popt y) && anc_eqb (panc x) (panc y).

(* a direct call of suds.argparser.parse_args with mock parameter definitions *)
Record pcase := mkC {
  c_extra : bool;
  c_params : list param;             (* as passed to the implementation *)
  c_tree : option pt;                (* the structure they were rendered from, if any *)
  c_args : list value;
  c_kw : list (nat * value);
  c_res : res;                       (* return value or canonicalised TypeError *)
  c_log : list call                  (* calls of the parameter processor, in order *)
}.

Definition parse_agrees (c : pcase) : bool :=
  let '(r, lg) := parse_args (c_extra c) (c_params c) (c_args c) (c_kw c) in
  res_eqb r (c_res c) && list_eqb call_eqb lg (c_log c).

(* the property, applied to the implementation's output *)
Definition spec_res_ok (extra : bool) (t : pt) (args : list value) (kw : list (nat * value))
  (r : res) : bool :=
  let ns := names t in
  let b := bind ns args kw in
  match r with
  | ROk rq al =>
      Nat.eqb rq (req t) && Nat.eqb al (nleaves t)
      && (negb extra || negb (must_reject t args kw))
  | RChoice => extra && conflict (has_value b) t
  | RMultiple n => extra && kw_mem n kw && mem n (firstn (length args) ns)
  | RUnexpected n => extra && kw_mem n kw && negb (mem n ns)
  | RPositional rq al g =>
      (* the property fixes the two counts; "given" may or may not count the
         keyword arguments (CPython itself counts positional values only) *)
      extra && surplus ns args && Nat.eqb rq (req t) && Nat.eqb al (nleaves t)
      && Nat.leb (length args) g && Nat.leb g (length args + length kw)
  | ROther => false
  end.

Definition is_ok (r : res) : bool := match r with ROk _ _ => true | _ => false end.

Definition parse_spec_ok (c : pcase) : bool :=
  match c_tree c with
  | None => true
  | Some t =>
      wf t && kw_distinct (c_kw c)
      && list_eqb param_eqb (flatten [] t) (c_params c)
      && spec_res_ok (c_extra c) t (c_args c) (c_kw c) (c_res c)
      (* exactly one callback per parameter, in order, with the bound value,
         whenever the call is accepted *)
      && (negb (is_ok (c_res c))
          || list_eqb call_eqb (spec_calls false t (bind (names t) (c_args c) (c_kw c))) (c_log c))
  end.

(* a call of an operation of a real client (document/literal wrapped): the
   observation is the TypeError class or "request built" *)

Record ccase := mkCC {
  cc_extra : bool;
  cc_tree : pt;
  cc_params : list param;            (* read back from Document.param_defs *)
  cc_args : list value;
  cc_kw : list (nat * value);
  cc_res : cres;
  cc_body : list (nat * value)       (* sent: (name, text) of the wrapper's children, None = empty element *)
}.

Definition item_eqb (x y : nat * value) : bool :=
  Nat.eqb (fst x) (fst y) && value_eqb (snd x) (snd y).

Definition same_class (r : res) (c : cres) : bool :=
  match c with
  | CSent => is_ok r
  | CErr r' => negb (is_ok r') && res_eqb r r'
  end.

Definition client_agrees (c : ccase) : bool :=
  let '(r, lg) := parse_args (cc_extra c) (cc_params c) (cc_args c) (cc_kw c) in
  same_class r (cc_res c)
  && match cc_res c with
     | CSent => list_eqb item_eqb (body_of (cc_params c) lg) (cc_body c)
     | CErr _ => true
     end.

Definition client_spec_ok (c : ccase) : bool :=
  wf (cc_tree c) && kw_distinct (cc_kw c)
  && list_eqb param_eqb (flatten [] (cc_tree c)) (cc_params c)
  && match cc_res c with
     | CSent =>
         (negb (cc_extra c) || negb (must_reject (cc_tree c) (cc_args c) (cc_kw c)))
         (* a call with nothing to reject carries exactly its bound values, in
            parameter order *)
         && (must_reject (cc_tree c) (cc_args c) (cc_kw c)
             || list_eqb item_eqb (filter valued_item (cc_body c))
                  (filter valued_item (bind (names (cc_tree c)) (cc_args c) (cc_kw c))))
     | CErr r => negb (is_ok r)
                 && spec_res_ok (cc_extra c) (cc_tree c) (cc_args c) (cc_kw c) r
     end.

(* a call through an rpc binding that was sent: the observation is the list of
   (name, text) of the children of the request's method element *)
Record rcase := mkRC {
  rc_names : list nat;
  rc_args : list value;
  rc_kw : list (nat * value);
  rc_sent : list (nat * value)
}.

Definition rpc_agrees (c : rcase) : bool :=
  list_eqb (fun x y => Nat.eqb (fst x) (fst y) && value_eqb (snd x) (snd y))
           (snd (rpc_outcome (rc_names c) (rc_args c) (rc_kw c))) (rc_sent c).

(* the reasons for refusing a call that do not depend on the nesting *)
Definition must_reject_flat (ns : list nat) (args : list value) (kw : list (nat * value)) : bool :=
  unknown_kw ns kw || duplicate_kw ns args kw || surplus ns args.
