(* C08 - simulation between the frame machine of Model.v (partial: None is the
   TypeError raised from a choice frame when extra-argument errors are on) and
   the total ghost machine of Ghost.v.  Proofs only. *)
From SV Require Import Lib.Base C08.Model C08.Ghost.

(* erase the ghost bits of a state *)
Definition erase (st : gst) : frame * list frame := (fst (fst st), map fst (snd st)).
Definition any_err (st : gst) : bool := existsb snd (fst st :: snd st).

(* ------------------------------------------------------------------ *)
(* item / sub                                                          *)
(* ------------------------------------------------------------------ *)

Lemma item_sim : forall extra f hv a r,
  item extra f hv a r = if extra && clash f hv then None else Some (itemT f hv a r).
Proof.
  intros extra [i c al rq v it] hv a r. unfold item, itemT, clash. cbn.
  destruct c, hv, v, extra; reflexivity.
Qed.

Lemma sub_sim : forall extra f g,
  sub extra f g =
  if extra && clash f (fhasval g) then None
  else Some (itemT f (fhasval g) (fallowed g) (frequired g)).
Proof. intros. unfold sub. apply item_sim. Qed.

Lemma fresh_erase : forall a, map fst (map freshG a) = map fresh a.
Proof. induction a as [|x a IH]; cbn; [reflexivity|]. rewrite IH. reflexivity. Qed.

Lemma fresh_noerr : forall a, existsb snd (map freshG a) = false.
Proof. induction a as [|x a IH]; cbn; [reflexivity|]. exact IH. Qed.

(* ------------------------------------------------------------------ *)
(* checking off: the model machine never fails                          *)
(* ------------------------------------------------------------------ *)

Lemma collapse_off : forall above g,
  collapse false (fst g) (map fst above) = Some (fst (collapseG g above)).
Proof.
  induction above as [|h t IH]; intro g; cbn [map collapse collapseG].
  - reflexivity.
  - rewrite IH. rewrite sub_sim. reflexivity.
Qed.

Lemma descend_off : forall above f a,
  descend false (fst f) (map fst above) a = Some (erase (descendG f above a)).
Proof.
  induction above as [|g t IH]; intros f a.
  - cbn [map descend descendG]. unfold erase. cbn [fst snd]. rewrite fresh_erase. reflexivity.
  - pose proof (collapse_off (g :: t) f) as C. cbn [map] in C.
    destruct a as [|x a'].
    + cbn [map descend descendG]. rewrite C. reflexivity.
    + cbn [map descend descendG].
      destruct (Nat.eqb (fid (fst g)) (fst x)).
      * rewrite IH. destruct (descendG g t a') as [g' r]. reflexivity.
      * rewrite C. unfold erase. cbn [fst snd map]. rewrite fresh_erase. reflexivity.
Qed.

Lemma on_top_off : forall above f hv a r,
  on_top false (fst f) (map fst above) hv a r = Some (erase (on_topG f above hv a r)).
Proof.
  induction above as [|g t IH]; intros f hv a r; cbn [map on_top on_topG].
  - rewrite item_sim. reflexivity.
  - rewrite IH. destruct (on_topG g t hv a r) as [g' r']. reflexivity.
Qed.

(* ------------------------------------------------------------------ *)
(* checking on: the model machine fails exactly when a ghost bit is set *)
(* ------------------------------------------------------------------ *)

Lemma collapse_on : forall above g,
  existsb snd (g :: above) = false ->
  collapse true (fst g) (map fst above) =
  if snd (collapseG g above) then None else Some (fst (collapseG g above)).
Proof.
  induction above as [|h t IH]; intros g H.
  - cbn in H. rewrite orb_false_r in H. cbn. rewrite H. reflexivity.
  - cbn [existsb] in H. apply orb_false_iff in H as [Hg Ht].
    cbn [map collapse collapseG]. rewrite (IH h Ht).
    destruct (collapseG h t) as [cf cb]. cbn [fst snd].
    unfold subG, itemG. cbn [fst snd]. rewrite Hg. cbn [orb].
    destruct cb; cbn [orb]; [reflexivity|].
    rewrite sub_sim. cbn [andb]. reflexivity.
Qed.

Lemma collapse_mono : forall above g,
  existsb snd (g :: above) = true -> snd (collapseG g above) = true.
Proof.
  induction above as [|h t IH]; intros g H.
  - cbn in H. rewrite orb_false_r in H. exact H.
  - cbn [existsb] in H. cbn [collapseG]. unfold subG, itemG. cbn [snd].
    destruct (snd g); [reflexivity|]. cbn [orb] in H. rewrite (IH h H). reflexivity.
Qed.

Lemma descend_on : forall above f a,
  existsb snd (f :: above) = false ->
  descend true (fst f) (map fst above) a =
  if any_err (descendG f above a) then None else Some (erase (descendG f above a)).
Proof.
  induction above as [|g t IH]; intros f a H.
  - cbn in H. rewrite orb_false_r in H.
    cbn [map descend descendG]. unfold any_err, erase. cbn [fst snd existsb].
    rewrite H, fresh_noerr, fresh_erase. reflexivity.
  - pose proof (collapse_on (g :: t) f H) as C. cbn [map] in C.
    cbn [existsb] in H. apply orb_false_iff in H as [Hf Hg].
    destruct a as [|x a'].
    + cbn [map descend descendG]. rewrite C. unfold any_err, erase. cbn [fst snd existsb map].
      rewrite orb_false_r. destruct (snd (collapseG f (g :: t))); reflexivity.
    + cbn [map descend descendG].
      destruct (Nat.eqb (fid (fst g)) (fst x)).
      * rewrite (IH g a' Hg). destruct (descendG g t a') as [g' r].
        unfold any_err, erase. cbn [fst snd existsb map]. rewrite Hf. cbn [orb].
        destruct (snd g' || existsb snd r); reflexivity.
      * rewrite C. unfold any_err, erase. cbn [fst snd existsb map].
        rewrite fresh_noerr, fresh_erase. change (snd (freshG x)) with false.
        cbn [orb]. rewrite orb_false_r.
        destruct (snd (collapseG f (g :: t))); reflexivity.
Qed.

Lemma descend_mono : forall above f a,
  existsb snd (f :: above) = true -> any_err (descendG f above a) = true.
Proof.
  induction above as [|g t IH]; intros f a H.
  - cbn in H. rewrite orb_false_r in H.
    cbn [descendG]. unfold any_err. cbn [fst snd existsb]. rewrite H. reflexivity.
  - pose proof (collapse_mono (g :: t) f H) as C.
    cbn [existsb] in H.
    destruct a as [|x a'].
    + cbn [descendG]. unfold any_err. cbn [fst snd existsb]. rewrite C. reflexivity.
    + cbn [descendG].
      destruct (Nat.eqb (fid (fst g)) (fst x)).
      * destruct (snd f) eqn:Hf.
        -- destruct (descendG g t a') as [g' r]. unfold any_err. cbn [fst snd existsb].
           rewrite Hf. reflexivity.
        -- cbn [orb] in H. pose proof (IH g a' H) as D.
           destruct (descendG g t a') as [g' r]. unfold any_err in *. cbn [fst snd existsb] in *.
           rewrite D. apply orb_true_r.
      * unfold any_err. cbn [fst snd existsb]. rewrite C. reflexivity.
Qed.

Lemma on_top_on : forall above f hv a r,
  existsb snd (f :: above) = false ->
  on_top true (fst f) (map fst above) hv a r =
  if any_err (on_topG f above hv a r) then None else Some (erase (on_topG f above hv a r)).
Proof.
  induction above as [|g t IH]; intros f hv a r H.
  - cbn in H. rewrite orb_false_r in H.
    cbn [map on_top on_topG]. rewrite item_sim. unfold any_err, erase, itemG.
    cbn [fst snd existsb map andb]. rewrite H. cbn [orb]. rewrite orb_false_r.
    destruct (clash (fst f) hv); reflexivity.
  - cbn [existsb] in H. apply orb_false_iff in H as [Hf Hg].
    cbn [map on_top on_topG]. rewrite (IH g hv a r Hg).
    destruct (on_topG g t hv a r) as [g' r'].
    unfold any_err, erase. cbn [fst snd existsb map]. rewrite Hf. cbn [orb].
    destruct (snd g' || existsb snd r'); reflexivity.
Qed.

Lemma on_top_mono : forall above f hv a r,
  existsb snd (f :: above) = true -> any_err (on_topG f above hv a r) = true.
Proof.
  induction above as [|g t IH]; intros f hv a r H.
  - cbn in H. rewrite orb_false_r in H.
    cbn [on_topG]. unfold any_err, itemG. cbn [fst snd existsb]. rewrite H. reflexivity.
  - cbn [existsb] in H. cbn [on_topG].
    destruct (snd f) eqn:Hf.
    + destruct (on_topG g t hv a r) as [g' r']. unfold any_err. cbn [fst snd existsb].
      rewrite Hf. reflexivity.
    + cbn [orb] in H. pose proof (IH g hv a r H) as D.
      destruct (on_topG g t hv a r) as [g' r']. unfold any_err in *. cbn [fst snd existsb] in *.
      rewrite D. apply orb_true_r.
Qed.

(* ------------------------------------------------------------------ *)
(* both settings at once                                               *)
(* ------------------------------------------------------------------ *)

Lemma collapse_sim : forall extra above g,
  extra && existsb snd (g :: above) = false ->
  collapse extra (fst g) (map fst above) =
  if extra && snd (collapseG g above) then None else Some (fst (collapseG g above)).
Proof.
  intros [|] above g H; cbn [andb] in *.
  - apply collapse_on. exact H.
  - apply collapse_off.
Qed.

Lemma descend_sim : forall extra above f a,
  extra && existsb snd (f :: above) = false ->
  descend extra (fst f) (map fst above) a =
  if extra && any_err (descendG f above a) then None else Some (erase (descendG f above a)).
Proof.
  intros [|] above f a H; cbn [andb] in *.
  - apply descend_on. exact H.
  - apply descend_off.
Qed.

Lemma on_top_sim : forall extra above f hv a r,
  extra && existsb snd (f :: above) = false ->
  on_top extra (fst f) (map fst above) hv a r =
  if extra && any_err (on_topG f above hv a r) then None
  else Some (erase (on_topG f above hv a r)).
Proof.
  intros [|] above f hv a r H; cbn [andb] in *.
  - apply on_top_on. exact H.
  - apply on_top_off.
Qed.

Lemma update_context_sim : forall extra st anc,
  extra && any_err st = false ->
  update_context extra (erase st) anc =
  if extra && any_err (update_contextG st anc) then None
  else Some (erase (update_contextG st anc)).
Proof.
  intros extra [f above] anc H. unfold any_err in H. cbn [fst snd] in H.
  destruct anc as [|x anc'].
  - cbn [update_context update_contextG]. unfold any_err. cbn [fst snd]. rewrite H. reflexivity.
  - cbn [update_context update_contextG erase fst snd]. apply descend_sim. exact H.
Qed.

Lemma update_context_mono : forall st anc,
  any_err st = true -> any_err (update_contextG st anc) = true.
Proof.
  intros [f above] anc H. destruct anc as [|x anc'].
  - exact H.
  - cbn [update_contextG fst snd]. apply descend_mono. exact H.
Qed.

Lemma step_mono : forall st l, any_err st = true -> any_err (stepG st l) = true.
Proof.
  intros st l H. unfold stepG.
  pose proof (update_context_mono st (lanc l) H) as U.
  destruct (update_contextG st (lanc l)) as [f1 above1].
  apply on_top_mono. exact U.
Qed.

Lemma run_mono : forall ls st, any_err st = true -> any_err (runG st ls) = true.
Proof.
  induction ls as [|l ls IH]; intros st H; cbn [runG].
  - exact H.
  - apply IH. apply step_mono. exact H.
Qed.

(* ------------------------------------------------------------------ *)
(* top level                                                           *)
(* ------------------------------------------------------------------ *)

Lemma step_sim_l : forall extra l st, (extra && any_err st) = false ->
  step extra (erase st) l =
  if extra && any_err (stepG st l) then None else Some (erase (stepG st l)).
Proof.
  intros extra l st H. unfold step, stepG.
  rewrite (update_context_sim extra st (lanc l) H).
  pose proof (update_context_mono st (lanc l)) as M.
  destruct (update_contextG st (lanc l)) as [f1 above1].
  destruct (extra && any_err (f1, above1)) eqn:E.
  - apply andb_true_iff in E as [E1 E2].
    rewrite (on_top_mono above1 f1 (lhv l) 1 (if lopt l then 0 else 1) E2).
    rewrite E1. reflexivity.
  - unfold erase at 1. cbn [fst snd]. apply on_top_sim. exact E.
Qed.

Lemma run_sim_l : forall extra ls st, (extra && any_err st) = false ->
  run extra (erase st) ls =
  if extra && any_err (runG st ls) then None else Some (erase (runG st ls)).
Proof.
  intros extra ls. induction ls as [|l ls IH]; intros st H; cbn [run runG].
  - rewrite H. reflexivity.
  - rewrite (step_sim_l extra l st H).
    destruct (extra && any_err (stepG st l)) eqn:E.
    + apply andb_true_iff in E as [E1 E2].
      rewrite (run_mono ls (stepG st l) E2). rewrite E1. reflexivity.
    + apply IH. exact E.
Qed.

Lemma final_sim_l : forall (extra : bool) (ls : list leaf),
  final extra ls = if extra && snd (finalG ls) then None else Some (fst (finalG ls)).
Proof.
  intros extra ls. unfold final, finalG.
  change (sentinel, @nil frame) with (erase (sentinelG, [])).
  assert (H0 : extra && any_err (sentinelG, []) = false) by (destruct extra; reflexivity).
  rewrite (run_sim_l extra ls (sentinelG, []) H0).
  destruct (runG (sentinelG, []) ls) as [f above].
  destruct (extra && any_err (f, above)) eqn:E.
  - apply andb_true_iff in E as [E1 E2]. unfold any_err in E2. cbn [fst snd] in E2.
    rewrite (collapse_mono above f E2). rewrite E1. reflexivity.
  - unfold erase. cbn [fst snd]. apply collapse_sim. exact E.
Qed.

Lemma final_off_l : forall ls, final false ls = Some (fst (finalG ls)).
Proof. intro ls. rewrite final_sim_l. reflexivity. Qed.

Lemma final_on_l : forall ls,
  final true ls = if snd (finalG ls) then None else Some (fst (finalG ls)).
Proof. intro ls. rewrite final_sim_l. reflexivity. Qed.

Lemma final_mono_l : forall ls f, final true ls = Some f -> final false ls = Some f.
Proof.
  intros ls f H. rewrite final_on_l in H. rewrite final_off_l.
  destruct (snd (finalG ls)); [discriminate|exact H].
Qed.

Print Assumptions final_sim_l.
Print Assumptions final_off_l.
Print Assumptions final_on_l.
Print Assumptions final_mono_l.
Print Assumptions run_sim_l.
Print Assumptions step_sim_l.
