(* C08 - provisional: replaced by the full theorem list once Proofs.v is assembled. *)
From SV Require Import Lib.Base C08.Model C08.Ghost C08.SimProofs C08.BindProofs C08.TreeProofs.

Theorem tree_counts : forall (hv : nat -> bool) (t : pt), wf_shape t = true ->
  let g := finalG (leaves hv [] t) in
  frequired (fst g) = req t /\ fallowed (fst g) = nleaves t /\
  fhasval (fst g) = valued hv t /\ snd g = conflict hv t.
Proof. exact finalG_tree_l. Qed.
Print Assumptions tree_counts.
