(* C08 - Call arguments bind to parameters like Python arguments, or fail loudly.
   Property theorems only: each is closed by `exact` of a lemma proved in
   Proofs.v (which rests on BindProofs.v, SimProofs.v, TreeProofs.v) and
   followed by Print Assumptions.

   Objects: `parse_args extra ps args kw` is the model of suds.argparser.parse_args
   (Model.v, statement by statement: frame stack, positional-then-keyword value
   extraction, extra/duplicate argument reporting, callback log).  `pt` is a
   parameter structure of ANY width and depth (Leaf name optional | Node id
   is_choice kids), `flatten [] t` its parameter definitions with ancestry as
   Document.param_defs yields them.  `wf t`: containers are not empty, sibling
   containers are distinct objects, parameter names are distinct.  `kw_distinct`:
   a Python dict has distinct keys.  The specification (`req`, `nleaves`,
   `bind`, `must_reject`, `conflict`, `spec_calls`, `spec_res_ok`) is written
   from the property text in Model.v part 2. *)
From SV Require Import Lib.Base C08.Model C08.Proofs.

(* The model's observable result satisfies the executable specification that the
   harness applies to the implementation's own results: counts = sum over
   sequences / minimum over choice branches; accepted only when nothing must be
   rejected; every TypeError class names a reason that is present; nothing is
   rejected when checking is off. *)
Theorem model_meets_spec : forall extra t args kw,
  wf t = true -> kw_distinct kw = true ->
  spec_res_ok extra t args kw (fst (parse_args extra (flatten [] t) args kw)) = true.
Proof. exact model_meets_spec_l. Qed.
Print Assumptions model_meets_spec.

(* the reported required/allowed counts (return value, or the counts printed in
   "takes R to A positional arguments") equal those implied by the structure *)
Theorem counts_correct : forall extra t args kw,
  wf t = true -> kw_distinct kw = true ->
  forall r a,
    (fst (parse_args extra (flatten [] t) args kw) = ROk r a \/
     exists g, fst (parse_args extra (flatten [] t) args kw) = RPositional r a g) ->
    r = req t /\ a = nleaves t.
Proof. exact counts_correct_l. Qed.
Print Assumptions counts_correct.

(* with checking on, a call is rejected EXACTLY when it supplies an unknown
   keyword, two values for one parameter, too many positional values, or values
   for more than one branch of a choice *)
Theorem reject_iff : forall t args kw,
  wf t = true -> kw_distinct kw = true ->
  is_ok (fst (parse_args true (flatten [] t) args kw)) = negb (must_reject t args kw).
Proof. exact reject_iff_l. Qed.
Print Assumptions reject_iff.

(* the TypeError that is raised names a reason that is really there *)
Theorem reject_reason_sound : forall extra t args kw,
  wf t = true -> kw_distinct kw = true ->
  match fst (parse_args extra (flatten [] t) args kw) with
  | ROk _ _ => True
  | RChoice => extra = true /\ conflict (has_value (bind (names t) args kw)) t = true
  | RMultiple n => extra = true /\ kw_mem n kw = true /\ mem n (firstn (length args) (names t)) = true
  | RUnexpected n => extra = true /\ kw_mem n kw = true /\ mem n (names t) = false
  | RPositional _ _ g => extra = true /\ length (names t) < length args /\
                         length args <= g <= length args + length kw
  | ROther => False
  end.
Proof. exact reject_reason_sound_l. Qed.
Print Assumptions reject_reason_sound.

(* the positional-count failure is only raised for calls without keyword
   arguments, and the count it reports as given is the number of positional values *)
Theorem positional_given : forall extra t args kw r a g,
  wf t = true -> kw_distinct kw = true ->
  fst (parse_args extra (flatten [] t) args kw) = RPositional r a g ->
  kw = [] /\ g = length args.
Proof. exact positional_given_l. Qed.
Print Assumptions positional_given.

(* Whether - and how - a call is rejected depends only on WHICH arguments are
   defined (`value is not None`), never on the values themselves: 0, False, '',
   0.0, an empty list or object count exactly like any other value, in a choice
   branch as anywhere else.  For ANY list of parameter definitions. *)
Theorem reject_depends_on_definedness_only : forall extra ps args kw args' kw',
  same_definedness args args' kw kw' ->
  fst (parse_args extra ps args kw) = fst (parse_args extra ps args' kw').
Proof. exact reject_depends_on_definedness_only_l. Qed.
Print Assumptions reject_depends_on_definedness_only.

(* and so does the specification the implementation is judged by *)
Theorem must_reject_depends_on_definedness_only : forall t args kw args' kw',
  wf t = true -> kw_distinct kw = true -> kw_distinct kw' = true ->
  same_definedness args args' kw kw' ->
  must_reject t args kw = must_reject t args' kw'.
Proof. exact must_reject_definedness_l. Qed.
Print Assumptions must_reject_depends_on_definedness_only.

(* with extra-argument checking disabled no call is rejected - for ANY list of
   parameter definitions, well-formed or not *)
Theorem no_reject_when_off : forall ps args kw,
  is_ok (fst (parse_args false ps args kw)) = true.
Proof. exact no_reject_when_off_l. Qed.
Print Assumptions no_reject_when_off.

(* an accepted call hands every parameter to the binding exactly once, in
   document order, with its Python-bound value and the right in-choice flag *)
Theorem callback_once_in_order : forall extra t args kw,
  wf t = true -> kw_distinct kw = true ->
  is_ok (fst (parse_args extra (flatten [] t) args kw)) = true ->
  snd (parse_args extra (flatten [] t) args kw) = spec_calls false t (bind (names t) args kw).
Proof. exact callback_once_in_order_l. Qed.
Print Assumptions callback_once_in_order.

(* positional, keyword and mixed calls that bind the same values drive the
   binding identically (Document.bodycontent builds the request from these
   callbacks alone) *)
Theorem call_styles_equal : forall extra t args kw args' kw',
  wf t = true -> kw_distinct kw = true -> kw_distinct kw' = true ->
  bind (names t) args kw = bind (names t) args' kw' ->
  is_ok (fst (parse_args extra (flatten [] t) args kw)) = true ->
  is_ok (fst (parse_args extra (flatten [] t) args' kw')) = true ->
  snd (parse_args extra (flatten [] t) args kw) = snd (parse_args extra (flatten [] t) args' kw').
Proof. exact call_styles_equal_l. Qed.
Print Assumptions call_styles_equal.

(* the request body Document.bodycontent builds from those callbacks carries
   exactly the values the call bound, in parameter order *)
Theorem request_carries_bound_values : forall extra t args kw,
  wf t = true -> kw_distinct kw = true ->
  is_ok (fst (parse_args extra (flatten [] t) args kw)) = true ->
  filter valued_item (body_of (flatten [] t) (snd (parse_args extra (flatten [] t) args kw))) =
  filter valued_item (bind (names t) args kw).
Proof. exact request_carries_bound_values_l. Qed.
Print Assumptions request_carries_bound_values.

(* rpc bindings (RPC.bodycontent) do not run the parser.  The full statement
   "an rpc call is rejected iff must_reject_flat" is FALSE of the faithful model
   (finding C08:rpc-no-argument-check); what holds: a call that needs no
   rejection is bound like a Python call and sent ... *)
Theorem rpc_binds_like_python_partial : forall ns args kw,
  must_reject_flat ns args kw = false ->
  rpc_values ns args kw 0 = bind ns args kw /\ fst (rpc_outcome ns args kw) = CSent.
Proof. exact rpc_binds_like_python_l. Qed.
Print Assumptions rpc_binds_like_python_partial.

(* ... and a call with a surplus positional value and an unknown keyword is sent too *)
Theorem rpc_reject_refuted : exists ns args kw,
  must_reject_flat ns args kw = true /\ fst (rpc_outcome ns args kw) = CSent.
Proof. exact rpc_reject_refuted_l. Qed.
Print Assumptions rpc_reject_refuted.

(* non-vacuity: the hypotheses are satisfiable and every outcome class occurs *)
Definition ex_tree : pt :=
  Node 1 false [Leaf 1 false; Leaf 2 true;
                Node 2 true [Leaf 3 false; Node 3 false [Leaf 4 false; Leaf 5 true]];
                Leaf 6 false].

Example c08_nonvacuous :
  wf ex_tree = true /\ req ex_tree = 3 /\ nleaves ex_tree = 6 /\
  fst (parse_args true (flatten [] ex_tree) [Some 1; Some 2] [(3, Some 3); (6, Some 6)]) = ROk 3 6 /\
  fst (parse_args true (flatten [] ex_tree) [Some 1; None; Some 3; Some 4] []) = RChoice /\
  fst (parse_args false (flatten [] ex_tree) [Some 1; None; Some 3; Some 4] []) = ROk 3 6 /\
  fst (parse_args true (flatten [] ex_tree) [Some 1] [(1, Some 9)]) = RMultiple 1 /\
  fst (parse_args true (flatten [] ex_tree) [Some 1] [(9, None)]) = RUnexpected 9 /\
  fst (parse_args true (flatten [] ex_tree)
         [Some 1; None; None; None; None; Some 6; Some 7] []) = RPositional 3 6 7 /\
  must_reject ex_tree [Some 1; Some 2] [(3, Some 3); (6, Some 6)] = false /\
  same_definedness [Some 1; None; Some 3; Some 4] [Some 1; None; Some 400; Some 800] [] [] /\
  fst (parse_args true (flatten [] ex_tree) [Some 1; None; Some 400; Some 800] []) = RChoice /\
  snd (parse_args true (flatten [] ex_tree) [Some 1] [(4, Some 4)]) =
    [(1, false, Some 1); (2, false, None); (3, true, None); (4, true, Some 4); (5, true, None);
     (6, false, None)].
Proof. repeat split; reflexivity. Qed.
