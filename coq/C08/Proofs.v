(* C08 - assembly: the model of parse_args meets the executable specification
   on every parameter tree.  Ingredients:
     BindProofs.parse_args_res_l / parse_args_log_l  (argument threading = Python binding)
     SimProofs.final_sim_l / step_sim_l              (model machine = ghost machine)
     TreeProofs.finalG_tree_l / inchG_tree_l         (ghost machine on a tree = summary of the tree) *)
From SV Require Import Lib.Base C08.Model C08.Ghost C08.SimProofs C08.BindProofs C08.TreeProofs.

(* ------------------------------------------------------------------ *)
(* small facts                                                         *)
(* ------------------------------------------------------------------ *)

Lemma names_flatten : forall t p, map pname (flatten p t) = names t.
Proof.
  induction t as [n o | i c ks IH] using pt_ind'; intro p; simpl; [reflexivity|].
  induction ks as [|k ks IHks]; simpl; [reflexivity|].
  inversion IH as [|? ? Hk Hks]; subst.
  rewrite map_app, Hk, (IHks Hks). reflexivity.
Qed.

Lemma wf_parts t : wf t = true -> wf_shape t = true /\ nodup (names t) = true.
Proof. unfold wf. intro H. apply andb_true_iff in H. exact H. Qed.

Lemma kw_mem_In : forall n kw, kw_mem n kw = true <-> exists v, In (n, v) kw.
Proof.
  intros n kw. induction kw as [|[k v] kw IH]; simpl.
  - split; [discriminate | intros [v []]].
  - rewrite orb_true_iff, IH, Nat.eqb_eq. split.
    + intros [E | [w Hw]]; [subst; exists v; left; reflexivity | exists w; right; exact Hw].
    + intros [w [E | Hw]]; [inversion E; left; reflexivity | right; exists w; exact Hw].
Qed.

Lemma existsb_false_forall {A} (f : A -> bool) l :
  existsb f l = false <-> forall x, In x l -> f x = false.
Proof.
  induction l as [|a l IH]; simpl.
  - split; [intros _ x [] | reflexivity].
  - rewrite orb_false_iff, IH. split.
    + intros [Ha Hl] x [E | Hx]; [subst; exact Ha | apply Hl; exact Hx].
    + intro H. split; [apply H; left; reflexivity | intros x Hx; apply H; right; exact Hx].
Qed.

Lemma filter_nil_forall {A} (f : A -> bool) l :
  filter f l = [] -> forall x, In x l -> f x = false.
Proof.
  induction l as [|a l IH]; simpl; intros H x Hx; [destruct Hx|].
  destruct (f a) eqn:E; [discriminate|].
  destruct Hx as [<- | Hx]; [exact E | apply IH; assumption].
Qed.

Lemma nodup_app_disjoint : forall l1 l2 n, nodup (l1 ++ l2) = true ->
  mem n l1 = true -> mem n l2 = false.
Proof.
  induction l1 as [|a l1 IH]; simpl; intros l2 n H M; [discriminate|].
  apply andb_true_iff in H as [H1 H2].
  apply orb_true_iff in M as [M | M].
  - apply Nat.eqb_eq in M. subst a. apply negb_true_iff in H1.
    rewrite mem_app in H1. apply orb_false_iff in H1. apply H1.
  - apply (IH l2 n H2 M).
Qed.

Lemma mem_split n (ns : list nat) k :
  mem n ns = mem n (firstn k ns) || mem n (skipn k ns).
Proof. rewrite <- mem_app, firstn_skipn. reflexivity. Qed.

(* ------------------------------------------------------------------ *)
(* the result of parse_args on a tree, in closed form                  *)
(* ------------------------------------------------------------------ *)

Lemma parse_args_tree_l : forall extra t args kw,
  wf t = true -> kw_distinct kw = true ->
  exists f', frequired f' = req t /\ fallowed f' = nleaves t /\
    fst (parse_args extra (flatten [] t) args kw) =
      if extra && conflict (has_value (bind (names t) args kw)) t then RChoice
      else verdict extra (names t) args kw f'.
Proof.
  intros extra t args kw W K. destruct (wf_parts t W) as [Ws Wn].
  pose proof (parse_args_res_l extra (flatten [] t) args kw) as R.
  rewrite names_flatten in R. specialize (R Wn K).
  rewrite final_sim_l in R.
  set (hv := has_value (bind (names t) args kw)) in *.
  change (map (leaf_of hv) (flatten [] t)) with (leaves hv [] t) in R.
  destruct (finalG_tree_l hv t Ws) as [Hr [Ha [_ He]]].
  exists (fst (finalG (leaves hv [] t))). split; [exact Hr|]. split; [exact Ha|].
  rewrite R, He. destruct (extra && conflict hv t); reflexivity.
Qed.

(* ------------------------------------------------------------------ *)
(* the model meets the executable specification                        *)
(* ------------------------------------------------------------------ *)

Lemma leftover_head_in : forall ns args kw n v r,
  leftover_kw ns args kw = (n, v) :: r ->
  kw_mem n kw = true /\ mem n (skipn (length args) ns) = false.
Proof.
  intros ns args kw n v r H. unfold leftover_kw in H.
  assert (I : In (n, v) (filter (fun k => negb (mem (fst k) (skipn (length args) ns))) kw))
    by (rewrite H; left; reflexivity).
  apply filter_In in I as [I1 I2]. split.
  - apply kw_mem_In. exists v. exact I1.
  - simpl in I2. apply negb_true_iff in I2. exact I2.
Qed.

Lemma no_leftover_no_reason : forall ns args kw, nodup ns = true ->
  leftover_kw ns args kw = [] ->
  unknown_kw ns kw = false /\ duplicate_kw ns args kw = false.
Proof.
  intros ns args kw N H. unfold leftover_kw in H.
  pose proof (filter_nil_forall _ _ H) as F. simpl in F.
  unfold unknown_kw, duplicate_kw. split; apply existsb_false_forall; intros x Hx;
    specialize (F x Hx); apply negb_false_iff in F.
  - apply negb_false_iff. rewrite (mem_split (fst x) ns (length args)), F. apply orb_true_r.
  - destruct (mem (fst x) (firstn (length args) ns)) eqn:E; [|reflexivity].
    rewrite <- (firstn_skipn (length args) ns) in N.
    rewrite (nodup_app_disjoint _ _ _ N E) in F. discriminate.
Qed.

Lemma model_meets_spec_l : forall extra t args kw,
  wf t = true -> kw_distinct kw = true ->
  spec_res_ok extra t args kw (fst (parse_args extra (flatten [] t) args kw)) = true.
Proof.
  intros extra t args kw W K.
  destruct (parse_args_tree_l extra t args kw W K) as [f' [Hr [Ha E]]].
  destruct (wf_parts t W) as [_ Wn].
  rewrite E. clear E.
  destruct (extra && conflict (has_value (bind (names t) args kw)) t) eqn:C.
  - (* RChoice *) simpl. exact C.
  - unfold verdict. destruct extra.
    + simpl in C.
      destruct (leftover_kw (names t) args kw) as [|[n v] r] eqn:L.
      * destruct (no_leftover_no_reason _ _ _ Wn L) as [U D].
        destruct (Nat.ltb (length (names t)) (length args)) eqn:S.
        -- (* RPositional *) simpl. unfold surplus. rewrite S, Hr, Ha, !Nat.eqb_refl. simpl.
           apply andb_true_iff. split; apply Nat.leb_le; lia.
        -- (* ROk *) simpl. rewrite Hr, Ha, !Nat.eqb_refl. simpl.
           unfold must_reject, surplus. rewrite U, D, S, C. reflexivity.
      * destruct (leftover_head_in _ _ _ _ _ _ L) as [M Sk].
        destruct (mem n (firstn (length args) (names t))) eqn:F.
        -- (* RMultiple *) simpl. rewrite M, F. reflexivity.
        -- (* RUnexpected *) simpl. rewrite M. simpl.
           rewrite (mem_split n (names t) (length args)), F, Sk. reflexivity.
    + (* checking off *) simpl. rewrite Hr, Ha, !Nat.eqb_refl. reflexivity.
Qed.

(* ------------------------------------------------------------------ *)
(* consequences of the specification                                   *)
(* ------------------------------------------------------------------ *)

Lemma counts_correct_l : forall extra t args kw,
  wf t = true -> kw_distinct kw = true ->
  forall r a,
    (fst (parse_args extra (flatten [] t) args kw) = ROk r a \/
     exists g, fst (parse_args extra (flatten [] t) args kw) = RPositional r a g) ->
    r = req t /\ a = nleaves t.
Proof.
  intros extra t args kw W K r a H.
  pose proof (model_meets_spec_l extra t args kw W K) as S.
  destruct H as [H | [g H]]; rewrite H in S; simpl in S.
  - apply andb_true_iff in S as [S _]. apply andb_true_iff in S as [S1 S2].
    apply Nat.eqb_eq in S1, S2. split; assumption.
  - repeat (apply andb_true_iff in S as [S ?]).
    repeat match goal with X : Nat.eqb _ _ = true |- _ => apply Nat.eqb_eq in X end.
    split; assumption.
Qed.

Lemma kw_mem_existsb : forall n kw (f : nat -> bool), kw_mem n kw = true -> f n = true ->
  existsb (fun k => f (fst k)) kw = true.
Proof.
  intros n kw f M F. apply kw_mem_In in M as [v I].
  apply existsb_exists. exists (n, v). split; [exact I | exact F].
Qed.

Lemma spec_reject_iff : forall t args kw r,
  spec_res_ok true t args kw r = true -> is_ok r = negb (must_reject t args kw).
Proof.
  intros t args kw r S. unfold must_reject. destruct r; simpl in S |- *.
  - apply andb_true_iff in S as [_ S]. simpl in S. unfold must_reject in S.
    symmetry. exact S.
  - rewrite S. rewrite !orb_true_r. reflexivity.
  - apply andb_true_iff in S as [M F].
    unfold duplicate_kw. rewrite (kw_mem_existsb n kw (fun k => mem k (firstn (length args) (names t))) M F).
    rewrite orb_true_r. reflexivity.
  - apply andb_true_iff in S as [M F].
    unfold unknown_kw. rewrite (kw_mem_existsb n kw (fun k => negb (mem k (names t))) M F).
    reflexivity.
  - repeat (apply andb_true_iff in S as [S ?]).
    match goal with X : surplus _ _ = true |- _ => rewrite X end.
    rewrite orb_true_r. reflexivity.
  - discriminate.
Qed.

Lemma reject_iff_l : forall t args kw,
  wf t = true -> kw_distinct kw = true ->
  is_ok (fst (parse_args true (flatten [] t) args kw)) = negb (must_reject t args kw).
Proof.
  intros t args kw W K. apply spec_reject_iff. apply model_meets_spec_l; assumption.
Qed.

(* each loud failure names a reason that is really there *)
Lemma reject_reason_sound_l : forall extra t args kw,
  wf t = true -> kw_distinct kw = true ->
  match fst (parse_args extra (flatten [] t) args kw) with
  | ROk _ _ => True
  | RChoice => extra = true /\ conflict (has_value (bind (names t) args kw)) t = true
  | RMultiple n => extra = true /\ kw_mem n kw = true /\ mem n (firstn (length args) (names t)) = true
  | RUnexpected n => extra = true /\ kw_mem n kw = true /\ mem n (names t) = false
  | RPositional _ _ g => extra = true /\ length (names t) < length args /\
                         length args <= g <= length args + length kw
  | ROther => False
  end.
Proof.
  intros extra t args kw W K.
  pose proof (model_meets_spec_l extra t args kw W K) as S.
  destruct (fst (parse_args extra (flatten [] t) args kw)); simpl in S; try exact I.
  - apply andb_true_iff in S. exact S.
  - apply andb_true_iff in S as [S F]. apply andb_true_iff in S as [E M]. auto.
  - apply andb_true_iff in S as [S F]. apply andb_true_iff in S as [E M].
    apply negb_true_iff in F. auto.
  - repeat (apply andb_true_iff in S as [S ?]).
    match goal with X : surplus _ _ = true |- _ => unfold surplus in X; apply Nat.ltb_lt in X end.
    repeat match goal with X : Nat.leb _ _ = true |- _ => apply Nat.leb_le in X end.
    auto.
  - discriminate.
Qed.

(* "takes R to A positional arguments but G were given" is only ever raised
   for a call without keyword arguments (a keyword left over is reported
   first), so G is the number of positional values *)
Lemma positional_given_l : forall extra t args kw r a g,
  wf t = true -> kw_distinct kw = true ->
  fst (parse_args extra (flatten [] t) args kw) = RPositional r a g ->
  kw = [] /\ g = length args.
Proof.
  intros extra t args kw r a g W K H.
  destruct (parse_args_tree_l extra t args kw W K) as [f' [_ [_ E]]].
  rewrite E in H. clear E.
  destruct (extra && conflict (has_value (bind (names t) args kw)) t); [discriminate|].
  unfold verdict in H. destruct extra; [|discriminate].
  destruct (leftover_kw (names t) args kw) as [|[n v] l] eqn:L.
  - destruct (Nat.ltb (length (names t)) (length args)) eqn:S; [|discriminate].
    apply Nat.ltb_lt in S. unfold leftover_kw in L.
    rewrite skipn_all2 in L by lia. simpl in L.
    assert (Z : kw = []).
    { rewrite <- L. clear. induction kw as [|x kw IH]; simpl; [reflexivity|]. f_equal. exact IH. }
    subst kw. inversion H. simpl. split; [reflexivity | lia].
  - destruct (mem n (firstn (length args) (names t))); discriminate.
Qed.

(* ------------------------------------------------------------------ *)
(* checking off: nothing is ever rejected, for ANY parameter list      *)
(* ------------------------------------------------------------------ *)

Definition lift (st : frame * list frame) : gst :=
  ((fst st, false), map (fun f => (f, false)) (snd st)).

Lemma erase_lift st : erase (lift st) = st.
Proof.
  destruct st as [f above]. unfold erase, lift. simpl. f_equal.
  rewrite map_map. simpl. apply map_id.
Qed.

Lemma step_off_some : forall st l, exists st', step false st l = Some st'.
Proof.
  intros st l. pose proof (step_sim_l false l (lift st) eq_refl) as H.
  rewrite erase_lift in H. simpl in H. eexists. exact H.
Qed.

Lemma collapse_off_some : forall f above, exists f', collapse false f above = Some f'.
Proof.
  intros f above. pose proof (collapse_off (map (fun x => (x, false)) above) (f, false)) as H.
  simpl in H. rewrite map_map in H. simpl in H. rewrite map_id in H. eexists. exact H.
Qed.

Lemma process_parameters_off : forall ps s, exists s', process_parameters false s ps = inl s'.
Proof.
  induction ps as [|p ps IH]; intro s; simpl; [eexists; reflexivity|].
  unfold process_parameter.
  destruct (get_param_value (pname p) (s_args s) (s_kw s)) as [[[has v] a'] k'].
  destruct (step_off_some (s_st s) (mkL (popt p) (is_some v) (panc p))) as [st' E].
  rewrite E. apply IH.
Qed.

Lemma no_reject_when_off_l : forall ps args kw,
  is_ok (fst (parse_args false ps args kw)) = true.
Proof.
  intros ps args kw. unfold parse_args.
  destruct (process_parameters_off ps (mkS args kw [] (sentinel, []) [])) as [s E].
  rewrite E.
  destruct (collapse_off_some (fst (s_st s)) (snd (s_st s))) as [f' C].
  rewrite C. reflexivity.
Qed.

(* ------------------------------------------------------------------ *)
(* the callback log                                                    *)
(* ------------------------------------------------------------------ *)

Lemma in_choice_erase st :
  in_choice (erase st) = existsb (fun g => fchoice (fst g)) (fst st :: snd st).
Proof.
  destruct st as [g above]. unfold in_choice, erase. simpl. f_equal.
  induction above as [|a above IH]; simpl; [reflexivity|]. rewrite IH. reflexivity.
Qed.

Lemma inch_run_G : forall extra ls st, (extra && any_err st) = false ->
  run extra (erase st) ls <> None ->
  inch_run extra (erase st) ls = inchG st ls.
Proof.
  intros extra ls. induction ls as [|l ls IH]; intros st H R; simpl; [reflexivity|].
  simpl in R. rewrite (step_sim_l extra l st H) in *.
  destruct (extra && any_err (stepG st l)) eqn:E; [congruence|].
  rewrite in_choice_erase. f_equal. apply IH; assumption.
Qed.

Lemma spec_inch_length : forall t p i, length (spec_inch i t) = length (flatten p t).
Proof.
  induction t as [n o | j c ks IH] using pt_ind'; intros p i; simpl; [reflexivity|].
  induction ks as [|k ks IHks]; simpl; [reflexivity|].
  inversion IH as [|? ? Hk Hks]; subst.
  rewrite !app_length, (Hk (p ++ [(j, c)])), (IHks Hks). reflexivity.
Qed.

Lemma combine_app_eq {A B} : forall (l1 l2 : list A) (m1 m2 : list B), length l1 = length m1 ->
  combine (l1 ++ l2) (m1 ++ m2) = combine l1 m1 ++ combine l2 m2.
Proof.
  induction l1 as [|a l1 IH]; intros l2 [|b m1] m2 H; simpl in *; try discriminate; [reflexivity|].
  f_equal. apply IH. congruence.
Qed.

Lemma log_spec_calls : forall b t p i,
  map (fun pi : param * bool => (pname (fst pi), snd pi, bound b (pname (fst pi))))
      (combine (flatten p t) (spec_inch i t)) = spec_calls i t b.
Proof.
  intros b. induction t as [n o | j c ks IH] using pt_ind'; intros p i; simpl; [reflexivity|].
  induction ks as [|k ks IHks]; simpl; [reflexivity|].
  inversion IH as [|? ? Hk Hks]; subst.
  rewrite combine_app_eq by (symmetry; apply spec_inch_length).
  rewrite map_app, Hk, (IHks Hks). reflexivity.
Qed.

Lemma callback_once_in_order_l : forall extra t args kw,
  wf t = true -> kw_distinct kw = true ->
  is_ok (fst (parse_args extra (flatten [] t) args kw)) = true ->
  snd (parse_args extra (flatten [] t) args kw) = spec_calls false t (bind (names t) args kw).
Proof.
  intros extra t args kw W K OK. destruct (wf_parts t W) as [Ws Wn].
  pose proof (parse_args_res_l extra (flatten [] t) args kw) as R.
  pose proof (parse_args_log_l extra (flatten [] t) args kw) as L.
  rewrite names_flatten in R, L. specialize (R Wn K). specialize (L Wn K).
  set (hv := has_value (bind (names t) args kw)) in *.
  change (map (leaf_of hv) (flatten [] t)) with (leaves hv [] t) in R, L.
  assert (RN : run extra (sentinel, []) (leaves hv [] t) <> None).
  { intro Z. rewrite R in OK. unfold final in OK. rewrite Z in OK. discriminate. }
  pose proof (inch_run_G extra (leaves hv [] t) (sentinelG, [])) as G.
  assert (E0 : erase (sentinelG, []) = (sentinel, [])) by reflexivity.
  rewrite E0 in G. rewrite G in L; [| destruct extra; reflexivity | exact RN].
  rewrite (inchG_tree_l hv t Ws) in L. rewrite L. apply log_spec_calls.
Qed.

Lemma call_styles_equal_l : forall extra t args kw args' kw',
  wf t = true -> kw_distinct kw = true -> kw_distinct kw' = true ->
  bind (names t) args kw = bind (names t) args' kw' ->
  is_ok (fst (parse_args extra (flatten [] t) args kw)) = true ->
  is_ok (fst (parse_args extra (flatten [] t) args' kw')) = true ->
  snd (parse_args extra (flatten [] t) args kw) = snd (parse_args extra (flatten [] t) args' kw').
Proof.
  intros extra t args kw args' kw' W K K' B O O'.
  rewrite (callback_once_in_order_l extra t args kw W K O).
  rewrite (callback_once_in_order_l extra t args' kw' W K' O'). rewrite B. reflexivity.
Qed.

(* ------------------------------------------------------------------ *)
(* the request body built from the callbacks                           *)
(* ------------------------------------------------------------------ *)

Lemma body_valued : forall ps log,
  filter valued_item (body_of ps log) =
  filter valued_item (map (fun c : call => (fst (fst c), snd c)) log).
Proof.
  intros ps. induction log as [|c log IH]; simpl; [reflexivity|].
  unfold body_of in *. simpl. rewrite filter_app, IH. unfold body_item.
  destruct c as [[n i] [v|]]; simpl.
  - reflexivity.
  - destruct (i || opt_of ps n); reflexivity.
Qed.

Lemma spec_calls_names : forall b t i,
  map (fun c : call => (fst (fst c), snd c)) (spec_calls i t b) =
  map (fun n => (n, bound b n)) (names t).
Proof.
  intros b. induction t as [n o | j c ks IH] using pt_ind'; intro i; simpl; [reflexivity|].
  induction ks as [|k ks IHks]; simpl; [reflexivity|].
  inversion IH as [|? ? Hk Hks]; subst.
  rewrite !map_app, Hk, (IHks Hks). reflexivity.
Qed.

Lemma assoc_bound : forall (b : list (nat * value)), nodup (map fst b) = true ->
  b = map (fun n => (n, bound b n)) (map fst b).
Proof.
  induction b as [|[k v] b IH]; simpl; intro N; [reflexivity|].
  apply andb_true_iff in N as [N1 N2]. apply negb_true_iff in N1.
  unfold bound at 1. simpl. rewrite Nat.eqb_refl. f_equal.
  rewrite (IH N2) at 1. apply map_ext_in. intros n Hn.
  unfold bound. simpl.
  destruct (Nat.eqb k n) eqn:E; [|reflexivity].
  apply Nat.eqb_eq in E. subst n. apply mem_In in Hn. congruence.
Qed.

Lemma request_carries_bound_values_l : forall extra t args kw,
  wf t = true -> kw_distinct kw = true ->
  is_ok (fst (parse_args extra (flatten [] t) args kw)) = true ->
  filter valued_item (body_of (flatten [] t) (snd (parse_args extra (flatten [] t) args kw))) =
  filter valued_item (bind (names t) args kw).
Proof.
  intros extra t args kw W K OK. destruct (wf_parts t W) as [_ Wn].
  rewrite (callback_once_in_order_l extra t args kw W K OK).
  rewrite body_valued, spec_calls_names.
  pose proof (assoc_bound (bind (names t) args kw)) as A.
  rewrite bind_keys in A. rewrite <- (A Wn). reflexivity.
Qed.

(* ------------------------------------------------------------------ *)
(* rpc bindings                                                        *)
(* ------------------------------------------------------------------ *)

Lemma nth_error_skipn {A} : forall n (l : list A),
  nth_error l n = match skipn n l with v :: _ => Some v | [] => None end.
Proof.
  induction n as [|n IH]; intros [|a l]; simpl; try reflexivity. apply IH.
Qed.

Lemma skipn_S_tl {A} : forall n (l : list A), skipn (S n) l = tl (skipn n l).
Proof.
  induction n as [|n IH]; intros [|a l]; try reflexivity.
  change (skipn (S (S n)) (a :: l)) with (skipn (S n) l).
  change (skipn (S n) (a :: l)) with (skipn n l). apply IH.
Qed.

Lemma rpc_values_bind : forall ns args kw n,
  rpc_values ns args kw n = bind ns (skipn n args) kw.
Proof.
  induction ns as [|x ns IH]; intros args kw n; simpl; [reflexivity|].
  rewrite nth_error_skipn, IH, skipn_S_tl.
  destruct (skipn n args) as [|v r] eqn:E; simpl; reflexivity.
Qed.

Lemma rpc_binds_like_python_l : forall ns args kw,
  must_reject_flat ns args kw = false ->
  rpc_values ns args kw 0 = bind ns args kw /\ fst (rpc_outcome ns args kw) = CSent.
Proof. intros ns args kw _. split; [apply (rpc_values_bind ns args kw 0) | reflexivity]. Qed.

Lemma rpc_reject_refuted_l : exists ns args kw,
  must_reject_flat ns args kw = true /\ fst (rpc_outcome ns args kw) = CSent.
Proof. exists [1], [Some 1; Some 2], [(7, Some 3)]. split; reflexivity. Qed.

(* ------------------------------------------------------------------ *)
(* only `value is not None` matters                                    *)
(* ------------------------------------------------------------------ *)

(* two calls supply "the same arguments up to their values": the same number of
   positional values and the same keywords in the same order, each defined
   (not None) in one call exactly when it is in the other *)
Definition same_definedness (args args' : list value) (kw kw' : list (nat * value)) : Prop :=
  map is_some args = map is_some args' /\
  map (fun k : nat * value => (fst k, is_some (snd k))) kw =
  map (fun k : nat * value => (fst k, is_some (snd k))) kw'.

Definition normv (v : value) : value := if is_some v then Some 0 else None.
Definition normk (k : nat * value) : nat * value := (fst k, normv (snd k)).

Lemma is_some_normv v : is_some (normv v) = is_some v.
Proof. destruct v; reflexivity. Qed.

Lemma kw_get_norm : forall n kw, kw_get n (map normk kw) = option_map normv (kw_get n kw).
Proof.
  intros n kw. induction kw as [|[k v] kw IH]; simpl; [reflexivity|].
  destruct (Nat.eqb k n); [reflexivity | exact IH].
Qed.

Lemma kw_del_norm : forall n kw, kw_del n (map normk kw) = map normk (kw_del n kw).
Proof.
  intros n kw. induction kw as [|[k v] kw IH]; simpl; [reflexivity|].
  destruct (Nat.eqb k n); [reflexivity|]. simpl. rewrite IH. reflexivity.
Qed.

Definition norm_state (s : pstate) : pstate :=
  mkS (map normv (s_args s)) (map normk (s_kw s)) (s_pwa s) (s_st s) [].

(* the part of the parser state the verdict depends on *)
Definition same_core (s s' : pstate) : Prop :=
  s_args s' = map normv (s_args s) /\ s_kw s' = map normk (s_kw s) /\
  s_pwa s' = s_pwa s /\ s_st s' = s_st s.

Lemma process_parameter_norm : forall extra p s s', same_core s s' ->
  match process_parameter extra s p, process_parameter extra s' p with
  | inl t, inl t' => same_core t t'
  | inr _, inr _ => True
  | _, _ => False
  end.
Proof.
  intros extra p s s' [Ha [Hk [Hp Hs]]].
  unfold process_parameter, get_param_value. rewrite Ha, Hk, Hp, Hs.
  destruct (s_args s) as [|v a]; simpl.
  - rewrite kw_get_norm. destruct (kw_get (pname p) (s_kw s)) as [v|]; simpl.
    + rewrite is_some_normv.
      destruct (step extra (s_st s) (mkL (popt p) (is_some v) (panc p))); [|exact I].
      repeat split; simpl; auto. apply kw_del_norm.
    + destruct (step extra (s_st s) (mkL (popt p) false (panc p))); [|exact I].
      repeat split; reflexivity.
  - rewrite is_some_normv.
    destruct (step extra (s_st s) (mkL (popt p) (is_some v) (panc p))); [|exact I].
    repeat split; reflexivity.
Qed.

Lemma process_parameters_norm : forall extra ps s s', same_core s s' ->
  match process_parameters extra s ps, process_parameters extra s' ps with
  | inl t, inl t' => same_core t t'
  | inr _, inr _ => True
  | _, _ => False
  end.
Proof.
  intros extra ps. induction ps as [|p ps IH]; intros s s' H; simpl; [exact H|].
  pose proof (process_parameter_norm extra p s s' H) as P.
  destruct (process_parameter extra s p) as [t|], (process_parameter extra s' p) as [t'|];
    try contradiction; [apply IH; exact P | exact I].
Qed.

Lemma parse_args_norm : forall extra ps args kw,
  fst (parse_args extra ps args kw) = fst (parse_args extra ps (map normv args) (map normk kw)).
Proof.
  intros extra ps args kw. unfold parse_args. rewrite !map_length.
  pose proof (process_parameters_norm extra ps (mkS args kw [] (sentinel, []) [])
                (mkS (map normv args) (map normk kw) [] (sentinel, []) [])) as P.
  specialize (P (conj eq_refl (conj eq_refl (conj eq_refl eq_refl)))).
  destruct (process_parameters extra (mkS args kw [] (sentinel, []) []) ps) as [t|],
           (process_parameters extra (mkS (map normv args) (map normk kw) [] (sentinel, []) []) ps) as [t'|];
    try contradiction; [|reflexivity].
  destruct P as [Ha [Hk [Hp Hs]]]. rewrite Hs.
  destruct (collapse extra (fst (s_st t)) (snd (s_st t))) as [f'|]; [|reflexivity]. simpl.
  unfold check_extra. rewrite Ha, Hk, Hp. destruct extra; [|reflexivity].
  destruct (s_kw t) as [|[n v] r]; simpl; [|reflexivity].
  destruct (s_args t); reflexivity.
Qed.

Lemma same_definedness_norm : forall args args' kw kw', same_definedness args args' kw kw' ->
  map normv args = map normv args' /\ map normk kw = map normk kw'.
Proof.
  intros args args' kw kw' [Ha Hk]. split.
  - assert (E : forall l, map normv l = map (fun b : bool => if b then Some 0 else None) (map is_some l))
      by (intro l; rewrite map_map; reflexivity).
    rewrite (E args), (E args'), Ha. reflexivity.
  - assert (E : forall l, map normk l =
        map (fun k : nat * bool => (fst k, if snd k then Some 0 else None))
            (map (fun k : nat * value => (fst k, is_some (snd k))) l))
      by (intro l; rewrite map_map; reflexivity).
    rewrite (E kw), (E kw'), Hk. reflexivity.
Qed.

Lemma reject_depends_on_definedness_only_l : forall extra ps args kw args' kw',
  same_definedness args args' kw kw' ->
  fst (parse_args extra ps args kw) = fst (parse_args extra ps args' kw').
Proof.
  intros extra ps args kw args' kw' H.
  destruct (same_definedness_norm _ _ _ _ H) as [Ea Ek].
  rewrite (parse_args_norm extra ps args kw), (parse_args_norm extra ps args' kw'), Ea, Ek.
  reflexivity.
Qed.

(* the same holds of the specification: the four reasons for rejecting a call
   do not look at the values either *)
Lemma must_reject_definedness_l : forall t args kw args' kw',
  wf t = true -> kw_distinct kw = true -> kw_distinct kw' = true ->
  same_definedness args args' kw kw' ->
  must_reject t args kw = must_reject t args' kw'.
Proof.
  intros t args kw args' kw' W K K' H.
  pose proof (reject_iff_l t args kw W K) as A.
  pose proof (reject_iff_l t args' kw' W K') as B.
  rewrite (reject_depends_on_definedness_only_l true (flatten [] t) args kw args' kw' H) in A.
  rewrite A in B. destruct (must_reject t args kw), (must_reject t args' kw'); simpl in B; congruence.
Qed.
