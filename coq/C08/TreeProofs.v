(* C08 - the induction over structure trees, done once on the total ghost
   machine of Ghost.v: after all leaves of a well-shaped tree have been
   processed, the collapsed sentinel frame carries exactly the specification's
   counts (req, nleaves), the "has a value" flag and the conflict bit; and the
   in_choice_context flag seen by every leaf is "some ancestor is a
   choice". *)
From SV Require Import Lib.Base C08.Model C08.Ghost.

(* ------------------------------------------------------------------ *)
(* projections of itemG                                                *)
(* ------------------------------------------------------------------ *)

Lemma itemG_fid g h a r e : fid (fst (itemG g h a r e)) = fid (fst g).
Proof. unfold itemG, itemT; simpl. destruct (fchoice (fst g)); reflexivity. Qed.

Lemma itemG_choice g h a r e : fchoice (fst (itemG g h a r e)) = fchoice (fst g).
Proof. unfold itemG, itemT; simpl. destruct (fchoice (fst g)) eqn:E; simpl; congruence. Qed.

Lemma itemG_hasval g h a r e : fhasval (fst (itemG g h a r e)) = fhasval (fst g) || h.
Proof. unfold itemG, itemT; simpl. destruct (fchoice (fst g)); reflexivity. Qed.

Lemma itemG_allowed g h a r e : fallowed (fst (itemG g h a r e)) = fallowed (fst g) + a.
Proof. unfold itemG, itemT; simpl. destruct (fchoice (fst g)); reflexivity. Qed.

Lemma itemG_required g h a r e :
  frequired (fst (itemG g h a r e)) =
  if fchoice (fst g) then (if fhasitem (fst g) then Nat.min (frequired (fst g)) r else r)
  else frequired (fst g) + r.
Proof. unfold itemG, itemT; simpl. destruct (fchoice (fst g)); reflexivity. Qed.

Lemma itemG_hasitem g h a r e :
  fhasitem (fst (itemG g h a r e)) = if fchoice (fst g) then true else fhasitem (fst g).
Proof. unfold itemG, itemT; simpl. destruct (fchoice (fst g)); reflexivity. Qed.

Lemma itemG_ghost g h a r e :
  snd (itemG g h a r e) = snd g || e || (fchoice (fst g) && h && fhasval (fst g)).
Proof. reflexivity. Qed.

(* the identity of a frame: the ancestry item it was made for *)
Definition key (g : gf) : nat * bool := (fid (fst g), fchoice (fst g)).

Lemma itemG_key g h a r e : key (itemG g h a r e) = key g.
Proof. unfold key. rewrite itemG_fid, itemG_choice. reflexivity. Qed.

Lemma subG_key f g : key (subG f g) = key f.
Proof. apply itemG_key. Qed.

Lemma collapseG_key f above : key (collapseG f above) = key f.
Proof. destruct above; simpl; [reflexivity | apply subG_key]. Qed.

Lemma freshG_key x : key (freshG x) = x.
Proof. destruct x; reflexivity. Qed.

(* ------------------------------------------------------------------ *)
(* operations on a stack                                               *)
(* ------------------------------------------------------------------ *)

(* keep n frames above the bottom; the frame at depth n takes in everything above it *)
Fixpoint absorb (n : nat) (f : gf) (above : list gf) : gst :=
  match n, above with
  | 0, _ => (collapseG f above, [])
  | S n', [] => (f, [])
  | S n', g :: above' => (f, fst (absorb n' g above') :: snd (absorb n' g above'))
  end.

(* apply F to the frame at depth n *)
Fixpoint on_at (n : nat) (F : gf -> gf) (f : gf) (above : list gf) : gst :=
  match n, above with
  | 0, _ => (F f, above)
  | S n', [] => (f, [])
  | S n', g :: above' => (f, fst (on_at n' F g above') :: snd (on_at n' F g above'))
  end.

Definition absorbS (n : nat) (st : gst) : gst := absorb n (fst st) (snd st).
Definition on_atS (n : nat) (F : gf -> gf) (st : gst) : gst := on_at n F (fst st) (snd st).
Definition app_top (st : gst) (l : list gf) : gst := (fst st, snd st ++ l).

(* the first |p| frames above the bottom are the frames of the path p *)
Fixpoint good (p : list (nat * bool)) (above : list gf) : Prop :=
  match p, above with
  | [], _ => True
  | x :: p', g :: above' => key g = x /\ good p' above'
  | _ :: _, [] => False
  end.

(* the id of the frame at index n of the frames above the bottom *)
Fixpoint junk1 (n : nat) (above : list gf) : option nat :=
  match n, above with
  | _, [] => None
  | 0, g :: _ => Some (fid (fst g))
  | S n', _ :: above' => junk1 n' above'
  end.

Definition jok (j : option nat) (ids : list nat) : Prop :=
  match j with None => True | Some i => mem i ids = false end.

(* ---- small facts ---- *)

Lemma absorb_fst_key n f above : key (fst (absorb n f above)) = key f.
Proof. destruct n; simpl; [apply collapseG_key | destruct above; reflexivity]. Qed.

Lemma absorb_nojunk : forall n f above, length above <= n -> absorb n f above = (f, above).
Proof.
  induction n as [|n IH]; intros f above H.
  - destruct above; [reflexivity | simpl in H; lia].
  - destruct above as [|g above']; [reflexivity|]. simpl in *.
    rewrite IH by lia. reflexivity.
Qed.

Lemma absorb_length : forall n f above, n <= length above -> length (snd (absorb n f above)) = n.
Proof.
  induction n as [|n IH]; intros f above H; [reflexivity|].
  destruct above as [|g above']; simpl in *; [lia|]. rewrite IH by lia. reflexivity.
Qed.

Lemma absorb_absorb : forall n f above,
  absorbS n (absorb (S n) f above) = absorb n f above.
Proof.
  induction n as [|n IH]; intros f above.
  - destruct above as [|g above']; reflexivity.
  - destruct above as [|g above']; [reflexivity|].
    specialize (IH g above'). unfold absorbS in *.
    change (absorb (S (S n)) f (g :: above'))
      with (f, fst (absorb (S n) g above') :: snd (absorb (S n) g above')).
    cbn [fst snd].
    change (absorb (S n) f (fst (absorb (S n) g above') :: snd (absorb (S n) g above')))
      with (f, fst (absorb n (fst (absorb (S n) g above')) (snd (absorb (S n) g above')))
               :: snd (absorb n (fst (absorb (S n) g above')) (snd (absorb (S n) g above')))).
    rewrite IH. reflexivity.
Qed.

Lemma absorb_snoc : forall n f above X, length above = n ->
  absorb n f (above ++ [X]) = on_at n (fun fr => subG fr X) f above.
Proof.
  induction n as [|n IH]; intros f above X H.
  - destruct above; [reflexivity | discriminate].
  - destruct above as [|g above']; [discriminate|]. simpl in H.
    simpl. rewrite IH by lia. reflexivity.
Qed.

Lemma on_at_length : forall n F f above, length (snd (on_at n F f above)) = length above.
Proof.
  induction n as [|n IH]; intros F f above; [reflexivity|].
  destruct above as [|g above']; [reflexivity|]. simpl. rewrite IH. reflexivity.
Qed.

Lemma on_at_id : forall n f above, on_at n (fun fr => fr) f above = (f, above).
Proof.
  induction n as [|n IH]; intros f above; [reflexivity|].
  destruct above as [|g above']; [reflexivity|]. simpl. rewrite IH. reflexivity.
Qed.

Lemma on_at_ext : forall n F G f above, (forall x, F x = G x) ->
  on_at n F f above = on_at n G f above.
Proof.
  induction n as [|n IH]; intros F G f above H.
  - simpl. rewrite H. reflexivity.
  - destruct above as [|g above']; [reflexivity|]. simpl. rewrite (IH F G g above' H). reflexivity.
Qed.

Lemma on_at_on_at : forall n F G f above,
  on_atS n G (on_at n F f above) = on_at n (fun x => G (F x)) f above.
Proof.
  induction n as [|n IH]; intros F G f above; [reflexivity|].
  destruct above as [|g above']; [reflexivity|]. unfold on_atS in *. simpl.
  rewrite IH. reflexivity.
Qed.

Lemma on_atS_on_atS n F G st :
  on_atS n G (on_atS n F st) = on_atS n (fun x => G (F x)) st.
Proof. exact (on_at_on_at n F G (fst st) (snd st)). Qed.

Lemma on_at_snoc : forall n F f above X, length above = n ->
  on_at (S n) F f (above ++ [X]) = (f, above ++ [F X]).
Proof.
  induction n as [|n IH]; intros F f above X H.
  - destruct above; [reflexivity | discriminate].
  - destruct above as [|g above']; [discriminate|]. simpl in H.
    change (on_at (S (S n)) F f ((g :: above') ++ [X]))
      with (f, fst (on_at (S n) F g (above' ++ [X])) :: snd (on_at (S n) F g (above' ++ [X]))).
    rewrite IH by lia. reflexivity.
Qed.

Lemma on_at_fst_key : forall n F f above, (forall x, key (F x) = key x) ->
  key (fst (on_at n F f above)) = key f.
Proof. intros n F f above H. destruct n; simpl; [apply H | destruct above; reflexivity]. Qed.

Lemma on_top_on_at : forall above f hv a r,
  on_topG f above hv a r = on_at (length above) (fun fr => itemG fr hv a r false) f above.
Proof.
  induction above as [|g above' IH]; intros f hv a r; [reflexivity|].
  simpl. rewrite IH. destruct (on_at _ _ g above'); reflexivity.
Qed.

(* ---- good ---- *)

Lemma good_length : forall p above, good p above -> length p <= length above.
Proof.
  induction p as [|x p IH]; intros above H; simpl; [lia|].
  destruct above as [|g above']; [destruct H|]. destruct H as [_ H]. apply IH in H. simpl; lia.
Qed.

Lemma good_absorb : forall p f above, good p above -> good p (snd (absorb (length p) f above)).
Proof.
  induction p as [|x p IH]; intros f above H; [exact I|].
  destruct above as [|g above']; [destruct H|]. destruct H as [Hk H]. simpl. split.
  - rewrite absorb_fst_key. exact Hk.
  - apply IH. exact H.
Qed.

Lemma good_on_at : forall p n F f above, (forall x, key (F x) = key x) ->
  good p above -> good p (snd (on_at n F f above)).
Proof.
  induction p as [|x p IH]; intros n F f above HF H; [exact I|].
  destruct above as [|g above']; [destruct H|]. destruct H as [Hk H].
  destruct n as [|n]; simpl; [tauto|]. split.
  - rewrite on_at_fst_key by exact HF. exact Hk.
  - apply IH; assumption.
Qed.

Lemma good_app_l : forall p q above, good (p ++ q) above -> good p above.
Proof.
  induction p as [|x p IH]; intros q above H; [exact I|].
  destruct above as [|g above']; [destruct H|]. destruct H as [Hk H]. split; [exact Hk|].
  eapply IH; exact H.
Qed.

Lemma good_snoc : forall p above x, good p above -> length above = length p ->
  good (p ++ [x]) (above ++ [freshG x]).
Proof.
  induction p as [|y p IH]; intros above x H L.
  - destruct above; [|discriminate]. simpl. split; [apply freshG_key | exact I].
  - destruct above as [|g above']; [destruct H|]. destruct H as [Hk H]. simpl in L.
    simpl. split; [exact Hk|]. apply IH; [exact H | lia].
Qed.

Lemma good_junk : forall p x above, good (p ++ [x]) above -> junk1 (length p) above = Some (fst x).
Proof.
  induction p as [|y p IH]; intros x above H.
  - destruct above as [|g above']; [destruct H|]. destruct H as [Hk _]. simpl.
    rewrite <- Hk. reflexivity.
  - destruct above as [|g above']; [destruct H|]. destruct H as [_ H]. simpl. apply IH. exact H.
Qed.

Lemma junk1_none : forall n above, length above <= n -> junk1 n above = None.
Proof.
  induction n as [|n IH]; intros above H.
  - destruct above; [reflexivity | simpl in H; lia].
  - destruct above as [|g above']; [reflexivity|]. simpl in *. apply IH. lia.
Qed.

(* ------------------------------------------------------------------ *)
(* descendG on a stack whose lower part is the path                    *)
(* ------------------------------------------------------------------ *)

Lemma descendG_match f g above' x a' : fid (fst g) = fst x ->
  descendG f (g :: above') (x :: a') =
  (f, fst (descendG g above' a') :: snd (descendG g above' a')).
Proof.
  intro H. simpl. rewrite H, Nat.eqb_refl. destruct (descendG g above' a'); reflexivity.
Qed.

Lemma descendG_nomatch f g above' x a' : fid (fst g) <> fst x ->
  descendG f (g :: above') (x :: a') = (collapseG f (g :: above'), map freshG (x :: a')).
Proof.
  intro H. simpl. apply Nat.eqb_neq in H. rewrite H. reflexivity.
Qed.

Lemma key_fid g x : key g = x -> fid (fst g) = fst x.
Proof. intro H. rewrite <- H. reflexivity. Qed.

Lemma descend_exact : forall p f above, good p above ->
  descendG f above p = absorb (length p) f above.
Proof.
  induction p as [|x p IH]; intros f above H.
  - destruct above; reflexivity.
  - destruct above as [|g above']; [destruct H|]. destruct H as [Hk H].
    rewrite descendG_match by (apply key_fid; exact Hk).
    rewrite (IH g above' H). reflexivity.
Qed.

Lemma descend_new : forall p f above x a', good p above ->
  junk1 (length p) above <> Some (fst x) ->
  descendG f above (p ++ x :: a') = app_top (absorb (length p) f above) (map freshG (x :: a')).
Proof.
  induction p as [|y p IH]; intros f above x a' H J.
  - destruct above as [|g above']; [reflexivity|]. simpl in J.
    simpl app. rewrite descendG_nomatch by congruence. reflexivity.
  - destruct above as [|g above']; [destruct H|]. destruct H as [Hk H]. simpl in J.
    change ((y :: p) ++ x :: a') with (y :: (p ++ x :: a')).
    rewrite descendG_match by (apply key_fid; exact Hk).
    rewrite (IH g above' x a' H J). reflexivity.
Qed.

Lemma descend_exact_app : forall p f above a, good p above -> length above = length p ->
  descendG f above (p ++ a) = (f, above ++ map freshG a).
Proof.
  induction p as [|x p IH]; intros f above a H L.
  - destruct above; [reflexivity | discriminate].
  - destruct above as [|g above']; [destruct H|]. destruct H as [Hk H]. simpl in L.
    change ((x :: p) ++ a) with (x :: (p ++ a)).
    rewrite descendG_match by (apply key_fid; exact Hk).
    rewrite (IH g above' a H) by lia. reflexivity.
Qed.

Lemma update_context_ne st anc : anc <> [] ->
  update_contextG st anc = descendG (fst st) (snd st) anc.
Proof. destruct anc; [congruence | reflexivity]. Qed.

(* the first leaf below a new container: the step from the real state is
   the step from the normalised state in which the container's frame has
   already been pushed *)
Lemma step_norm : forall p f above x a' l, good p above ->
  junk1 (length p) above <> Some (fst x) ->
  lanc l = (p ++ [x]) ++ a' ->
  stepG (f, above) l = stepG (app_top (absorb (length p) f above) [freshG x]) l.
Proof.
  intros p f above x a' l H J E.
  assert (NE : (p ++ [x]) ++ a' <> []).
  { intro Z. apply app_eq_nil in Z. destruct Z as [Z _]. apply app_eq_nil in Z.
    destruct Z as [_ Z]. discriminate. }
  unfold stepG. rewrite E. rewrite !update_context_ne by exact NE.
  cbn [fst snd app_top].
  rewrite (descend_exact_app (p ++ [x]) (fst (absorb (length p) f above))
             (snd (absorb (length p) f above) ++ [freshG x]) a').
  - rewrite <- app_assoc. simpl app. rewrite descend_new by assumption.
    unfold app_top. cbn [fst snd map]. rewrite <- app_assoc. reflexivity.
  - apply good_snoc; [apply good_absorb; exact H|].
    apply absorb_length. apply good_length. exact H.
  - rewrite !app_length. rewrite absorb_length by (apply good_length; exact H). reflexivity.
Qed.

(* ------------------------------------------------------------------ *)
(* lists of machine leaves of a tree                                   *)
(* ------------------------------------------------------------------ *)

Lemma runG_app : forall l1 st l2, runG st (l1 ++ l2) = runG (runG st l1) l2.
Proof. induction l1 as [|l l1 IH]; intros st l2; simpl; [reflexivity | apply IH]. Qed.

Lemma map_flat_map {A B C : Type} (f : B -> C) (g : A -> list B) (l : list A) :
  map f (flat_map g l) = flat_map (fun x => map f (g x)) l.
Proof. induction l as [|x l IH]; simpl; [reflexivity|]. rewrite map_app, IH. reflexivity. Qed.

Lemma leaves_node hv p i c ks :
  leaves hv p (Node i c ks) = flat_map (leaves hv (p ++ [(i, c)])) ks.
Proof. unfold leaves. simpl. apply map_flat_map. Qed.

Section PtInd.
  Variable P : pt -> Prop.
  Hypothesis HL : forall n o, P (Leaf n o).
  Hypothesis HN : forall i c ks, Forall P ks -> P (Node i c ks).
  Fixpoint pt_ind' (t : pt) : P t :=
    match t with
    | Leaf n o => HL n o
    | Node i c ks =>
        HN i c ks ((fix go (l : list pt) : Forall P l :=
                      match l with
                      | [] => @Forall_nil _ P
                      | k :: l' => @Forall_cons _ P k l' (pt_ind' k) (go l')
                      end) ks)
    end.
End PtInd.

Lemma wf_node i c ks : wf_shape (Node i c ks) = true ->
  ks <> [] /\ nodup (node_ids ks) = true /\ forallb wf_shape ks = true.
Proof.
  simpl. intro H. apply andb_true_iff in H. destruct H as [H H3].
  apply andb_true_iff in H. destruct H as [H1 H2]. split; [|split; assumption].
  intro Z. subst ks. discriminate.
Qed.

(* a well-shaped tree has a first leaf, and its ancestry extends the path *)
Lemma first_leaf hv : forall t p, wf_shape t = true ->
  exists l ls a', leaves hv p t = l :: ls /\ lanc l = p ++ a'.
Proof.
  induction t as [n o | i c ks IH] using pt_ind'; intros p W.
  - exists (mkL o (hv n) p), [], []. split; [reflexivity|]. simpl. rewrite app_nil_r. reflexivity.
  - apply wf_node in W. destruct W as [NE [_ W]].
    destruct ks as [|k ks']; [congruence|].
    inversion IH as [|? ? IHk _]; subst. simpl in W. apply andb_true_iff in W. destruct W as [Wk _].
    destruct (IHk (p ++ [(i, c)]) Wk) as [l [ls [a' [E1 E2]]]].
    exists l, (ls ++ flat_map (leaves hv (p ++ [(i, c)])) ks'), ((i, c) :: a'). split.
    + rewrite leaves_node. simpl. rewrite E1. reflexivity.
    + rewrite E2. rewrite <- app_assoc. reflexivity.
Qed.

Lemma first_leaf_forest hv : forall ks q, ks <> [] -> forallb wf_shape ks = true ->
  exists l ls a', flat_map (leaves hv q) ks = l :: ls /\ lanc l = q ++ a'.
Proof.
  intros ks q NE W. destruct ks as [|k ks']; [congruence|].
  simpl in W. apply andb_true_iff in W. destruct W as [Wk _].
  destruct (first_leaf hv k q Wk) as [l [ls [a' [E1 E2]]]].
  exists l, (ls ++ flat_map (leaves hv q) ks'), a'. split; [|exact E2].
  simpl. rewrite E1. reflexivity.
Qed.

(* ------------------------------------------------------------------ *)
(* what a whole subtree contributes to the frame of its parent         *)
(* ------------------------------------------------------------------ *)

Definition summ (hv : nat -> bool) (t : pt) (fr : gf) : gf :=
  itemG fr (valued hv t) (nleaves t) (req t) (conflict hv t).

Definition foldK (hv : nat -> bool) (ks : list pt) (g : gf) : gf :=
  fold_left (fun fr k => summ hv k fr) ks g.

Lemma foldK_cons hv k ks g : foldK hv (k :: ks) g = foldK hv ks (summ hv k g).
Proof. reflexivity. Qed.

Lemma summ_key hv t g : key (summ hv t g) = key g.
Proof. apply itemG_key. Qed.

Lemma foldK_choice hv : forall ks g, fchoice (fst (foldK hv ks g)) = fchoice (fst g).
Proof.
  induction ks as [|k ks IH]; intro g; [reflexivity|].
  rewrite foldK_cons, IH. apply itemG_choice.
Qed.

Lemma foldK_hasval hv : forall ks g,
  fhasval (fst (foldK hv ks g)) = fhasval (fst g) || existsb (valued hv) ks.
Proof.
  induction ks as [|k ks IH]; intro g.
  - simpl. rewrite orb_false_r. reflexivity.
  - rewrite foldK_cons, IH. unfold summ. rewrite itemG_hasval. simpl.
    rewrite orb_assoc. reflexivity.
Qed.

Lemma foldK_allowed hv : forall ks g,
  fallowed (fst (foldK hv ks g)) = fallowed (fst g) + fold_right (fun k a => nleaves k + a) 0 ks.
Proof.
  induction ks as [|k ks IH]; intro g.
  - simpl. lia.
  - rewrite foldK_cons, IH. unfold summ. rewrite itemG_allowed. simpl. lia.
Qed.

Lemma foldK_req_seq hv : forall ks g, fchoice (fst g) = false ->
  frequired (fst (foldK hv ks g)) = frequired (fst g) + fold_right (fun k a => req k + a) 0 ks.
Proof.
  induction ks as [|k ks IH]; intros g C.
  - simpl. lia.
  - rewrite foldK_cons, IH by (unfold summ; rewrite itemG_choice; exact C).
    unfold summ. rewrite itemG_required, C. simpl. lia.
Qed.

Lemma fold_min_acc : forall (ks : list pt) m r,
  fold_right (fun k a => Nat.min (req k) a) (Nat.min m r) ks
  = Nat.min r (fold_right (fun k a => Nat.min (req k) a) m ks).
Proof.
  induction ks as [|k ks IH]; intros m r; simpl; [lia|]. rewrite IH. lia.
Qed.

Lemma foldK_req_ch hv : forall ks g, fchoice (fst g) = true -> fhasitem (fst g) = true ->
  frequired (fst (foldK hv ks g))
  = fold_right (fun k a => Nat.min (req k) a) (frequired (fst g)) ks.
Proof.
  induction ks as [|k ks IH]; intros g C I; [reflexivity|].
  rewrite foldK_cons, IH.
  - unfold summ. rewrite itemG_required, C, I. simpl. apply fold_min_acc.
  - unfold summ. rewrite itemG_choice. exact C.
  - unfold summ. rewrite itemG_hasitem, C. reflexivity.
Qed.

Lemma foldK_ghost hv : forall ks g,
  snd (foldK hv ks g)
  = snd g || existsb (conflict hv) ks
    || (fchoice (fst g)
        && Nat.ltb 1 ((if fhasval (fst g) then 1 else 0) + length (filter (valued hv) ks))).
Proof.
  induction ks as [|k ks IH]; intro g.
  - simpl. destruct (snd g), (fchoice (fst g)), (fhasval (fst g)); reflexivity.
  - rewrite foldK_cons, IH. unfold summ.
    rewrite itemG_ghost, itemG_choice, itemG_hasval. simpl existsb. simpl filter.
    destruct (valued hv k); simpl length;
      generalize (length (filter (valued hv) ks)) as L;
      generalize (existsb (conflict hv) ks) as b; intros b L;
      destruct (snd g), (conflict hv k), (fchoice (fst g)), (fhasval (fst g)), b;
      try reflexivity; destruct L as [|[|L]]; reflexivity.
Qed.

(* a container's frame, collapsed into its parent, is the container's summary *)
Lemma node_summ hv i c ks fr :
  subG fr (foldK hv ks (freshG (i, c))) = summ hv (Node i c ks) fr.
Proof.
  unfold subG, summ. f_equal.
  - rewrite foldK_hasval. reflexivity.
  - rewrite foldK_allowed. reflexivity.
  - destruct c.
    + destruct ks as [|k ks']; [reflexivity|].
      rewrite foldK_cons, foldK_req_ch; reflexivity.
    + rewrite foldK_req_seq; reflexivity.
  - rewrite foldK_ghost. reflexivity.
Qed.

(* ------------------------------------------------------------------ *)
(* the invariant of a subtree                                          *)
(* ------------------------------------------------------------------ *)

Definition root_id (t : pt) : option nat :=
  match t with Leaf _ _ => None | Node i _ _ => Some i end.

Definition T (hv : nat -> bool) (t : pt) : Prop :=
  forall p st, (root_id t = None -> p <> []) -> wf_shape t = true ->
    good p (snd st) -> jok (junk1 (length p) (snd st)) (node_ids [t]) ->
    absorbS (length p) (runG st (leaves hv p t))
      = on_atS (length p) (summ hv t) (absorbS (length p) st)
    /\ good p (snd (runG st (leaves hv p t)))
    /\ junk1 (length p) (snd (runG st (leaves hv p t))) = root_id t.

Lemma jok_split j k ks : jok j (node_ids (k :: ks)) -> jok j (node_ids [k]) /\ jok j (node_ids ks).
Proof.
  destruct j as [j|]; [|simpl; tauto]. destruct k as [n o | i c kk]; simpl.
  - intro H. split; [reflexivity | exact H].
  - intro H. apply orb_false_iff in H. destruct H as [H1 H2]. rewrite H1. split; [reflexivity | exact H2].
Qed.

Lemma nodup_split k ks : nodup (node_ids (k :: ks)) = true ->
  jok (root_id k) (node_ids ks) /\ nodup (node_ids ks) = true.
Proof.
  destruct k as [n o | i c kk]; simpl.
  - intro H. split; [exact I | exact H].
  - intro H. apply andb_true_iff in H. destruct H as [H1 H2]. split; [|exact H2].
    apply negb_true_iff in H1. exact H1.
Qed.

Lemma jok_single j i : jok j [i] -> j <> Some i.
Proof.
  destruct j as [j|]; [|discriminate]. simpl. intros H E. inversion E; subst.
  rewrite Nat.eqb_refl in H. discriminate.
Qed.

Lemma pair_eta {A B : Type} (x : A * B) : (fst x, snd x) = x.
Proof. destruct x; reflexivity. Qed.

(* all the subtrees of a container, one after the other *)
Lemma forest hv : forall ks, Forall (T hv) ks -> forall q st, q <> [] ->
  forallb wf_shape ks = true -> nodup (node_ids ks) = true ->
  good q (snd st) -> jok (junk1 (length q) (snd st)) (node_ids ks) ->
  absorbS (length q) (runG st (flat_map (leaves hv q) ks))
    = on_atS (length q) (foldK hv ks) (absorbS (length q) st)
  /\ good q (snd (runG st (flat_map (leaves hv q) ks))).
Proof.
  induction 1 as [|k ks Hk _ IH]; intros q st NE W N G J.
  - simpl. split; [|exact G]. unfold on_atS.
    rewrite (on_at_ext _ (foldK hv []) (fun fr => fr)) by reflexivity.
    rewrite on_at_id. rewrite pair_eta. reflexivity.
  - simpl in W. apply andb_true_iff in W. destruct W as [Wk W].
    apply nodup_split in N. destruct N as [Jk N].
    apply jok_split in J. destruct J as [J1 J2].
    destruct (Hk q st (fun _ => NE) Wk G J1) as [A1 [G1 R1]].
    simpl flat_map. rewrite runG_app.
    set (st1 := runG st (leaves hv q k)) in *.
    assert (J' : jok (junk1 (length q) (snd st1)) (node_ids ks)) by (rewrite R1; exact Jk).
    destruct (IH q st1 NE W N G1 J') as [A2 G2]. split; [|exact G2].
    rewrite A2, A1. rewrite on_atS_on_atS. reflexivity.
Qed.

Lemma leaf_step p f above o h : p <> [] -> good p above ->
  stepG (f, above) (mkL o h p)
  = on_atS (length p) (fun fr => itemG fr h 1 (if o then 0 else 1) false)
           (absorb (length p) f above).
Proof.
  intros NE G. unfold stepG. cbn [lanc lhv lopt].
  rewrite update_context_ne by exact NE. cbn [fst snd].
  rewrite descend_exact by exact G.
  pose proof (absorb_length (length p) f above (good_length _ _ G)) as L.
  destruct (absorb (length p) f above) as [f1 above1]. cbn [snd] in L.
  rewrite on_top_on_at, L. reflexivity.
Qed.

Lemma T_leaf hv n o : T hv (Leaf n o).
Proof.
  intros p [f above] NE _ G _. specialize (NE eq_refl). cbn [snd] in G.
  unfold leaves. cbn [flatten map runG]. unfold leaf_of. cbn [pname popt panc].
  rewrite leaf_step by assumption.
  assert (K : forall x, key (itemG x (hv n) 1 (if o then 0 else 1) false) = key x)
    by (intro x; apply itemG_key).
  pose proof (good_absorb p f above G) as GA.
  pose proof (absorb_length (length p) f above (good_length _ _ G)) as LA.
  set (A := absorb (length p) f above) in *.
  set (Fi := fun fr => itemG fr (hv n) 1 (if o then 0 else 1) false) in *.
  assert (LS : length (snd (on_atS (length p) Fi A)) = length p).
  { unfold on_atS. rewrite on_at_length. exact LA. }
  split; [|split].
  - unfold absorbS at 1. rewrite absorb_nojunk by (rewrite LS; lia).
    rewrite pair_eta. reflexivity.
  - unfold on_atS. apply good_on_at; assumption.
  - apply junk1_none. rewrite LS. lia.
Qed.

Lemma T_node hv i c ks : Forall (T hv) ks -> T hv (Node i c ks).
Proof.
  intros IH p [f above] _ W G J. cbn [snd] in G, J.
  apply wf_node in W. destruct W as [NE [N W]].
  apply jok_single in J.
  rewrite leaves_node.
  set (q := p ++ [(i, c)]).
  destruct (first_leaf_forest hv ks q NE W) as [l [ls [a' [E1 E2]]]].
  pose proof (good_absorb p f above G) as GA.
  pose proof (absorb_length (length p) f above (good_length _ _ G)) as LA.
  assert (R : runG (f, above) (flat_map (leaves hv q) ks)
              = runG (app_top (absorb (length p) f above) [freshG (i, c)])
                     (flat_map (leaves hv q) ks)).
  { rewrite E1. simpl. rewrite (step_norm p f above (i, c) a' l G J E2). reflexivity. }
  rewrite R. clear R.
  set (A := absorb (length p) f above) in *.
  set (opn := app_top A [freshG (i, c)]).
  assert (Lq : length q = S (length p)).
  { unfold q. rewrite app_length. simpl. lia. }
  assert (Lo : length (snd opn) = length q).
  { unfold opn, app_top. cbn [snd]. rewrite app_length, LA, Lq. simpl. lia. }
  assert (Gq : good q (snd opn)).
  { unfold opn, app_top, q. cbn [snd]. apply good_snoc; assumption. }
  assert (NEq : q <> []).
  { unfold q. intro Z. apply app_eq_nil in Z. destruct Z as [_ Z]. discriminate. }
  assert (Jq : jok (junk1 (length q) (snd opn)) (node_ids ks)).
  { rewrite junk1_none by (rewrite Lo; lia). exact I. }
  destruct (forest hv ks IH q opn NEq W N Gq Jq) as [A1 G1].
  set (st' := runG opn (flat_map (leaves hv q) ks)) in *.
  split; [|split].
  - unfold absorbS at 1. rewrite <- (absorb_absorb (length p) (fst st') (snd st')).
    rewrite <- Lq. fold (absorbS (length q) st'). rewrite A1.
    unfold absorbS at 2. rewrite absorb_nojunk by (rewrite Lo; lia).
    rewrite pair_eta. unfold on_atS at 1, opn, app_top. cbn [fst snd].
    rewrite Lq, on_at_snoc by exact LA.
    unfold absorbS at 1. cbn [fst snd].
    rewrite absorb_snoc by exact LA.
    unfold absorbS. cbn [fst snd]. fold A. unfold on_atS.
    apply on_at_ext. intro x. apply node_summ.
  - unfold q in G1. apply good_app_l in G1. exact G1.
  - unfold q in G1. apply good_junk in G1. exact G1.
Qed.

Lemma T_all hv : forall t, T hv t.
Proof.
  induction t as [n o | i c ks IH] using pt_ind'; [apply T_leaf | apply T_node; exact IH].
Qed.

(* ------------------------------------------------------------------ *)
(* the sentinel frame after all leaves                                *)
(* ------------------------------------------------------------------ *)

Lemma finalG_tree_l : forall (hv : nat -> bool) (t : pt), wf_shape t = true ->
  let g := finalG (leaves hv [] t) in
  frequired (fst g) = req t /\ fallowed (fst g) = nleaves t /\
  fhasval (fst g) = valued hv t /\ snd g = conflict hv t.
Proof.
  intros hv t W g. destruct t as [n o | i c ks].
  - subst g. unfold finalG, leaves. simpl. destruct o, (hv n); repeat split; reflexivity.
  - assert (H0 : root_id (Node i c ks) = None -> @nil (nat * bool) <> []) by discriminate.
    destruct (T_all hv (Node i c ks) [] (sentinelG, []) H0 W I I) as [A _].
    assert (E : g = summ hv (Node i c ks) sentinelG).
    { subst g. unfold finalG. destruct (runG (sentinelG, []) (leaves hv [] (Node i c ks))) as [f above].
      unfold absorbS, on_atS in A. simpl in A. congruence. }
    rewrite E. unfold summ.
    rewrite itemG_required, itemG_allowed, itemG_hasval, itemG_ghost.
    repeat split; try reflexivity.
    change (snd sentinelG) with false. change (fchoice (fst sentinelG)) with false.
    cbn [orb andb]. apply orb_false_r.
Qed.

(* ------------------------------------------------------------------ *)
(* the in_choice_context flag                                          *)
(* ------------------------------------------------------------------ *)

Definition chs (st : gst) : bool := existsb (fun g => fchoice (fst g)) (fst st :: snd st).

Lemma inchG_cons st l ls : inchG st (l :: ls) = chs (stepG st l) :: inchG (stepG st l) ls.
Proof. reflexivity. Qed.

Lemma inchG_app : forall l1 st l2, inchG st (l1 ++ l2) = inchG st l1 ++ inchG (runG st l1) l2.
Proof.
  induction l1 as [|l l1 IH]; intros st l2; [reflexivity|].
  simpl app. rewrite !inchG_cons. rewrite IH. reflexivity.
Qed.

Lemma descendG_fst_key : forall f above a, key (fst (descendG f above a)) = key f.
Proof.
  intros f above a. destruct above as [|g above']; [reflexivity|].
  destruct a as [|x a']; [apply collapseG_key|].
  destruct (Nat.eq_dec (fid (fst g)) (fst x)) as [E|E].
  - rewrite descendG_match by exact E. reflexivity.
  - rewrite descendG_nomatch by exact E. apply collapseG_key.
Qed.

Lemma on_topG_fst_key f above hv a r : key (fst (on_topG f above hv a r)) = key f.
Proof.
  rewrite on_top_on_at. apply on_at_fst_key. intro x. apply itemG_key.
Qed.

Lemma stepG_fst_key st l : key (fst (stepG st l)) = key (fst st).
Proof.
  unfold stepG.
  assert (K : key (fst (update_contextG st (lanc l))) = key (fst st)).
  { unfold update_contextG. destruct (lanc l); [reflexivity | apply descendG_fst_key]. }
  destruct (update_contextG st (lanc l)) as [f1 above1]. cbn [fst] in K.
  rewrite on_topG_fst_key. exact K.
Qed.

Lemma runG_fst_key : forall ls st, key (fst (runG st ls)) = key (fst st).
Proof.
  induction ls as [|l ls IH]; intro st; [reflexivity|]. simpl. rewrite IH. apply stepG_fst_key.
Qed.

Lemma key_choice g g' : key g = key g' -> fchoice (fst g) = fchoice (fst g').
Proof. unfold key. intro H. inversion H. reflexivity. Qed.

Lemma good_choices : forall p above, good p above -> length above = length p ->
  existsb (fun g => fchoice (fst g)) above = existsb snd p.
Proof.
  induction p as [|x p IH]; intros above G L.
  - destruct above; [reflexivity | discriminate].
  - destruct above as [|g above']; [destruct G|]. destruct G as [Hk G]. simpl in L.
    simpl. rewrite (IH above' G) by lia. rewrite <- Hk. reflexivity.
Qed.

Definition TI (hv : nat -> bool) (t : pt) : Prop :=
  forall p st, (root_id t = None -> p <> []) -> wf_shape t = true ->
    good p (snd st) -> jok (junk1 (length p) (snd st)) (node_ids [t]) ->
    inchG st (leaves hv p t) = spec_inch (fchoice (fst (fst st)) || existsb snd p) t.

Lemma forestI hv : forall ks, Forall (TI hv) ks -> forall q st, q <> [] ->
  forallb wf_shape ks = true -> nodup (node_ids ks) = true ->
  good q (snd st) -> jok (junk1 (length q) (snd st)) (node_ids ks) ->
  inchG st (flat_map (leaves hv q) ks)
  = flat_map (spec_inch (fchoice (fst (fst st)) || existsb snd q)) ks.
Proof.
  induction 1 as [|k ks Hk _ IH]; intros q st NE W N G J; [reflexivity|].
  simpl in W. apply andb_true_iff in W. destruct W as [Wk W].
  apply nodup_split in N. destruct N as [Jk N].
  apply jok_split in J. destruct J as [J1 J2].
  destruct (T_all hv k q st (fun _ => NE) Wk G J1) as [_ [G1 R1]].
  simpl flat_map. rewrite inchG_app.
  rewrite (Hk q st (fun _ => NE) Wk G J1).
  set (st1 := runG st (leaves hv q k)) in *.
  assert (J' : jok (junk1 (length q) (snd st1)) (node_ids ks)) by (rewrite R1; exact Jk).
  rewrite (IH q st1 NE W N G1 J').
  unfold st1. rewrite (key_choice _ _ (runG_fst_key (leaves hv q k) st)). reflexivity.
Qed.

Lemma TI_leaf hv n o : TI hv (Leaf n o).
Proof.
  intros p [f above] NE _ G _. specialize (NE eq_refl). cbn [snd fst] in *.
  unfold leaves. cbn [flatten map]. unfold leaf_of. cbn [pname popt panc].
  rewrite inchG_cons. cbn [inchG spec_inch]. f_equal.
  rewrite leaf_step by assumption.
  assert (K : forall x, key (itemG x (hv n) 1 (if o then 0 else 1) false) = key x)
    by (intro x; apply itemG_key).
  pose proof (good_absorb p f above G) as GA.
  pose proof (absorb_length (length p) f above (good_length _ _ G)) as LA.
  pose proof (absorb_fst_key (length p) f above) as KA.
  set (A := absorb (length p) f above) in *.
  set (Fi := fun fr => itemG fr (hv n) 1 (if o then 0 else 1) false) in *.
  unfold chs, on_atS. cbn [existsb]. f_equal.
  - apply key_choice. rewrite on_at_fst_key by exact K. exact KA.
  - apply good_choices; [apply good_on_at; assumption|].
    rewrite on_at_length. exact LA.
Qed.

Lemma TI_node hv i c ks : Forall (TI hv) ks -> TI hv (Node i c ks).
Proof.
  intros IH p [f above] _ W G J. cbn [snd fst] in *.
  apply wf_node in W. destruct W as [NE [N W]].
  apply jok_single in J.
  rewrite leaves_node.
  set (q := p ++ [(i, c)]).
  destruct (first_leaf_forest hv ks q NE W) as [l [ls [a' [E1 E2]]]].
  pose proof (good_absorb p f above G) as GA.
  pose proof (absorb_length (length p) f above (good_length _ _ G)) as LA.
  pose proof (absorb_fst_key (length p) f above) as KA.
  assert (R : inchG (f, above) (flat_map (leaves hv q) ks)
              = inchG (app_top (absorb (length p) f above) [freshG (i, c)])
                      (flat_map (leaves hv q) ks)).
  { rewrite E1. rewrite !inchG_cons.
    rewrite (step_norm p f above (i, c) a' l G J E2). reflexivity. }
  rewrite R. clear R.
  set (A := absorb (length p) f above) in *.
  set (opn := app_top A [freshG (i, c)]).
  assert (Lq : length q = S (length p)).
  { unfold q. rewrite app_length. simpl. lia. }
  assert (Lo : length (snd opn) = length q).
  { unfold opn, app_top. cbn [snd]. rewrite app_length, LA, Lq. simpl. lia. }
  assert (Gq : good q (snd opn)).
  { unfold opn, app_top, q. cbn [snd]. apply good_snoc; assumption. }
  assert (NEq : q <> []).
  { unfold q. intro Z. apply app_eq_nil in Z. destruct Z as [_ Z]. discriminate. }
  assert (Jq : jok (junk1 (length q) (snd opn)) (node_ids ks)).
  { rewrite junk1_none by (rewrite Lo; lia). exact I. }
  rewrite (forestI hv ks IH q opn NEq W N Gq Jq).
  cbn [spec_inch]. f_equal. f_equal.
  unfold opn, app_top. cbn [fst]. rewrite (key_choice _ _ KA).
  unfold q. rewrite existsb_app. simpl. rewrite orb_false_r, orb_assoc. reflexivity.
Qed.

Lemma TI_all hv : forall t, TI hv t.
Proof.
  induction t as [n o | i c ks IH] using pt_ind'; [apply TI_leaf | apply TI_node; exact IH].
Qed.

Lemma inchG_tree_l : forall (hv : nat -> bool) (t : pt), wf_shape t = true ->
  inchG (sentinelG, []) (leaves hv [] t) = spec_inch false t.
Proof.
  intros hv t W. destruct t as [n o | i c ks].
  - unfold leaves. simpl. destruct o, (hv n); reflexivity.
  - assert (H0 : root_id (Node i c ks) = None -> @nil (nat * bool) <> []) by discriminate.
    exact (TI_all hv (Node i c ks) [] (sentinelG, []) H0 W I I).
Qed.

Print Assumptions inchG_tree_l.
Print Assumptions finalG_tree_l.
