(* C08 - proof scaffolding: a TOTAL version of the frame machine of Model.v in
   which every frame carries one extra ghost bit: "a TypeError (multiple values
   for a single choice parameter) would have been raised at or below this
   frame".  The model's machine (Model.item/collapse/descend/on_top/step/run,
   for either value of extra_parameter_errors) is related to this one in
   SimProofs.v; the induction over parameter trees is done once, on this
   machine, in TreeProofs.v.  Definitions only. *)
From SV Require Import Lib.Base C08.Model.

Definition gf := (frame * bool)%type.          (* frame, ghost error bit *)
Definition gst := (gf * list gf)%type.         (* bottom frame, frames above it bottom-first *)

(* Frame._process_item / ChoiceFrame._process_item without the raise *)
Definition itemT (f : frame) (hv : bool) (a r : nat) : frame :=
  if fchoice f then
    mkF (fid f) true (fallowed f + a)
        (if fhasitem f then Nat.min (frequired f) r else r) (fhasval f || hv) true
  else mkF (fid f) false (fallowed f + a) (frequired f + r) (fhasval f || hv) (fhasitem f).

(* the condition under which ChoiceFrame raises when checking is on *)
Definition clash (f : frame) (hv : bool) : bool := fchoice f && hv && fhasval f.

(* e: ghost bit of the item that is added (false for a parameter) *)
Definition itemG (g : gf) (hv : bool) (a r : nat) (e : bool) : gf :=
  (itemT (fst g) hv a r, snd g || e || clash (fst g) hv).

Definition subG (f g : gf) : gf :=
  itemG f (fhasval (fst g)) (fallowed (fst g)) (frequired (fst g)) (snd g).

Fixpoint collapseG (f : gf) (above : list gf) : gf :=
  match above with
  | [] => f
  | g :: above' => subG f (collapseG g above')
  end.

Definition freshG (ic : nat * bool) : gf := (fresh ic, false).

Fixpoint descendG (f : gf) (above : list gf) (a : list (nat * bool)) : gst :=
  match above, a with
  | [], _ => (f, map freshG a)
  | _ :: _, [] => (collapseG f above, [])
  | g :: above', x :: a' =>
      if Nat.eqb (fid (fst g)) (fst x) then
        let '(g', r) := descendG g above' a' in (f, g' :: r)
      else (collapseG f above, map freshG a)
  end.

Fixpoint on_topG (f : gf) (above : list gf) (hv : bool) (a r : nat) : gst :=
  match above with
  | [] => (itemG f hv a r false, [])
  | g :: above' => let '(g', r') := on_topG g above' hv a r in (f, g' :: r')
  end.

Definition update_contextG (st : gst) (anc : list (nat * bool)) : gst :=
  match anc with
  | [] => st
  | _ => descendG (fst st) (snd st) anc
  end.

Definition stepG (st : gst) (l : leaf) : gst :=
  let '(f1, above1) := update_contextG st (lanc l) in
  on_topG f1 above1 (lhv l) 1 (if lopt l then 0 else 1).

Fixpoint runG (st : gst) (ls : list leaf) : gst :=
  match ls with
  | [] => st
  | l :: ls' => runG (stepG st l) ls'
  end.

Definition sentinelG : gf := (sentinel, false).

(* the sentinel frame after __all_parameters_processed *)
Definition finalG (ls : list leaf) : gf :=
  let '(f, above) := runG (sentinelG, []) ls in collapseG f above.

(* the same for the model's own machine; None = TypeError from a choice *)
Definition final (extra : bool) (ls : list leaf) : option frame :=
  match run extra (sentinel, []) ls with
  | Some (f, above) => collapse extra f above
  | None => None
  end.

(* the in_choice_context flag passed to the parameter processor after each step *)
Fixpoint inchG (st : gst) (ls : list leaf) : list bool :=
  match ls with
  | [] => []
  | l :: ls' =>
      let st' := stepG st l in
      existsb (fun g => fchoice (fst g)) (fst st' :: snd st') :: inchG st' ls'
  end.

(* the frame-machine view of a parameter list, given which names have a value *)
Definition leaf_of (hv : nat -> bool) (p : param) : leaf := mkL (popt p) (hv (pname p)) (panc p).
Definition leaves (hv : nat -> bool) (p : list (nat * bool)) (t : pt) : list leaf :=
  map (leaf_of hv) (flatten p t).

(* specification side of in_choice: some ancestor is a choice *)
Fixpoint spec_inch (inch : bool) (t : pt) : list bool :=
  match t with
  | Leaf _ _ => [inch]
  | Node _ c ks => flat_map (spec_inch (inch || c)) ks
  end.

(* what is left of the keyword arguments after every parameter took its value:
   the keywords that do not name a parameter beyond the positional ones *)
Definition leftover_kw (ns : list nat) (args : list value) (kw : list (nat * value))
  : list (nat * value) :=
  filter (fun k => negb (mem (fst k) (skipn (length args) ns))) kw.

(* __check_for_extra_arguments as a function of the call alone *)
Definition verdict (extra : bool) (ns : list nat) (args : list value) (kw : list (nat * value))
  (f' : frame) : res :=
  if extra then
    match leftover_kw ns args kw with
    | (n, _) :: _ => if mem n (firstn (length args) ns) then RMultiple n else RUnexpected n
    | [] => if Nat.ltb (length ns) (length args)
            then RPositional (frequired f') (fallowed f') (length args + length kw)
            else ROk (frequired f') (fallowed f')
    end
  else ROk (frequired f') (fallowed f').
